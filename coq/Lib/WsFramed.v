(* Model of the repaired octo_squirrel::codec::WebSocketFramed::poll_next (octo-squirrel/src/codec.rs)
   as a function of the list of WebSocket messages that arrive.

     fn poll_next(..) {
       if self.failed { return Ready(None) }
       loop {
         if let Some(mut buffer) = self.buffer.take() {            // only a NON-EMPTY buffer is ever stored
           let decoded = self.codec.decode(&mut buffer);
           if !buffer.is_empty() { self.buffer = Some(buffer) }
           match decoded { Ok(Some(item)) => return Ready(Some(Ok(item))),
                           Ok(None) => {}
                           Err(e) => { self.failed = true; return Ready(Some(Err(e))) } }
         }
         match ready!(self.stream.poll_next_unpin(cx)) {           // the ONLY place Pending comes from
           Some(Ok(msg)) => { if msg.is_binary() || msg.is_text() {
                                 if !payload.is_empty() { buffer = buffer.unwrap_or_default() ++ payload } }
                              continue }
           ... } } }

   State: decoder state, `buffer : Option<BytesMut>` (None, or Some of a non-empty string), failed flag.
   One step = one arriving message followed by all the `poll_next` calls the consumer makes until the adapter
   polls the WebSocket stream again ("drain until the stream would be polled again").  Control messages
   (ping / pong; a close is followed by the end of the stream) append nothing but do send the loop round
   again, i.e. `decode` IS called again on a non-empty buffer.  `decode` is NOT called on an empty buffer.
   Definitions only; the facts are in Proofs/WsFramedFacts.v. *)
From Coq Require Import NArith List.
From Octo Require Import Base.Bytes Lib.Framed.
Import ListNotations.

(* what arrives: a data message (binary or text: the adapter treats them alike) or a control message *)
Inductive wsmsg := WsData (payload : bytes) | WsCtl.

Definition ws_payload (m : wsmsg) : bytes := match m with WsData p => p | WsCtl => [] end.

(* the `buffer` field: `if !buffer.is_empty() { self.buffer = Some(buffer) }` *)
Definition ws_store (b : bytes) : option bytes := match b with [] => None | _ :: _ => Some b end.
(* `self.buffer.take().unwrap_or_default()` *)
Definition ws_held (o : option bytes) : bytes := match o with None => [] | Some b => b end.

Section WsFramed.
  Variables St Item : Type.
  Variable dec : St -> bytes -> res (St * bytes * option Item).

  Notation fstatus := Framed.fstatus.

  (* ws_stat = Waiting: not failed (the adapter awaits the next message); anything else: `failed` is set and the
     value records what the consumer was handed last (the decode error; Panicked / Livelock as in Lib/Framed.v) *)
  Record wstate := { ws_dec : St; ws_buf : option bytes; ws_stat : fstatus }.

  Definition ws_init (s : St) : wstate := {| ws_dec := s; ws_buf := None; ws_stat := Waiting |}.

  (* successive poll_next calls, up to the call that polls the WebSocket stream.
     fuel bounds the number of items taken from one buffer (as Framed.drain does). *)
  Fixpoint ws_drain (fuel : nat) (s : St) (buf : option bytes) (acc : list Item) : St * option bytes * list Item * fstatus :=
    match fuel with
    | O => (s, buf, acc, Livelock)
    | S f =>
      match buf with
      | None => (s, None, acc, Waiting)                         (* buffer.take() = None: straight to the stream *)
      | Some b =>
        match dec s b with
        | Ok (s', b', Some it) => ws_drain f s' (ws_store b') (acc ++ [it])   (* Ready(Some(Ok(item))); next call *)
        | Ok (s', b', None) => (s', ws_store b', acc, Waiting)                (* falls through to the stream *)
        | Err e => (s, buf, acc, Failed e)                                    (* failed = true *)
        | Panic => (s, buf, acc, Panicked)
        end
      end
    end.

  (* a message arrives *)
  Definition ws_append (buf : option bytes) (m : wsmsg) : option bytes :=
    match m with
    | WsData (x :: p) => Some (ws_held buf ++ x :: p)
    | WsData [] => buf
    | WsCtl => buf
    end.

  (* one message: (new state, items yielded before the stream is polled again) *)
  Definition ws_step (st : wstate) (m : wsmsg) : wstate * list Item :=
    match ws_stat st with
    | Waiting =>
      let b := ws_append (ws_buf st) m in
      match ws_drain (2 + length (ws_held b)) (ws_dec st) b [] with
      | (s', b', items, fs) => ({| ws_dec := s'; ws_buf := b'; ws_stat := fs |}, items)
      end
    | _ => (st, [])                                             (* failed: Ready(None), nothing is decoded any more *)
    end.

  Fixpoint ws_run (st : wstate) (msgs : list wsmsg) (acc : list Item) : wstate * list Item :=
    match msgs with
    | [] => (st, acc)
    | m :: t => let (st', items) := ws_step st m in ws_run st' t (acc ++ items)
    end.

  (* the observable summary in the shape of Framed.run's result *)
  Definition ws_view (r : wstate * list Item) : St * bytes * list Item * fstatus :=
    let (st, items) := r in (ws_dec st, ws_held (ws_buf st), items, ws_stat st).
End WsFramed.

Arguments ws_dec {St}. Arguments ws_buf {St}. Arguments ws_stat {St}.
