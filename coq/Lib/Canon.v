(* The generic "unit machine" theory (DESIGN.md Appendix A / F / G) over `bytes` = list N.
   A wire format is given by
     need : St -> bytes -> option nat     how many bytes the next unit has (None = not decided / nothing to do)
     step : St -> bytes -> option (St * Out)   consume exactly one whole unit (None = decode error)
   `canon`/`run` consume whole units as long as there are any.  Main facts:
     run_app            running on c ++ b = running on c, then on leftover ++ b (outputs multiplied)
     canon_stop_stable  after a Stop nothing whole is left: running again is the identity
     run_no_whole_unit  the same for `run`
     run_segs_concat    feeding the segments one after the other = one run on the concatenation
   Lengths are `nat` (length / firstn / skipn); Base.Bytes.takeN/dropN are firstn/skipn at N.to_nat. *)
From Coq Require Import List NArith Lia Arith ZArith ZifyBool ZifyN ZifyNat.
From Octo Require Import Base.Bytes.
Import ListNotations.
Local Open Scope nat_scope.

Section Canon.
  Variables (St Out : Type).
  Variable (oapp : Out -> Out -> Out) (onil : Out).
  Hypothesis oapp_assoc : forall a b c, oapp a (oapp b c) = oapp (oapp a b) c.
  Hypothesis oapp_nil_l : forall a, oapp onil a = a.
  Hypothesis oapp_nil_r : forall a, oapp a onil = a.     (* only used by run_segs_general / run_segs_concat *)

  Variable need : St -> bytes -> option nat.
  Variable step : St -> bytes -> option (St * Out).       (* None = decode error *)
  Hypothesis need_pos : forall s c n, need s c = Some n -> 0 < n.
  Hypothesis need_mono : forall s c b n, need s c = Some n -> need s (c ++ b) = Some n.

  Inductive result := Stop (s : St) (rest : bytes) (o : Out) | Fail (o : Out).

  Fixpoint canon (fuel : nat) (s : St) (c : bytes) : result :=
    match fuel with
    | O => Stop s c onil
    | S f =>
      match need s c with
      | Some n =>
        if n <=? length c then
          match step s (firstn n c) with
          | Some (s', o) =>
            match canon f s' (skipn n c) with
            | Stop s2 r o2 => Stop s2 r (oapp o o2)
            | Fail o2 => Fail (oapp o o2)
            end
          | None => Fail onil
          end
        else Stop s c onil
      | None => Stop s c onil
      end
    end.

  Definition run (s : St) (c : bytes) : result := canon (S (length c)) s c.

  Lemma canon_fuel : forall f1 f2 s c, length c < f1 -> length c < f2 -> canon f1 s c = canon f2 s c.
  Proof using need_pos.
    clear oapp_assoc oapp_nil_l oapp_nil_r need_mono.
    induction f1 as [|f1 IH]; intros f2 s c H1 H2; [lia|].
    destruct f2 as [|f2]; [lia|]. cbn [canon].
    destruct (need s c) as [n|] eqn:Hn; [|reflexivity].
    destruct (n <=? length c) eqn:Hle; [|reflexivity].
    apply Nat.leb_le in Hle. pose proof (need_pos _ _ _ Hn) as Hp.
    destruct (step s (firstn n c)) as [[s' o]|]; [|reflexivity].
    rewrite (IH f2); [reflexivity| |]; rewrite skipn_length; lia.
  Qed.

  Theorem run_app : forall c s b,
    run s (c ++ b) =
    match run s c with
    | Stop s1 r1 o1 =>
        match run s1 (r1 ++ b) with
        | Stop s2 r2 o2 => Stop s2 r2 (oapp o1 o2)
        | Fail o2 => Fail (oapp o1 o2)
        end
    | Fail o1 => Fail o1
    end.
  Proof using oapp_assoc oapp_nil_l need_pos need_mono.
    clear oapp_nil_r.
    intros c. remember (length c) as k eqn:Hk. revert c Hk.
    induction k as [k IH] using lt_wf_ind. intros c Hk s b.
    unfold run at 2. cbn [canon].
    destruct (need s c) as [n|] eqn:Hn.
    - destruct (n <=? length c) eqn:Hle.
      + apply Nat.leb_le in Hle. pose proof (need_pos _ _ _ Hn) as Hp.
        unfold run at 1. cbn [canon]. rewrite (need_mono _ _ b _ Hn).
        assert (Hle' : (n <=? length (c ++ b)) = true) by (apply Nat.leb_le; rewrite app_length; lia).
        rewrite Hle'. rewrite firstn_app. replace (n - length c) with 0 by lia.
        rewrite firstn_O, app_nil_r.
        destruct (step s (firstn n c)) as [[s' o]|]; [|reflexivity].
        rewrite skipn_app. replace (n - length c) with 0 by lia. cbn [skipn].
        assert (Hl : length (skipn n c) < k) by (rewrite skipn_length; lia).
        specialize (IH _ Hl (skipn n c) eq_refl s' b).
        rewrite (canon_fuel _ (S (length (skipn n c ++ b)))); [|rewrite !app_length, skipn_length; lia|lia].
        fold (run s' (skipn n c ++ b)). rewrite IH.
        rewrite (canon_fuel (length c) (S (length (skipn n c)))); [|rewrite skipn_length; lia|lia].
        fold (run s' (skipn n c)).
        destruct (run s' (skipn n c)) as [s1 r1 o1|o1]; [|reflexivity].
        destruct (run s1 (r1 ++ b)) as [s2 r2 o2|o2]; rewrite oapp_assoc; reflexivity.
      + destruct (run s (c ++ b)) as [s2 r2 o2|o2]; rewrite oapp_nil_l; reflexivity.
    - destruct (run s (c ++ b)) as [s2 r2 o2|o2]; rewrite oapp_nil_l; reflexivity.
  Qed.

  (* after a Stop, running again (with any fuel) is the identity: nothing whole is buffered *)
  Lemma canon_stop_stable : forall f s c s2 r2 o2 f',
    length c < f -> canon f s c = Stop s2 r2 o2 -> canon f' s2 r2 = Stop s2 r2 onil.
  Proof using need_pos.
    clear oapp_assoc oapp_nil_l oapp_nil_r need_mono.
    induction f as [|f IH]; intros s c s2 r2 o2 f' Hf H; [lia|].
    cbn [canon] in H.
    destruct (need s c) as [n|] eqn:Hn.
    - destruct (n <=? length c) eqn:Hle.
      + apply Nat.leb_le in Hle. pose proof (need_pos _ _ _ Hn) as Hp.
        destruct (step s (firstn n c)) as [[s' o]|]; [|discriminate].
        destruct (canon f s' (skipn n c)) as [s3 r3 o3|o3] eqn:E; [|discriminate].
        injection H as <- <- <-. eapply IH; [|exact E]. rewrite skipn_length; lia.
      + injection H as <- <- <-. destruct f' as [|f']; [reflexivity|]. cbn [canon]. rewrite Hn, Hle. reflexivity.
    - injection H as <- <- <-. destruct f' as [|f']; [reflexivity|]. cbn [canon]. rewrite Hn. reflexivity.
  Qed.

  (* no stall: after `run` stopped, the leftover contains no whole unit *)
  Theorem run_no_whole_unit : forall s c s' r o, run s c = Stop s' r o -> run s' r = Stop s' r onil.
  Proof using need_pos.
    clear oapp_assoc oapp_nil_l oapp_nil_r need_mono.
    intros s c s' r o H. unfold run in *.
    eapply canon_stop_stable; [|exact H]. lia.
  Qed.

  (* the leftover of a run never grows *)
  Lemma canon_rest_length : forall f s c s2 r2 o2, canon f s c = Stop s2 r2 o2 -> length r2 <= length c.
  Proof using Type.
    clear oapp_assoc oapp_nil_l oapp_nil_r need_pos need_mono.
    induction f as [|f IH]; intros s c s2 r2 o2 H; cbn [canon] in H.
    - injection H as <- <- <-. lia.
    - destruct (need s c) as [n|] eqn:Hn.
      + destruct (n <=? length c) eqn:Hle.
        * destruct (step s (firstn n c)) as [[s' o]|]; [|discriminate].
          destruct (canon f s' (skipn n c)) as [s3 r3 o3|o3] eqn:E; [|discriminate].
          injection H as <- <- <-. apply IH in E. rewrite skipn_length in E. lia.
        * injection H as <- <- <-. lia.
      + injection H as <- <- <-. lia.
  Qed.

  (* the leftover is a suffix of the input *)
  Lemma canon_rest_suffix : forall f s c s2 r2 o2, canon f s c = Stop s2 r2 o2 -> exists u, c = u ++ r2.
  Proof using Type.
    clear oapp_assoc oapp_nil_l oapp_nil_r need_pos need_mono.
    induction f as [|f IH]; intros s c s2 r2 o2 H; cbn [canon] in H.
    - injection H as <- <- <-. exists []. reflexivity.
    - destruct (need s c) as [n|] eqn:Hn.
      + destruct (n <=? length c) eqn:Hle.
        * destruct (step s (firstn n c)) as [[s' o]|]; [|discriminate].
          destruct (canon f s' (skipn n c)) as [s3 r3 o3|o3] eqn:E; [|discriminate].
          injection H as <- <- <-. apply IH in E. destruct E as [u Hu].
          exists (firstn n c ++ u). rewrite <- app_assoc, <- Hu. symmetry. apply firstn_skipn.
        * injection H as <- <- <-. exists []. reflexivity.
      + injection H as <- <- <-. exists []. reflexivity.
  Qed.

  (* ---- segment lists ---- *)
  (* feeding the segments one after the other, always re-running on leftover ++ next segment *)
  Fixpoint run_segs (s : St) (left : bytes) (segs : list bytes) (acc : Out) : result :=
    match segs with
    | [] => Stop s left acc
    | seg :: t =>
      match run s (left ++ seg) with
      | Stop s' r o => run_segs s' r t (oapp acc o)
      | Fail o => Fail (oapp acc o)
      end
    end.

  (* general form: any accumulator, any initial leftover that contains no whole unit *)
  Lemma run_segs_general : forall segs s left acc,
    run s left = Stop s left onil ->
    run_segs s left segs acc =
    match run s (left ++ concat segs) with
    | Stop s2 r2 o2 => Stop s2 r2 (oapp acc o2)
    | Fail o2 => Fail (oapp acc o2)
    end.
  Proof using oapp_assoc oapp_nil_l oapp_nil_r need_pos need_mono.
    induction segs as [|seg t IH]; intros s left acc Hst.
    - cbn [run_segs concat]. rewrite app_nil_r, Hst, oapp_nil_r. reflexivity.
    - cbn [run_segs concat]. rewrite app_assoc. rewrite (run_app (left ++ seg) s (concat t)).
      destruct (run s (left ++ seg)) as [s1 r1 o1|o1] eqn:E; [|reflexivity].
      rewrite IH by (eapply run_no_whole_unit; exact E).
      destruct (run s1 (r1 ++ concat t)) as [s2 r2 o2|o2]; rewrite oapp_assoc; reflexivity.
  Qed.

  Lemma run_nil : forall s, run s [] = Stop s [] onil.
  Proof using need_pos.
    clear oapp_assoc oapp_nil_l oapp_nil_r need_mono.
    intros s. unfold run. cbn [length canon].
    destruct (need s []) as [n|] eqn:Hn; [|reflexivity].
    pose proof (need_pos _ _ _ Hn) as Hp.
    destruct (n <=? 0) eqn:Hle; [apply Nat.leb_le in Hle; lia|reflexivity].
  Qed.

  Theorem run_segs_concat : forall segs s, run_segs s [] segs onil = run s (concat segs).
  Proof using oapp_assoc oapp_nil_l oapp_nil_r need_pos need_mono.
    intros segs s. rewrite run_segs_general by apply run_nil. cbn [app].
    destruct (run s (concat segs)) as [s2 r2 o2|o2]; rewrite oapp_nil_l; reflexivity.
  Qed.
End Canon.

Arguments Stop {St Out}.
Arguments Fail {St Out}.

Print Assumptions canon_fuel.
Print Assumptions run_app.
Print Assumptions canon_stop_stable.
Print Assumptions run_no_whole_unit.
Print Assumptions run_segs_general.
Print Assumptions run_segs_concat.
