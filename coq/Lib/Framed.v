(* Contract model of tokio_util::codec::FramedRead (0.7.x) around a Decoder:
   bytes read from the transport are appended to the buffer; `decode` is called repeatedly while it
   returns an item; after `None` more input is awaited (even if the buffer is non-empty); after an
   error the stream is terminated.  Definitions only. *)
From Coq Require Import NArith List.
From Octo Require Import Base.Bytes.
Import ListNotations.

Section Framed.
  Variables St Item : Type.
  Variable dec : St -> bytes -> res (St * bytes * option Item).

  Inductive fstatus := Waiting | Failed (e : err) | Panicked | Livelock.

  (* call dec until it returns None; fuel bounds the number of items produced from one buffer *)
  Fixpoint drain (fuel : nat) (s : St) (buf : bytes) (acc : list Item) : St * bytes * list Item * fstatus :=
    match fuel with
    | O => (s, buf, acc, Livelock)
    | S f =>
      match dec s buf with
      | Ok (s', buf', Some it) => drain f s' buf' (acc ++ [it])
      | Ok (s', buf', None) => (s', buf', acc, Waiting)
      | Err e => (s, buf, acc, Failed e)
      | Panic => (s, buf, acc, Panicked)
      end
    end.

  Definition feed (s : St) (buf : bytes) (seg : bytes) : St * bytes * list Item * fstatus :=
    let b := buf ++ seg in drain (2 + length b) s b [].

  (* a whole run: segments delivered one after the other; stops at the first failure *)
  Fixpoint run (s : St) (buf : bytes) (segs : list bytes) (acc : list Item) : St * bytes * list Item * fstatus :=
    match segs with
    | [] => (s, buf, acc, Waiting)
    | seg :: t =>
      match feed s buf seg with
      | (s', buf', items, Waiting) => run s' buf' t (acc ++ items)
      | (s', buf', items, st) => (s', buf', acc ++ items, st)
      end
    end.
End Framed.
