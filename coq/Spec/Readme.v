(* The documented contract of /repo/README.md, typed in by hand.  Nothing in this file is generated and nothing here
   looks at the implementation: it is what a user is told.  (Model.Config is imported only for the names of the three
   enumerations.)  It is NOT trusted blindly: Generated/Readme.v is the README's markdown as data, rewritten from
   /repo/README.md on every run, and Proofs/ReadmeFacts.v proves that the tables, lists and defaults below are exactly that
   text (generated_readme_{ciphers,protocols,modes,transports,sections}_match_spec; obligations of C16).

   README sections transcribed:  "Transport" table, "Ciphers" table, the client config.json notes
   (`mode`, `protocol`, `cipher`, `ssl`, `ws`, `quic`).  Two things are not the README's tables verbatim:
   the alias "chacha20-ietf-poly1305" is in no README table, it is the name used by the repository's own configuration
   examples (config tests of client and server); and the last row of the Transport table, which the README spells
   `ucp`, is read as `udp` (ReadmeFacts.readme_ucp_row_is_udp_quic).
   What the README does not spell out and this file adds as the reading of a NAME: which AEAD / key size a cipher name
   stands for, which sockets a mode name opens, which optional sections select which transport. *)
From Coq Require Import String List Bool NArith.
From Octo Require Import Model.Config.
Import ListNotations.
Open Scope string_scope.

(* ---- Ciphers ---------------------------------------------------------------------------------- *)
Inductive aead := AES_128_GCM | AES_256_GCM | CHACHA20_POLY1305 | CHACHA8_POLY1305.
(* ids of Crypto.Prims *)
Definition aead_id (a : aead) : N :=
  match a with AES_128_GCM => 0 | AES_256_GCM => 1 | CHACHA20_POLY1305 => 2 | CHACHA8_POLY1305 => 3 end%N.

(* what the user writes into "password" *)
Inductive credential :=
| OrdinaryPassword                 (* any text; the key is derived from it (EVP_BytesToKey/MD5), on TCP and on UDP alike *)
| Base64Key (len : N).             (* base64 of exactly `len` key bytes (identity keys before it, ':'-separated, same length) *)

Record doc_cipher := {
  dc_name : string;
  dc_aead : aead;
  dc_2022 : bool;          (* the "2022-blake3-" edition *)
  dc_key_len : N;          (* key size in bytes *)
  dc_shadowsocks : bool;   (* column Shadowsocks: `C` `S` *)
  dc_vmess : bool          (* column VMess: `C` `S` *)
}.
Definition dc_credential (d : doc_cipher) : credential := if dc_2022 d then Base64Key (dc_key_len d) else OrdinaryPassword.

Definition readme_ciphers : list doc_cipher :=
  [ {| dc_name := "aes-128-gcm";                   dc_aead := AES_128_GCM;       dc_2022 := false; dc_key_len := 16; dc_shadowsocks := true; dc_vmess := true |};
    {| dc_name := "aes-256-gcm";                   dc_aead := AES_256_GCM;       dc_2022 := false; dc_key_len := 32; dc_shadowsocks := true; dc_vmess := false |};
    {| dc_name := "chacha20-poly1305";             dc_aead := CHACHA20_POLY1305; dc_2022 := false; dc_key_len := 32; dc_shadowsocks := true; dc_vmess := true |};
    {| dc_name := "chacha20-ietf-poly1305";        dc_aead := CHACHA20_POLY1305; dc_2022 := false; dc_key_len := 32; dc_shadowsocks := true; dc_vmess := true |};
    {| dc_name := "2022-blake3-aes-128-gcm";       dc_aead := AES_128_GCM;       dc_2022 := true;  dc_key_len := 16; dc_shadowsocks := true; dc_vmess := false |};
    {| dc_name := "2022-blake3-aes-256-gcm";       dc_aead := AES_256_GCM;       dc_2022 := true;  dc_key_len := 32; dc_shadowsocks := true; dc_vmess := false |};
    {| dc_name := "2022-blake3-chacha8-poly1305";  dc_aead := CHACHA8_POLY1305;  dc_2022 := true;  dc_key_len := 32; dc_shadowsocks := true; dc_vmess := false |};
    {| dc_name := "2022-blake3-chacha20-poly1305"; dc_aead := CHACHA20_POLY1305; dc_2022 := true;  dc_key_len := 32; dc_shadowsocks := true; dc_vmess := false |} ]%N.
Definition readme_cipher_names : list string := map dc_name readme_ciphers.

(* VMess body security named by the two ciphers of the VMess column *)
Definition readme_vmess_security (d : doc_cipher) : string :=
  match dc_aead d with CHACHA20_POLY1305 => "Chacha20Poly1305" | _ => "Aes128Gcm" end.

(* ---- protocol: "shadowsocks" | "vmess" | "trojan" --------------------------------------------- *)
Definition readme_protocols : list (string * protocol) :=
  [ ("shadowsocks", PShadowsocks); ("vmess", PVMess); ("trojan", PTrojan) ].
Definition readme_protocol_names : list string := map fst readme_protocols.

(* ---- mode -------------------------------------------------------------------------------------- *)
(* 1. client: "tcp"(default), "udp", "tcp_and_udp"
   2. shadowsocks server: "tcp"(default), "udp", "quic", "tcp_and_udp", "tcp_and_quic"
   3. shadowsocks quic server: bind udp socket but process shadowsocks tcp payload *)
Definition readme_modes : list (string * lmode) :=
  [ ("tcp", MTcp); ("udp", MUdp); ("tcp_and_udp", MTcpAndUdp); ("quic", MQuic); ("tcp_and_quic", MTcpAndQuic) ].
Definition readme_mode_names : list string := map fst readme_modes.
Definition readme_client_modes : list string := ["tcp"; "udp"; "tcp_and_udp"].
Definition readme_server_modes : list string := ["tcp"; "udp"; "quic"; "tcp_and_udp"; "tcp_and_quic"].
Definition readme_default_mode : string := "tcp".

(* the sockets a mode opens: (TCP listener, UDP relay socket, QUIC endpoint (a UDP socket carrying the TCP payload)) *)
Definition readme_mode_sockets (m : lmode) : bool * bool * bool :=
  match m with
  | MTcp => (true, false, false)
  | MUdp => (false, true, false)
  | MTcpAndUdp => (true, true, false)
  | MQuic => (false, false, true)
  | MTcpAndQuic => (true, false, true)
  end.

(* a QUIC endpoint needs the certificate of the `quic` section; a configuration whose mode asks for QUIC
   without that section is inconsistent *)
Definition readme_consistent (p : protocol) (m : lmode) (has_quic : bool) : bool :=
  match p with
  | PShadowsocks => let '(_, _, q) := readme_mode_sockets m in implb q has_quic
  | _ => true
  end.

(* server listeners.  `mode` is documented for the shadowsocks server only; a VMess / Trojan server is reached
   over tcp | tls | ws | wss (one TCP listener) and over quic when the `quic` section is given (Transport table) *)
Definition readme_server_listeners (p : protocol) (m : lmode) (has_quic : bool) : bool * bool * bool :=
  match p with
  | PShadowsocks => readme_mode_sockets m
  | PVMess | PTrojan => (true, false, has_quic)
  end.
(* client listeners (local side: socks5/http/https over TCP, socks5 UDP) *)
Definition readme_client_listeners (m : lmode) : option (bool * bool) :=
  match m with
  | MTcp => Some (true, false) | MUdp => Some (false, true) | MTcpAndUdp => Some (true, true)
  | MQuic | MTcpAndQuic => None      (* not a client mode *)
  end.

(* ---- Transport table -------------------------------------------------------------------------- *)
(* Local-Peer tcp rows: every protocol over tcp | tls | ws | wss | quic.
   Local-Peer udp rows: udp: Shadowsocks;  tcp: VMess;  tls: VMess Trojan;  ws: VMess;  wss: VMess Trojan;  quic: VMess Trojan
   (the README spells the Local-Peer cell of that last row `ucp`) *)
Definition readme_tcp_transport (p : protocol) (t : transport) : bool :=
  match t with TTcp | TTls | TWs | TWss | TQuic => true | TUdp => false end.
Definition readme_udp_transport (p : protocol) (t : transport) : bool :=
  match p, t with
  | PShadowsocks, TUdp => true
  | PVMess, (TTcp | TTls | TWs | TWss | TQuic) => true
  | PTrojan, (TTls | TWss | TQuic) => true
  | _, _ => false
  end.
(* the transport the optional sections select: ssl -> tls, ws -> ws, both -> wss, quic -> quic, none -> tcp *)
Definition readme_sections_transport (has_ssl has_ws has_quic : bool) : transport :=
  if has_quic then TQuic else
  match has_ssl, has_ws with
  | false, false => TTcp | true, false => TTls | false, true => TWs | true, true => TWss
  end.

(* ---- what a configuration must lead to ---------------------------------------------------------- *)
(* either exactly these sockets (TCP listener, UDP relay socket, QUIC endpoint), or startup stops with an error *)
Inductive expected := ExpectSockets (tcp udp quic : bool) | ExpectError.
Definition readme_server_startup (p : protocol) (m : lmode) (has_quic : bool) : expected :=
  if readme_consistent p m has_quic
  then let '(t, u, q) := readme_server_listeners p m has_quic in ExpectSockets t u q
  else ExpectError.
(* a mode that is not a client mode is an error, not a client that listens on something else (or on nothing) *)
Definition readme_client_startup (m : lmode) : expected :=
  match readme_client_listeners m with Some (t, u) => ExpectSockets t u false | None => ExpectError end.
(* the Ciphers table: a cipher not ticked for the protocol is an error; Trojan has no cipher column *)
Definition readme_cipher_allowed (p : protocol) (d : doc_cipher) : bool :=
  match p with PShadowsocks => dc_shadowsocks d | PVMess => dc_vmess d | PTrojan => true end.
