(* Extraction of the executable model to OCaml.  ExtrOcamlBasic only: N, Z, positive, nat stay the
   extracted inductive types; no Extract Constant / Extract Inductive of our own. *)
From Coq Require Extraction.
From Coq Require Import ExtrOcamlBasic.
From Octo Require Import Model.PacketWindow.
Extraction Language OCaml.
Extraction "model.ml" pw_new pw_validate pw_run spec_run pw_reset.
