(* Extraction of the executable model to OCaml.  ExtrOcamlBasic only: N, Z, positive, nat stay the
   extracted inductive types; no Extract Constant / Extract Inductive of our own. *)
From Coq Require Extraction.
From Coq Require Import ExtrOcamlBasic.
From Octo Require Import Base.Bytes Crypto.Prims Lib.Framed Lib.WsFramed Model.PacketWindow Model.Utf8 Model.Address Model.NonceGen Model.SsChunk Model.SsTcp Model.Trojan Model.Socks5 Model.Http Model.Handshake Model.Vmess Model.Config.
From Octo Require Import Model.SsUdp.
Extraction Language OCaml.
Extraction "model.ml"
  pw_new pw_validate pw_run spec_run pw_reset
  utf8_valid
  s5_encode s5_length s5_try_decode_at s5_decode vm_write vm_read accept_addr
  feed run inc counting_splice counting_next
  ws_init ws_step ws_run ws_view ws_held
  codec_new ss_encode ss_decode server_decode
  trojan_server_decode trojan_client_udp_decode trojan_client_head trojan_packet_encode trojan_key hex_encode
  s5_initial_request s5_command_request s5_initial_response s5_command_response s5_udp_decode s5_udp_encode
  recognize_http
  request_parse recognize_step consume_head_step handshake handshake_v0
  body_new encode_payload_v encode_packet_v decode_payload_v decode_packet_v resp_key resp_iv
  server_vdecode server_vencode client_vencode client_vdecode kdf16 auth_id_create seal_header open_header parse_header header_bytes fnv1a32
  q_cipher q_protocol q_mode q_kind q_object q_kdf q_b64 q_keys q_user q_path q_vmess
  ssu_encode ssu_decode ssu_session_decode cstate_new client_dgram_decode client_dgram_encode astate_new server_assoc_step server_assoc_run associate_key.
