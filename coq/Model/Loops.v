(* Models of the long-lived loops: which event ends which loop.  Definitions only
   (facts: Proofs/LoopFacts.v).

   Every loop is   step : state -> event -> state * list action * loop_status
   and mirrors the CURRENT Rust control flow; line numbers refer to
     S   octo-squirrel-server/src/server.rs
     ST  octo-squirrel-server/src/server/template.rs
     SS  octo-squirrel-server/src/server/shadowsocks.rs
     CT  octo-squirrel-client/src/client/template.rs

   For each loop there are
     *_catalogue     the per-flow faults a peer (or the network) can cause, and the well-behaved
                     events  GoodConnection / GoodDatagram
     *_fatal         the events on which the Rust loop really ends (`break`, loop condition)
     *_enabled       whether an event can occur in a state (only the fatal events are ever
                     disabled: they need a channel / endpoint to be closed that the loop owns)
     *_good          the forwarding action a well-behaved event must produce

   Observable predictions for the system-level driver: the action lists (Spawned / Forwarded /
   Replied / ToLocal), the loop status, and the tables of remaining tasks. *)
From Coq Require Import NArith List Bool.
Import ListNotations.
Open Scope N_scope.

Inductive loop_status := Continue | Exit.

(* ---------- small finite maps keyed by N (connection ids, flow keys) ---------- *)
Fixpoint lookup {V} (k : N) (t : list (N * V)) : option V :=
  match t with [] => None | (k', v) :: r => if k' =? k then Some v else lookup k r end.
Definition remove {V} (k : N) (t : list (N * V)) : list (N * V) := filter (fun p => negb (fst p =? k)) t.
Definition put {V} (k : N) (v : V) (t : list (N * V)) : list (N * V) := (k, v) :: remove k t.

(* generic driver: the status is sticky, actions accumulate *)
Section Run.
  Context {state event action : Type}.
  Variable step : state -> event -> state * list action * loop_status.
  Definition run_step (acc : state * list action * loop_status) (e : event) :=
    match acc with
    | (s, acts, Exit) => (s, acts, Exit)
    | (s, acts, Continue) => let '(s', a, st) := step s e in (s', acts ++ a, st)
    end.
  Definition run (s : state) (evs : list event) := fold_left run_step evs (s, [], Continue).
  Definition actions_of (s : state) (e : event) : list action := snd (fst (step s e)).
  Definition status_of (s : state) (e : event) : loop_status := snd (step s e).
  Definition state_of (s : state) (e : event) : state := fst (fst (step s e)).
End Run.

(* ===================================================================================== *)
(* 1. Server TCP accept loop, plain and TLS (S startup_tcp l.83-105 and l.112-142)          *)
(* ===================================================================================== *)
(* what can go wrong with ONE accepted connection; all of it happens inside the task that was
   spawned for it (S l.101/103, l.130-141; ST accept_websocket_then_replay, relay, relay_to) *)
Inductive conn_fault :=
| NoFault
| TlsHandshakeFail      (* S l.139  "tls handshake failed"  -- in the task since the repair *)
| TlsHandshakeStall     (* S l.131  tls_acceptor.accept never completes: the task waits, the loop does not *)
| WsHandshakeFail       (* ST l.115 "websocket handshake failed" *)
| WsHandshakeStall      (* ST l.110 *)
| DecodeError           (* ST l.171 first item is Err *)
| FirstNotConnect       (* ST l.170 RelayTcp first *)
| EarlyClose            (* ST l.172 None *)
| Unresolvable          (* ST l.160 DNS resolve failed *)
| Unreachable           (* ST l.153 connect failed / l.164 udp bind failed *)
| PeerReset.            (* ST l.156 relay ends with relay::Result::Err *)

Inductive task_state := Serving | Stalled.

(* does the task stay, and as what?  None = it ended by itself (with a log line) *)
Definition task_outcome (f : conn_fault) : option task_state :=
  match f with
  | NoFault => Some Serving
  | TlsHandshakeStall | WsHandshakeStall => Some Stalled
  | _ => None
  end.

Inductive stcp_event :=
| SAcceptError                          (* S l.87/115  listener.accept() is Err (e.g. EMFILE) *)
| SCodecError (c : N)                   (* S l.95/123  new_codec is Err *)
| SConn (c : N) (f : conn_fault)        (* a connection is accepted; f is its fate *)
| STaskDone (c : N).                    (* a serving or stalled task ends at last (peer went away) *)

Inductive tcp_action :=
| Spawned (c : N)                       (* tokio::spawn for connection c *)
| ConnDropped (c : N)                   (* the accepted socket is dropped without a task *)
| LogAcceptFailed | Slept100ms | LogCodecFailed
| TaskEndedWithLog (c : N).

Record stcp_state := { stcp_tasks : list (N * task_state) }.
Definition stcp_init : stcp_state := {| stcp_tasks := [] |}.

(* tls = true is S l.112-142, tls = false is S l.83-105; ws selects accept_websocket_then_replay.
   Since the repair of "TLS handshake in the accept loop" the two loops have the SAME shape: the
   parameters stay in the signature to make that explicit (step does not look at them). *)
Definition stcp_step (tls ws : bool) (s : stcp_state) (e : stcp_event) : stcp_state * list tcp_action * loop_status :=
  match e with
  | SAcceptError => (s, [LogAcceptFailed; Slept100ms], Continue)                 (* l.88-90 continue *)
  | SCodecError c => (s, [LogCodecFailed; ConnDropped c], Continue)             (* l.96-97 continue *)
  | SConn c f =>
      match task_outcome f with
      | Some ts => ({| stcp_tasks := put c ts (stcp_tasks s) |}, [Spawned c], Continue)
      | None => (s, [Spawned c; TaskEndedWithLog c], Continue)
      end
  | STaskDone c => ({| stcp_tasks := remove c (stcp_tasks s) |}, [], Continue)
  end.

Definition stcp_catalogue (e : stcp_event) : bool := true.     (* every event is a per-flow event *)
Definition stcp_fatal (e : stcp_event) : bool := false.        (* the loop body has no break / return / ? *)
Definition stcp_enabled (s : stcp_state) (e : stcp_event) : bool := true.
Definition stcp_good (e : stcp_event) : option tcp_action :=
  match e with SConn c NoFault => Some (Spawned c) | _ => None end.

(* ===================================================================================== *)
(* 2. Server QUIC accept loop (S startup_quic l.170-185)                                   *)
(* ===================================================================================== *)
Inductive quic_fault := QNoFault | QHandshakeFail | QHandshakeStall | QNoStream | QRelayFault (f : conn_fault).

Inductive squic_event :=
| QCodecError (c : N)                   (* l.173-175 continue *)
| QConn (c : N) (f : quic_fault)        (* l.178-183: incoming.await?, accept_bi().await?, relay *)
| QTaskDone (c : N)
| QEndpointClosed.                      (* l.170 endpoint.accept() is None *)

Record squic_state := { squic_tasks : list (N * task_state); squic_owns_endpoint : bool }.
Definition squic_init : squic_state := {| squic_tasks := []; squic_owns_endpoint := true |}.

Definition quic_outcome (f : quic_fault) : option task_state :=
  match f with
  | QNoFault => Some Serving
  | QHandshakeStall => Some Stalled
  | QRelayFault f => task_outcome f
  | _ => None
  end.

Definition squic_step (s : squic_state) (e : squic_event) : squic_state * list tcp_action * loop_status :=
  match e with
  | QCodecError c => (s, [LogCodecFailed; ConnDropped c], Continue)
  | QConn c f =>
      match quic_outcome f with
      | Some ts => ({| squic_tasks := put c ts (squic_tasks s); squic_owns_endpoint := squic_owns_endpoint s |},
                    [Spawned c], Continue)
      | None => (s, [Spawned c; TaskEndedWithLog c], Continue)
      end
  | QTaskDone c => ({| squic_tasks := remove c (squic_tasks s); squic_owns_endpoint := squic_owns_endpoint s |},
                    [], Continue)
  | QEndpointClosed => (s, [], Exit)
  end.

Definition squic_fatal (e : squic_event) : bool := match e with QEndpointClosed => true | _ => false end.
Definition squic_catalogue (e : squic_event) : bool := negb (squic_fatal e).
(* accept() yields None only after Endpoint::close or when the endpoint is dropped; the loop holds
   the only handle (local `endpoint`, l.169) and never closes it *)
Definition squic_enabled (s : squic_state) (e : squic_event) : bool :=
  match e with QEndpointClosed => negb (squic_owns_endpoint s) | _ => true end.
Definition squic_good (e : squic_event) : option tcp_action :=
  match e with QConn c QNoFault => Some (Spawned c) | _ => None end.

(* ===================================================================================== *)
(* 3. Client TCP accept loop (CT transfer_tcp l.75-102)                                    *)
(* ===================================================================================== *)
Inductive cconn_fault :=
| CNoFault
| CLocalHandshakeFail    (* l.99  get_request_addr is Err (bad SOCKS5 / HTTP request) *)
| CLocalHandshakeStall   (* l.88  the local peer connects and says nothing *)
| CCodecError            (* l.120 new_codec is Err -> "transfer failed" *)
| COutboundFail          (* l.123-144 connect / TLS / WebSocket / QUIC to the server fails *)
| COutboundStall         (* same, never completes *)
| COpenFail              (* l.168 the opening send fails *)
| CPeerReset.            (* the relay ends with relay::Result::Err *)

Definition ctask_outcome (f : cconn_fault) : option task_state :=
  match f with
  | CNoFault => Some Serving
  | CLocalHandshakeStall | COutboundStall => Some Stalled
  | _ => None
  end.

Inductive ctcp_event :=
| CAcceptError                          (* l.79-83 log, sleep, continue *)
| CConn (c : N) (f : cconn_fault)
| CTaskDone (c : N).

Record ctcp_state := { ctcp_tasks : list (N * task_state) }.
Definition ctcp_init : ctcp_state := {| ctcp_tasks := [] |}.

Definition ctcp_step (s : ctcp_state) (e : ctcp_event) : ctcp_state * list tcp_action * loop_status :=
  match e with
  | CAcceptError => (s, [LogAcceptFailed; Slept100ms], Continue)
  | CConn c f =>
      match ctask_outcome f with
      | Some ts => ({| ctcp_tasks := put c ts (ctcp_tasks s) |}, [Spawned c], Continue)
      | None => (s, [Spawned c; TaskEndedWithLog c], Continue)
      end
  | CTaskDone c => ({| ctcp_tasks := remove c (ctcp_tasks s) |}, [], Continue)
  end.

Definition ctcp_catalogue (e : ctcp_event) : bool := true.
Definition ctcp_fatal (e : ctcp_event) : bool := false.   (* `new_context` failing (l.104) is before the loop *)
Definition ctcp_enabled (s : ctcp_state) (e : ctcp_event) : bool := true.
Definition ctcp_good (e : ctcp_event) : option tcp_action :=
  match e with CConn c CNoFault => Some (Spawned c) | _ => None end.

(* ===================================================================================== *)
(* 4. Server UDP loop with its association tasks (SS startup_udp l.109-165, relay l.236-297) *)
(* ===================================================================================== *)
(* fate of one client datagram.  The replay filter and DNS are oracles of the environment here
   (the filter itself is Model/PacketWindow.v). *)
Inductive dgram_fault :=
| DNoFault
| DUndecodable           (* SS l.156 decode is Err: forged / truncated / wrong key *)
| DDecodeNone            (* SS l.155 decode is Ok(None) *)
| DReplayed              (* SS l.279-283 packet id refused: dropped, `continue` *)
| DUnresolvable          (* SS l.272-277 `continue` *)
| DSendPeerFails         (* SS l.284-287 `continue` *)
| DAssocCreateFails.     (* SS l.151 UdpSocket::bind fails when an association has to be created *)

Inductive reply_fault := RNoFault | REncodeFails | RSendFails.   (* SS l.119-123, both logged *)

Inductive sudp_event :=
| URecvError                                      (* SS l.159-161 inbound.recv_from is Err: logged *)
| UDatagram (k d : N) (f : dgram_fault)           (* datagram d; k = associate_key if it decodes *)
| UAssocEnded (k : N)                             (* the task of k ended: peer recv error l.262-265,
                                                     server packet id exhausted l.246-249 *)
| UPeerReply (k r : N) (f : reply_fault)          (* the task of k got r from the target, l.240-261 *)
| UEvict (k : N)                                  (* ttl 300 s / capacity 10240 / cleanup tick l.111-113 *)
| UChannelClosed.                                 (* SS l.124-127 rx.recv() is None: `break` *)

Inductive udp_action :=
| Forwarded (d : N)                               (* the payload of d left towards its target *)
| Replied (k r : N)                               (* r was sent to the client of k *)
| ToLocal (k r : N)                               (* client: r was sent to the local application of k *)
| UdpLog.

(* an association: is its task still running?  (Drop aborts the task: an evicted entry has none) *)
Record sudp_state := { sudp_assoc : list (N * bool); sudp_own_tx : bool }.
Definition sudp_init : sudp_state := {| sudp_assoc := []; sudp_own_tx := true |}.

(* what a live association does with a message it received (SS l.268-288) *)
Definition assoc_handle (d : N) (f : dgram_fault) : list udp_action :=
  match f with
  | DReplayed | DUnresolvable | DSendPeerFails => [UdpLog]
  | _ => [Forwarded d]
  end.

Definition sudp_step (s : sudp_state) (e : sudp_event) : sudp_state * list udp_action * loop_status :=
  let keep t := {| sudp_assoc := t; sudp_own_tx := sudp_own_tx s |} in
  match e with
  | URecvError => (s, [UdpLog], Continue)
  | UDatagram k d f =>
      match f with
      | DUndecodable => (s, [UdpLog], Continue)
      | DDecodeNone => (s, [], Continue)
      | _ =>
          match lookup k (sudp_assoc s) with
          | Some true => (s, assoc_handle d f, Continue)                  (* l.139 try_send is Ok *)
          | _ =>                                                          (* l.140 / try_send failed *)
              match f with                                                (* l.144 remove, l.145 create *)
              | DAssocCreateFails => (keep (remove k (sudp_assoc s)), [UdpLog], Continue)
              | _ => (keep (put k true (sudp_assoc s)), assoc_handle d f, Continue)   (* l.147-148 *)
              end
          end
      end
  | UAssocEnded k =>                                                      (* the entry stays, its task is finished *)
      match lookup k (sudp_assoc s) with
      | Some _ => (keep (put k false (sudp_assoc s)), [], Continue)
      | None => (s, [], Continue)
      end
  | UPeerReply k r f =>
      match lookup k (sudp_assoc s) with
      | Some true => (s, match f with RNoFault => [Replied k r] | _ => [UdpLog] end, Continue)
      | _ => (s, [], Continue)                                            (* no running task: no such reply *)
      end
  | UEvict k => (keep (remove k (sudp_assoc s)), [], Continue)
  | UChannelClosed => (s, [], Exit)
  end.

Definition sudp_fatal (e : sudp_event) : bool := match e with UChannelClosed => true | _ => false end.
Definition sudp_catalogue (e : sudp_event) : bool := negb (sudp_fatal e).
(* rx.recv() yields None only when every Sender is gone; the loop itself keeps `tx` (l.101), of
   which the associations only hold clones (l.145) *)
Definition sudp_enabled (s : sudp_state) (e : sudp_event) : bool :=
  match e with UChannelClosed => negb (sudp_own_tx s) && forallb (fun p => negb (snd p)) (sudp_assoc s) | _ => true end.
Definition sudp_good (e : sudp_event) : option udp_action :=
  match e with UDatagram k d DNoFault => Some (Forwarded d) | _ => None end.

(* ===================================================================================== *)
(* 5. Client UDP loop with its binding reply tasks (CT transfer_udp l.222-282, new_binding)   *)
(* ===================================================================================== *)
Inductive ldgram_fault :=
| LNoFault
| LOutboundFails         (* CT l.243-246 / l.262-265 new_out is Err: `continue` *)
| LFirstSendFails        (* CT l.252 / l.272 new_binding is Err (its first send, l.328) *)
| LSendFails.            (* CT l.274-276 sink.send is Err: logged *)

Inductive cudp_event :=
| LTick                                           (* CT l.225-227 cleanup timer *)
| LEvict (k : N)                                  (* ttl 600 s / capacity 64 *)
| LReply (k r : N) (ok : bool)                    (* CT l.229-232; ok = false: client_local.send is Err, logged *)
| LDatagram (k d : N) (f : ldgram_fault)          (* CT l.234-279; k = new_key(sender, target) *)
| LMalformed                                      (* Socks5UdpCodec drops it (Ok(None)): UdpFramed reads on, no iteration *)
| LReplyTaskEnded (k : N)                         (* CT l.319-322 decode error, or the outbound stream ended *)
| LLocalRecvError                                 (* local_client.next() is Some(Err): the pattern l.234 does not match *)
| LAllBranchesDisabled.                           (* CT l.280 `else => break` *)

Record cudp_state := {
  cudp_bind : list (N * bool);    (* binding table: is the reply task still running *)
  cudp_orphans : nat;             (* reply tasks spawned at l.308 whose JoinHandle was dropped at l.328 `?`:
                                     detached, they live until their outbound stream ends *)
  cudp_local_off : bool;          (* the local-datagram branch is disabled for the current select! *)
  cudp_own_tx : bool }.           (* the loop keeps client_local_tx (l.220) *)
Definition cudp_init : cudp_state :=
  {| cudp_bind := []; cudp_orphans := 0; cudp_local_off := false; cudp_own_tx := true |}.

Definition cudp_step (s : cudp_state) (e : cudp_event) : cudp_state * list udp_action * loop_status :=
  let upd t o off := {| cudp_bind := t; cudp_orphans := o; cudp_local_off := off; cudp_own_tx := cudp_own_tx s |} in
  match e with
  (* a branch completed: the next select! starts with every branch enabled *)
  | LTick => (upd (cudp_bind s) (cudp_orphans s) false, [], Continue)
  | LEvict k => (upd (remove k (cudp_bind s)) (cudp_orphans s) (cudp_local_off s), [], Continue)
  | LReply k r ok =>
      match lookup k (cudp_bind s) with
      | Some true => (upd (cudp_bind s) (cudp_orphans s) false, if ok then [ToLocal k r] else [UdpLog], Continue)
      | _ => (s, [], Continue)                    (* aborted / finished tasks send nothing *)
      end
  | LDatagram k d f =>
      if cudp_local_off s then (s, [], Continue)  (* not read yet: it waits in the socket buffer *)
      else
      match lookup k (cudp_bind s) with
      | Some true =>                              (* l.274 *)
          (s, match f with LSendFails => [UdpLog] | _ => [Forwarded d] end, Continue)
      | Some false | None =>                      (* l.238 vacant / l.258 task finished: (re)create *)
          match f with
          | LOutboundFails => (s, [UdpLog], Continue)
          | LFirstSendFails => (upd (cudp_bind s) (S (cudp_orphans s)) false, [UdpLog], Continue)
          | _ => (upd (put k true (cudp_bind s)) (cudp_orphans s) false, [Forwarded d], Continue)
          end
      end
  | LMalformed => (s, [], Continue)
  | LReplyTaskEnded k =>
      match lookup k (cudp_bind s) with
      | Some _ => (upd (put k false (cudp_bind s)) (cudp_orphans s) (cudp_local_off s), [], Continue)
      | None => (s, [], Continue)
      end
  | LLocalRecvError => (upd (cudp_bind s) (cudp_orphans s) true, [UdpLog], Continue)
  | LAllBranchesDisabled => (s, [], Exit)
  end.

Definition cudp_fatal (e : cudp_event) : bool := match e with LAllBranchesDisabled => true | _ => false end.
(* a receive error of the local socket is not a per-flow fault of the catalogue: it does not end
   the loop, but it parks the local branch until the timer or a reply completes the select!
   (see LoopFacts.local_recv_error_parks_local_branch) *)
Definition cudp_stalling (e : cudp_event) : bool := match e with LLocalRecvError => true | _ => false end.
Definition cudp_catalogue (e : cudp_event) : bool := negb (cudp_fatal e) && negb (cudp_stalling e).
(* `else` runs only when EVERY branch is disabled; the timer branch has the pattern `_` (l.225),
   which always matches, so it can never be disabled *)
Definition cudp_enabled (s : cudp_state) (e : cudp_event) : bool :=
  match e with LAllBranchesDisabled => false | _ => true end.
Definition cudp_good (e : cudp_event) : option udp_action :=
  match e with LDatagram k d LNoFault => Some (Forwarded d) | _ => None end.
