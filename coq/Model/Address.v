(* Models of protocol/socks5/address.rs (encode, decode, length, try_decode_at) and of
   protocol/vmess.rs::address (write_address_port, read_address_port), and of the client-side
   acceptance guard for addresses coming out of the local handshake.  Definitions only. *)
From Coq Require Import NArith List Bool.
From Octo Require Import Base.Bytes.
Import ListNotations.
Open Scope N_scope.

(* Address: socket addresses carry their octets; a domain carries the bytes of its name *)
Inductive addr := AV4 (ip : bytes) (port : N) | AV6 (ip : bytes) (port : N) | ADom (host : bytes) (port : N).

(* what can come out of the local handshake / what SocketAddr can hold *)
Definition addr_wf (a : addr) : Prop :=
  match a with
  | AV4 ip p => lenN ip = 4 /\ wf_bytes ip /\ p < 65536
  | AV6 ip p => lenN ip = 16 /\ wf_bytes ip /\ p < 65536
  | ADom h p => wf_bytes h /\ p < 65536
  end.
Definition representable (a : addr) : Prop :=
  match a with ADom h _ => 1 <= lenN h <= 255 | _ => True end.
Definition representableb (a : addr) : bool :=
  match a with ADom h _ => (1 <=? lenN h) && (lenN h <=? 255) | _ => true end.

(* ---- SOCKS5-style (types 1 / 3 / 4) ---- *)
Definition s5_encode (a : addr) : bytes :=
  match a with
  | ADom h p => [3; lenN h mod 256] ++ h ++ put_u16 (p mod 65536)     (* host.len() as u8 *)
  | AV4 ip p => [1] ++ ip ++ put_u16 (p mod 65536)
  | AV6 ip p => [4] ++ ip ++ put_u16 (p mod 65536)
  end.

Definition s5_length (a : addr) : N :=
  match a with ADom h _ => 1 + 1 + lenN h + 2 | AV4 _ _ => 1 + 4 + 2 | AV6 _ _ => 1 + 8 * 2 + 2 end.

(* try_decode_at(src, at): None = the bytes that decide the length have not arrived yet *)
Definition s5_try_decode_at (src : bytes) (at_ : N) : res (option N) :=
  match nth_error src (N.to_nat at_) with
  | None => Ok None
  | Some t =>
    if t =? 1 then Ok (Some (1 + 4 + 2))
    else if t =? 3 then
      match nth_error src (N.to_nat (at_ + 1)) with
      | None => Ok None
      | Some l => Ok (Some (1 + 1 + l + 2))
      end
    else if t =? 4 then Ok (Some (1 + 8 * 2 + 2))
    else Err EBadAddrType
  end.

(* decode(src): checks that the whole address is present before touching the cursor *)
Definition s5_decode (src : bytes) : res (addr * bytes) :=
  let* need := s5_try_decode_at src 0 in
  match need with
  | None => Err EShort
  | Some n =>
    if lenN src <? n then Err EShort else
    let* (t, r) := get_u8 src in
    if t =? 1 then
      let* (ip, r) := split_to 4 r in let* (p, r) := get_u16 r in Ok (AV4 ip p, r)
    else if t =? 3 then
      let* (l, r) := get_u8 r in
      let* (h, r) := split_to l r in
      let* (p, r) := get_u16 r in Ok (ADom h p, r)
    else
      let* (ip, r) := split_to 16 r in let* (p, r) := get_u16 r in Ok (AV6 ip p, r)
  end.

(* ---- VMess-style (port first; types 1 / 2 / 3) ---- *)
Definition vm_write (a : addr) : res bytes :=
  match a with
  | ADom h p =>
    if (lenN h =? 0) || (255 <? lenN h) then Err EBadLen
    else Ok (put_u16 (p mod 65536) ++ [2; lenN h mod 256] ++ h)
  | AV4 ip p => Ok (put_u16 (p mod 65536) ++ [1] ++ ip)
  | AV6 ip p => Ok (put_u16 (p mod 65536) ++ [3] ++ ip)
  end.

(* utf8_ok abstracts String::from_utf8 (decidable, supplied by the caller) *)
Definition vm_read (utf8_ok : bytes -> bool) (src : bytes) : res (addr * bytes) :=
  if lenN src <? 3 then Err EShort else
  let* (p, r) := get_u16 src in
  let* (t, r) := get_u8 r in
  if t =? 1 then
    if lenN r <? 4 then Err EShort else
    let* (ip, r) := split_to 4 r in Ok (AV4 ip p, r)
  else if t =? 2 then
    if lenN r <? 1 then Err EShort else
    let* (l, r) := get_u8 r in
    if lenN r <? l then Err EShort else
    let* (h, r) := split_to l r in
    if utf8_ok h then Ok (ADom h p, r) else Err EUtf8
  else if t =? 3 then
    if lenN r <? 16 then Err EShort else
    let* (ip, r) := split_to 16 r in Ok (AV6 ip p, r)
  else Err EBadAddrType.

(* ---- the client-side guard: which addresses from the local handshake are passed to a codec ---- *)
Definition accept_addr (a : addr) : bool := representableb a.
