(* codec/shadowsocks/tcp.rs (AEADCipherCodec<N>, Context, Session, Identity), aead.rs, aead_2022.rs,
   aead_2022/tcp.rs, plus the glue of client/shadowsocks.rs::tcp::PayloadCodec and
   server/shadowsocks.rs::tcp::PayloadCodec.  Definitions only; mirrors the Rust control flow. *)
From Coq Require Import NArith List Bool.
From Octo Require Import Base.Bytes Crypto.Prims Model.NonceGen Model.SsChunk Model.Address.
Import ListNotations.
Open Scope N_scope.

Inductive kind := K_A128 | K_A256 | K_CC20 | K22_A128 | K22_A256 | K22_CC8 | K22_CC20.
Definition is_2022 (k : kind) : bool := match k with K22_A128 | K22_A256 | K22_CC8 | K22_CC20 => true | _ => false end.
Definition support_eih (k : kind) : bool := match k with K22_A128 | K22_A256 => true | _ => false end.
(* CipherMethod::new dispatch: which AEAD a kind selects *)
Definition kind_cipher (k : kind) : N :=
  match k with K_A128 | K22_A128 => 0 | K_A256 | K22_A256 => 1 | K_CC20 | K22_CC20 => 2 | K22_CC8 => 3 end.
(* const generic N of Context / Session: key and salt length *)
Definition kind_n (k : kind) : N := match k with K_A128 | K22_A128 => 16 | _ => 32 end.

Inductive mode := Client | Server.
Definition mode_to_u8 (m : mode) : N := match m with Client => 0 | Server => 1 end.
Definition mode_expect_u8 (m : mode) : N := match m with Client => 1 | Server => 0 end.

Definition SUBKEY_INFO : bytes := [115; 115; 45; 115; 117; 98; 107; 101; 121].   (* "ss-subkey" *)
Definition SESSION_LABEL : bytes :=    (* "shadowsocks 2022 session subkey" *)
  [115; 104; 97; 100; 111; 119; 115; 111; 99; 107; 115; 32; 50; 48; 50; 50; 32; 115; 101; 115; 115; 105; 111; 110; 32; 115; 117; 98; 107; 101; 121].
Definition IDENTITY_LABEL : bytes :=   (* "shadowsocks 2022 identity subkey" *)
  [115; 104; 97; 100; 111; 119; 115; 111; 99; 107; 115; 32; 50; 48; 50; 50; 32; 105; 100; 101; 110; 116; 105; 116; 121; 32; 115; 117; 98; 107; 101; 121].
Definition TS_MAX_DIFF : N := 30.
Definition LEGACY_PAYLOAD_LIMIT : N := 16383.   (* 0x3fff *)
Definition A2022_PAYLOAD_LIMIT : N := 65535.    (* 0xffff *)
Definition MAX_PADDING : N := 900.

Record user := { u_hash : bytes; u_key : bytes }.

Record ctx := {
  c_kind : kind;
  c_key : bytes;
  c_ikeys : list bytes;            (* identity keys (client side) *)
  c_users : option (list user)     (* Some = a user manager is present (server side) *)
}.

Record session := {
  s_mode : mode;
  s_salt : bytes;                  (* identity.salt: this side's own salt *)
  s_req_salt : option bytes;       (* identity.request_salt *)
  s_user : option user;
  s_addr : option addr
}.

Record codec := {
  cd_enc : option auth;
  cd_dec : option (auth * dstate);
  cd_pending : bytes               (* legacy server: plaintext received before the address is complete *)
}.
Definition codec_new : codec := {| cd_enc := None; cd_dec := None; cd_pending := [] |}.

Section SsTcp.
  Variable P : prims.

  Definition abs_diff (a b : N) : N := if a <? b then b - a else a - b.
  Definition validate_timestamp (now ts : N) : bool := abs_diff now ts <=? TS_MAX_DIFF.

  Definition session_sub_key (key salt : bytes) : bytes := p_b3derive P SESSION_LABEL (key ++ salt).
  Definition new_auth_2022 (k : kind) (key salt : bytes) : res auth := auth_new (kind_cipher k) (session_sub_key key salt).
  Definition new_auth_legacy (k : kind) (key salt : bytes) : res auth :=
    auth_new (kind_cipher k) (p_hkdf_sha1 P key salt SUBKEY_INFO (lenN salt)).

  Definition aes_key (k : kind) (sub_key : bytes) : bytes := takeN (if kind_cipher k =? 0 then 16 else 32) sub_key.

  (* aead_2022/tcp.rs::with_eih : chain of identity headers *)
  Definition make_eih (k : kind) (sub_key ipsk : bytes) : bytes :=
    p_aes_enc P (aes_key k sub_key) (takeN 16 (p_b3hash P ipsk)).
  Fixpoint with_eih_go (k : kind) (salt key : bytes) (ikeys : list bytes) (sub : option bytes) : bytes :=
    match ikeys with
    | [] => match sub with Some sk => make_eih k sk key | None => [] end
    | ipsk :: t =>
      (match sub with Some sk => make_eih k sk ipsk | None => [] end)
      ++ with_eih_go k salt key t (Some (p_b3derive P IDENTITY_LABEL (ipsk ++ salt)))
    end.
  Definition with_eih (k : kind) (key : bytes) (ikeys : list bytes) (salt : bytes) : bytes := with_eih_go k salt key ikeys None.

  (* aead_2022/tcp.rs::new_header *)
  Definition new_header (a : auth) (msg : bytes) (m : mode) (req_salt : option bytes) (now : N) : bytes * bytes * auth :=
    let len := N.min (lenN msg) 65535 in
    let fixed := [mode_to_u8 m] ++ put_u64 (now mod 2^64) ++ (match req_salt with Some s => s | None => [] end) ++ put_u16 len in
    let (c1, a1) := auth_seal P a fixed in
    let (c2, a2) := auth_seal P a1 (takeN len msg) in
    (c1 ++ c2, dropN len msg, a2).

  (* ---------------- encode ---------------- *)
  (* [pad] = the padding bytes drawn by the RNG (only used by a 2022 client's first write; its length is
     the value of next_padding_length: 0 when the first payload is non-empty) *)
  Definition ss_encode (cx : ctx) (now : N) (pad : bytes) (s : session) (cd : codec) (item : bytes) : res (codec * bytes) :=
    match cd_enc cd with
    | Some a =>
      let (out, a') := encode_payload P a (if is_2022 (c_kind cx) then A2022_PAYLOAD_LIMIT else LEGACY_PAYLOAD_LIMIT) item in
      Ok ({| cd_enc := Some a'; cd_dec := cd_dec cd; cd_pending := cd_pending cd |}, out)
    | None =>
      let k := c_kind cx in
      let salt := s_salt s in
      let ident := salt ++ (match s_mode s with
                            | Client => if support_eih k then with_eih k (c_key cx) (c_ikeys cx) salt else []
                            | Server => [] end) in
      let* a := (if is_2022 k then new_auth_2022 k (match s_user s with Some u => u_key u | None => c_key cx end) salt
                 else new_auth_legacy k (c_key cx) salt) in
      let* (hdr, rest, a1) :=
        (match s_mode s with
         | Client =>
           match s_addr s with
           | None => Panic                                    (* session.address.as_ref().unwrap() *)
           | Some ad =>
             let msg := s5_encode ad ++ (if is_2022 k then put_u16 (lenN pad) ++ pad else []) ++ item in
             if is_2022 k then let '(h, r, a1) := new_header a msg Client (s_req_salt s) now in Ok (h, r, a1)
             else Ok ([], msg, a)
           end
         | Server =>
           if is_2022 k then let '(h, r, a1) := new_header a item Server (s_req_salt s) now in Ok (h, r, a1)
           else Ok ([], item, a)
         end) in
      let (out, a2) := encode_payload P a1 (if is_2022 k then A2022_PAYLOAD_LIMIT else LEGACY_PAYLOAD_LIMIT) rest in
      Ok ({| cd_enc := Some a2; cd_dec := cd_dec cd; cd_pending := cd_pending cd |}, ident ++ hdr ++ out)
    end.

  (* ---------------- decode ---------------- *)
  Definition find_user (us : list user) (h : bytes) : option user :=
    find (fun u => bytes_eqb (u_hash u) h) us.
  Definition mem_salt (cache : list bytes) (salt : bytes) : bool := existsb (bytes_eqb salt) cache.

  (* result of one decode call: the salt cache (shared, updated even when the call then fails) and
     session, codec, remaining source, item *)
  Definition dres := (session * codec * bytes * option bytes)%type.

  Definition set_req_salt (s : session) (v : option bytes) : session :=
    {| s_mode := s_mode s; s_salt := s_salt s; s_req_salt := v; s_user := s_user s; s_addr := s_addr s |}.
  Definition set_user (s : session) (v : option user) : session :=
    {| s_mode := s_mode s; s_salt := s_salt s; s_req_salt := s_req_salt s; s_user := v; s_addr := s_addr s |}.
  Definition set_addr (s : session) (v : option addr) : session :=
    {| s_mode := s_mode s; s_salt := s_salt s; s_req_salt := s_req_salt s; s_user := s_user s; s_addr := v |}.

  (* the established-decoder arm of decode(), including the legacy server's address extraction *)
  Definition decode_body (s : session) (cd : codec) (a : auth) (st : dstate) (src : bytes) : res dres :=
    let* (a', st', src', dst) := decode_payload P a st src in
    let cd' := {| cd_enc := cd_enc cd; cd_dec := Some (a', st'); cd_pending := cd_pending cd |} in
    match s_mode s, s_addr s with
    | Server, None =>
      let pend := cd_pending cd ++ dst in
      let* need := s5_try_decode_at pend 0 in
      match need with
      | Some n =>
        if n <=? lenN pend then
          let* (ad, rest) := s5_decode pend in
          Ok (set_addr s (Some ad), {| cd_enc := cd_enc cd; cd_dec := Some (a', st'); cd_pending := [] |}, src', Some rest)
        else Ok (s, {| cd_enc := cd_enc cd; cd_dec := Some (a', st'); cd_pending := pend |}, src', None)
      | None => Ok (s, {| cd_enc := cd_enc cd; cd_dec := Some (a', st'); cd_pending := pend |}, src', None)
      end
    | _, _ => Ok (s, cd', src', match dst with [] => None | _ => Some dst end)
    end.

  (* everything of init_aead_2022_payload_decoder up to and including the fixed header:
     Ok (auth after the fixed header, session, length of the variable part, bytes after the fixed header) *)
  Definition open_fixed (cx : ctx) (now : N) (cache : list bytes) (s : session) (src : bytes)
    : res (auth * session * N * bytes * bytes) :=
    let k := c_kind cx in
    let n := kind_n k in
    let req_salt_len := match s_mode s with Server => 0 | Client => n end in
    let require_eih := match s_mode s with
                       | Server => support_eih k && (match c_users cx with Some (_ :: _) => true | _ => false end)
                       | Client => false end in
    let eih_len := if require_eih then 16 else 0 in
    let header_len := eih_len + 1 + 8 + req_salt_len + 2 + TAG in
    if lenN src <? n + header_len then Err EShort else
    let salt := takeN n src in
    if mem_salt cache salt then Err EReplay else
    let s1 := set_req_salt s (Some salt) in
    let header := takeN header_len (dropN n src) in
    let after := dropN (n + header_len) src in
    let* (a0, s2, header) :=
      (if require_eih then
         let eih := takeN 16 header in
         let isk := p_b3derive P IDENTITY_LABEL (c_key cx ++ salt) in
         let uh := p_aes_dec P (aes_key k isk) eih in
         match find_user (match c_users cx with Some us => us | None => [] end) uh with
         | Some u => let* a := new_auth_2022 k (u_key u) salt in Ok (a, set_user s1 (Some u), dropN 16 header)
         | None => Err EBadUser
         end
       else let* a := new_auth_2022 k (c_key cx) salt in Ok (a, s1, header)) in
    match auth_open P a0 header with
    | (None, _) => Err EAead
    | (Some h, a1) =>
      let* (ty, h) := get_u8 h in
      if negb (ty =? mode_expect_u8 (s_mode s)) then Err EBadType else
      let* (ts, h) := get_u64 h in
      if negb (validate_timestamp now ts) then Err EBadTime else
      let* h := (match s_mode s with
                 | Client => let* (rs, h) := split_to n h in
                             if bytes_eqb rs (s_salt s) then Ok h else Err EBadAuth
                 | Server => Ok h end) in
      let* (len, _) := get_u16 h in
      Ok (a1, s2, len, salt, after)
    end.

  Definition init_2022 (cx : ctx) (now : N) (cache : list bytes) (s : session) (cd : codec) (src : bytes) : list bytes * res dres :=
    match open_fixed cx now cache s src with
    | Err e => (cache, Err e)
    | Panic => (cache, Panic)
    | Ok (a1, s2, len, salt, after) =>
      if lenN after <? len + TAG then (cache, Ok (s2, cd, src, None))
      else
        (* set_nonce: insert under the lock; an already-present salt is a replay *)
        if mem_salt cache salt then (cache, Err EReplay) else
        let cache' := salt :: cache in
        (cache',
         match auth_open P a1 (takeN (len + TAG) after) with
         | (None, _) => Err EAead
         | (Some via, a2) =>
           let src' := dropN (len + TAG) after in
           let cd' := {| cd_enc := cd_enc cd; cd_dec := Some (a2, DLen); cd_pending := cd_pending cd |} in
           match s_mode s2, s_addr s2 with
           | Server, None =>
             let* (ad, via) := s5_decode via in
             if lenN via <? 2 then Err EShort else
             let* (padlen, via) := get_u16 via in
             if lenN via <? padlen then Err EShort else
             let* via := advance padlen via in
             Ok (set_addr s2 (Some ad), cd', src', Some via)
           | _, _ => Ok (s2, cd', src', Some via)
           end
         end)
    end.

  Definition ss_decode (cx : ctx) (now : N) (cache : list bytes) (s : session) (cd : codec) (src : bytes) : list bytes * res dres :=
    match src with
    | [] => (cache, Ok (s, cd, src, None))
    | _ =>
      match cd_dec cd with
      | Some (a, st) => (cache, decode_body s cd a st src)
      | None =>
        let n := kind_n (c_kind cx) in
        if lenN src <? n then (cache, Ok (s, cd, src, None))
        else if is_2022 (c_kind cx) then init_2022 cx now cache s cd src
        else
          (cache,
           let salt := takeN n src in
           let* a := new_auth_legacy (c_kind cx) (c_key cx) salt in
           let src' := dropN n src in
           let cd' := {| cd_enc := cd_enc cd; cd_dec := Some (a, DLen); cd_pending := cd_pending cd |} in
           match src' with
           | [] => Ok (s, cd', src', None)
           | _ => decode_body s cd' a DLen src'
           end)
      end
    end.

  (* ---- server/shadowsocks.rs::tcp::PayloadCodec (Header/Body states): item kinds ---- *)
  Inductive inbound := ConnectTcp (payload : bytes) (a : addr) | RelayTcp (payload : bytes) | RelayUdp (payload : bytes) (a : addr).

  Definition server_decode (cx : ctx) (now : N) (cache : list bytes) (s : session) (cd : codec) (in_body : bool) (src : bytes)
    : list bytes * res (session * codec * bool * bytes * option inbound) :=
    let (cache', r) := ss_decode cx now cache s cd src in
    (cache',
     let* (s', cd', src', it) := r in
     if in_body then Ok (s', cd', true, src', match it with Some d => Some (RelayTcp d) | None => None end)
     else match it, s_addr s' with
          | Some d, Some ad => Ok (s', cd', true, src', Some (ConnectTcp d ad))
          | _, _ => Ok (s', cd', false, src', None)
          end).
End SsTcp.
