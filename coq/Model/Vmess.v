(* VMess AEAD: protocol/vmess/aead/{kdf,auth_id,encrypt}.rs, protocol/vmess/{header,session}.rs,
   codec/vmess/aead.rs (AEADBodyCodec), client/vmess.rs (ClientAEADCodec), server/vmess.rs
   (ServerAeadCodec).  Definitions only; mirrors the Rust control flow. *)
From Coq Require Import NArith ZArith List Bool.
From Octo Require Import Base.Bytes Crypto.Prims Model.NonceGen Model.Utf8 Model.Address Model.SsTcp.
Import ListNotations.
Open Scope N_scope.

Definition str_kdf_root : bytes := [86; 77; 101; 115; 115; 32; 65; 69; 65; 68; 32; 75; 68; 70].       (* "VMess AEAD KDF" *)
Definition str_authid : bytes := [65; 69; 83; 32; 65; 117; 116; 104; 32; 73; 68; 32; 69; 110; 99; 114; 121; 112; 116; 105; 111; 110]. (* "AES Auth ID Encryption" *)
Definition str_len_key : bytes := [86; 77; 101; 115; 115; 32; 72; 101; 97; 100; 101; 114; 32; 65; 69; 65; 68; 32; 75; 101; 121; 95; 76; 101; 110; 103; 116; 104]. (* "VMess Header AEAD Key_Length" *)
Definition str_len_iv : bytes := [86; 77; 101; 115; 115; 32; 72; 101; 97; 100; 101; 114; 32; 65; 69; 65; 68; 32; 78; 111; 110; 99; 101; 95; 76; 101; 110; 103; 116; 104]. (* "VMess Header AEAD Nonce_Length" *)
Definition str_pay_key : bytes := [86; 77; 101; 115; 115; 32; 72; 101; 97; 100; 101; 114; 32; 65; 69; 65; 68; 32; 75; 101; 121]. (* "VMess Header AEAD Key" *)
Definition str_pay_iv : bytes := [86; 77; 101; 115; 115; 32; 72; 101; 97; 100; 101; 114; 32; 65; 69; 65; 68; 32; 78; 111; 110; 99; 101]. (* "VMess Header AEAD Nonce" *)
Definition str_resp_len_key : bytes := [65; 69; 65; 68; 32; 82; 101; 115; 112; 32; 72; 101; 97; 100; 101; 114; 32; 76; 101; 110; 32; 75; 101; 121]. (* "AEAD Resp Header Len Key" *)
Definition str_resp_len_iv : bytes := [65; 69; 65; 68; 32; 82; 101; 115; 112; 32; 72; 101; 97; 100; 101; 114; 32; 76; 101; 110; 32; 73; 86]. (* "AEAD Resp Header Len IV" *)
Definition str_resp_pay_key : bytes := [65; 69; 65; 68; 32; 82; 101; 115; 112; 32; 72; 101; 97; 100; 101; 114; 32; 75; 101; 121]. (* "AEAD Resp Header Key" *)
Definition str_resp_pay_iv : bytes := [65; 69; 65; 68; 32; 82; 101; 115; 112; 32; 72; 101; 97; 100; 101; 114; 32; 73; 86]. (* "AEAD Resp Header IV" *)
Definition str_auth_len : bytes := [97; 117; 116; 104; 95; 108; 101; 110].   (* "auth_len" *)
Definition VMESS_AUTH_WINDOW : N := 120.
Definition VMESS_PAYLOAD_LIMIT : N := 2048.
Definition VMESS_MAX_PADDING : N := 63.

(* util::fnv::fnv1a32 *)
Definition fnv1a32 (data : bytes) : N :=
  fold_left (fun h b => (N.lxor h b * 16777619) mod 2^32) data 2166136261.

Section Vmess.
  Variable P : prims.

  (* ---- kdf.rs: nested HMAC-SHA256 rooted at "VMess AEAD KDF" ---- *)
  Definition pad64 (pad : N) (key : bytes) : bytes :=
    map (fun b => N.lxor b pad) key ++ repeat pad (64 - length key).
  (* keys outermost first; the innermost hash is SHA-256 *)
  Fixpoint hnest (keys : list bytes) (m : bytes) : bytes :=
    match keys with
    | [] => p_sha256 P m
    | k :: rest => hnest rest (pad64 92 k ++ hnest rest (pad64 54 k ++ m))
    end.
  Definition kdf (key : bytes) (path : list bytes) : bytes := hnest (rev (str_kdf_root :: path)) key.
  Definition kdfn (n : N) (key : bytes) (path : list bytes) : bytes :=
    let h := kdf key path in takeN n h ++ repeat 0 (N.to_nat n - length h).
  Definition kdf16 := kdfn 16.
  Definition kdf12 := kdfn 12.

  (* auth.rs::generate_chacha20_poly1305_key *)
  Definition chacha_key (raw : bytes) : bytes := let a := p_md5 P raw in a ++ p_md5 P a.

  (* ---- auth_id.rs ---- *)
  Definition auth_id_create (key : bytes) (time : N (* i64 as u64 *)) (rnd4 : bytes) : bytes :=
    let b := put_u64 time ++ rnd4 in
    p_aes_enc P (kdf16 key [str_authid]) (b ++ put_u32 (p_crc32 P b)).
  Definition signed64 (v : N) : Z := if v <? 2^63 then Z.of_N v else (Z.of_N v - 2^64)%Z.
  Definition auth_id_match1 (now : N) (authid key : bytes) : bool :=
    let cur := p_aes_dec P (kdf16 key [str_authid]) authid in
    (be (dropN 12 cur) =? p_crc32 P (takeN 12 cur))
    && (Z.abs (signed64 (be (takeN 8 cur)) - Z.of_N now) <=? Z.of_N VMESS_AUTH_WINDOW)%Z.
  Definition auth_id_matching (now : N) (authid : bytes) (keys : list bytes) : option bytes :=
    find (auth_id_match1 now authid) keys.

  (* ---- encrypt.rs: seal_header / open_header (AES-128-GCM = cipher 0, aad = auth id) ---- *)
  Definition seal_header (key authid cnonce header : bytes) : bytes :=
    let lk := kdf16 key [str_len_key; authid; cnonce] in
    let li := kdf12 key [str_len_iv; authid; cnonce] in
    let hk := kdf16 key [str_pay_key; authid; cnonce] in
    let hi := kdf12 key [str_pay_iv; authid; cnonce] in
    authid ++ p_seal P 0 lk li authid (put_u16 (lenN header mod 65536)) ++ cnonce ++ p_seal P 0 hk hi authid header.

  (* Ok None = wait for more bytes; consumes nothing in that case *)
  Definition open_header (key : bytes) (src : bytes) : res (option (bytes * bytes)) :=
    if lenN src <? 16 + 18 + 8 + 16 then Ok None else
    let authid := takeN 16 src in
    let lenc := takeN 18 (dropN 16 src) in
    let cnonce := takeN 8 (dropN 34 src) in
    let rest := dropN 42 src in
    match p_open P 0 (kdf16 key [str_len_key; authid; cnonce]) (kdf12 key [str_len_iv; authid; cnonce]) authid lenc with
    | None => Err EAead
    | Some lb =>
      if negb (lenN lb =? 2) then Err EOther else
      let len := be lb in
      if lenN rest <? len + 16 then Ok None else
      match p_open P 0 (kdf16 key [str_pay_key; authid; cnonce]) (kdf12 key [str_pay_iv; authid; cnonce]) authid (takeN (len + 16) rest) with
      | None => Err EAead
      | Some h => Ok (Some (h, dropN (len + 16) rest))
      end
    end.

  (* ---- request header ---- *)
  Inductive command := CmdTcp | CmdUdp.
  Record req_header := {
    rh_opt : N;            (* option mask as on the wire *)
    rh_sec : N;            (* security nibble as on the wire: 3 = aes-128-gcm, 4 = chacha20-poly1305 *)
    rh_cmd : command;
    rh_addr : addr
  }.
  Record vsession := { vs_iv : bytes; vs_key : bytes; vs_v : N }.     (* request body iv / key, response header byte *)
  Definition resp_iv (s : vsession) : bytes := takeN 16 (p_sha256 P (vs_iv s)).
  Definition resp_key (s : vsession) : bytes := takeN 16 (p_sha256 P (vs_key s)).
  Definition known_opt_mask (m : N) : N := N.land m 31.    (* RequestOption::from_mask keeps the five known bits *)
  Definition has_opt (m bit : N) : bool := negb (N.land m bit =? 0).

  Definition header_bytes (h : req_header) (s : vsession) (padding : bytes) : res bytes :=
    let* ad := vm_write (rh_addr h) in
    let body := [1] ++ vs_iv s ++ vs_key s ++ [vs_v s; known_opt_mask (rh_opt h); (lenN padding * 16 + rh_sec h) mod 256; 0;
                 match rh_cmd h with CmdTcp => 1 | CmdUdp => 2 end] ++ ad ++ padding in
    Ok (body ++ put_u32 (fnv1a32 body)).

  Definition parse_header (hb : bytes) : res (req_header * vsession) :=
    if lenN hb <? 1 + 16 + 16 + 1 + 1 + 1 + 1 + 1 + 4 then Err EShort else
    let data := takeN (lenN hb - 4) hb in
    let* (_, r) := get_u8 hb in
    let* (iv, r) := split_to 16 r in
    let* (key, r) := split_to 16 r in
    let* (v, r) := get_u8 r in
    let* (opt, r) := get_u8 r in
    let* (sec, r) := get_u8 r in
    let padlen := sec / 16 in
    let* r := advance 1 r in
    let* (cmd, r) := get_u8 r in
    if negb ((cmd =? 1) || (cmd =? 2)) then Err EBadCmd else
    let* (ad, r) := vm_read utf8_valid r in
    if lenN r <? padlen + 4 then Err EShort else
    let* r := advance padlen r in
    let* (sum, _) := get_u32 r in
    if negb (fnv1a32 data =? sum) then Err EBadAuth else
    Ok ({| rh_opt := known_opt_mask opt; rh_sec := sec mod 16; rh_cmd := if cmd =? 1 then CmdTcp else CmdUdp; rh_addr := ad |},
        {| vs_iv := iv; vs_key := key; vs_v := v |}).

  (* ---- codec/vmess/aead.rs: AEADBodyCodec ---- *)
  Inductive size_parser := SPlain | SShake | SAuth (key : bytes) (count : N).
  Inductive bstate := BPadding | BLength (padding : N) | BBody (padding len : N).
  Record body := {
    b_cipher : N;            (* 0 aes-128-gcm | 2 chacha20-poly1305 *)
    b_key : bytes;
    b_iv : bytes;            (* the 16-byte IV of this direction: bytes 2..12 complete the nonce *)
    b_count : N;             (* CountingNonceGenerator of the payload authenticator *)
    b_size : size_parser;
    b_civ : bytes;           (* session.chunk_nonce(): the REQUEST iv in both directions *)
    b_pad : bool;            (* GlobalPadding *)
    b_seed : bytes;          (* SHAKE128 input *)
    b_pos : N;               (* number of u16 values already read from the XOF *)
    b_state : bstate
  }.
  Definition sec_cipher (sec : N) : N := if sec =? 4 then 2 else 0.
  Definition sec_key (sec : N) (key : bytes) : bytes := if sec =? 4 then chacha_key key else key.

  (* AEADBodyCodec::new : key/iv of the direction, chunk key = request key, chunk nonce = request iv *)
  Definition body_new (opt sec : N) (key iv : bytes) (req_key req_iv : bytes) : body :=
    let sz := if has_opt opt 16 then SAuth (sec_key sec (kdf16 req_key [str_auth_len])) 0
              else if has_opt opt 4 then SShake else SPlain in
    {| b_cipher := sec_cipher sec; b_key := sec_key sec key; b_iv := iv; b_count := 0; b_size := sz; b_civ := req_iv;
       b_pad := has_opt opt 8; b_seed := iv; b_pos := 0; b_state := BPadding |}.

  Definition shake_next (b : body) : N * body :=
    let out := p_shake128 P (b_seed b) (2 * (b_pos b + 1)) in
    (be (dropN (2 * b_pos b) out),
     {| b_cipher := b_cipher b; b_key := b_key b; b_iv := b_iv b; b_count := b_count b; b_size := b_size b; b_civ := b_civ b;
        b_pad := b_pad b; b_seed := b_seed b; b_pos := b_pos b + 1; b_state := b_state b |}).
  Definition next_padding (b : body) : N * body :=
    if b_pad b then let (v, b') := shake_next b in (v mod 64, b') else (0, b).
  Definition size_bytes (b : body) : N := match b_size b with SAuth _ _ => 2 + TAG | _ => 2 end.
  Definition set_size (b : body) (sz : size_parser) : body :=
    {| b_cipher := b_cipher b; b_key := b_key b; b_iv := b_iv b; b_count := b_count b; b_size := sz; b_civ := b_civ b;
       b_pad := b_pad b; b_seed := b_seed b; b_pos := b_pos b; b_state := b_state b |}.
  Definition set_state (b : body) (st : bstate) : body :=
    {| b_cipher := b_cipher b; b_key := b_key b; b_iv := b_iv b; b_count := b_count b; b_size := b_size b; b_civ := b_civ b;
       b_pad := b_pad b; b_seed := b_seed b; b_pos := b_pos b; b_state := st |}.
  Definition bump_count (b : body) : body :=
    {| b_cipher := b_cipher b; b_key := b_key b; b_iv := b_iv b; b_count := counting_next (b_count b); b_size := b_size b; b_civ := b_civ b;
       b_pad := b_pad b; b_seed := b_seed b; b_pos := b_pos b; b_state := b_state b |}.
  Definition vnonce (count : N) (iv : bytes) : bytes := takeN 12 (counting_splice count iv).

  Definition body_seal (b : body) (pt : bytes) : bytes * body :=
    (p_seal P (b_cipher b) (b_key b) (vnonce (b_count b) (b_iv b)) [] pt, bump_count b).
  Definition body_open (b : body) (ct : bytes) : option bytes * body :=
    (p_open P (b_cipher b) (b_key b) (vnonce (b_count b) (b_iv b)) [] ct, bump_count b).

  (* size is the value written into the size field: payload + padding + tag *)
  Definition encode_size (b : body) (size : N) : bytes * body :=
    match b_size b with
    | SPlain => (put_u16 (size mod 65536), b)
    | SShake => let (m, b') := shake_next b in (put_u16 (N.lxor m (size mod 65536)), b')
    | SAuth k c => (p_seal P (b_cipher b) k (vnonce c (b_civ b)) [] (put_u16 ((size - TAG) mod 65536)),
                    set_size b (SAuth k (counting_next c)))
    end.
  Definition decode_size (b : body) (data : bytes) : res (N * body) :=
    match b_size b with
    | SPlain => Ok (be data, b)
    | SShake => let (m, b') := shake_next b in Ok (N.lxor m (be data), b')
    | SAuth k c =>
      match p_open P (b_cipher b) k (vnonce c (b_civ b)) [] data with
      | None => Err EAead
      | Some pl => let* (v, _) := get_u16 pl in Ok (v + TAG, set_size b (SAuth k (counting_next c)))
      end
    end.

  (* encode_chunk with a payload limit; padding bytes are an input (random in the implementation) *)
  Definition encode_chunk (b : body) (limit : N) (src : bytes) (padsrc : bytes) : bytes * body * bytes :=
    let (padlen, b1) := next_padding b in
    let esize := N.min (lenN src) (limit - TAG - size_bytes b - padlen) in
    let (szb, b2) := encode_size b1 (esize + padlen + TAG) in
    let (ct, b3) := body_seal b2 (takeN esize src) in
    (szb ++ ct ++ takeN padlen (padsrc ++ repeat 0 (N.to_nat padlen)), b3, dropN esize src).
  Fixpoint encode_payload_v (fuel : nat) (b : body) (src padsrc : bytes) : bytes * body :=
    match fuel with
    | O => ([], b)
    | S f => match src with
             | [] => ([], b)
             | _ => let '(out, b', rest) := encode_chunk b VMESS_PAYLOAD_LIMIT src padsrc in
                    let (out2, b'') := encode_payload_v f b' rest padsrc in (out ++ out2, b'')
             end
    end.
  Definition encode_packet_v (b : body) (src padsrc : bytes) : res (bytes * body) :=
    if 65535 - TAG - VMESS_MAX_PADDING <? lenN src then Err EAead
    else let '(out, b', _) := encode_chunk b (65535 + size_bytes b) src padsrc in Ok (out, b').

  (* the shared decode state machine; [packet] = stop after one chunk (decode_packet) *)
  Fixpoint vdec_loop (fuel : nat) (packet : bool) (b : body) (src dst : bytes) : res (body * bytes * bytes * bool) :=
    match fuel with
    | O => Ok (b, src, dst, false)
    | S f =>
      match b_state b with
      | BPadding => let (p, b') := next_padding b in vdec_loop f packet (set_state b' (BLength p)) src dst
      | BLength p =>
        if lenN src <? size_bytes b then Ok (b, src, dst, false) else
        let* (len, b') := decode_size b (takeN (size_bytes b) src) in
        vdec_loop f packet (set_state b' (BBody p len)) (dropN (size_bytes b) src) dst
      | BBody p len =>
        if lenN src <? len then Ok (b, src, dst, false) else
        if len <? p + TAG then Err EAead else
        match body_open b (takeN (len - p) src) with
        | (None, _) => Err EAead
        | (Some pl, b') =>
          let b'' := set_state b' BPadding in
          if packet then Ok (b'', dropN len src, pl, true)
          else vdec_loop f packet b'' (dropN len src) (dst ++ pl)
        end
      end
    end.
  Definition decode_payload_v (b : body) (src : bytes) : res (body * bytes * option bytes) :=
    let* (b', src', dst, _) := vdec_loop (3 * S (length src)) false b src [] in
    Ok (b', src', match dst with [] => None | _ => Some dst end).
  Definition decode_packet_v (b : body) (src : bytes) : res (body * bytes * option bytes) :=
    let* (b', src', dst, got) := vdec_loop (3 * S (length src)) true b src [] in
    Ok (b', src', if got then Some dst else None).

  (* ---- server/vmess.rs: ServerAeadCodec ---- *)
  Inductive sdec := SInit | SReady (h : req_header) (s : vsession) (b : body).
  Definition server_vdecode (now : N) (keys : list bytes) (st : sdec) (src : bytes) : res (sdec * bytes * option inbound) :=
    match st with
    | SInit =>
      if lenN src <? 16 then Ok (st, src, None) else
      match auth_id_matching now (takeN 16 src) keys with
      | None => Err EBadUser
      | Some key =>
        let* oh := open_header key src in
        match oh with
        | None => Ok (st, src, None)
        | Some (hb, rest) =>
          let* (h, s) := parse_header hb in
          let b := body_new (rh_opt h) (rh_sec h) (vs_key s) (vs_iv s) (vs_key s) (vs_iv s) in
          match rh_cmd h with
          | CmdTcp => let* (b', rest', it) := decode_payload_v b rest in
                      Ok (SReady h s b', rest', Some (ConnectTcp (match it with Some d => d | None => [] end) (rh_addr h)))
          | CmdUdp => let* (b', rest', it) := decode_packet_v b rest in
                      Ok (SReady h s b', rest', match it with Some d => Some (RelayUdp d (rh_addr h)) | None => None end)
          end
        end
      end
    | SReady h s b =>
      match src with
      | [] => Ok (st, src, None)
      | _ =>
        match rh_cmd h with
        | CmdTcp => let* (b', rest', it) := decode_payload_v b src in
                    Ok (SReady h s b', rest', match it with Some d => Some (RelayTcp d) | None => None end)
        | CmdUdp => let* (b', rest', it) := decode_packet_v b src in
                    Ok (SReady h s b', rest', match it with Some d => Some (RelayUdp d (rh_addr h)) | None => None end)
        end
      end
    end.

  (* server response: header sealed under the response key/iv, then the body; None body = first write *)
  Definition server_vencode (h : req_header) (s : vsession) (enc : option body) (item : bytes) (padsrc : bytes) : res (body * bytes) :=
    let rk := resp_key s in let ri := resp_iv s in
    let (hdr, b) := match enc with
                    | Some b => ([], b)
                    | None =>
                      (p_seal P 0 (kdf16 rk [str_resp_len_key]) (kdf12 ri [str_resp_len_iv]) [] (put_u16 4)
                       ++ p_seal P 0 (kdf16 rk [str_resp_pay_key]) (kdf12 ri [str_resp_pay_iv]) [] [vs_v s; rh_opt h; 0; 0],
                       body_new (rh_opt h) (rh_sec h) rk ri (vs_key s) (vs_iv s))
                    end in
    match rh_cmd h with
    | CmdTcp => let (out, b') := encode_payload_v (S (length item)) b item padsrc in Ok (b', hdr ++ out)
    | CmdUdp => let* (out, b') := encode_packet_v b item padsrc in Ok (b', hdr ++ out)
    end.

  (* ---- client/vmess.rs: ClientAEADCodec ---- *)
  (* all randomness of the first write is an input: timestamp, 4 random auth-id bytes, connection nonce, header padding *)
  Definition client_vencode (id : bytes) (h : req_header) (s : vsession) (enc : option body)
             (ts : N) (rnd4 cnonce hpad : bytes) (item padsrc : bytes) : res (body * bytes) :=
    let* (hdr, b) := match enc with
                     | Some b => Ok ([], b)
                     | None => let* hb := header_bytes h s hpad in
                               Ok (seal_header id (auth_id_create id ts rnd4) cnonce hb,
                                   body_new (rh_opt h) (rh_sec h) (vs_key s) (vs_iv s) (vs_key s) (vs_iv s))
                     end in
    match rh_cmd h with
    | CmdTcp => let (out, b') := encode_payload_v (S (length item)) b item padsrc in Ok (b', hdr ++ out)
    | CmdUdp => let* (out, b') := encode_packet_v b item padsrc in Ok (b', hdr ++ out)
    end.

  Definition client_vdecode (h : req_header) (s : vsession) (dec : option body) (src : bytes) : res (option body * bytes * option bytes) :=
    match src with
    | [] => Ok (dec, src, None)
    | _ =>
      let body_step (b : body) (src : bytes) :=
        match rh_cmd h with
        | CmdTcp => let* (b', r, it) := decode_payload_v b src in Ok (Some b', r, it)
        | CmdUdp => let* (b', r, it) := decode_packet_v b src in Ok (Some b', r, it)
        end in
      match dec with
      | Some b => body_step b src
      | None =>
        let rk := resp_key s in let ri := resp_iv s in
        if lenN src <? 2 + 16 then Ok (None, src, None) else
        match p_open P 0 (kdf16 rk [str_resp_len_key]) (kdf12 ri [str_resp_len_iv]) [] (takeN 18 src) with
        | None => Err EAead
        | Some lb =>
          let* (hl, _) := get_u16 lb in
          let rest := dropN 18 src in
          if lenN rest <? hl + 16 then Ok (None, src, None) else
          match p_open P 0 (kdf16 rk [str_resp_pay_key]) (kdf12 ri [str_resp_pay_iv]) [] (takeN (hl + 16) rest) with
          | None => Err EAead
          | Some hb =>
            match hb with
            | v :: _ => if v =? vs_v s then
                          let b := body_new (rh_opt h) (rh_sec h) rk ri (vs_key s) (vs_iv s) in
                          match dropN (hl + 16) rest with
                          | [] => Ok (Some b, [], None)
                          | r => body_step b r
                          end
                        else Err EBadAuth
            | [] => Err EBadAuth
            end
          end
        end
      end
    end.
End Vmess.
