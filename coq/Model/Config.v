(* C16: configuration names -> behaviour.  Definitions only.

   Everything that is a NAME or an ARM LIST comes from coq/Generated/{Tables,ConfigTables}.v, which
   tools/gen_from_source.py regenerates from /repo's current source on every run: a changed serde name,
   a changed `matches!` arm, a changed arm of a transport `match` changes this model on the next run.
   What is transcribed by hand here is only the *shape* of the startup code (which generated list is
   consulted where), and the generator fails loudly when that shape is no longer found. *)
From Coq Require Import String Ascii List Bool NArith.
From Octo Require Import Base.Bytes Crypto.Prims Generated.Tables Generated.ConfigTables.
Import ListNotations.
Open Scope string_scope.

(* ------------------------------------------------------------------------------------------ *)
(* the Rust enums, one constructor per variant *)
Inductive cipher := CAes128Gcm | CAes256Gcm | CChaCha20Poly1305
                  | C22Aes128Gcm | C22Aes256Gcm | C22ChaCha8Poly1305 | C22ChaCha20Poly1305 | CUnknown.
Inductive protocol := PShadowsocks | PVMess | PTrojan.
Inductive lmode := MTcp | MUdp | MTcpAndUdp | MQuic | MTcpAndQuic.

Definition cipher_variants : list (string * cipher) :=
  [ ("Aes128Gcm", CAes128Gcm); ("Aes256Gcm", CAes256Gcm); ("ChaCha20Poly1305", CChaCha20Poly1305);
    ("Aead2022Blake3Aes128Gcm", C22Aes128Gcm); ("Aead2022Blake3Aes256Gcm", C22Aes256Gcm);
    ("Aead2022Blake3ChaCha8Poly1305", C22ChaCha8Poly1305); ("Aead2022Blake3ChaCha20Poly1305", C22ChaCha20Poly1305);
    ("Unknown", CUnknown) ].
Definition protocol_variants : list (string * protocol) :=
  [ ("Shadowsocks", PShadowsocks); ("VMess", PVMess); ("Trojan", PTrojan) ].
Definition mode_variants : list (string * lmode) :=
  [ ("Tcp", MTcp); ("Udp", MUdp); ("TcpAndUdp", MTcpAndUdp); ("Quic", MQuic); ("TcpAndQuic", MTcpAndQuic) ].

Definition cipher_variant (c : cipher) : string :=
  match c with
  | CAes128Gcm => "Aes128Gcm" | CAes256Gcm => "Aes256Gcm" | CChaCha20Poly1305 => "ChaCha20Poly1305"
  | C22Aes128Gcm => "Aead2022Blake3Aes128Gcm" | C22Aes256Gcm => "Aead2022Blake3Aes256Gcm"
  | C22ChaCha8Poly1305 => "Aead2022Blake3ChaCha8Poly1305" | C22ChaCha20Poly1305 => "Aead2022Blake3ChaCha20Poly1305"
  | CUnknown => "Unknown"
  end.
Definition protocol_variant (p : protocol) : string :=
  match p with PShadowsocks => "Shadowsocks" | PVMess => "VMess" | PTrojan => "Trojan" end.
Definition mode_variant (m : lmode) : string :=
  match m with MTcp => "Tcp" | MUdp => "Udp" | MTcpAndUdp => "TcpAndUdp" | MQuic => "Quic" | MTcpAndQuic => "TcpAndQuic" end.

Definition all_ciphers : list cipher :=
  [CAes128Gcm; CAes256Gcm; CChaCha20Poly1305; C22Aes128Gcm; C22Aes256Gcm; C22ChaCha8Poly1305; C22ChaCha20Poly1305; CUnknown].
Definition all_protocols : list protocol := [PShadowsocks; PVMess; PTrojan].
Definition all_modes : list lmode := [MTcp; MUdp; MTcpAndUdp; MQuic; MTcpAndQuic].

Definition cipher_eqb (a b : cipher) : bool := String.eqb (cipher_variant a) (cipher_variant b).

(* ------------------------------------------------------------------------------------------ *)
(* serde: a name is looked up in the table of (serde name, variant); nothing else is accepted *)
Fixpoint assoc {A} (k : string) (l : list (string * A)) : option A :=
  match l with [] => None | (k', v) :: t => if String.eqb k k' then Some v else assoc k t end.
Definition mem (s : string) (l : list string) : bool := existsb (String.eqb s) l.

Definition parse_with {A} (names : list (string * string)) (variants : list (string * A)) (s : string) : option A :=
  match assoc s names with Some v => assoc v variants | None => None end.

(* ConfigTables.cipher_names_all = Tables.cipher_names plus the serde names of the #[default] variant *)
Definition parse_cipher : string -> option cipher := parse_with ConfigTables.cipher_names_all cipher_variants.
Definition parse_protocol : string -> option protocol := parse_with Tables.protocol_names protocol_variants.
Definition parse_mode : string -> option lmode := parse_with Tables.mode_names mode_variants.

(* #[serde(default)] on `cipher` and `mode` of ServerConfig: an ABSENT field takes the Default impl *)
Definition default_cipher : option cipher := assoc ConfigTables.cipher_default_variant cipher_variants.
Definition default_mode : option lmode := assoc ConfigTables.mode_default_variant mode_variants.
Definition field_cipher (f : option string) : option cipher := match f with Some s => parse_cipher s | None => default_cipher end.
Definition field_mode (f : option string) : option lmode := match f with Some s => parse_mode s | None => default_mode end.

(* a whole ServerConfig object, as far as names are concerned: Some (cipher, protocol, mode) or a serde error *)
Definition parse_server_config (c : option string) (p : string) (m : option string) : option (cipher * protocol * lmode) :=
  match field_cipher c, parse_protocol p, field_mode m with
  | Some c, Some p, Some m => Some (c, p, m)
  | _, _, _ => None
  end.

(* ------------------------------------------------------------------------------------------ *)
(* Mode::enable_tcp / enable_udp / enable_quic -- the `matches!` arms *)
Definition enable_tcp (m : lmode) : bool := mem (mode_variant m) Tables.mode_enable_tcp.
Definition enable_udp (m : lmode) : bool := mem (mode_variant m) Tables.mode_enable_udp.
Definition enable_quic (m : lmode) : bool := mem (mode_variant m) Tables.mode_enable_quic.
Definition mode_pred (name : string) (m : lmode) : bool :=
  if name =? "enable_tcp" then enable_tcp m else if name =? "enable_udp" then enable_udp m
  else if name =? "enable_quic" then enable_quic m else false.
Definition any_pred (names : list string) (m : lmode) : bool := existsb (fun n => mode_pred n m) names.

(* CipherKind::is_aead_2022 / eih_supported *)
Definition is_aead_2022 (c : cipher) : bool := mem (cipher_variant c) Tables.kind_is_aead_2022.
Definition eih_supported (c : cipher) : bool := mem (cipher_variant c) Tables.kind_support_eih.

(* AEAD algorithm ids of Crypto.Prims; key and tag sizes are those of the RustCrypto types *)
Definition algo_id (a : string) : option N :=
  if a =? "Aes128Gcm" then Some 0%N else if a =? "Aes256Gcm" then Some 1%N
  else if a =? "ChaCha20Poly1305" then Some 2%N else if a =? "ChaCha8Poly1305" then Some 3%N
  else if a =? "XChaCha20Poly1305" then Some 4%N else if a =? "XChaCha8Poly1305" then Some 5%N else None.
Definition kind_algo_id (table : list (string * string)) (c : cipher) : option N :=
  match assoc (cipher_variant c) table with Some a => algo_id a | None => None end.

(* CipherMethod::new(kind, key): the algorithm, or a panic for the kinds of the panic arm *)
Definition cipher_method (c : cipher) : res N :=
  if mem (cipher_variant c) ConfigTables.kind_algo_panics then Panic
  else match kind_algo_id ConfigTables.kind_algo c with Some a => Ok a | None => Panic end.
(* CipherKind::tag_size() *)
Definition tag_size (c : cipher) : res N :=
  if mem (cipher_variant c) ConfigTables.kind_tag_panics then Panic
  else match kind_algo_id ConfigTables.kind_tag_algo c with Some _ => Ok TAG | None => Panic end.

(* the const parameter N chosen by a `match cipher { .. => <16> .. => <32> }` *)
Definition dispatch_n (l16 l32 : list string) (c : cipher) : option N :=
  if mem (cipher_variant c) l16 then Some 16%N else if mem (cipher_variant c) l32 then Some 32%N else None.
Definition client_tcp_n := dispatch_n Tables.client_n16 Tables.client_n32.
Definition client_udp_n := dispatch_n ConfigTables.client_udp_n16 ConfigTables.client_udp_n32.
Definition server_n := dispatch_n Tables.server_n16 Tables.server_n32.
Definition kind_n := client_tcp_n.

Record params := { kp_n : N; kp_tag : N; kp_2022 : bool; kp_eih : bool; kp_algo : N }.
Definition kind_params (c : cipher) : option params :=
  match kind_n c, tag_size c, cipher_method c with
  | Some n, Ok t, Ok a => Some {| kp_n := n; kp_tag := t; kp_2022 := is_aead_2022 c; kp_eih := eih_supported c; kp_algo := a |}
  | _, _, _ => None
  end.

(* ------------------------------------------------------------------------------------------ *)
(* listeners *)
Record listeners := { l_tcp : bool; l_udp : bool; l_quic : bool }.
Definition no_listener := {| l_tcp := false; l_udp := false; l_quic := false |}.
Definition lunion (a b : listeners) :=
  {| l_tcp := l_tcp a || l_tcp b; l_udp := l_udp a || l_udp b; l_quic := l_quic a || l_quic b |}.

(* one startup function: it serves forever on its listener(s), or returns Ok(()), or returns an error *)
Inductive outcome := Serves (l : listeners) | ReturnsOk | ReturnsErr (msg : string).
Definition serves_if (b : bool) (l : listeners) : outcome := if b then Serves l else ReturnsOk.

(* server.rs: startup_tcp binds a TcpListener unconditionally; startup_quic is `if let Some(..) = &config.quic {serve} Ok(())` *)
Definition server_fn (fn : string) (has_quic : bool) : outcome :=
  if (fn =? "startup_tcp") then Serves {| l_tcp := true; l_udp := false; l_quic := false |}
  else if (fn =? "startup_quic") then
    serves_if (if ConfigTables.server_quic_needs_section then has_quic else true) {| l_tcp := false; l_udp := false; l_quic := true |}
  else if (fn =? "UdpSocket") then Serves {| l_tcp := false; l_udp := true; l_quic := false |}
  else ReturnsOk.

(* server/shadowsocks.rs startup_tcp: `if !mode.enable_tcp() { return Ok(()) }` then super::startup_tcp *)
Definition ss_startup_tcp (m : lmode) (has_quic : bool) : outcome :=
  if any_pred ConfigTables.ss_server_tcp_guard m then server_fn "startup_tcp" has_quic else ReturnsOk.
(* server/shadowsocks.rs startup_udp: `if !enable_udp && !enable_quic { return Ok }  if enable_udp { UdpSocket::bind .. }
   else { if config.quic.is_none() { bail!(..) }  startup_quic }` *)
Definition quic_section_msg : string := "mode requires a quic section".
Definition ss_startup_udp (m : lmode) (has_quic : bool) : outcome :=
  if any_pred ConfigTables.ss_server_udp_guard m then
    let '(p, a, b) := ConfigTables.ss_server_udp_branch in
    if mode_pred p m then server_fn a has_quic
    else if ConfigTables.ss_server_quic_branch_requires_section && negb has_quic then ReturnsErr quic_section_msg
    else server_fn b has_quic
  else ReturnsOk.
Definition ss_fn (fn : string) (m : lmode) (has_quic : bool) : outcome :=
  if fn =? "startup_tcp" then ss_startup_tcp m has_quic
  else if fn =? "startup_udp" then ss_startup_udp m has_quic else ReturnsOk.

(* `tokio::join!(a, b)` followed by a match on the results: the errors are looked at only once EVERY joined
   function has returned; while one of them serves, the join never completes and an error another one returned
   is never reported *)
Inductive startup :=
| Started (l : listeners)                                   (* serving on l (l empty: everything returned Ok) *)
| StartupError (msg : string)                               (* startup stops with an error, nothing is served *)
| StartedDespiteError (l : listeners) (msg : string).       (* serving on l; a joined function's error is never reported *)
Definition served (os : list outcome) : listeners :=
  fold_right (fun o acc => match o with Serves l => lunion l acc | _ => acc end) no_listener os.
Definition first_error (os : list outcome) : option string :=
  fold_right (fun o acc => match o with ReturnsErr e => Some e | _ => acc end) None os.
Definition any_serves (os : list outcome) : bool := existsb (fun o => match o with Serves _ => true | _ => false end) os.
Definition join (os : list outcome) : startup :=
  match first_error os with
  | None => Started (served os)
  | Some e => if any_serves os then StartedDespiteError (served os) e else StartupError e
  end.

(* server.rs startup: per protocol, the joined startup functions *)
Definition server_outcomes (p : protocol) (m : lmode) (has_quic : bool) : list outcome :=
  match assoc (protocol_variant p) ConfigTables.server_startup with
  | None => []
  | Some fns =>
    flat_map (fun fn => if fn =? "shadowsocks::startup"
                        then map (fun g => ss_fn g m has_quic) ConfigTables.ss_server_joined
                        else [server_fn fn has_quic]) fns
  end.
(* the sockets that end up listening *)
Definition listeners_server (p : protocol) (m : lmode) (has_ssl has_ws has_quic : bool) : listeners :=
  served (server_outcomes p m has_quic).

(* what the shadowsocks server does before any listener: `CipherKind::Unknown => bail!(..)`; the other
   protocols never look at `cipher` on the server *)
(* ... and, first of all, `if mode.enable_quic() && config.quic.is_none() { bail!(..) }` *)
Definition startup_server (p : protocol) (c : cipher) (m : lmode) (has_ssl has_ws has_quic : bool) : startup :=
  match p with
  | PShadowsocks =>
    if any_pred ConfigTables.ss_server_requires_quic_section m && negb has_quic then StartupError quic_section_msg
    else match server_n c with
         | None => StartupError (snd ConfigTables.ss_server_unknown)
         | Some _ => join (server_outcomes p m has_quic)
         end
  | _ => join (server_outcomes p m has_quic)
  end.

(* client main: `if mode.enable_udp() { UdpSocket::bind }`, `if mode.enable_tcp() { TcpListener::bind }` *)
Definition listeners_client (m : lmode) : bool * bool :=
  let on (sock : string) := match assoc sock ConfigTables.client_main_guards with Some g => mode_pred g m | None => false end in
  (on "TcpListener", on "UdpSocket").
(* ... after `if mode.enable_quic() { bail!(..) }`: a server-only mode is refused before anything is bound *)
Definition server_mode_msg : string := "mode is a server mode".
Definition client_mode_refused (m : lmode) : bool := any_pred ConfigTables.client_main_refuses m.
(* the process stays up exactly while a listener's task runs (main awaits the UDP task after the TCP loop) *)
Definition client_keeps_running (m : lmode) : bool :=
  let '(t, u) := listeners_client m in negb (client_mode_refused m) && (t || (u && ConfigTables.client_main_awaits_udp_task)).

(* ------------------------------------------------------------------------------------------ *)
(* client transports *)
Inductive transport := TTcp | TTls | TWs | TWss | TQuic | TUdp.
Definition pat_match (pat : string) (present : bool) : bool :=
  if pat =? "_" then true else if pat =? "Some" then present else if pat =? "None" then negb present else false.
Definition outbound_transport (fn : string) : option transport :=
  if fn =? "new_plain_outbound" then Some TTcp else if fn =? "new_tls_outbound" then Some TTls
  else if fn =? "new_ws_outbound" then Some TWs else if fn =? "new_wss_outbound" then Some TWss
  else if fn =? "new_quic_outbound" then Some TQuic else None.
(* sections the constructor of a transport reads with `.ok_or(anyhow!("require .. config"))?` *)
Definition transport_needs (t : transport) : bool * bool * bool :=  (* ssl, ws, quic *)
  match t with TTcp | TUdp => (false, false, false) | TTls => (true, false, false) | TWs => (false, true, false)
             | TWss => (true, true, false) | TQuic => (false, false, true) end.

(* template.rs try_transfer_tcp: `match (&config.ssl, &config.ws, &config.quic)`, first matching arm *)
Fixpoint first_tcp_arm (t : list (string * string * string * string)) (ssl ws quic : bool) : option string :=
  match t with
  | [] => None
  | (ps, pw, pq, fn) :: r => if pat_match ps ssl && pat_match pw ws && pat_match pq quic then Some fn else first_tcp_arm r ssl ws quic
  end.
Definition transport_client (has_ssl has_ws has_quic : bool) : option transport :=
  match first_tcp_arm ConfigTables.client_tcp_table has_ssl has_ws has_quic with Some fn => outbound_transport fn | None => None end.

(* client.rs transfer_udp: `match (protocol, ssl, ws, quic)`.  shadowsocks::udp::new_plain_outbound binds a
   UdpSocket; the other `new_*_outbound` are the stream transports of template.rs *)
Fixpoint first_udp_arm (t : list (string * string * string * string * string)) (p : string) (ssl ws quic : bool) : option string :=
  match t with
  | [] => None
  | (pp, ps, pw, pq, fn) :: r =>
    if (pp =? p) && pat_match ps ssl && pat_match pw ws && pat_match pq quic then Some fn else first_udp_arm r p ssl ws quic
  end.
Inductive udp_transport := UdpVia (t : transport) | UdpFlowError | UdpNoArm.
Definition transport_client_udp (p : protocol) (has_ssl has_ws has_quic : bool) : udp_transport :=
  match first_udp_arm ConfigTables.client_udp_table (protocol_variant p) has_ssl has_ws has_quic with
  | None => UdpNoArm
  | Some fn =>
    match p, outbound_transport fn with
    | PShadowsocks, Some TTcp => UdpVia TUdp
    | _, Some t =>
      let '(ns, nw, nq) := transport_needs t in
      if (implb ns has_ssl) && (implb nw has_ws) && (implb nq has_quic) then UdpVia t else UdpFlowError
    | _, None => UdpNoArm
    end
  end.

(* server.rs startup_tcp: `match (&config.ssl, &config.ws)` *)
Definition transport_server_tcp (has_ssl has_ws : bool) : option transport :=
  match find (fun r => pat_match (fst (fst r)) has_ssl) ConfigTables.server_tcp_table with
  | Some (_, tls, ws_follows_section) =>
    let ws := ws_follows_section && has_ws in
    Some (if tls then (if ws then TWss else TTls) else (if ws then TWs else TTcp))
  | None => None
  end.

(* vmess client: `security_type(kind)`: `CipherKind::X => Ok(SecurityType::Y)` .. `_ => bail!(..)`.  None = refused.
   `net` = "tcp" | "udp" (the per-flow codec constructors) | "context" (the client context of transfer_tcp, built once
   at startup): each consults security_type only if the generator found the call *)
Definition vmess_security (c : cipher) : option string := assoc (cipher_variant c) ConfigTables.vmess_security_arms.
Inductive vmess_choice := VSecurity (s : string) | VRefused | VUnchecked.
Definition vmess_client_security (net : string) (c : cipher) : vmess_choice :=
  if mem net ConfigTables.vmess_security_callers then
    match vmess_security c with Some s => VSecurity s | None => VRefused end
  else VUnchecked.

(* ------------------------------------------------------------------------------------------ *)
(* keys *)
Inductive net := NetTcp | NetUdp.
Inductive side := OnClient | OnServer.
Definition net_name (n : net) := match n with NetTcp => "tcp" | NetUdp => "udp" end.
Definition side_name (s : side) := match s with OnClient => "client" | OnServer => "server" end.

(* which function turns `password` into the key: `if kind.is_aead_2022() { f(&password) } else { g(password.as_bytes()) }` *)
Definition key_path (c : cipher) (n : net) (s : side) : option string :=
  match find (fun r => (fst (fst (fst r)) =? side_name s) && (snd (fst (fst r)) =? net_name n)) ConfigTables.key_paths with
  | Some (_, _, f2022, flegacy) => Some (if is_aead_2022 c then f2022 else flegacy)
  | None => None
  end.

Section Keys.
  Variable P : prims.

  (* protocol/shadowsocks.rs aead::openssl_bytes_to_key::<N> (EVP_BytesToKey with MD5, one round, no salt),
     including the two `copy_from_slice` calls that panic when the lengths differ *)
  Fixpoint evp_loop (fuel : nat) (n : N) (pw d acc : bytes) (index : N) : res bytes :=
    if (index <? n)%N then
      match fuel with
      | O => Panic
      | S fuel' =>
        let d' := p_md5 P (d ++ pw)%list in
        let m := N.min (lenN d') (n - index) in
        if (n - index =? m)%N then evp_loop fuel' n pw d' (acc ++ takeN m d')%list (index + lenN d')%N else Panic
      end
    else Ok acc.
  Definition openssl_bytes_to_key (n : N) (pw : bytes) : res bytes :=
    let d := p_md5 P pw in
    let len := N.min n (lenN d) in
    if (len =? lenN d)%N then evp_loop (S (N.to_nat n)) n pw d d (lenN d) else Panic.

  (* base64 decoding of one key is a parameter: None = base64ct::Error *)
  Variable b64 : string -> option bytes.

  (* str::split(sep) on a one-character separator: never empty, "" -> [""] *)
  Fixpoint split_on (sep : ascii) (s : string) : list string :=
    match s with
    | EmptyString => [EmptyString]
    | String c r =>
      if Ascii.eqb c sep then EmptyString :: split_on sep r
      else match split_on sep r with h :: t => String c h :: t | [] => [String c EmptyString] end
    end.
  Definition keys_separator : ascii := match ConfigTables.config_keys_separator with String c _ => c | EmptyString => ":"%char end.
  Definition length_refused (len n : N) : bool :=
    let t := ConfigTables.config_keys_length_test in
    if t =? "!=" then negb (len =? n)%N else if t =? "<" then (len <? n)%N else if t =? ">" then (n <? len)%N else false.

  (* aead_2022::config_password_to_keys::<N>: every ':'-separated part must decode to exactly N bytes;
     the last key is the encryption key, the ones before it the identity keys *)
  Fixpoint decode_keys (n : N) (parts : list string) : option (list bytes) :=
    match parts with
    | [] => Some []
    | s :: r =>
      match b64 s with
      | None => None
      | Some k => if length_refused (lenN k) n then None
                  else match decode_keys n r with Some ks => Some (k :: ks) | None => None end
      end
    end.
  Definition config_password_to_keys (n : N) (pw : string) : option (bytes * list bytes) :=
    match decode_keys n (split_on keys_separator pw) with
    | Some ks => match rev ks with last :: init_rev => Some (last, rev init_rev) | [] => None end
    | None => None
    end.

  (* manager/shadowsocks.rs ServerUser::try_from: decode into `[0; N]`, then `len != N` is refused; decoding
     more than N bytes into the buffer is an InvalidLength error of the decoder itself *)
  Definition user_key (n : N) (pw : string) : option bytes :=
    match b64 pw with Some k => if (lenN k =? n)%N then Some k else None | None => None end.

  Definition bytes_of_string (s : string) : bytes := map N_of_ascii (list_ascii_of_string s).
  Definition string_of_bytes (b : bytes) : string := string_of_list_ascii (map ascii_of_N b).

  (* the key a configuration yields on one path: KeyOk key identity_keys | KeyError | KeyPanic | NoKey (path unknown) *)
  Inductive key_result := KeyOk (k : bytes) (ik : list bytes) | KeyError | KeyPanic | NoKey.
  Definition derive_key (c : cipher) (nt : net) (sd : side) (n : N) (pw : string) : key_result :=
    match key_path c nt sd with
    | None => NoKey
    | Some f =>
      if f =? "config_password_to_keys" then
        match config_password_to_keys n pw with Some (k, ik) => KeyOk k ik | None => KeyError end
      else if f =? "openssl_bytes_to_key" then
        match openssl_bytes_to_key n (bytes_of_string pw) with Ok k => KeyOk k [] | Err _ => KeyError | Panic => KeyPanic end
      else NoKey
    end.
End Keys.

(* ------------------------------------------------------------------------------------------ *)
(* base64ct::Base64 (standard alphabet, padded, strict) -- a concrete instance of the parameter `b64`,
   compared with the real crate by the harness *)
Open Scope N_scope.
Definition b64_val (c : ascii) : option N :=
  let n := N_of_ascii c in
  if (65 <=? n) && (n <=? 90) then Some (n - 65)
  else if (97 <=? n) && (n <=? 122) then Some (n - 71)
  else if (48 <=? n) && (n <=? 57) then Some (n + 4)
  else if n =? 43 then Some 62 else if n =? 47 then Some 63 else None.
Definition is_pad (c : ascii) : bool := N_of_ascii c =? 61.

Definition b64_full (a b c d : ascii) : option bytes :=
  match b64_val a, b64_val b, b64_val c, b64_val d with
  | Some x, Some y, Some z, Some w => Some [x * 4 + y / 16; (y mod 16) * 16 + z / 4; (z mod 4) * 64 + w]
  | _, _, _, _ => None
  end.
(* last group: "xx==" one byte, "xxx=" two bytes; the unused low bits must be zero (canonical encoding) *)
Definition b64_last (a b c d : ascii) : option bytes :=
  if is_pad d then
    if is_pad c then
      match b64_val a, b64_val b with
      | Some x, Some y => if y mod 16 =? 0 then Some [x * 4 + y / 16] else None
      | _, _ => None
      end
    else
      match b64_val a, b64_val b, b64_val c with
      | Some x, Some y, Some z => if z mod 4 =? 0 then Some [x * 4 + y / 16; (y mod 16) * 16 + z / 4] else None
      | _, _, _ => None
      end
  else b64_full a b c d.
Fixpoint b64_dec (l : list ascii) : option bytes :=
  match l with
  | [] => Some []
  | a :: b :: c :: d :: rest =>
    match rest with
    | [] => b64_last a b c d
    | _ => match b64_full a b c d, b64_dec rest with Some x, Some y => Some (x ++ y)%list | _, _ => None end
    end
  | _ => None
  end.
Definition b64_decode (s : string) : option bytes := b64_dec (list_ascii_of_string s).

(* ------------------------------------------------------------------------------------------ *)
(* byte-string entry points for the extracted driver (the harness passes UTF-8 bytes) *)
Definition q_cipher (name : bytes) : option bytes :=
  option_map (fun c => bytes_of_string (cipher_variant c)) (parse_cipher (string_of_bytes name)).
Definition q_protocol (name : bytes) : option bytes :=
  option_map (fun p => bytes_of_string (protocol_variant p)) (parse_protocol (string_of_bytes name)).
Definition q_mode (name : bytes) : option (bytes * (bool * bool * bool)) :=
  option_map (fun m => (bytes_of_string (mode_variant m), (enable_tcp m, enable_udp m, enable_quic m))) (parse_mode (string_of_bytes name)).
(* a variant name -> (is_2022, eih, tag_size, algorithm) *)
Definition q_kind (variant : bytes) : option (bool * bool * res N * res N) :=
  option_map (fun c => (is_aead_2022 c, eih_supported c, tag_size c, cipher_method c)) (assoc (string_of_bytes variant) cipher_variants).
Definition q_object (c : option bytes) (p : bytes) (m : option bytes) : option (bytes * bytes * bytes) :=
  option_map (fun '(c, p, m) => (bytes_of_string (cipher_variant c), bytes_of_string (protocol_variant p), bytes_of_string (mode_variant m)))
             (parse_server_config (option_map string_of_bytes c) (string_of_bytes p) (option_map string_of_bytes m)).
Definition q_kdf (P : prims) (n : N) (pw : bytes) : res bytes := openssl_bytes_to_key P n pw.
Definition q_b64 (s : bytes) : option bytes := b64_decode (string_of_bytes s).
Definition q_keys (n : N) (pw : bytes) : option (bytes * list bytes) := config_password_to_keys b64_decode n (string_of_bytes pw).
Definition q_user (n : N) (pw : bytes) : option bytes := user_key b64_decode n (string_of_bytes pw).
Definition q_vmess (net variant : bytes) : option vmess_choice :=
  option_map (vmess_client_security (string_of_bytes net)) (assoc (string_of_bytes variant) cipher_variants).
(* key derivation of one path of one kind: side/net as names, N by the path's own dispatch *)
Definition q_path (P : prims) (sd nt variant pw : bytes) : option (option N * key_result) :=
  match assoc (string_of_bytes variant) cipher_variants with
  | None => None
  | Some c =>
    let sd' := if (string_of_bytes sd =? "client")%string then OnClient else OnServer in
    let nt' := if (string_of_bytes nt =? "tcp")%string then NetTcp else NetUdp in
    let n := match sd', nt' with OnClient, NetTcp => client_tcp_n c | OnClient, NetUdp => client_udp_n c | OnServer, _ => server_n c end in
    Some (n, match n with Some n => derive_key P b64_decode c nt' sd' n (string_of_bytes pw) | None => NoKey end)
  end.

(* client startup (client.rs main / transfer_tcp / transfer_udp): a server-only mode is refused first; a Shadowsocks
   client whose kind has no key-size arm logs `error!(..)` and serves nothing on that socket; a VMess client builds its
   context with security_type(cipher) when the TCP listener starts (an unsupported cipher: "create client context
   failed", no TCP service) and per flow on UDP (see vmess_client_security "udp"); Trojan never looks at `cipher` *)
Definition vmess_cipher_msg : string := "cipher is not supported by vmess".
Definition startup_client (p : protocol) (c : cipher) (m : lmode) : startup :=
  if client_mode_refused m then StartupError server_mode_msg else
  let '(t, u) := listeners_client m in
  let started := Started {| l_tcp := t; l_udp := u; l_quic := false |} in
  match p with
  | PShadowsocks =>
    match client_tcp_n c, client_udp_n c with
    | None, _ => StartupError (snd ConfigTables.client_tcp_unknown)
    | _, None => StartupError (snd ConfigTables.client_udp_unknown)
    | _, _ => started
    end
  | PVMess =>
    match vmess_client_security "context" c with
    | VRefused => if t then StartupError vmess_cipher_msg else started
    | _ => started
    end
  | PTrojan => started
  end.
