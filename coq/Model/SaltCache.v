(* Timed model of the shadowsocks-2022 salt cache.  Definitions only (facts: Proofs/SaltCacheFacts.v).

   Mirrors
     lru_time_cache 0.11.11 src/lib.rs   remove_expired l.394-417, do_notify_get_mut l.339-359,
                                         do_notify_insert l.361-379, remove_lru l.420-430
     octo-squirrel/src/codec/shadowsocks/tcp.rs
         Context::new l.38-43     ttl 60 s, capacity 102400
         check_nonce l.45-51      lock(); get(salt).is_some()
         set_nonce   l.54-57      lock(); insert(salt, ()).is_none()
         init_aead_2022_payload_decoder l.192 check_nonce, l.218 validate_timestamp, l.230 set_nonce
     octo-squirrel/src/codec/shadowsocks/aead_2022.rs l.18, l.37-38
         now.abs_diff(timestamp) > SERVER_STREAM_TIMESTAMP_MAX_DIFF (= 30) is an error

   The cache is the VecDeque `list` (order of last use, front = least recently used) with the time
   of each key from `map`.  Times are N (seconds). *)
From Coq Require Import NArith List Bool.
Import ListNotations.
Open Scope N_scope.

Definition salt := N.
Definition entry := (salt * N)%type.      (* key, time of insertion or of the last refresh *)
Definition cache := list entry.           (* front = least recently used *)

Record params := { ttl : N; cap : N; maxdiff : N }.

(* the configuration of the repaired code, and the one before the repair *)
Definition current : params := {| ttl := 60; cap := 102400; maxdiff := 30 |}.
Definition before_repair : params := {| ttl := 30; cap := 102400; maxdiff := 30 |}.

(* remove_expired: walk from the LRU end, stop at the first entry with  t + ttl >= now *)
Fixpoint remove_expired (ttl now : N) (c : cache) : cache :=
  match c with
  | [] => []
  | (k, t) :: r => if t + ttl <? now then remove_expired ttl now r else c
  end.

Definition mem (k : salt) (c : cache) : bool := existsb (fun e => fst e =? k) c.
Definition drop (k : salt) (c : cache) : cache := filter (fun e => negb (fst e =? k)) c.

(* update_key + `result.1 = now`: the key moves to the MRU end with the time now *)
Definition touch (k : salt) (now : N) (c : cache) : cache := drop k c ++ [(k, now)].

(* remove_lru: if len >= capacity, drain ..= len - capacity *)
Definition remove_lru (cap : N) (c : cache) : cache :=
  let n := N.of_nat (length c) in
  if cap <=? n then skipn (N.to_nat (n - cap + 1)) c else c.

(* get: drops the expired entries, then refreshes a hit (the map lookup itself does not look at the time) *)
Definition get (P : params) (now : N) (k : salt) (c : cache) : bool * cache :=
  let c1 := remove_expired (ttl P) now c in
  if mem k c1 then (true, touch k now c1) else (false, c1).

(* insert: drops the expired entries; reports whether the key was present; evicts when full *)
Definition insert (P : params) (now : N) (k : salt) (c : cache) : bool * cache :=
  let c1 := remove_expired (ttl P) now c in
  if mem k c1 then (true, touch k now c1) else (false, remove_lru (cap P) c1 ++ [(k, now)]).

Definition abs_diff (a b : N) : N := if a <? b then b - a else a - b.

(* ---------------- the server's acceptance of one presented request header ---------------- *)
(* a presentation: the salt and the timestamp sealed with it *)
Definition presentation := (salt * N)%type.

(* the three steps of init_aead_2022_payload_decoder that matter here; true = the request is accepted *)
Definition accept (P : params) (now : N) (p : presentation) (c : cache) : bool * cache :=
  let '(s, ts) := p in
  let '(hit, c1) := get P now s c in                       (* l.192 check_nonce *)
  if hit then (false, c1)
  else if maxdiff P <? abs_diff now ts then (false, c1)    (* l.218 validate_timestamp *)
  else let '(present, c2) := insert P now s c1 in          (* l.230 set_nonce *)
       (negb present, c2).

(* a history: presentations with the server time at which each is processed *)
Definition history := list (N * presentation).

Fixpoint run (P : params) (c : cache) (h : history) : cache * list bool :=
  match h with
  | [] => (c, [])
  | (now, p) :: r =>
      let '(b, c1) := accept P now p c in
      let '(c2, bs) := run P c1 r in (c2, b :: bs)
  end.

(* the server clock does not run backwards *)
Fixpoint ordered (last : N) (h : history) : Prop :=
  match h with
  | [] => True
  | (now, _) :: r => last <= now /\ ordered now r
  end.

(* the cache is never full when something is to be inserted (no LRU eviction of a live salt) *)
Fixpoint never_full (P : params) (c : cache) (h : history) : Prop :=
  match h with
  | [] => True
  | (now, p) :: r =>
      N.of_nat (length (remove_expired (ttl P) now c)) < cap P /\ never_full P (snd (accept P now p c)) r
  end.

(* ---------------- concurrent copies ---------------- *)
(* a connection task between the lock-protected calls *)
Inductive pc :=
| PCheck                 (* before check_nonce *)
| PInsert                (* salt not seen, timestamp fine, before set_nonce *)
| PDone (accepted : bool).

(* one lock-protected call of a task: the Mutex makes each of them atomic *)
Definition micro (P : params) (now : N) (p : presentation) (st : pc) (c : cache) : pc * cache :=
  let '(s, ts) := p in
  match st with
  | PCheck =>
      let '(hit, c1) := get P now s c in
      if hit then (PDone false, c1)
      else if maxdiff P <? abs_diff now ts then (PDone false, c1)
      else (PInsert, c1)
  | PInsert =>
      let '(present, c2) := insert P now s c in (PDone (negb present), c2)
  | PDone b => (PDone b, c)
  end.

Fixpoint upd {A} (i : nat) (x : A) (l : list A) : list A :=
  match l, i with
  | [], _ => []
  | _ :: t, O => x :: t
  | h :: t, S j => h :: upd j x t
  end.

(* k copies of the same presentation, all processed at server time `now`; a schedule names the
   task that makes its next call *)
Definition sched_step (P : params) (now : N) (p : presentation) (sys : list pc * cache) (i : nat) : list pc * cache :=
  let '(ths, c) := sys in
  match nth_error ths i with
  | Some st => let '(st', c') := micro P now p st c in (upd i st' ths, c')
  | None => sys
  end.

Definition run_sched (P : params) (now : N) (p : presentation) (k : nat) (c : cache) (sched : list nat) : list pc * cache :=
  fold_left (sched_step P now p) sched (repeat PCheck k, c).

Definition is_acc (st : pc) : bool := match st with PDone true => true | _ => false end.
Definition is_done (st : pc) : bool := match st with PDone _ => true | _ => false end.
Definition accepted (ths : list pc) : nat := length (filter is_acc ths).

(* ---------------- the code before the repair (commit 4ebf61f) ---------------- *)
(* check_nonce: try_lock() failing was read as "not seen";
   set_nonce:   try_lock() failing skipped the insertion, and the result of the insertion was not
                looked at in either case: the request went on *)
Definition micro_old (P : params) (now : N) (p : presentation) (lock_free : bool) (st : pc) (c : cache) : pc * cache :=
  let '(s, ts) := p in
  match st with
  | PCheck =>
      let '(hit, c1) := if lock_free then get P now s c else (false, c) in
      if hit then (PDone false, c1)
      else if maxdiff P <? abs_diff now ts then (PDone false, c1)
      else (PInsert, c1)
  | PInsert =>
      if lock_free then (PDone true, snd (insert P now s c)) else (PDone true, c)
  | PDone b => (PDone b, c)
  end.

Definition sched_step_old (P : params) (now : N) (p : presentation) (sys : list pc * cache) (il : nat * bool) : list pc * cache :=
  let '(ths, c) := sys in
  match nth_error ths (fst il) with
  | Some st => let '(st', c') := micro_old P now p (snd il) st c in (upd (fst il) st' ths, c')
  | None => sys
  end.

Definition run_sched_old (P : params) (now : N) (p : presentation) (k : nat) (c : cache) (sched : list (nat * bool)) :=
  fold_left (sched_step_old P now p) sched (repeat PCheck k, c).
