(* codec/aead.rs: IncreasingNonceGenerator and CountingNonceGenerator.  Definitions only. *)
From Coq Require Import NArith List Bool.
From Octo Require Import Base.Bytes.
Import ListNotations.
Open Scope N_scope.

(* for i in 0..len { nonce[i] = nonce[i].overflowing_add(1).0; if nonce[i] != 0 { break } } *)
Fixpoint inc (l : bytes) : bytes :=
  match l with
  | [] => []
  | b :: t => let b' := (b + 1) mod 256 in if b' =? 0 then b' :: inc t else b' :: t
  end.
Definition inc_init : bytes := repeat 255 12.     (* IncreasingNonceGenerator::init() *)

Fixpoint le_val (l : bytes) : N := match l with [] => 0 | b :: t => b + 256 * le_val t end.

(* CountingNonceGenerator: nonce[..2] = count.to_be_bytes(); count = count.overflowing_add(1).0; &nonce[..size] *)
Definition counting_splice (count : N) (iv : bytes) : bytes := put_u16 (count mod 65536) ++ dropN 2 iv.
Definition counting_next (count : N) : N := (count + 1) mod 65536.
