(* String::from_utf8 validity (RFC 3629: no overlong forms, no surrogates, <= U+10FFFF), as a
   total boolean function on byte lists.  Structural recursion on fuel = length. *)
From Coq Require Import NArith List Bool.
From Octo Require Import Base.Bytes.
Import ListNotations.
Open Scope N_scope.

Definition in_range (lo hi x : N) : bool := (lo <=? x) && (x <=? hi).
Definition cont (x : N) : bool := in_range 128 191 x.

Fixpoint utf8_go (fuel : nat) (l : bytes) : bool :=
  match fuel with
  | O => match l with [] => true | _ => false end
  | S f =>
    match l with
    | [] => true
    | b0 :: t =>
      if b0 <? 128 then utf8_go f t
      else if in_range 194 223 b0 then
        match t with b1 :: t' => cont b1 && utf8_go f t' | _ => false end
      else if b0 =? 224 then
        match t with b1 :: b2 :: t' => in_range 160 191 b1 && cont b2 && utf8_go f t' | _ => false end
      else if in_range 225 236 b0 || in_range 238 239 b0 then
        match t with b1 :: b2 :: t' => cont b1 && cont b2 && utf8_go f t' | _ => false end
      else if b0 =? 237 then
        match t with b1 :: b2 :: t' => in_range 128 159 b1 && cont b2 && utf8_go f t' | _ => false end
      else if b0 =? 240 then
        match t with b1 :: b2 :: b3 :: t' => in_range 144 191 b1 && cont b2 && cont b3 && utf8_go f t' | _ => false end
      else if in_range 241 243 b0 then
        match t with b1 :: b2 :: b3 :: t' => cont b1 && cont b2 && cont b3 && utf8_go f t' | _ => false end
      else if b0 =? 244 then
        match t with b1 :: b2 :: b3 :: t' => in_range 128 143 b1 && cont b2 && cont b3 && utf8_go f t' | _ => false end
      else false
    end
  end.
Definition utf8_valid (l : bytes) : bool := utf8_go (length l) l.
