(* Loop shapes: which failure ENDS which long-lived service loop, read off the CURRENT source.
   Definitions only (facts: Proofs/LoopShapeFacts.v).

   Model/Loops.v is a hand-written model of the service loops; its `*_fatal` sets say which events end a loop.
   This file connects that model to tables which tools/gen_from_source.py (gen_loop_shapes) extracts from the
   source text (Generated/LoopShapes.v): for every loop, every FALLIBLE POINT that runs on the loop's own task, in
   source order, with its DISPOSITION
       Propagate k   `?`, `return Err`, `break`, a loop condition (`while let Ok(..) = accept()`): the loop ENDS
       Handled k     a `match` / `if let Err` arm that logs and `continue`s or falls through: the loop goes on
       Parked        a refutable tokio::select! pattern that does not match: that branch is disabled until another
                     branch completes (the loop neither ends nor handles the value)
       InTask        the point is inside tokio::spawn(..): its failure can at most end the spawned task
   from
     S   octo-squirrel-server/src/server.rs              startup_tcp (both arms), startup_quic
     SS  octo-squirrel-server/src/server/shadowsocks.rs  startup_udp, UdpAssociateContext::relay (+ create: the spawn)
     CT  octo-squirrel-client/src/client/template.rs     transfer_tcp, transfer_udp, new_binding (+ its reply task)

   What is written by hand here: which points an EVENT of Model/Loops.v goes through (`*_points`).  Each event
   names the statement it is about in Loops.v; the maps below name the same statements by their point.  An event
   ENDS its loop when one of its points is `Propagate`; it is CONTAINED when every one of its points exists in the
   table and is `Handled` or `InTask` -- and `InTask` when the fault is a STALL (a peer that never answers): an
   await on the loop's own task that a peer controls blocks every other user even if its error is handled.

   Two-level events.  A datagram fault that happens inside an association's task (replayed, unresolvable,
   unreachable) is seen by the datagram loop only if it ENDS that task: the next delivery to the association then
   fails (`try_send`).  `sudp_points` therefore consults the association's own table: the delivery points count
   for a datagram fault exactly when that fault ends the association's loop (the chain of the repaired defect
   F-08a/F-11a: `break` on a replayed packet + `try_send(..)?`), and always for `UAssocEnded`. *)
From Coq Require Import NArith List Bool.
From Octo Require Import Generated.LoopShapes Model.Loops.
Import ListNotations.

Scheme Equality for point.      (* point_beq *)

Definition table := list (point * disposition).

(* ---------- the generated tables, as one value (so that regressions can be stated as other values) ---------- *)
Record shapes := {
  sh_stcp_plain : table;        (* S  startup_tcp (None, ws) arm *)
  sh_stcp_tls : table;          (* S  startup_tcp (Some(ssl), ws) arm *)
  sh_squic : table;             (* S  startup_quic *)
  sh_sudp : table;              (* SS startup_udp *)
  sh_sudp_select : list (point * bool);
  sh_sudp_else : option exit_kind;
  sh_assoc : table;             (* SS UdpAssociateContext::relay, relative to the association's own loop *)
  sh_assoc_spawned : bool;      (* SS UdpAssociateContext::create runs relay inside tokio::spawn *)
  sh_ctcp : table;              (* CT transfer_tcp *)
  sh_cudp : table;              (* CT transfer_udp *)
  sh_cudp_select : list (point * bool);
  sh_cudp_else : option exit_kind;
  sh_binding : table;           (* CT new_binding: Propagate = out of the helper, to its call sites in transfer_udp *)
  sh_reply_task : table }.      (* CT new_binding's spawned task, relative to its own loop *)

Definition current_shapes : shapes := {|
  sh_stcp_plain := server_tcp_plain_points;   sh_stcp_tls := server_tcp_tls_points;
  sh_squic := server_quic_points;
  sh_sudp := server_udp_points;               sh_sudp_select := server_udp_select;   sh_sudp_else := server_udp_select_else;
  sh_assoc := server_assoc_points;            sh_assoc_spawned := server_assoc_relay_spawned;
  sh_ctcp := client_tcp_points;
  sh_cudp := client_udp_points;               sh_cudp_select := client_udp_select;   sh_cudp_else := client_udp_select_else;
  sh_binding := client_binding_points;        sh_reply_task := client_reply_task_points |}.

(* ---------- reading a table ---------- *)
(* every disposition recorded for a point (a point can occur several times: `new_codec(..)?` in both spawn calls) *)
Definition disps (p : point) (t : table) : list disposition :=
  map snd (filter (fun r => point_beq (fst r) p) t).
Definition is_propagate (d : disposition) : bool := match d with Propagate _ => true | _ => false end.
Definition is_parked (d : disposition) : bool := match d with Parked => true | _ => false end.
Definition propagates (t : table) (p : point) : bool := existsb is_propagate (disps p t).
Definition parks (t : table) (p : point) : bool := existsb is_parked (disps p t).
Definition present (t : table) (p : point) : bool := match disps p t with [] => false | _ => true end.

(* a fault either makes its point FAIL (an error value comes back) or STALL (nothing ever comes back) *)
Inductive fault_kind := Fails | Stalls.
Definition keeps_service (k : fault_kind) (d : disposition) : bool :=
  match d, k with
  | InTask, _ => true
  | Handled _, Fails => true
  | _, _ => false
  end.
Definition contained (t : table) (kp : fault_kind * point) : bool :=
  present t (snd kp) && forallb (keeps_service (fst kp)) (disps (snd kp) t).
Definition all_contained (t : table) (l : list (fault_kind * point)) : bool := forallb (contained t) l.
Definition any_propagates (t : table) (l : list (fault_kind * point)) : bool :=
  existsb (fun kp => propagates t (snd kp)) l.

(* tokio::select!: `else` runs only when EVERY branch is disabled, and only a refutable pattern can disable one *)
Definition else_reachable (sel : list (point * bool)) : bool := forallb snd sel.

(* ===================================================================================== *)
(* 1. server TCP accept loop                                                              *)
(* ===================================================================================== *)
Definition conn_fault_points (tls ws : bool) (f : conn_fault) : list (fault_kind * point) :=
  let relay := if ws then PWsThenRelay else PRelay in
  match f with
  | NoFault => []
  | TlsHandshakeFail => if tls then [(Fails, PTlsHandshake)] else []
  | TlsHandshakeStall => if tls then [(Stalls, PTlsHandshake)] else []
  | WsHandshakeFail => if ws then [(Fails, PWsThenRelay)] else []
  | WsHandshakeStall => if ws then [(Stalls, PWsThenRelay)] else []
  | DecodeError | FirstNotConnect | EarlyClose | Unresolvable | Unreachable | PeerReset => [(Fails, relay)]
  end.
Definition stcp_points (tls ws : bool) (e : stcp_event) : list (fault_kind * point) :=
  match e with
  | SAcceptError => [(Fails, PAccept)]
  | SCodecError _ => [(Fails, PNewCodec)]
  | SConn _ f => conn_fault_points tls ws f
  | STaskDone _ => []
  end.
Definition stcp_table (T : shapes) (tls : bool) : table := if tls then sh_stcp_tls T else sh_stcp_plain T.
Definition stcp_ends (T : shapes) (tls ws : bool) (e : stcp_event) : bool :=
  any_propagates (stcp_table T tls) (stcp_points tls ws e).
Definition stcp_contained (T : shapes) (tls ws : bool) (e : stcp_event) : bool :=
  all_contained (stcp_table T tls) (stcp_points tls ws e).

(* ===================================================================================== *)
(* 2. server QUIC accept loop                                                             *)
(* ===================================================================================== *)
Definition conn_fault_kind (f : conn_fault) : fault_kind :=
  match f with TlsHandshakeStall | WsHandshakeStall => Stalls | _ => Fails end.
Definition squic_points (e : squic_event) : list (fault_kind * point) :=
  match e with
  | QCodecError _ => [(Fails, PNewCodec)]
  | QConn _ QNoFault => []
  | QConn _ QHandshakeFail => [(Fails, PQuicHandshake)]
  | QConn _ QHandshakeStall => [(Stalls, PQuicHandshake)]
  | QConn _ QNoStream => [(Stalls, PQuicAcceptBi)]       (* a peer that opens no stream: accept_bi waits or fails *)
  | QConn _ (QRelayFault NoFault) => []
  | QConn _ (QRelayFault f) => [(conn_fault_kind f, PQuicRelay)]
  | QTaskDone _ => []
  | QEndpointClosed => [(Fails, PEndpointAccept)]
  end.
Definition squic_ends (T : shapes) (e : squic_event) : bool := any_propagates (sh_squic T) (squic_points e).
Definition squic_contained (T : shapes) (e : squic_event) : bool := all_contained (sh_squic T) (squic_points e).

(* ===================================================================================== *)
(* 3. client TCP accept loop                                                              *)
(* ===================================================================================== *)
Definition ctcp_points (e : ctcp_event) : list (fault_kind * point) :=
  match e with
  | CAcceptError => [(Fails, PAccept)]
  | CConn _ CNoFault => []
  | CConn _ CLocalHandshakeFail => [(Fails, PLocalHandshake)]
  | CConn _ CLocalHandshakeStall => [(Stalls, PLocalHandshake)]
  | CConn _ COutboundStall => [(Stalls, PTryTransfer)]
  | CConn _ (CCodecError | COutboundFail | COpenFail | CPeerReset) => [(Fails, PTryTransfer)]
  | CTaskDone _ => []
  end.
Definition ctcp_ends (T : shapes) (e : ctcp_event) : bool := any_propagates (sh_ctcp T) (ctcp_points e).
Definition ctcp_contained (T : shapes) (e : ctcp_event) : bool := all_contained (sh_ctcp T) (ctcp_points e).

(* ===================================================================================== *)
(* 4. server UDP loop and its association tasks                                            *)
(* ===================================================================================== *)
(* inside the association's task (SS relay) *)
Definition assoc_points (f : dgram_fault) : list (fault_kind * point) :=
  match f with
  | DReplayed => [(Fails, PReplayCheck)]
  | DUnresolvable => [(Fails, PResolve)]
  | DSendPeerFails => [(Fails, PSendPeer)]
  | _ => []
  end.
Definition assoc_task_ends (T : shapes) (f : dgram_fault) : bool := any_propagates (sh_assoc T) (assoc_points f).
(* what ends an association on its own: the target socket fails, the server's packet ids run out *)
Definition assoc_end_causes : list point := [PPeerRecv; PPacketIdNext].
(* the datagram loop delivers to an association whose task has ended *)
Definition delivery_points : list (fault_kind * point) := [(Fails, PAssocSend); (Fails, PAssocSendNew)].
Definition dgram_points (T : shapes) (f : dgram_fault) : list (fault_kind * point) :=
  match f with
  | DUndecodable => [(Fails, PDecodeClient)]
  | DAssocCreateFails => [(Fails, PAssocCreate)]
  | _ => []
  end ++ (if assoc_task_ends T f then delivery_points else []).
Definition sudp_points (T : shapes) (e : sudp_event) : list (fault_kind * point) :=
  match e with
  | URecvError => [(Fails, PRecvClient)]
  | UDatagram _ _ f => dgram_points T f
  | UAssocEnded _ => delivery_points
  | UPeerReply _ _ RNoFault => []
  | UPeerReply _ _ REncodeFails => [(Fails, PEncodeReply)]
  | UPeerReply _ _ RSendFails => [(Fails, PSendReply)]
  | UEvict _ => []
  | UChannelClosed => [(Fails, PRecvChannel)]
  end.
Definition sudp_task_points (e : sudp_event) : list (fault_kind * point) :=
  match e with UDatagram _ _ f => assoc_points f | _ => [] end.
Definition sudp_ends (T : shapes) (e : sudp_event) : bool := any_propagates (sh_sudp T) (sudp_points T e).
(* contained: on the datagram loop, and -- for what happens in the association -- inside a spawned task *)
Definition sudp_contained (T : shapes) (e : sudp_event) : bool :=
  all_contained (sh_sudp T) (sudp_points T e) &&
  (match sudp_task_points e with [] => true | l => sh_assoc_spawned T && forallb (fun kp => present (sh_assoc T) (snd kp)) l end).

(* ===================================================================================== *)
(* 5. client UDP loop and its reply tasks                                                  *)
(* ===================================================================================== *)
Definition cudp_points (e : cudp_event) : list (fault_kind * point) :=
  match e with
  | LTick | LEvict _ | LMalformed | LReplyTaskEnded _ => []
  | LReply _ _ true => []
  | LReply _ _ false => [(Fails, PSendLocalReply)]
  | LDatagram _ _ LNoFault => []
  | LDatagram _ _ LOutboundFails => [(Fails, PNewOutVacant); (Fails, PNewOutRetry)]
  | LDatagram _ _ LFirstSendFails => [(Fails, PNewBindingVacant); (Fails, PNewBindingRetry)]
  | LDatagram _ _ LSendFails => [(Fails, PSendOutbound)]
  | LLocalRecvError => [(Fails, PRecvLocal)]
  | LAllBranchesDisabled => []
  end.
(* inside the reply task spawned by new_binding *)
Definition cudp_task_points (e : cudp_event) : list (fault_kind * point) :=
  match e with LReplyTaskEnded _ => [(Fails, PServerRecv); (Fails, PServerDecode)] | _ => [] end.
Definition cudp_ends (T : shapes) (e : cudp_event) : bool :=
  match e with
  | LAllBranchesDisabled =>                (* `else => break`; without an `else` tokio::select! panics: the task ends either way *)
      match sh_cudp_select T with [] => false | _ => true end
  | LDatagram _ _ LFirstSendFails =>       (* the failure must first come OUT of new_binding *)
      propagates (sh_binding T) PFirstSend && any_propagates (sh_cudp T) (cudp_points e)
  | _ => any_propagates (sh_cudp T) (cudp_points e)
  end.
Definition cudp_parks (T : shapes) (e : cudp_event) : bool :=
  existsb (fun kp => parks (sh_cudp T) (snd kp)) (cudp_points e).
Definition cudp_contained (T : shapes) (e : cudp_event) : bool :=
  all_contained (sh_cudp T) (cudp_points e) && all_contained (sh_binding T) (cudp_task_points e).

(* ---------- regressions, as other table values ---------- *)
Definition with_stcp_plain (T : shapes) (t : table) : shapes :=
  {| sh_stcp_plain := t; sh_stcp_tls := sh_stcp_tls T; sh_squic := sh_squic T; sh_sudp := sh_sudp T;
     sh_sudp_select := sh_sudp_select T; sh_sudp_else := sh_sudp_else T; sh_assoc := sh_assoc T;
     sh_assoc_spawned := sh_assoc_spawned T; sh_ctcp := sh_ctcp T; sh_cudp := sh_cudp T;
     sh_cudp_select := sh_cudp_select T; sh_cudp_else := sh_cudp_else T; sh_binding := sh_binding T;
     sh_reply_task := sh_reply_task T |}.
Definition with_stcp_tls (T : shapes) (t : table) : shapes :=
  {| sh_stcp_plain := sh_stcp_plain T; sh_stcp_tls := t; sh_squic := sh_squic T; sh_sudp := sh_sudp T;
     sh_sudp_select := sh_sudp_select T; sh_sudp_else := sh_sudp_else T; sh_assoc := sh_assoc T;
     sh_assoc_spawned := sh_assoc_spawned T; sh_ctcp := sh_ctcp T; sh_cudp := sh_cudp T;
     sh_cudp_select := sh_cudp_select T; sh_cudp_else := sh_cudp_else T; sh_binding := sh_binding T;
     sh_reply_task := sh_reply_task T |}.
Definition with_squic (T : shapes) (t : table) : shapes :=
  {| sh_stcp_plain := sh_stcp_plain T; sh_stcp_tls := sh_stcp_tls T; sh_squic := t; sh_sudp := sh_sudp T;
     sh_sudp_select := sh_sudp_select T; sh_sudp_else := sh_sudp_else T; sh_assoc := sh_assoc T;
     sh_assoc_spawned := sh_assoc_spawned T; sh_ctcp := sh_ctcp T; sh_cudp := sh_cudp T;
     sh_cudp_select := sh_cudp_select T; sh_cudp_else := sh_cudp_else T; sh_binding := sh_binding T;
     sh_reply_task := sh_reply_task T |}.
Definition with_sudp (T : shapes) (t : table) : shapes :=
  {| sh_stcp_plain := sh_stcp_plain T; sh_stcp_tls := sh_stcp_tls T; sh_squic := sh_squic T; sh_sudp := t;
     sh_sudp_select := sh_sudp_select T; sh_sudp_else := sh_sudp_else T; sh_assoc := sh_assoc T;
     sh_assoc_spawned := sh_assoc_spawned T; sh_ctcp := sh_ctcp T; sh_cudp := sh_cudp T;
     sh_cudp_select := sh_cudp_select T; sh_cudp_else := sh_cudp_else T; sh_binding := sh_binding T;
     sh_reply_task := sh_reply_task T |}.
Definition with_assoc (T : shapes) (t : table) : shapes :=
  {| sh_stcp_plain := sh_stcp_plain T; sh_stcp_tls := sh_stcp_tls T; sh_squic := sh_squic T; sh_sudp := sh_sudp T;
     sh_sudp_select := sh_sudp_select T; sh_sudp_else := sh_sudp_else T; sh_assoc := t;
     sh_assoc_spawned := sh_assoc_spawned T; sh_ctcp := sh_ctcp T; sh_cudp := sh_cudp T;
     sh_cudp_select := sh_cudp_select T; sh_cudp_else := sh_cudp_else T; sh_binding := sh_binding T;
     sh_reply_task := sh_reply_task T |}.
Definition with_ctcp (T : shapes) (t : table) : shapes :=
  {| sh_stcp_plain := sh_stcp_plain T; sh_stcp_tls := sh_stcp_tls T; sh_squic := sh_squic T; sh_sudp := sh_sudp T;
     sh_sudp_select := sh_sudp_select T; sh_sudp_else := sh_sudp_else T; sh_assoc := sh_assoc T;
     sh_assoc_spawned := sh_assoc_spawned T; sh_ctcp := t; sh_cudp := sh_cudp T;
     sh_cudp_select := sh_cudp_select T; sh_cudp_else := sh_cudp_else T; sh_binding := sh_binding T;
     sh_reply_task := sh_reply_task T |}.
Definition with_cudp (T : shapes) (t : table) : shapes :=
  {| sh_stcp_plain := sh_stcp_plain T; sh_stcp_tls := sh_stcp_tls T; sh_squic := sh_squic T; sh_sudp := sh_sudp T;
     sh_sudp_select := sh_sudp_select T; sh_sudp_else := sh_sudp_else T; sh_assoc := sh_assoc T;
     sh_assoc_spawned := sh_assoc_spawned T; sh_ctcp := sh_ctcp T; sh_cudp := t;
     sh_cudp_select := sh_cudp_select T; sh_cudp_else := sh_cudp_else T; sh_binding := sh_binding T;
     sh_reply_task := sh_reply_task T |}.

(* the tables the translator produces for the source BEFORE the repairs (octo-squirrel commits 5f7202f, 3422c50:
   `git apply -R` of the commit on a copy, VERIF_REPO=<copy> tools/gen_from_source.py) *)
Definition pre_5f7202f_client_udp : table :=
  [ (PRecvReplyChannel, Parked); (PSendLocalReply, Handled FallThrough); (PRecvLocal, Parked);
    (PNewOutVacant, Propagate ByQuestion); (PNewBindingVacant, Propagate ByQuestion);
    (PNewOutRetry, Propagate ByQuestion); (PNewBindingRetry, Propagate ByQuestion);
    (PSendOutbound, Propagate ByQuestion) ].
Definition pre_5f7202f_client_tcp : table :=
  [ (PAccept, Propagate ByLoopCond); (PLocalHandshake, InTask); (PTryTransfer, InTask) ].
Definition pre_3422c50_server_tcp_plain : table :=
  [ (PAccept, Propagate ByLoopCond); (PNewCodec, Propagate ByQuestion); (PWsThenRelay, InTask);
    (PNewCodec, Propagate ByQuestion); (PRelay, InTask) ].
Definition pre_3422c50_server_tcp_tls : table :=
  [ (PAccept, Propagate ByLoopCond); (PNewCodec, Propagate ByQuestion); (PTlsHandshake, Handled FallThrough);
    (PNewCodec, Propagate ByQuestion); (PWsThenRelay, InTask); (PRelay, InTask) ].
Definition pre_3422c50_server_quic : table :=
  [ (PEndpointAccept, Propagate ByLoopCond); (PNewCodec, Propagate ByQuestion); (PQuicHandshake, InTask);
    (PQuicAcceptBi, InTask); (PQuicRelay, InTask) ].
(* the shape of the repaired defect F-08a / F-11a (octo-squirrel e1cb49a), written by hand: the association's task
   `break`s on a refused packet, the datagram loop has `try_send(..).await?` *)
Definition replay_breaks_assoc : table :=
  [ (PPeerRecv, Propagate ByBreak); (PPacketIdNext, Propagate ByBreak); (PReplyChannelSend, Handled FallThrough);
    (PClientChannelRecv, Propagate ByBreak); (PResolve, Propagate ByBreak); (PReplayCheck, Propagate ByBreak);
    (PSendPeer, Propagate ByBreak) ].
Definition try_send_question_mark : table :=
  [ (PRecvChannel, Propagate ByBreak); (PEncodeReply, Handled FallThrough); (PSendReply, Propagate ByQuestion);
    (PRecvClient, Handled FallThrough); (PDecodeClient, Handled FallThrough); (PAssocSend, Propagate ByQuestion);
    (PAssocCreate, Propagate ByQuestion); (PAssocSendNew, Propagate ByQuestion) ].
