(* Model of the bidirectional TCP relay shells.  Definitions only (facts: Proofs/RelayFacts.v).

   Mirrors
     client  octo-squirrel-client/src/client/template.rs  relay_tcp_then  (l.159-191)
     server  octo-squirrel-server/src/server/template.rs  relay_bidirectional (l.194-236)
   and the contract of futures-util 0.3 StreamExt::forward (stream/stream/forward.rs):

     loop { if buffered { poll_ready?; start_send(buffered)? }
            match stream.poll_next()? { Some(item) => buffered = item,
                                        None       => { poll_close?; return Ok },
                                        Pending    => { poll_flush?; return Pending } } }

   Both shells have the same shape:
     1. one message is sent (and flushed) towards B before anything else
          client l.168  c_s.send(BytesMut::new())        -- empty: it only carries the request header
          server l.209  outbound_sink.send(first)        -- the payload that came with ConnectTcp
        a failure returns at once (client l.169, server l.211);
     2. two pumps  A->B  and  B->A  run under tokio::try_join!;  BOTH outcomes of a pump are mapped
        to Err (client l.174-175/181-182, server l.220-221/227-228), so the join returns as soon
        as the FIRST pump returns and drops the other pump;
     3. the function returns: the split halves of both connections are dropped with it.

   Naming: side A is where the A->B pump reads (client: the local application, server: the
   proxy client), side B is where it writes (client: the proxy server, server: the target).

   What a stream error does differs, and is chosen by the EVENT (the driver knows which binary it
   drives), not by a mode flag:
     StreamErr            the pump sees the error and returns Err without closing its sink
                          (client: every error of l_c / s_c;  server: an item of the wrong kind,
                           `InboundIn::try_into` l.216, which sits behind the filter)
     FilteredErr ends     server only: `filter_map(|r| r.ok())` l.215-216 removes the error;
                          ends = true : tokio_util Framed / WebSocketFramed end the stream after an
                                        error (has_errored => next poll is None), i.e. it acts as EOF
                          ends = false: UdpFramed goes on with the next datagram *)
From Coq Require Import NArith List Bool.
Import ListNotations.

Definition bytes := list N.

Inductive dir := AB | BA.
Definition dir_eqb (a b : dir) : bool := match a, b with AB, AB | BA, BA => true | _, _ => false end.

(* state of one forward future *)
Inductive pstat :=
| Running          (* polling its stream *)
| Closing.         (* stream ended (Fuse: never polled again); poll_close = flush, then shutdown *)

(* how a pump returned *)
Inductive pres :=
| Closed           (* forward returned Ok  -> relay::Result::Close *)
| Failed.          (* forward returned Err -> relay::Result::Err   *)

(* one direction of the flow *)
Record lane := {
  rd   : bytes;    (* everything the pump has taken from its stream, concatenated *)
  inf  : bytes;    (* in flight: taken, not yet accepted by the destination socket
                      (forward's buffered item + the sink's write buffer) *)
  del  : bytes;    (* delivered: accepted by the destination socket *)
  shut : bool;     (* poll_close completed: the destination saw an orderly end of stream *)
  pump : pstat }.

Definition lane0 : lane := {| rd := []; inf := []; del := []; shut := false; pump := Running |}.

(* events of one direction d = X->Y: what stream X and sink Y do *)
Inductive levent :=
| LRead (bs : bytes)          (* stream yields Ok(bs) *)
| LEof                        (* stream yields None *)
| LStreamErr                  (* stream yields Err, seen by forward *)
| LFilteredErr (ends : bool)  (* stream yields Err, removed by filter_map (server) *)
| LWrite (n : nat)            (* destination socket accepts n more bytes of what is in flight *)
| LShut                       (* shutdown of the destination completes (after the flush) *)
| LWriteErr.                  (* sink reports an error (poll_ready / start_send / flush / close) *)

(* one step of a pump; Some r = the forward future returns r *)
Definition lstep (l : lane) (e : levent) : lane * option pres :=
  match e, pump l with
  | LRead bs, Running =>
      ({| rd := rd l ++ bs; inf := inf l ++ bs; del := del l; shut := shut l; pump := Running |}, None)
  | LEof, Running =>
      ({| rd := rd l; inf := inf l; del := del l; shut := shut l; pump := Closing |}, None)
  | LStreamErr, Running => (l, Some Failed)         (* `?` on poll_next: no close, no flush *)
  | LFilteredErr true, Running =>
      ({| rd := rd l; inf := inf l; del := del l; shut := shut l; pump := Closing |}, None)
  | LFilteredErr false, Running => (l, None)
  | LWrite n, _ =>
      ({| rd := rd l; inf := skipn n (inf l); del := del l ++ firstn n (inf l);
          shut := shut l; pump := pump l |}, None)
  | LShut, Closing =>
      match inf l with
      | [] => ({| rd := rd l; inf := []; del := del l; shut := true; pump := Closing |}, Some Closed)
      | _ :: _ => (l, None)                          (* poll_close flushes first *)
      end
  | LWriteErr, _ => (l, Some Failed)
  (* a fused stream is not polled any more; shutdown is not attempted while the stream is open *)
  | LRead _, Closing | LEof, Closing | LStreamErr, Closing | LFilteredErr _, Closing
  | LShut, Running => (l, None)
  end.

Inductive event :=
| OpenOk                      (* the opening send towards B completed (send = feed + flush) *)
| OpenErr                     (* the opening send failed *)
| On (d : dir) (e : levent).

(* what the flow owns; everything is owned by the future of relay_tcp_then / relay_bidirectional *)
Inductive resource := SockA | SockB | TaskAB | TaskBA.
Definition all_resources : list resource := [SockA; SockB; TaskAB; TaskBA].

Inductive phase :=
| Opening
| Live
| Done (by_pump : option dir) (r : pres).   (* None: the opening send failed *)

Record flow := {
  ab : lane; ba : lane;
  ph : phase;
  res : list resource;
  first : bytes }.

Definition init (first : bytes) : flow :=
  {| ab := lane0; ba := lane0; ph := Opening; res := all_resources; first := first |}.

Definition lane_of (d : dir) (f : flow) : lane := match d with AB => ab f | BA => ba f end.
Definition set_lane (d : dir) (l : lane) (f : flow) : flow :=
  match d with
  | AB => {| ab := l; ba := ba f; ph := ph f; res := res f; first := first f |}
  | BA => {| ab := ab f; ba := l; ph := ph f; res := res f; first := first f |}
  end.

(* the function returns: try_join! drops the other pump, the caller drops both connections *)
Definition finish (f : flow) (d : option dir) (r : pres) : flow :=
  {| ab := ab f; ba := ba f; ph := Done d r; res := []; first := first f |}.

Definition step (f : flow) (e : event) : flow :=
  match ph f with
  | Opening =>
      match e with
      | OpenOk =>   (* `first` counts as read from A and is delivered to B before the pumps start *)
          {| ab := {| rd := first f; inf := []; del := first f; shut := false; pump := Running |};
             ba := ba f; ph := Live; res := res f; first := first f |}
      | OpenErr => finish f None Failed
      | On _ _ => f                                  (* the pumps do not exist yet *)
      end
  | Live =>
      match e with
      | On d le =>
          let '(l', r) := lstep (lane_of d f) le in
          let f' := set_lane d l' f in
          match r with None => f' | Some r => finish f' (Some d) r end
      | OpenOk | OpenErr => f
      end
  | Done _ _ => f                                    (* nothing is left that could react *)
  end.

Definition run (f : flow) (evs : list event) : flow := fold_left step evs f.

(* ---------- one direction alone ---------- *)
Definition lrun (l : lane) (les : list levent) : lane := fold_left (fun l e => fst (lstep l e)) les l.

(* the events of direction d in a history *)
Fixpoint proj (d : dir) (evs : list event) : list levent :=
  match evs with
  | [] => []
  | On d' le :: t => if dir_eqb d d' then le :: proj d t else proj d t
  | _ :: t => proj d t
  end.

Definition is_done (f : flow) : bool := match ph f with Done _ _ => true | _ => false end.
Definition is_live (f : flow) : bool := match ph f with Live => true | _ => false end.
