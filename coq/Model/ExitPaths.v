(* Exit paths of one proxied TCP flow: what the per-connection task does on EVERY way out, and what the
   other processes observe.  Definitions only (facts: Proofs/ExitPathFacts.v).

   The pumps themselves are Model/Relay.v; this file is the layer AROUND them, where a flow can end
   without any pump ever having closed a sink (target refused / unresolvable, bind failure, first item of
   the wrong kind, decode error, peer gone before the first item, opening send failed).

   The semantics below INTERPRETS step lists that tools/gen_from_source.py extracts from the current
   source text (Generated/ExitPaths.v): the order of the statements of
     S   octo-squirrel-server/src/server.rs             the spawned per-connection blocks (plain, TLS, QUIC)
     ST  octo-squirrel-server/src/server/template.rs    tcp::relay, tcp::accept_websocket_then_replay, quic::relay,
                                                        relay_to (one row per control-flow path),
                                                        relay_{tcp,udp}_bidirectional, relay_bidirectional
     CT  octo-squirrel-client/src/client/template.rs    the spawned block of transfer_tcp, try_transfer_tcp
                                                        (prefix + one row per transport arm), relay_tcp, relay_tcp_then
     C   octo-squirrel/src/codec.rs                     QuicStream::close, QuicStream::poll_shutdown
   so the theorems are about what the source says NOW; a removed / moved statement changes a table and the
   proofs (finite enumeration by computation over `current`) are re-checked against it.

   What is modelled by hand (contracts of the libraries; line numbers of the vendored crates):
   quinn 0.11.12  src/send_stream.rs
     l.180-192  finish(): queues FIN ("Notify the peer that no more data will ever be written"); a second
                finish / finish after STOP_SENDING is harmless (ClosedStream / Stopped -> ignored by `let _ =`)
     l.243-270, 296-310  stopped(): completes when (a) the stream was finished AND everything was acknowledged
                (proto send_stream().stopped() = Err(ClosedStream) -> Ok(None)), (b) the peer sent STOP_SENDING,
                (c) the connection has an error (closed by the peer, idle timeout); otherwise it stays pending.
                Hence: after finish it takes one round trip when the peer is alive; WITHOUT finish it waits for
                the peer to stop the stream or for the connection to die -- not prompt.
     l.339-341  AsyncWrite::poll_shutdown = finish()
     l.344-365  Drop: an unfinished stream is implicitly finish()ed (quinn >= 0.11; it is NOT reset)
   quinn 0.11.12  src/recv_stream.rs l.523-549  Drop: stop(0) unless everything was read
   quinn 0.11.12  src/connection.rs  l.946-962  Drop of the last ConnectionRef (streams hold one each):
                implicit_close -> CONNECTION_CLOSE at once; unacknowledged stream data is lost
   tokio-util 0.7.19 src/codec/framed_impl.rs l.306-311  Framed::poll_close = flush, then poll_shutdown of the io
   futures-util 0.3.34 stream/stream/forward.rs  forward closes its sink when its stream ends (see Model/Relay.v);
                stream/stream/split.rs l.29/65  reunite fails only for halves of different pairs
   TCP-like transports (tcp, tls, ws, wss): dropping the framed socket closes the descriptor: the peer reads
   EOF (or gets RST when unread data was pending): either way it observes the end at once.

   Scope.  Resolve / connect / bind answer at once with Ok or Err (the listed endings: refused, unresolvable);
   a connect that hangs (ST l.152 has no timer around TcpStream::connect, and relay_to does not watch the
   inbound side meanwhile) and the blocking std resolver behind Address::to_socket_addr are NOT modelled.
   AwaitStopped after a finish is one round trip when the peer answers (s_acks / c_acks); flow control (a peer
   that acknowledges but does not read) is not modelled.  Without a finish the model takes the pessimistic
   reading (wait for the idle timeout / the timer) although a peer that has itself ended may release the
   stream earlier by STOP_SENDING or by closing the connection. *)
From Coq Require Import List Bool Arith.
From Octo Require Model.Relay.
From Octo Require Import Generated.ExitPaths.
Import ListNotations.

(* ---------- the generated tables, as one value (so that regressions can be stated as other values) ---------- *)
Record tables := {
  t_close : list xstep;                 t_close_consumes : bool;      t_shutdown : list xstep;
  t_tcp_relay : list xstep;             t_ws_accept : list (list outcome * list xstep);
  t_quic_relay : list xstep;            t_relay_to : list (list outcome * list xstep);
  t_tcp_bidi : list xstep;              t_udp_bidi : list xstep;      t_bidi : list xstep;
  t_plain_task : list (list outcome * list xstep);
  t_tls_task : list (list outcome * list xstep);
  t_quic_task : list xstep;
  t_client_task : list (list outcome * list xstep);
  t_try_transfer : list xstep;          t_arms : list ((opat * opat * opat) * list xstep);
  t_relay_tcp : list xstep;             t_relay_tcp_then : list xstep }.

Definition current : tables := {|
  t_close := quic_close_steps;          t_close_consumes := quic_close_consumes_self;
  t_shutdown := quic_poll_shutdown_steps;
  t_tcp_relay := server_tcp_relay_steps; t_ws_accept := server_ws_accept_paths;
  t_quic_relay := server_quic_relay_steps; t_relay_to := server_relay_to_paths;
  t_tcp_bidi := server_relay_tcp_bidi_steps; t_udp_bidi := server_relay_udp_bidi_steps;
  t_bidi := server_bidi_steps;
  t_plain_task := server_plain_task_paths; t_tls_task := server_tls_task_paths;
  t_quic_task := server_quic_task_steps;
  t_client_task := client_task_paths;
  t_try_transfer := client_try_transfer_steps; t_arms := client_transport_arms;
  t_relay_tcp := client_relay_tcp_steps; t_relay_tcp_then := client_relay_tcp_then_steps |}.

(* ---------- what can be observed ---------- *)
(* how long the task sits in an await *)
Inductive delay :=
| DAck               (* one round trip: the peer acknowledges FIN *)
| DSecs (n : nat)    (* a timer of n seconds runs out (client: time::timeout around close()) *)
| DIdle.             (* until the peer stops the stream or the QUIC idle timeout (30 s by default) kills the connection *)
Definition delay_prompt (d : delay) : bool := match d with DAck => true | _ => false end.

Inductive effect :=
| PeerSeesEnd        (* the proxy process at the other end of the client-server link observes end-of-stream:
                        TCP-like: FIN / RST;  QUIC: FIN of the stream (explicit or implicit finish) *)
| LinkDropped        (* this process dropped its end of the link: accepted socket / tunnel socket / QuicStream *)
| ConnClosed (acked : bool)   (* QUIC: the last handle is gone, CONNECTION_CLOSE is sent; acked = stopped() had
                        returned after finish, i.e. the peer holds everything that was written *)
| OutboundOpened     (* server: the target socket (connect / bind succeeded) *)
| OutboundDropped    (* server: the target socket is dropped: the target observes the end *)
| AppSeesEnd         (* client: the local application observes end-of-stream (FIN after shutdown, or close) *)
| LocalDropped       (* client: the accepted local socket is dropped *)
| Blocked (d : delay)
| TaskFinished.

Definition delay_eqb (a b : delay) : bool :=
  match a, b with DAck, DAck | DIdle, DIdle => true | DSecs n, DSecs m => Nat.eqb n m | _, _ => false end.
Definition effect_eqb (a b : effect) : bool :=
  match a, b with
  | PeerSeesEnd, PeerSeesEnd | LinkDropped, LinkDropped | OutboundOpened, OutboundOpened
  | OutboundDropped, OutboundDropped | AppSeesEnd, AppSeesEnd | LocalDropped, LocalDropped
  | TaskFinished, TaskFinished => true
  | ConnClosed x, ConnClosed y => Bool.eqb x y
  | Blocked x, Blocked y => delay_eqb x y
  | _, _ => false
  end.

(* x happens, and the task has not sat in a slow await before it *)
Fixpoint prompt_before (x : effect) (tr : list effect) : bool :=
  match tr with
  | [] => false
  | e :: r => if effect_eqb e x then true
              else match e with Blocked d => delay_prompt d && prompt_before x r | _ => prompt_before x r end
  end.
Definition occurs (x : effect) (tr : list effect) : bool := existsb (effect_eqb x) tr.
Definition no_slow_wait (tr : list effect) : bool :=
  forallb (fun e => match e with Blocked d => delay_prompt d | _ => true end) tr.
Definition waits_bounded (n : nat) (tr : list effect) : bool :=
  forallb (fun e => match e with Blocked DAck => true | Blocked (DSecs m) => Nat.leb m n | Blocked DIdle => false | _ => true end) tr.
(* every opened outbound is dropped again, at most one at a time *)
Fixpoint outbound_balanced (opened : bool) (tr : list effect) : bool :=
  match tr with
  | [] => negb opened
  | OutboundOpened :: r => negb opened && outbound_balanced true r
  | OutboundDropped :: r => opened && outbound_balanced false r
  | _ :: r => outbound_balanced opened r
  end.
Definition ends_with_task_finished (tr : list effect) : bool :=
  match rev tr with TaskFinished :: _ => true | _ => false end.

(* ---------- interpreter state ---------- *)
Record xst := {
  tr : list effect;       (* effects so far, in order *)
  fin : bool;             (* end-of-stream already signalled on the link (QUIC: FIN queued; TCP-like: shutdown(Write)) *)
  acked : bool;           (* QUIC: stopped() returned after finish while the peer was alive *)
  link_held : bool;       (* the link object is owned by a live scope of this task *)
  reunited : bool;        (* server QUIC: the halves were put together (close() needs the whole stream);
                             client: relay_tcp_then handed the tunnel back as Some(_) *)
  out_open : bool;        (* server: the target socket exists *)
  local_held : bool;      (* client: the local application's socket is owned by a live scope *)
  app_fin : bool;         (* client: the local sink was closed by the pump (FIN to the application) *)
  ret : bool;             (* the function being interpreted has returned *)
  bad : bool }.           (* a step occurred for which this model has no meaning: no theorem may hold *)

Definition st0 (link local : bool) : xst :=
  {| tr := []; fin := false; acked := false; link_held := link; reunited := false; out_open := false;
     local_held := local; app_fin := false; ret := false; bad := false |}.
Definition emit (e : effect) (s : xst) : xst :=
  {| tr := tr s ++ [e]; fin := fin s; acked := acked s; link_held := link_held s; reunited := reunited s;
     out_open := out_open s; local_held := local_held s; app_fin := app_fin s; ret := ret s; bad := bad s |}.
Definition set_fin (s : xst) : xst :=
  {| tr := tr s; fin := true; acked := acked s; link_held := link_held s; reunited := reunited s;
     out_open := out_open s; local_held := local_held s; app_fin := app_fin s; ret := ret s; bad := bad s |}.
Definition set_acked (s : xst) : xst :=
  {| tr := tr s; fin := fin s; acked := true; link_held := link_held s; reunited := reunited s;
     out_open := out_open s; local_held := local_held s; app_fin := app_fin s; ret := ret s; bad := bad s |}.
Definition set_link (b : bool) (s : xst) : xst :=
  {| tr := tr s; fin := fin s; acked := acked s; link_held := b; reunited := reunited s;
     out_open := out_open s; local_held := local_held s; app_fin := app_fin s; ret := ret s; bad := bad s |}.
Definition set_reunited (s : xst) : xst :=
  {| tr := tr s; fin := fin s; acked := acked s; link_held := link_held s; reunited := true;
     out_open := out_open s; local_held := local_held s; app_fin := app_fin s; ret := ret s; bad := bad s |}.
Definition set_out (b : bool) (s : xst) : xst :=
  {| tr := tr s; fin := fin s; acked := acked s; link_held := link_held s; reunited := reunited s;
     out_open := b; local_held := local_held s; app_fin := app_fin s; ret := ret s; bad := bad s |}.
Definition set_local (b : bool) (s : xst) : xst :=
  {| tr := tr s; fin := fin s; acked := acked s; link_held := link_held s; reunited := reunited s;
     out_open := out_open s; local_held := b; app_fin := app_fin s; ret := ret s; bad := bad s |}.
Definition set_app_fin (s : xst) : xst :=
  {| tr := tr s; fin := fin s; acked := acked s; link_held := link_held s; reunited := reunited s;
     out_open := out_open s; local_held := local_held s; app_fin := true; ret := ret s; bad := bad s |}.
Definition set_ret (b : bool) (s : xst) : xst :=
  {| tr := tr s; fin := fin s; acked := acked s; link_held := link_held s; reunited := reunited s;
     out_open := out_open s; local_held := local_held s; app_fin := app_fin s; ret := b; bad := bad s |}.
Definition set_bad (s : xst) : xst :=
  {| tr := tr s; fin := fin s; acked := acked s; link_held := link_held s; reunited := reunited s;
     out_open := out_open s; local_held := local_held s; app_fin := app_fin s; ret := ret s; bad := true |}.

(* statements run in order until the function returns *)
Fixpoint run_steps (sem : xstep -> xst -> xst) (l : list xstep) (s : xst) : xst :=
  match l with
  | [] => s
  | x :: r => if ret s || bad s then s else run_steps sem r (sem x s)
  end.
(* a call: the callee starts not-returned; its return does not return the caller *)
Definition call (body : xst -> xst) (s : xst) : xst := set_ret false (body (set_ret false s)).

(* the row of a path table that applies: exactly one must *)
Definition select {A} (holds : outcome -> bool) (rows : list (list outcome * A)) : option (list outcome * A) :=
  match filter (fun r => forallb holds (fst r)) rows with
  | [r] => Some r
  | _ => None
  end.

(* ---------- scenarios ---------- *)
(* how the two pumps ended = the `Done d r` phase of Model/Relay.v:
   (None, _) the opening send failed, (Some d, r) pump d returned first with r.
   Server: A = proxy client (inbound), B = target;  client: A = local application, B = proxy server (tunnel). *)
Definition ending := (option Relay.dir * Relay.pres)%type.

Record senv := { resolve_ok : bool; connect_ok : bool; bind_ok : bool }.
Record sscn := {
  s_t : transport;
  s_first : first_item;
  s_env : senv;
  s_end : ending;        (* only looked at on the paths where relay_bidirectional runs *)
  s_acks : bool }.       (* QUIC: the peer is alive and acknowledges (false: link cut / peer gone silently) *)
Record cscn := {
  c_t : transport;
  c_codec_ok : bool;     (* new_codec(..)? *)
  c_tunnel_ok : bool;    (* new_*_outbound(..).await? *)
  c_end : ending;
  c_acks : bool }.

Definition first_item_eqb (a b : first_item) : bool :=
  match a, b with
  | ConnectTcp, ConnectTcp | RelayUdp, RelayUdp | RelayTcp, RelayTcp | DecodeErr, DecodeErr | Eof, Eof => true
  | _, _ => false
  end.
Definition transport_eqb (a b : transport) : bool :=
  match a, b with Tcp, Tcp | Tls, Tls | Ws, Ws | Wss, Wss | Quic, Quic => true | _, _ => false end.
Definition pdir_eqb (a b : pdir) : bool := match a, b with PumpAB, PumpAB | PumpBA, PumpBA => true | _, _ => false end.
Definition is_ws (t : transport) : bool := match t with Ws | Wss => true | _ => false end.
Definition is_quic (t : transport) : bool := match t with Quic => true | _ => false end.

(* which branch a recognised `if let` / `match` takes on the server.  The scenarios are flows whose transport
   handshakes (TLS, WebSocket) succeeded: the failing handshakes are the conn_faults of Model/Loops.v *)
Definition s_holds (sc : sscn) (o : outcome) : bool :=
  match o with
  | FirstIs k => first_item_eqb k (s_first sc)
  | ResolveOk => resolve_ok (s_env sc) | ResolveErr => negb (resolve_ok (s_env sc))
  | ConnectOk => connect_ok (s_env sc) | ConnectErr => negb (connect_ok (s_env sc))
  | BindOk => bind_ok (s_env sc)       | BindErr => negb (bind_ok (s_env sc))
  | WsAcceptOk | TlsAcceptOk => true
  | WsAcceptErr | TlsAcceptErr => false
  | UseWs => is_ws (s_t sc) | NoWs => negb (is_ws (s_t sc))
  | HandshakeOk | HandshakeErr | TransferOk | TransferErr => false
  end.
Definition c_holds (sc : cscn) (o : outcome) : bool :=
  match o with
  | HandshakeOk => true | HandshakeErr => false          (* the local SOCKS5/HTTP handshake is C13 *)
  | TransferOk => c_codec_ok sc && c_tunnel_ok sc         (* try_transfer_tcp is Ok(res) whatever the relay's result *)
  | TransferErr => negb (c_codec_ok sc && c_tunnel_ok sc)
  | _ => false
  end.

(* ---------- the link ---------- *)
(* end-of-stream is signalled on the link (once) *)
Definition signal_end (s : xst) : xst := if fin s then s else emit PeerSeesEnd (set_fin s).

(* a pump closed the sink that writes to the link: Framed::poll_close = flush + poll_shutdown of the io;
   TCP-like: shutdown(Write);  QUIC: QuicStream::poll_shutdown, whose generated body must reach the SendStream *)
Definition link_sink_closed (T : tables) (t : transport) (s : xst) : xst :=
  match t with
  | Quic => if existsb (fun x => match x with ShutdownSend => true | _ => false end) (t_shutdown T) then signal_end s else s
  | _ => signal_end s
  end.

(* the link object is dropped: TCP-like close(fd); QUIC SendStream::drop = implicit finish (l.344-365).
   last_handle: on the client the streams are the only handles of the connection (CT new_quic_outbound drops
   `endpoint` and `conn` when it returns), so the connection is closed with them; the server task holds
   `connection` until the spawned block ends *)
Definition drop_link (t : transport) (last_handle : bool) (drop_effect : effect) (s : xst) : xst :=
  if link_held s then
    let s1 := emit drop_effect (set_link false (signal_end s)) in
    if is_quic t && last_handle then emit (ConnClosed (acked s1)) s1 else s1
  else s.

(* QuicStream::close: the generated statements; `slow` is what an await of stopped() costs when the stream was
   not finished or the peer does not answer (server: nothing bounds it but the idle timeout) *)
Definition sem_close (slow : delay) (acks : bool) (x : xstep) (s : xst) : xst :=
  match x with
  | Finish => signal_end s
  | AwaitStopped => if fin s && acks then emit (Blocked DAck) (set_acked s) else emit (Blocked slow) s
  | ReturnOk => set_ret true s
  | _ => set_bad s
  end.
Definition run_close (T : tables) (slow : delay) (acks : bool) (s : xst) : xst :=
  call (run_steps (sem_close slow acks) (t_close T)) s.

(* ---------- the two pumps: the shape Model/Relay.v assumes, and what their ending does to the link ---------- *)
Definition bidi_core (l : list xstep) : list xstep :=
  filter (fun x => match x with FirstSend | DefinePump _ _ _ | JoinPumps _ => true | _ => false end) l.
(* one send first (failure returns), two pumps of opposite directions whose BOTH outcomes are mapped to Err,
   joined by try_join!: the function returns as soon as the first pump returns *)
Definition bidi_shape_ok (l : list xstep) : bool :=
  match bidi_core l with
  | [FirstSend; DefinePump d1 true true; DefinePump d2 true true; JoinPumps TryJoin] => negb (pdir_eqb d1 d2)
  | _ => false
  end.

(* ---------- server ---------- *)
Definition s_apply_ending (T : tables) (sc : sscn) (s : xst) : xst :=
  match s_end sc with
  | (Some Relay.BA, Relay.Closed) => link_sink_closed T (s_t sc) s    (* target -> proxy client closed inbound_sink *)
  | _ => s
  end.
Definition sem_s_bidi (T : tables) (sc : sscn) (x : xstep) (s : xst) : xst :=
  match x with
  | FirstSend => match s_end sc with (None, _) => set_ret true s | _ => s end
  | FilterErrors _ | DefinePump _ _ _ => s
  | JoinPumps _ => s_apply_ending T sc s
  | _ => set_bad s
  end.
Definition s_bidi (T : tables) (sc : sscn) (s : xst) : xst :=
  if bidi_shape_ok (t_bidi T) then call (run_steps (sem_s_bidi T sc) (t_bidi T)) s else set_bad s.

Definition drop_outbound (s : xst) : xst := if out_open s then emit OutboundDropped (set_out false s) else s.

(* relay_tcp_bidirectional / relay_udp_bidirectional: own `outbound`, borrow the inbound halves *)
Definition sem_s_wrap (T : tables) (sc : sscn) (x : xstep) (s : xst) : xst :=
  match x with
  | SplitOutbound => s
  | CallRelayBidi => s_bidi T sc s
  | _ => set_bad s
  end.
Definition s_wrap (T : tables) (sc : sscn) (steps : list xstep) (s : xst) : xst :=
  if out_open s then drop_outbound (call (run_steps (sem_s_wrap T sc) steps) s) else set_bad s.

Definition sem_relay_to (T : tables) (sc : sscn) (x : xstep) (s : xst) : xst :=
  match x with
  | Log => s
  | RelayTcpBidi => s_wrap T sc (t_tcp_bidi T) s
  | RelayUdpBidi => s_wrap T sc (t_udp_bidi T) s
  | ReturnEarly => set_ret true s
  | _ => set_bad s
  end.
Definition opens_outbound (os : list outcome) : bool :=
  existsb (fun o => match o with ConnectOk | BindOk => true | _ => false end) os.
(* relay_to: the row of the current path; `outbound` is bound in the arm and gone when the arm ends at the latest *)
Definition s_relay_to (T : tables) (sc : sscn) (s : xst) : xst :=
  match select (s_holds sc) (t_relay_to T) with
  | None => set_bad s
  | Some (os, steps) =>
      let s1 := if opens_outbound os then emit OutboundOpened (set_out true s) else s in
      drop_outbound (call (run_steps (sem_relay_to T sc) steps) s1)
  end.

(* tcp::relay, accept_websocket_then_replay, quic::relay: all own `inbound` *)
Definition sem_s_conn (T : tables) (sc : sscn) (x : xstep) (s : xst) : xst :=
  match x with
  | SplitFramed | SplitWsFramed | Log => s
  | CallRelayTo => s_relay_to T sc s
  | Reunite => if link_held s then set_reunited s else set_bad s
  | CloseStream =>
      if is_quic (s_t sc) && reunited s && link_held s then
        let s1 := run_close T DIdle (s_acks sc) s in
        if t_close_consumes T then drop_link (s_t sc) false LinkDropped s1 else s1
      else set_bad s
  | ReturnEarly | ReturnOk => set_ret true s
  | _ => set_bad s
  end.
Definition s_conn (T : tables) (sc : sscn) (steps : list xstep) (s : xst) : xst :=
  drop_link (s_t sc) false LinkDropped (call (run_steps (sem_s_conn T sc) steps) s).

Definition sem_s_task (T : tables) (sc : sscn) (x : xstep) (s : xst) : xst :=
  match x with
  | AwaitIncoming | AcceptBi | Log => s
  | CallTcpRelay => if is_quic (s_t sc) then set_bad s else s_conn T sc (t_tcp_relay T) s
  | CallAcceptWs =>
      if is_quic (s_t sc) then set_bad s else
      match select (s_holds sc) (t_ws_accept T) with
      | Some (_, steps) => s_conn T sc steps s
      | None => set_bad s
      end
  | CallQuicRelay => if is_quic (s_t sc) then s_conn T sc (t_quic_relay T) s else set_bad s
  | ReturnOk | ReturnEarly => set_ret true s
  | _ => set_bad s
  end.
Definition s_task_steps (T : tables) (sc : sscn) : option (list xstep) :=
  match s_t sc with
  | Quic => Some (t_quic_task T)
  | Tcp | Ws => option_map snd (select (s_holds sc) (t_plain_task T))
  | Tls | Wss => option_map snd (select (s_holds sc) (t_tls_task T))
  end.
(* the spawned block: when it ends everything it still owns is dropped, for QUIC `connection` last *)
Definition server_run (T : tables) (sc : sscn) : xst :=
  match s_task_steps T sc with
  | None => set_bad (st0 true false)
  | Some steps =>
      let s1 := drop_link (s_t sc) false LinkDropped (run_steps (sem_s_task T sc) steps (st0 true false)) in
      let s2 := if is_quic (s_t sc) then emit (ConnClosed (acked s1)) s1 else s1 in
      emit TaskFinished s2
  end.
Definition server_trace (T : tables) (sc : sscn) : option (list effect) :=
  let s := server_run T sc in if bad s then None else Some (tr s).

(* ---------- client ---------- *)
Definition drop_local (s : xst) : xst :=
  if local_held s then
    emit LocalDropped (set_local false (if app_fin s then s else emit AppSeesEnd (set_app_fin s)))
  else s.
Definition drop_tunnel (sc : cscn) (s : xst) : xst := drop_link (c_t sc) true OutboundDropped s.

Definition c_apply_ending (T : tables) (sc : cscn) (s : xst) : xst :=
  match c_end sc with
  | (Some Relay.AB, Relay.Closed) => link_sink_closed T (c_t sc) s              (* application -> server closed c_s *)
  | (Some Relay.BA, Relay.Closed) => if app_fin s then s else emit AppSeesEnd (set_app_fin s)   (* closed c_l *)
  | _ => s
  end.
Definition sem_relay_tcp_then (T : tables) (sc : cscn) (x : xstep) (s : xst) : xst :=
  match x with
  | SplitLocal | SplitTunnel | DefinePump _ _ _ | Log => s
  | FirstSend => match c_end sc with (None, _) => set_ret true s | _ => s end     (* returns (Err, None) *)
  | JoinPumps _ => c_apply_ending T sc s
  | ReturnReunited => set_ret true (set_reunited s)
  | _ => set_bad s
  end.
(* relay_tcp_then: the local halves are moved into the pumps and die with the function; the tunnel halves
   are handed back when the function got as far as `(res, c_s.reunite(s_c).ok())` *)
Definition c_relay_tcp_then (T : tables) (sc : cscn) (s : xst) : xst :=
  if bidi_shape_ok (t_relay_tcp_then T) && local_held s && link_held s then
    let s1 := drop_local (call (run_steps (sem_relay_tcp_then T sc) (t_relay_tcp_then T)) s) in
    if reunited s1 then s1 else drop_tunnel sc s1
  else set_bad s.
Definition sem_relay_tcp (T : tables) (sc : cscn) (x : xstep) (s : xst) : xst :=
  match x with
  | CallRelayTcpThen => c_relay_tcp_then T sc s
  | DiscardReunited => drop_tunnel sc s
  | _ => set_bad s
  end.
Definition c_relay_tcp (T : tables) (sc : cscn) (s : xst) : xst :=
  drop_tunnel sc (drop_local (call (run_steps (sem_relay_tcp T sc) (t_relay_tcp T)) s)).

Definition sem_arm (T : tables) (sc : cscn) (x : xstep) (s : xst) : xst :=
  match x with
  | Log => s
  | OpenTunnel t' =>
      if transport_eqb t' (c_t sc) then
        if c_tunnel_ok sc then emit OutboundOpened (set_link true s) else set_ret true s     (* `?` *)
      else set_bad s
  | CallRelayTcp => c_relay_tcp T sc s
  | CallRelayTcpThen => c_relay_tcp_then T sc s
  | CloseReunited to =>
      if is_quic (c_t sc) then
        if reunited s && link_held s then
          (* close() consumes the stream; when the timer fires first the future is dropped, the stream with it *)
          drop_tunnel sc (run_close T (match to with Some n => DSecs n | None => DIdle end) (c_acks sc) s)
        else s
      else set_bad s
  | YieldResult => set_ret true s
  | _ => set_bad s
  end.
Definition opat_matches (p : opat) (b : bool) : bool := match p with PAny => true | PSome => b | PNone => negb b end.
(* (ssl, ws, quic) sections present in the client's configuration for each transport *)
Definition cfg_of (t : transport) : bool * bool * bool :=
  match t with
  | Tcp => (false, false, false) | Tls => (true, false, false) | Ws => (false, true, false)
  | Wss => (true, true, false)   | Quic => (false, false, true)
  end.
Definition arm_of (T : tables) (cfg : bool * bool * bool) : option (list xstep) :=
  let '(ssl, ws, quic) := cfg in
  option_map snd (find (fun r => let '(p1, p2, p3) := fst r in opat_matches p1 ssl && opat_matches p2 ws && opat_matches p3 quic) (t_arms T)).
Definition sem_try_transfer (sc : cscn) (x : xstep) (s : xst) : xst :=
  match x with
  | FrameLocal => s
  | NewCodec => if c_codec_ok sc then s else set_ret true s      (* `?` *)
  | _ => set_bad s
  end.
(* try_transfer_tcp owns the local socket and whatever tunnel it opened *)
Definition c_try_transfer (T : tables) (sc : cscn) (s : xst) : xst :=
  let s1 := run_steps (sem_try_transfer sc) (t_try_transfer T) (set_ret false s) in
  let s2 := if ret s1 || bad s1 then s1 else
              match arm_of T (cfg_of (c_t sc)) with
              | Some steps => run_steps (sem_arm T sc) steps s1
              | None => set_bad s1
              end in
  set_ret false (drop_tunnel sc (drop_local s2)).
Definition sem_c_task (T : tables) (sc : cscn) (x : xstep) (s : xst) : xst :=
  match x with
  | Handshake | Log => s
  | CallTryTransfer => c_try_transfer T sc s
  | _ => set_bad s
  end.
Definition client_run (T : tables) (sc : cscn) : xst :=
  match select (c_holds sc) (t_client_task T) with
  | None => set_bad (st0 false true)
  | Some (_, steps) => emit TaskFinished (drop_local (run_steps (sem_c_task T sc) steps (st0 false true)))
  end.
Definition client_trace (T : tables) (sc : cscn) : option (list effect) :=
  let s := client_run T sc in if bad s then None else Some (tr s).

(* ---------- finite enumeration of the scenario spaces ---------- *)
Definition all_transports : list transport := [Tcp; Tls; Ws; Wss; Quic].
Definition all_first_items : list first_item := [ConnectTcp; RelayUdp; RelayTcp; DecodeErr; Eof].
Definition all_bools : list bool := [true; false].
Definition all_endings : list ending :=
  [(None, Relay.Closed); (None, Relay.Failed); (Some Relay.AB, Relay.Closed); (Some Relay.AB, Relay.Failed);
   (Some Relay.BA, Relay.Closed); (Some Relay.BA, Relay.Failed)].
Definition all_sscn : list sscn :=
  flat_map (fun t => flat_map (fun k => flat_map (fun r => flat_map (fun c => flat_map (fun b => flat_map (fun e =>
    map (fun a => {| s_t := t; s_first := k; s_env := {| resolve_ok := r; connect_ok := c; bind_ok := b |}; s_end := e; s_acks := a |})
      all_bools) all_endings) all_bools) all_bools) all_bools) all_first_items) all_transports.
Definition all_cscn : list cscn :=
  flat_map (fun t => flat_map (fun co => flat_map (fun tu => flat_map (fun e =>
    map (fun a => {| c_t := t; c_codec_ok := co; c_tunnel_ok := tu; c_end := e; c_acks := a |})
      all_bools) all_endings) all_bools) all_bools) all_transports.

(* does relay_to open the target socket in this scenario? (stated independently of the tables) *)
Definition target_opened (sc : sscn) : bool :=
  match s_first sc with
  | ConnectTcp => resolve_ok (s_env sc) && connect_ok (s_env sc)
  | RelayUdp => bind_ok (s_env sc)
  | _ => false
  end.

(* ---------- the properties, as checks of one trace ---------- *)
Definition on_trace (o : option (list effect)) (p : list effect -> bool) : bool :=
  match o with Some tr => p tr | None => false end.

(* server *)
Definition chk_s_peer_sees_end (T : tables) (sc : sscn) : bool := on_trace (server_trace T sc) (prompt_before PeerSeesEnd).
Definition chk_s_outbound (T : tables) (sc : sscn) : bool :=
  on_trace (server_trace T sc) (fun tr =>
    outbound_balanced false tr && Bool.eqb (occurs OutboundOpened tr) (target_opened sc)
    && (negb (occurs OutboundOpened tr) || prompt_before OutboundDropped tr)).
Definition chk_s_task (T : tables) (sc : sscn) : bool :=
  on_trace (server_trace T sc) (fun tr =>
    ends_with_task_finished tr && occurs LinkDropped tr
    && (negb (is_quic (s_t sc)) || occurs (ConnClosed true) tr || occurs (ConnClosed false) tr)
    && (negb (s_acks sc || negb (is_quic (s_t sc))) || no_slow_wait tr)).
Definition chk_s_graceful (T : tables) (sc : sscn) : bool :=
  on_trace (server_trace T sc) (fun tr => negb (is_quic (s_t sc) && s_acks sc) || occurs (ConnClosed true) tr).
(* client *)
Definition chk_c_app_sees_end (T : tables) (sc : cscn) : bool := on_trace (client_trace T sc) (prompt_before AppSeesEnd).
Definition tunnel_opened (sc : cscn) : bool := c_codec_ok sc && c_tunnel_ok sc.
Definition chk_c_tunnel_shut (T : tables) (sc : cscn) : bool :=
  on_trace (client_trace T sc) (fun tr =>
    outbound_balanced false tr && Bool.eqb (occurs OutboundOpened tr) (tunnel_opened sc)
    && (negb (tunnel_opened sc) || prompt_before PeerSeesEnd tr)).
Definition chk_c_task (T : tables) (sc : cscn) : bool :=
  on_trace (client_trace T sc) (fun tr =>
    ends_with_task_finished tr && occurs LocalDropped tr && waits_bounded 5 tr
    && (negb (c_acks sc) || no_slow_wait tr)).
Definition chk_c_graceful (T : tables) (sc : cscn) : bool :=
  on_trace (client_trace T sc) (fun tr =>
    negb (is_quic (c_t sc) && c_acks sc && tunnel_opened sc && match c_end sc with (None, _) => false | _ => true end)
    || occurs (ConnClosed true) tr).

(* ---------- regressions of the family of the seeded one, as other table values ---------- *)
Definition with_close (T : tables) (l : list xstep) : tables :=
  {| t_close := l; t_close_consumes := t_close_consumes T; t_shutdown := t_shutdown T; t_tcp_relay := t_tcp_relay T;
     t_ws_accept := t_ws_accept T; t_quic_relay := t_quic_relay T; t_relay_to := t_relay_to T; t_tcp_bidi := t_tcp_bidi T;
     t_udp_bidi := t_udp_bidi T; t_bidi := t_bidi T; t_plain_task := t_plain_task T; t_tls_task := t_tls_task T;
     t_quic_task := t_quic_task T; t_client_task := t_client_task T; t_try_transfer := t_try_transfer T; t_arms := t_arms T;
     t_relay_tcp := t_relay_tcp T; t_relay_tcp_then := t_relay_tcp_then T |}.
Definition with_quic_relay (T : tables) (l : list xstep) : tables :=
  {| t_close := t_close T; t_close_consumes := t_close_consumes T; t_shutdown := t_shutdown T; t_tcp_relay := t_tcp_relay T;
     t_ws_accept := t_ws_accept T; t_quic_relay := l; t_relay_to := t_relay_to T; t_tcp_bidi := t_tcp_bidi T;
     t_udp_bidi := t_udp_bidi T; t_bidi := t_bidi T; t_plain_task := t_plain_task T; t_tls_task := t_tls_task T;
     t_quic_task := t_quic_task T; t_client_task := t_client_task T; t_try_transfer := t_try_transfer T; t_arms := t_arms T;
     t_relay_tcp := t_relay_tcp T; t_relay_tcp_then := t_relay_tcp_then T |}.
Definition with_relay_to (T : tables) (l : list (list outcome * list xstep)) : tables :=
  {| t_close := t_close T; t_close_consumes := t_close_consumes T; t_shutdown := t_shutdown T; t_tcp_relay := t_tcp_relay T;
     t_ws_accept := t_ws_accept T; t_quic_relay := t_quic_relay T; t_relay_to := l; t_tcp_bidi := t_tcp_bidi T;
     t_udp_bidi := t_udp_bidi T; t_bidi := t_bidi T; t_plain_task := t_plain_task T; t_tls_task := t_tls_task T;
     t_quic_task := t_quic_task T; t_client_task := t_client_task T; t_try_transfer := t_try_transfer T; t_arms := t_arms T;
     t_relay_tcp := t_relay_tcp T; t_relay_tcp_then := t_relay_tcp_then T |}.
Definition with_bidi (T : tables) (l : list xstep) : tables :=
  {| t_close := t_close T; t_close_consumes := t_close_consumes T; t_shutdown := t_shutdown T; t_tcp_relay := t_tcp_relay T;
     t_ws_accept := t_ws_accept T; t_quic_relay := t_quic_relay T; t_relay_to := t_relay_to T; t_tcp_bidi := t_tcp_bidi T;
     t_udp_bidi := t_udp_bidi T; t_bidi := l; t_plain_task := t_plain_task T; t_tls_task := t_tls_task T;
     t_quic_task := t_quic_task T; t_client_task := t_client_task T; t_try_transfer := t_try_transfer T; t_arms := t_arms T;
     t_relay_tcp := t_relay_tcp T; t_relay_tcp_then := t_relay_tcp_then T |}.
Definition with_arms (T : tables) (l : list ((opat * opat * opat) * list xstep)) : tables :=
  {| t_close := t_close T; t_close_consumes := t_close_consumes T; t_shutdown := t_shutdown T; t_tcp_relay := t_tcp_relay T;
     t_ws_accept := t_ws_accept T; t_quic_relay := t_quic_relay T; t_relay_to := t_relay_to T; t_tcp_bidi := t_tcp_bidi T;
     t_udp_bidi := t_udp_bidi T; t_bidi := t_bidi T; t_plain_task := t_plain_task T; t_tls_task := t_tls_task T;
     t_quic_task := t_quic_task T; t_client_task := t_client_task T; t_try_transfer := t_try_transfer T; t_arms := l;
     t_relay_tcp := t_relay_tcp T; t_relay_tcp_then := t_relay_tcp_then T |}.
