(* The per-protocol ADAPTERS of the UDP relay, as data.  Definitions only (facts: Proofs/UdpAdapterFacts.v).

   The client's datagram loop (client/template.rs transfer_udp / new_binding) is generic: everything that differs
   between the protocols is in four small functions per protocol module (client/{shadowsocks,trojan,vmess}.rs, mod udp)
       new_key(sender, target)                         what a binding is keyed by
       new_*_outbound(target, context)                 whether the outbound is made FOR that target (request header)
       to_outbound_send((content, target), proxy)      whether the datagram's own target goes out with it
       to_inbound_recv(item, binding_target, sender)   where the address label of a reply comes from
   and, on the server, in which address a relayed datagram is sent to (the one in the packet / the one of the request
   header) and in what the Shadowsocks association key is made of (server/shadowsocks.rs associate_key).
   tools/gen_from_source.py (gen_udp_adapters) reads these facts off the function BODIES into Generated/UdpAdapters.v;
   nothing about them is written by hand here.  Model/UdpTables.v is parametrised by a `shape` (the facts of one
   protocol); `shape_of p` is the generated one, and a regression is simply another value of `shape`.

   The judgements (`target_ok`, `label_ok`, `assoc_parts_ok`) say when the facts of one protocol fit together:
     target_ok   the address the server sends a datagram to is the datagram's own target: either the target travels with
                 every datagram and the server uses that one, or the server uses the request header's, the outbound was
                 made for the binding's target, and the binding key contains the target (so every datagram on that
                 binding has that very target)
     label_ok    the label of a reply is the source the server reported, or the binding's target in a protocol whose
                 binding key contains the target (the only target that binding ever sent to, hence the replier)
     assoc_parts_ok  the association key names the client session, the user, and (always, or for ciphers without
                 session ids) the client address *)
From Coq Require Import List Bool.
From Octo Require Export Generated.UdpAdapters.
Import ListNotations.

Record shape := {
  s_key : key_shape;            (* new_key *)
  s_out : out_shape;            (* to_outbound_send *)
  s_label : label_src;          (* to_inbound_recv *)
  s_bound : outbound_binding;   (* new_*_outbound *)
  s_dest : dest_src }.          (* server: destination of a relayed datagram *)

Definition shape_of (p : proto) : shape :=
  {| s_key := client_key_shape p; s_out := client_out_shape p; s_label := client_label_src p;
     s_bound := client_outbound_binding p; s_dest := server_udp_dest p |}.

Definition target_ok (s : shape) : bool :=
  match s_dest s with
  | DestPerPacket => match s_out s with OutKeepsTarget => true | OutDropsTarget => false end
  | DestRequestHeader =>
      match s_bound s, s_key s with OutboundFixedTarget, KSenderTarget => true | _, _ => false end
  end.

Definition label_ok (s : shape) : bool :=
  match s_label s with
  | LabelFromServer => true
  | LabelBindingTarget => match s_key s with KSenderTarget => true | KSender => false end
  end.

Scheme Equality for akey_part.      (* akey_part_beq *)
Definition has_part (c : akey_part) (parts : list akey_part) : bool := existsb (akey_part_beq c) parts.
Definition assoc_parts_ok (parts : list akey_part) : bool :=
  has_part AkSessionId parts && has_part AkUser parts &&
  (has_part AkClientAlways parts || has_part AkClientUnlessReplayProtected parts).

(* ---------- the two regressions the judgements are there for (seeded/C09-b, seeded/C02-b) ---------- *)
(* R1: client/vmess.rs new_key returns only the sender (everything else as it is) *)
Definition R1_vmess : shape :=
  {| s_key := KSender; s_out := OutDropsTarget; s_label := LabelBindingTarget;
     s_bound := OutboundFixedTarget; s_dest := DestRequestHeader |}.
(* R2: client/shadowsocks.rs to_inbound_recv labels a reply with the binding's (first) target *)
Definition R2_shadowsocks : shape :=
  {| s_key := KSender; s_out := OutKeepsTarget; s_label := LabelBindingTarget;
     s_bound := OutboundAnyTarget; s_dest := DestPerPacket |}.
(* R3: server/shadowsocks.rs associate_key without the user *)
Definition R3_parts : list akey_part := [AkSessionId; AkClientUnlessReplayProtected].
