(* client/handshake.rs: the local handshake DRIVER -- get_request_addr, recognize (peek loop, 1024-byte window,
   httparse::Request::parse with zero header slots), consume_request_head (peek loop, 8192-byte window) and the
   SOCKS5 branch (protocol/socks5/handshake.rs::server::no_auth, read_message: one byte at a time).  Definitions only.

   httparse 1.10.1 (src/lib.rs) is modelled as far as `recognize` can observe it: Request::parse sets `method`
   after parse_method and `path` after parse_uri; everything behind the path only influences the status.

   The stream is described by its total content `s` and an ARRIVAL HISTORY: a list of "bytes arrived so far"
   lengths.  A peek / read issued when `a` bytes have arrived sees a prefix of `firstn a s`; peek does not
   consume, so every peek sees a prefix of `s` from its very first byte.  After the history everything has
   arrived and the peer sends nothing more (half-close).  Time is abstracted: a loop that is still waiting
   when nothing more can arrive is cut by the 30 s timeout of get_request_addr. *)
From Coq Require Import NArith List Bool.
From Octo Require Import Base.Bytes Model.Utf8 Model.Address Model.Socks5 Model.Http.
Import ListNotations.
Open Scope N_scope.

(* ------------------------------------------------------------------------------------------ *)
(* httparse: byte classes (TOKEN_MAP, URI_MAP, HEADER_VALUE_MAP)                                *)
(* ------------------------------------------------------------------------------------------ *)
Definition ch_sp : N := 32.  Definition ch_cr : N := 13.  Definition ch_lf : N := 10.  Definition ch_tab : N := 9.

(* is_method_token = is_header_name_token: ALPHA / DIGIT / ! # $ % & ' * + - . ^ _ ` | ~ *)
Definition is_token (b : N) : bool :=
  in_range 65 90 b || in_range 97 122 b || in_range 48 57 b
  || existsb (N.eqb b) [33; 35; 36; 37; 38; 39; 42; 43; 45; 46; 94; 95; 96; 124; 126].
(* is_uri_token: b'!'..=0x7e | 0x80..=0xFF *)
Definition is_uri_token (b : N) : bool := in_range 33 126 b || (128 <=? b).
(* is_header_value_token: b'\t' | b' '..=0x7e | 0x80..=0xFF *)
Definition is_value_token (b : N) : bool := (b =? ch_tab) || in_range 32 126 b || (128 <=? b).

(* outcome of one sub-parser on the bytes that remain: Complete (value, what is left) | Partial | Err *)
Inductive scan (A : Type) := SDone (a : A) (rest : bytes) | SPartial | SErr.
Arguments SDone {A}. Arguments SPartial {A}. Arguments SErr {A}.

(* skip_empty_lines: any number of CRLF / LF before the request line; CR not followed by LF is an error *)
Fixpoint skip_empty_lines (b : bytes) : scan unit :=
  match b with
  | [] => SPartial
  | x :: t =>
    if x =? ch_cr then
      match t with
      | [] => SPartial
      | y :: t' => if y =? ch_lf then skip_empty_lines t' else SErr
      end
    else if x =? ch_lf then skip_empty_lines t
    else SDone tt b
  end.

(* parse_token: 1*tchar SP *)
Fixpoint token_tail (b : bytes) : scan bytes :=
  match b with
  | [] => SPartial
  | x :: t =>
    if x =? ch_sp then SDone [] t
    else if is_token x then match token_tail t with SDone m r => SDone (x :: m) r | SPartial => SPartial | SErr => SErr end
    else SErr
  end.
Definition parse_token (b : bytes) : scan bytes :=
  match b with
  | [] => SPartial
  | x :: t => if is_token x then match token_tail t with SDone m r => SDone (x :: m) r | SPartial => SPartial | SErr => SErr end
              else SErr
  end.
(* parse_method: fast paths for "GET " and "POST " (peek_n(4), peek_ahead(4)), parse_token otherwise *)
Definition GET_SP : bytes := [71; 69; 84; 32].
Definition POST_SP : bytes := [80; 79; 83; 84; 32].
Definition parse_method (b : bytes) : scan bytes :=
  if starts_with GET_SP b then SDone [71; 69; 84] (skipn 4 b)
  else if starts_with POST_SP b then SDone [80; 79; 83; 84] (skipn 5 b)
  else parse_token b.

(* parse_uri: match_uri_vectored advances over URI bytes; the next byte must be SP; the URI must be non-empty
   and valid UTF-8 (str::from_utf8) *)
Fixpoint uri_span (b : bytes) : bytes * bytes :=
  match b with
  | [] => ([], [])
  | x :: t => if is_uri_token x then let (u, r) := uri_span t in (x :: u, r) else ([], b)
  end.
Definition parse_uri (b : bytes) : scan bytes :=
  let (u, r) := uri_span b in
  match r with
  | [] => SPartial
  | x :: t =>
    if x =? ch_sp then
      match u with [] => SErr | _ => if utf8_valid u then SDone u t else SErr end
    else SErr
  end.

(* the part of Request::parse that decides `method` and `path` *)
Inductive line_scan :=
| LDone (method path : bytes) (rest : bytes)     (* method and path set; `rest` starts at the version *)
| LPartial (method : option bytes)
| LErr (method : option bytes).
Definition request_line (b : bytes) : line_scan :=
  match skip_empty_lines b with
  | SPartial => LPartial None
  | SErr => LErr None
  | SDone _ b1 =>
    match parse_method b1 with
    | SPartial => LPartial None
    | SErr => LErr None
    | SDone m b2 =>
      match parse_uri b2 with
      | SPartial => LPartial (Some m)
      | SErr => LErr (Some m)
      | SDone p b3 => LDone m p b3
      end
    end
  end.

(* --- behind the path: parse_version, newline!, parse_headers_iter_uninit with ZERO header slots --- *)
Inductive hstatus := HComplete | HPartial | HError.

Definition HTTP_1_DOT : bytes := [72; 84; 84; 80; 47; 49; 46].    (* "HTTP/1." *)
Fixpoint is_prefix_of (p s : bytes) : bool :=      (* p is a prefix of s *)
  match p, s with [], _ => true | a :: p', b :: s' => (a =? b) && is_prefix_of p' s' | _ :: _, [] => false end.
(* parse_version: with 8 bytes available exactly "HTTP/1.0" / "HTTP/1.1"; with fewer, Partial while they match *)
Definition parse_version (b : bytes) : scan unit :=
  if 8 <=? lenN b then
    if starts_with HTTP_1_DOT b && (match nth_error b 7 with Some d => (d =? 48) || (d =? 49) | None => false end)
    then SDone tt (skipn 8 b) else SErr
  else if is_prefix_of b HTTP_1_DOT then SPartial else SErr.
(* newline!: CRLF or LF *)
Definition parse_newline (b : bytes) : scan unit :=
  match b with
  | [] => SPartial
  | x :: t =>
    if x =? ch_cr then match t with [] => SPartial | y :: t' => if y =? ch_lf then SDone tt t' else SErr end
    else if x =? ch_lf then SDone tt t
    else SErr
  end.
Fixpoint span (f : N -> bool) (b : bytes) : bytes :=      (* what is left after the longest prefix satisfying f *)
  match b with [] => [] | x :: t => if f x then span f t else b end.
(* end of a header value: CRLF / LF.  With zero slots a complete header line yields Err(TooManyHeaders) *)
Definition header_eol (b : bytes) : hstatus :=
  match b with
  | [] => HPartial
  | x :: t =>
    if x =? ch_cr then match t with [] => HPartial | _ => HError end   (* CRLF -> TooManyHeaders ; CR x -> HeaderValue *)
    else HError                                                         (* LF -> TooManyHeaders ; other -> HeaderValue *)
  end.
Definition header_line (b : bytes) : hstatus :=        (* b starts with a header-name token *)
  match span is_token b with
  | [] => HPartial
  | x :: t =>
    if x =? ch_colon then
      match span (fun c => (c =? ch_sp) || (c =? ch_tab)) t with
      | [] => HPartial
      | y :: t' => if is_value_token y then header_eol (span is_value_token t') else header_eol (y :: t')
      end
    else HError
  end.
Definition parse_headers0 (b : bytes) : hstatus :=
  match b with
  | [] => HPartial
  | x :: t =>
    if x =? ch_cr then match t with [] => HPartial | y :: _ => if y =? ch_lf then HComplete else HError end
    else if x =? ch_lf then HComplete
    else if is_token x then header_line b
    else HError
  end.
Definition tail_status (b : bytes) : hstatus :=
  match parse_version b with
  | SPartial => HPartial | SErr => HError
  | SDone _ b1 =>
    match parse_newline b1 with
    | SPartial => HPartial | SErr => HError
    | SDone _ b2 => parse_headers0 b2
    end
  end.

(* Request::parse(&buf[..len]) with `headers = []`: (status, req.method, req.path) *)
Definition request_parse (b : bytes) : hstatus * option bytes * option bytes :=
  match request_line b with
  | LDone m p rest => (tail_status rest, Some m, Some p)
  | LPartial m => (HPartial, m, None)
  | LErr m => (HError, m, None)
  end.

(* ------------------------------------------------------------------------------------------ *)
(* recognize: one iteration of the peek loop on the peeked window                              *)
(* ------------------------------------------------------------------------------------------ *)
Definition RECOGNIZE_WINDOW : N := 1024.
Definition HEAD_WINDOW : N := 8192.

Inductive decision :=
| DSocks5 | DHttp (a : addr) | DHttps (a : addr)
| DWait                      (* sleep 10 ms and peek again *)
| DTooLong                   (* 414 written, Proxy::Error *)
| DUnknown                   (* Proxy::Unknown *)
| DError                     (* recognize_http returned Err *)
| DPanic.                    (* recognize_http panicked (never: HandshakeFacts.recognize_never_panics) *)

(* The first byte is tested once, on a 1-byte peek, before the loop; it never changes, so testing it in every
   iteration is the same function of the window.  An empty window (peek returned 0: EOF) leaves buf[0] = 0. *)
Definition is_socks5 (w : bytes) : bool := match w with v :: _ => v =? S5_VERSION | [] => false end.
Definition is_partial (st : hstatus) : bool := match st with HPartial => true | _ => false end.
Definition recognize_step (w : bytes) : decision :=
  if is_socks5 w then DSocks5 else
  let '(st, m, p) := request_parse w in
  match p, m with
  | Some path, Some method =>
    match recognize_http method path with
    | Ok (PHttp a) => DHttp a | Ok (PHttps a) => DHttps a | Err _ => DError | Panic => DPanic
    end
  | _, _ =>
    if is_partial st && (0 <? lenN w) && (lenN w <? RECOGNIZE_WINDOW) then DWait
    else match p, m with None, Some _ => DTooLong | _, _ => DUnknown end
  end.

(* consume_request_head: one iteration on the peeked window.  `start` = the first byte that is neither CR nor LF
   (the empty lines httparse skips); CRLFCRLF is searched from there; start + end + 4 bytes are consumed *)
Definition CRLFCRLF : bytes := [13; 10; 13; 10].
Inductive consume := CConsume (n : N) | CWait | CFail.
Definition is_crlf (b : N) : bool := (b =? ch_cr) || (b =? ch_lf).
Definition consume_head_step (w : bytes) : consume :=
  let body := span is_crlf w in                      (* buf[start..len] *)
  match find_sub CRLFCRLF body with
  | Some e => CConsume ((lenN w - lenN body) + N.of_nat e + 4)
  | None => if (lenN w =? 0) || (lenN w =? HEAD_WINDOW) then CFail else CWait
  end.

(* ------------------------------------------------------------------------------------------ *)
(* the driver over an arrival history                                                          *)
(* ------------------------------------------------------------------------------------------ *)
(* what a peek with a `cap`-byte buffer sees when `a` bytes have arrived *)
Definition window (cap : N) (s : bytes) (a : N) : bytes := takeN (N.min a cap) s.

(* the arrived lengths the successive peeks / reads observe: a peek blocks while nothing has arrived (entries
   clamped to 0 are skipped), no more than the stream holds can arrive, and in the end everything has arrived *)
Definition observed (s : bytes) (hist : list N) : list N :=
  filter (fun a => 0 <? a) (map (fun a => N.min a (lenN s)) hist) ++ [lenN s].

(* recognize's loop: the decision and the observations that remain (from the deciding one on: the data is
   still there).  DWait at the end of the list: still waiting when nothing more can arrive (timeout) *)
Fixpoint recognize_loop (s : bytes) (obs : list N) : decision * list N :=
  match obs with
  | [] => (DWait, [])
  | a :: t => match recognize_step (window RECOGNIZE_WINDOW s a) with DWait => recognize_loop s t | d => (d, obs) end
  end.
Fixpoint consume_loop (s : bytes) (obs : list N) : consume :=
  match obs with
  | [] => CWait
  | a :: t => match consume_head_step (window HEAD_WINDOW s a) with CWait => consume_loop s t | c => c end
  end.

Inductive hkind := KSocks5 | KHttp | KHttps.
Inductive refusal := RUnknown | RTooLong | RBadTarget | RTimeout | RHead | RSocks.
Inductive outcome :=
| Tunnel (k : hkind) (target : addr) (reply : bytes) (consumed : N)
   (* reply = what was written to the application; consumed = bytes taken off the stream (NOT forwarded) *)
| Refused (why : refusal) (reply : bytes)
| Crashed.

Definition REPLY_200 : bytes :=     (* "HTTP/1.1 200 Connection established\r\n\r\n" *)
  [72;84;84;80;47;49;46;49;32;50;48;48;32;67;111;110;110;101;99;116;105;111;110;32;101;115;116;97;98;108;105;115;104;101;100;13;10;13;10].
Definition REPLY_414 : bytes :=     (* "HTTP/1.1 414 URI Too Long\r\n\r\n" *)
  [72;84;84;80;47;49;46;49;32;52;49;52;32;85;82;73;32;84;111;111;32;76;111;110;103;13;10;13;10].

(* --- SOCKS5: server::no_auth.  read_message decodes what is buffered and, while the decoder wants more, takes
   ONE byte from the stream (read_u8): exactly the greeting and exactly the request leave the stream, whatever
   has arrived behind them.  The reads block until their byte arrives, so the arrival history plays no role;
   EOF (nothing more will come) inside a message is an error. --- *)
Definition S5_METHOD_REPLY : bytes := [5; 0].
Definition s5_command_reply (status : N) (local : addr) : bytes := [5; status; 0] ++ s5_encode local.

Definition s5_finish (local : addr) (cmd : N) (dst : addr) (read : N) : outcome :=
  let unnamed := match dst with ADom h _ => lenN h =? 0 | _ => false end in
  if negb (cmd =? 1) || unnamed then Refused RSocks (S5_METHOD_REPLY ++ s5_command_reply 1 local)
  else
    let reply := S5_METHOD_REPLY ++ s5_command_reply 0 local in
    match dst with
    | ADom h _ => if host_ok h then Tunnel KSocks5 dst reply read else Refused RSocks reply    (* fn domain *)
    | _ => Tunnel KSocks5 dst reply read
    end.

Inductive s5_msg (A : Type) :=
| MItem (item : A) (buf : bytes) (unread : bytes)     (* the item, what the decoder left in `buf`, what is still in the stream *)
| MEof | MErr | MPanic.
Arguments MItem {A}. Arguments MEof {A}. Arguments MErr {A}. Arguments MPanic {A}.
Fixpoint s5_read_message {A : Type} (dec : bytes -> res (bytes * option A)) (buf unread : bytes) : s5_msg A :=
  match dec buf with
  | Ok (buf', Some item) => MItem item buf' unread
  | Ok (buf', None) => match unread with [] => MEof | x :: t => s5_read_message dec (buf' ++ [x]) t end
  | Err _ => MErr
  | Panic => MPanic
  end.

Definition s5_handshake (s : bytes) (local : addr) : outcome :=
  match s5_read_message s5_initial_request [] s with
  | MItem _ buf unread =>
    match s5_read_message s5_command_request buf unread with
    | MItem (cmd, dst) _ unread' => s5_finish local cmd dst (lenN s - lenN unread')
    | MEof | MErr => Refused RSocks S5_METHOD_REPLY
    | MPanic => Crashed
    end
  | MEof | MErr => Refused RSocks []
  | MPanic => Crashed
  end.

(* get_request_addr *)
Definition handshake (s : bytes) (local : addr) (hist : list N) : outcome :=
  let (d, rest) := recognize_loop s (observed s hist) in
  match d with
  | DSocks5 => s5_handshake s local
  | DHttp a => Tunnel KHttp a [] 0
  | DHttps a =>
    match consume_loop s rest with
    | CConsume n => Tunnel KHttps a REPLY_200 n
    | CWait => Refused RTimeout []
    | CFail => Refused RHead []
    end
  | DWait => Refused RTimeout []
  | DTooLong => Refused RTooLong REPLY_414
  | DUnknown => Refused RUnknown []
  | DError => Refused RBadTarget []
  | DPanic => Crashed
  end.

(* ------------------------------------------------------------------------------------------ *)
(* the behaviour BEFORE the repairs fad5d1a / 32d4108, kept for regression sensitivity           *)
(* (HandshakeFacts: v0_socks5_early_data_lost, v0_connect_after_empty_lines_forwarded)          *)
(* ------------------------------------------------------------------------------------------ *)
(* consume_request_head searched CRLFCRLF from the first byte of the window *)
Definition consume_head_step_v0 (w : bytes) : consume :=
  match find_sub CRLFCRLF w with
  | Some e => CConsume (N.of_nat e + 4)
  | None => if (lenN w =? 0) || (lenN w =? HEAD_WINDOW) then CFail else CWait
  end.
Fixpoint consume_loop_v0 (s : bytes) (obs : list N) : consume :=
  match obs with
  | [] => CWait
  | a :: t => match consume_head_step_v0 (window HEAD_WINDOW s a) with CWait => consume_loop_v0 s t | c => c end
  end.
(* no_auth ran over FramedRead (8 KiB buffer): a read took everything that had arrived; what had been read
   beyond the request was dropped with the reader.  `c` = bytes consumed by the greeting, `r` = bytes read *)
Definition S5_READ_CAP : N := 8192.
Fixpoint s5_request_loop_v0 (s : bytes) (local : addr) (c r : N) (obs : list N) : outcome :=
  match s5_command_request (dropN c (takeN r s)) with
  | Ok (_, Some (cmd, dst)) => s5_finish local cmd dst r
  | Ok (_, None) =>
    match obs with
    | [] => Refused RSocks S5_METHOD_REPLY
    | a :: t => s5_request_loop_v0 s local c (N.max r (N.min a S5_READ_CAP)) t
    end
  | Err _ => Refused RSocks S5_METHOD_REPLY
  | Panic => Crashed
  end.
Fixpoint s5_greeting_loop_v0 (s : bytes) (local : addr) (r : N) (obs : list N) : outcome :=
  match obs with
  | [] => Refused RSocks []
  | a :: t =>
    let r' := N.max r (N.min a S5_READ_CAP) in
    match s5_initial_request (takeN r' s) with
    | Ok (rest, Some _) => s5_request_loop_v0 s local (r' - lenN rest) r' t
    | Ok (_, None) => s5_greeting_loop_v0 s local r' t
    | Err _ => Refused RSocks []
    | Panic => Crashed
    end
  end.
Definition handshake_v0 (s : bytes) (local : addr) (hist : list N) : outcome :=
  let (d, rest) := recognize_loop s (observed s hist) in
  match d with
  | DSocks5 => s5_greeting_loop_v0 s local 0 rest
  | DHttp a => Tunnel KHttp a [] 0
  | DHttps a =>
    match consume_loop_v0 s rest with
    | CConsume n => Tunnel KHttps a REPLY_200 n
    | CWait => Refused RTimeout []
    | CFail => Refused RHead []
    end
  | DWait => Refused RTimeout []
  | DTooLong => Refused RTooLong REPLY_414
  | DUnknown => Refused RUnknown []
  | DError => Refused RBadTarget []
  | DPanic => Crashed
  end.
