(* Model of octo-squirrel/src/manager/packet_window.rs (PacketWindowFilter).
   Definitions only.  u64 values are N with the range < 2^64 as an invariant; no operation
   of the Rust code can overflow under that invariant (see Proofs/PacketWindowList.v). *)
From Coq Require Import NArith List.
Import ListNotations.
Open Scope N_scope.

Definition BLOCK_BIT_LOG : N := 6.
Definition BLOCK_BITS : N := N.shiftl 1 BLOCK_BIT_LOG.
Definition RING_BLOCKS : N := N.shiftl 1 7.
Definition WINDOW_SIZE : N := (RING_BLOCKS - 1) * BLOCK_BITS.
Definition BLOCK_MASK : N := RING_BLOCKS - 1.
Definition BIT_MASK : N := BLOCK_BITS - 1.

Record pw := { pw_last : N; pw_ring : list N }.

Definition pw_new : pw := {| pw_last := 0; pw_ring := repeat 0 (N.to_nat RING_BLOCKS) |}.

(* reset(): last_packet_id = 0; packet_ring[0] = 0 -- as in the Rust code, only slot 0 is cleared *)
Fixpoint lset (l : list N) (i : nat) (v : N) : list N :=
  match l, i with
  | [], _ => []
  | _ :: t, O => v :: t
  | h :: t, S j => h :: lset t j v
  end.
Definition lget (l : list N) (i : N) : N := nth (N.to_nat i) l 0.
Definition pw_reset (s : pw) : pw := {| pw_last := 0; pw_ring := lset (pw_ring s) 0 0 |}.

(* for d in 1..=diff { ring[(current + d) & BLOCK_MASK] = 0 } *)
Fixpoint lclear (l : list N) (current : N) (d : nat) : list N :=
  match d with
  | O => l
  | S k => lset (lclear l current k) (N.to_nat (N.land (current + N.of_nat (S k)) BLOCK_MASK)) 0
  end.

Definition pw_validate (s : pw) (id limit : N) : pw * bool :=
  if limit <=? id then (s, false) else
  let index_block := N.shiftr id BLOCK_BIT_LOG in
  let moved :=
    if pw_last s <? id then
      let current := N.shiftr (pw_last s) BLOCK_BIT_LOG in
      let diff := index_block - current in
      let diff := if RING_BLOCKS <? diff then RING_BLOCKS else diff in
      Some {| pw_last := id; pw_ring := lclear (pw_ring s) current (N.to_nat diff) |}
    else if WINDOW_SIZE <? pw_last s - id then None
    else Some s in
  match moved with
  | None => (s, false)
  | Some s1 =>
    let ib := N.land index_block BLOCK_MASK in
    let bit := N.land id BIT_MASK in
    let old := lget (pw_ring s1) ib in
    let new := N.lor old (N.shiftl 1 bit) in
    ({| pw_last := pw_last s1; pw_ring := lset (pw_ring s1) (N.to_nat ib) new |}, negb (old =? new))
  end.

(* a history: feed ids in order, collect the verdicts *)
Fixpoint pw_run (s : pw) (ids : list N) (limit : N) : pw * list bool :=
  match ids with
  | [] => (s, [])
  | id :: t => let '(s1, b) := pw_validate s id limit in
               let '(s2, bs) := pw_run s1 t limit in (s2, b :: bs)
  end.

(* ---------------- specification: the set of accepted ids ---------------- *)
Definition spec_accept (acc : list N) (id limit : N) : bool :=
  (id <? limit) && negb (existsb (N.eqb id) acc) && forallb (fun j => j <=? id + WINDOW_SIZE) acc.

Fixpoint spec_run (acc : list N) (ids : list N) (limit : N) : list N * list bool :=
  match ids with
  | [] => (acc, [])
  | id :: t => let b := spec_accept acc id limit in
               let '(acc2, bs) := spec_run (if b then id :: acc else acc) t limit in (acc2, b :: bs)
  end.
