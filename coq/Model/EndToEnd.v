(* One whole TCP flow, end to end: the composition the C01 capstone theorems (Proofs/EndToEndFacts.v) are about.
   Definitions only.

     application --(s, arrival history)--> client: Model/Handshake.handshake
                                             Tunnel kind target reply consumed          | refusal
        the rest of the stream, dropN consumed s, is read by the client's local->server pump in ARBITRARY
        reads rs (concat rs = dropN consumed s)
     client  relay_tcp_then (client/template.rs l.168): c_s.send(BytesMut::new()) -- an EMPTY first message that
        only carries the request header for `target` -- then one encoder call per read: writes = [] :: rs
        (client encoders of Model/SsTcp.v, Model/Vmess.v, client/trojan.rs::tcp::ClientCodec::encode below);
        one encoder call = one wire message (Framed: appended to the write buffer; WebSocketFramed::start_send:
        one binary message)
     wire    stream transports (plain / TLS / QUIC): the concatenation of the messages, cut into ARBITRARY segments;
             WebSocket: a list of messages (the ones the encoder produced, or any re-chunking, with empty and control
             messages in between) through Lib/WsFramed
     server  the protocol's server decoder under Lib/Framed.run (resp. ws_run); relay_to: the first item must be
             ConnectTcp payload0 target', every further item RelayTcp chunk; relay_bidirectional sends payload0, then
             the chunks, to the target (Model/Relay pump AB, `first` = payload0)
   and symmetrically the answer: the target's bytes in arbitrary reads ts -> server encoder -> arbitrary segmentation
   -> client decoder -> application.

   Randomness, salts, paddings and clocks are parameters, as in the codec models.  The two directions of one
   connection use independent parts of the codec state (Shadowsocks: cd_enc / cd_dec; VMess: two bodies), so each
   direction is run from a state in which the other direction's part is at its initial value
   (SsTcpStreamResp.ss_encode_reads_enc_only / ss_decode_keeps_enc justify this for the shared Shadowsocks record). *)
From Coq Require Import NArith List Bool.
From Octo Require Import Base.Bytes Crypto.Prims Lib.Framed Lib.WsFramed Model.Address Model.SsChunk Model.SsTcp
                         Model.Trojan Model.Vmess Model.Handshake.
From Octo Require Model.Relay.
Import ListNotations.
Open Scope N_scope.

(* ------------------------------------------------------------------------------------------ *)
(* 1. transports                                                                                *)
(* ------------------------------------------------------------------------------------------ *)
Inductive transport := TStream | TWebSocket.

(* what reaches the reading side *)
Inductive delivery :=
| DStream (segs : list bytes)         (* plain / TLS / QUIC: segments of the byte stream, cut anywhere *)
| DWs (msgs : list wsmsg).            (* WebSocket: data messages (payloads cut anywhere) and control messages *)

Definition transport_of (d : delivery) : transport := match d with DStream _ => TStream | DWs _ => TWebSocket end.
Definition delivered_segments (d : delivery) : list bytes :=
  match d with DStream segs => segs | DWs msgs => map ws_payload msgs end.
Definition delivered_bytes (d : delivery) : bytes := concat (delivered_segments d).

(* the reading side: FramedRead, resp. WebSocketFramed, around a decoder *)
Definition transport_run {St Item : Type} (dec : St -> bytes -> res (St * bytes * option Item)) (s0 : St) (d : delivery)
  : St * bytes * list Item * fstatus :=
  match d with
  | DStream segs => Framed.run St Item dec s0 [] segs []
  | DWs msgs => ws_view St Item (ws_run St Item dec (ws_init St s0) msgs [])
  end.

(* the writing side: one encoder call per write, one wire message per call *)
Fixpoint encode_msgs {E : Type} (enc : E -> bytes -> res (E * bytes)) (e : E) (ws : list bytes) : res (E * list bytes) :=
  match ws with
  | [] => Ok (e, [])
  | w :: t => let* (e1, m) := enc e w in
              let* (e2, ms) := encode_msgs enc e1 t in Ok (e2, m :: ms)
  end.

(* the encoder's own messages as a WebSocket delivery *)
Definition ws_of_msgs (msgs : list bytes) : delivery := DWs (map WsData msgs).

(* Shadowsocks 2022 reads salt and fixed-length header in one piece (`first-read exemption` of the property text):
   no poll may see the salt (n bytes) complete and the fixed header (hl bytes) incomplete.
   arrivals = the number of bytes that have arrived after each segment *)
Fixpoint arrivals (acc : N) (segs : list bytes) : list N :=
  match segs with [] => [] | s :: t => (acc + lenN s) :: arrivals (acc + lenN s) t end.
Definition first_read_ok (n hl : N) (segs : list bytes) : Prop :=
  Forall (fun m => m < n \/ n + hl <= m) (arrivals 0 segs).
Definition first_read_okb (n hl : N) (segs : list bytes) : bool :=
  forallb (fun m => (m <? n) || (n + hl <=? m)) (arrivals 0 segs).

(* ------------------------------------------------------------------------------------------ *)
(* 2. what the server relay makes of the decoded items (server/template.rs relay_to)            *)
(* ------------------------------------------------------------------------------------------ *)
Fixpoint relay_payloads (items : list inbound) : option (list bytes) :=
  match items with
  | [] => Some []
  | RelayTcp p :: t => match relay_payloads t with Some ps => Some (p :: ps) | None => None end
  | _ :: _ => None          (* a second ConnectTcp / a RelayUdp: InboundIn::try_into fails *)
  end.

(* (dialled address, payload0 :: chunks): the first item is ConnectTcp, every other one RelayTcp, the decoder is
   waiting for more input (no error, no panic, no livelock) and holds nothing back *)
Definition server_view {St : Type} (r : St * bytes * list inbound * fstatus) : option (addr * list bytes) :=
  let '(_, buf, items, st) := r in
  match st, buf, items with
  | Waiting, [], ConnectTcp p0 a :: rest =>
      match relay_payloads rest with Some ps => Some (a, p0 :: ps) | None => None end
  | _, _, _ => None
  end.
Definition client_view {St : Type} (r : St * bytes * list bytes * fstatus) : option (list bytes) :=
  let '(_, buf, items, st) := r in
  match st, buf with Waiting, [] => Some items | _, _ => None end.

(* ------------------------------------------------------------------------------------------ *)
(* 3. protocols: configuration + the randomness of one flow                                     *)
(* ------------------------------------------------------------------------------------------ *)
Record ss_cfg := {
  ss_cxc : ctx;                 (* client: kind, key (the user's key when an identity header is used), identity keys *)
  ss_cxs : ctx;                 (* server: kind, key, user table *)
  ss_csalt : bytes;             (* client session salt *)
  ss_cpad : bytes;              (* padding of the client's first write (2022) *)
  ss_cnow : N;                  (* client clock at its first write *)
  ss_snow : N;                  (* server clock while it decodes the request header *)
  ss_scache : list bytes;       (* server salt cache *)
  ss_ssalt : bytes;             (* server session salt *)
  ss_snow2 : N;                 (* server clock at its first write *)
  ss_cnow2 : N;                 (* client clock while it decodes the response header *)
  ss_ccache : list bytes        (* client salt cache *)
}.
Record vm_cfg := {
  vm_id : bytes;                (* the client's user id (16-byte cmd key) *)
  vm_keys : list bytes;         (* the server's users *)
  vm_opt : N;  vm_sec : N;      (* option mask and security of the request header *)
  vm_sess : vsession;           (* request body iv / key and response byte drawn by the client *)
  vm_ts : N;  vm_rnd4 : bytes;  vm_cnonce : bytes;  vm_hpad : bytes;      (* auth id and sealed header randomness *)
  vm_cpads : list bytes;        (* padding source of each client write *)
  vm_snow : N;                  (* server clock *)
  vm_spads : list bytes         (* padding source of each server write *)
}.
Record tj_cfg := {
  tj_pw : bytes;                (* the client's password *)
  tj_key : bytes                (* the server's key: SHA224 of its password *)
}.
Inductive proto_cfg := CShadowsocks (c : ss_cfg) | CVmess (c : vm_cfg) | CTrojan (c : tj_cfg).

(* README protocol families; for Shadowsocks the edition is decided by the cipher kind *)
Inductive proto_family := FSsLegacy | FSs2022 | FSs2022Identity | FVmess | FTrojan.
Definition family_of (c : proto_cfg) : proto_family :=
  match c with
  | CShadowsocks c =>
      if is_2022 (c_kind (ss_cxc c)) then match c_ikeys (ss_cxc c) with [] => FSs2022 | _ => FSs2022Identity end
      else FSsLegacy
  | CVmess _ => FVmess
  | CTrojan _ => FTrojan
  end.

(* what the server keeps from the request for the answer direction *)
Inductive srv_info := SiSs (s : session) | SiVmess (h : req_header) (s : vsession) | SiTrojan.

Definition run_state {St Item : Type} (r : St * bytes * list Item * fstatus) : St := fst (fst (fst r)).

Definition pop_pad (pads : list bytes) : bytes * list bytes := match pads with [] => ([], []) | p :: t => (p, t) end.

Section EndToEnd.
  Variable P : prims.

  (* ---------------- Shadowsocks ---------------- *)
  Definition ss_client_session (c : ss_cfg) (target : addr) : session :=
    {| s_mode := Client; s_salt := ss_csalt c; s_req_salt := None; s_user := None; s_addr := Some target |}.
  Definition ss_server_session (c : ss_cfg) : session :=
    {| s_mode := Server; s_salt := ss_ssalt c; s_req_salt := None; s_user := None; s_addr := None |}.

  (* client/shadowsocks.rs::tcp::PayloadCodec::encode = AEADCipherCodec::encode *)
  Definition ss_client_enc (c : ss_cfg) (target : addr) (cd : codec) (w : bytes) : res (codec * bytes) :=
    ss_encode P (ss_cxc c) (ss_cnow c) (ss_cpad c) (ss_client_session c target) cd w.
  (* server/shadowsocks.rs::tcp::PayloadCodec::encode; the session is the one the request decoder filled in *)
  Definition ss_server_enc (c : ss_cfg) (s : session) (cd : codec) (w : bytes) : res (codec * bytes) :=
    ss_encode P (ss_cxs c) (ss_snow2 c) [] s cd w.

  (* server/shadowsocks.rs::tcp::PayloadCodec::decode as a FramedRead decoder:
     state = (salt cache, session, cipher codec, Header/Body) *)
  Definition ss_sstate := (list bytes * session * codec * bool)%type.
  Definition ss_sdec (cx : ctx) (now : N) (st : ss_sstate) (src : bytes) : res (ss_sstate * bytes * option inbound) :=
    let '(cache, s, cd, ib) := st in
    match server_decode P cx now cache s cd ib src with
    | (cache', Ok (s', cd', ib', r, it)) => Ok (cache', s', cd', ib', r, it)
    | (_, Err e) => Err e
    | (_, Panic) => Panic
    end.
  Definition ss_state_session (st : ss_sstate) : session := let '(_, s, _, _) := st in s.
  (* client side: AEADCipherCodec::decode with the salt cache threaded *)
  Definition ss_cstate := (list bytes * session * codec)%type.
  Definition ss_cdec (cx : ctx) (now : N) (st : ss_cstate) (src : bytes) : res (ss_cstate * bytes * option bytes) :=
    let '(cache, s, cd) := st in
    match ss_decode P cx now cache s cd src with
    | (cache', Ok (s', cd', src', it)) => Ok ((cache', s', cd'), src', it)
    | (_, Err e) => Err e
    | (_, Panic) => Panic
    end.

  (* fixed-header lengths of the two directions (aead_2022/tcp.rs): type 1, timestamp 8, [request salt n,] length 2, tag 16;
     a server with a non-empty user table on an AES kind first reads a 16-byte identity header *)
  Definition ss_req_header_len (cx : ctx) : N :=
    (if support_eih (c_kind cx) && (match c_users cx with Some (_ :: _) => true | _ => false end) then 16 else 0)
    + 1 + 8 + 0 + 2 + TAG.
  Definition ss_resp_header_len (cx : ctx) : N := 0 + 1 + 8 + kind_n (c_kind cx) + 2 + TAG.

  (* ---------------- VMess ---------------- *)
  Definition vm_header (c : vm_cfg) (target : addr) : req_header :=
    {| rh_opt := vm_opt c; rh_sec := vm_sec c; rh_cmd := CmdTcp; rh_addr := target |}.
  Definition vm_client_enc (c : vm_cfg) (target : addr) (e : option body * list bytes) (w : bytes)
    : res ((option body * list bytes) * bytes) :=
    let (pad, pads) := pop_pad (snd e) in
    let* (b, wire) := client_vencode P (vm_id c) (vm_header c target) (vm_sess c) (fst e)
                                     (vm_ts c) (vm_rnd4 c) (vm_cnonce c) (vm_hpad c) w pad in
    Ok ((Some b, pads), wire).
  Definition vm_server_enc (h : req_header) (s : vsession) (e : option body * list bytes) (w : bytes)
    : res ((option body * list bytes) * bytes) :=
    let (pad, pads) := pop_pad (snd e) in
    let* (b, wire) := server_vencode P h s (fst e) w pad in
    Ok ((Some b, pads), wire).

  (* ---------------- Trojan ---------------- *)
  (* client/trojan.rs::tcp::ClientCodec::encode: the head goes out with the first item; state = `status` is Body *)
  Definition tj_client_enc (c : tj_cfg) (target : addr) (in_body : bool) (w : bytes) : res (bool * bytes) :=
    Ok (true, if in_body then w else trojan_client_head P (tj_pw c) 1 target ++ w).
  (* server/trojan.rs ServerCodec::encode: the bytes as they are *)
  Definition tj_server_enc (e : unit) (w : bytes) : res (unit * bytes) := Ok (e, w).
  (* client/trojan.rs::tcp::ClientCodec::decode: everything that is buffered, nothing on an empty buffer *)
  Definition tj_client_dec (st : unit) (src : bytes) : res (unit * bytes * option bytes) :=
    match src with [] => Ok (st, [], None) | _ => Ok (st, [], Some src) end.

  (* ------------------------------------------------------------------------------------------ *)
  (* 4. the four stages of a flow                                                               *)
  (* ------------------------------------------------------------------------------------------ *)
  (* client -> wire: the messages of the writes ws (relay_tcp_then: ws = [] :: reads) *)
  Definition req_msgs (cfg : proto_cfg) (target : addr) (ws : list bytes) : res (list bytes) :=
    match cfg with
    | CShadowsocks c => let* (_, ms) := encode_msgs (ss_client_enc c target) codec_new ws in Ok ms
    | CVmess c => let* (_, ms) := encode_msgs (vm_client_enc c target) (None, vm_cpads c) ws in Ok ms
    | CTrojan c => let* (_, ms) := encode_msgs (tj_client_enc c target) false ws in Ok ms
    end.

  (* wire -> server: dialled address, payload0 :: chunks, and what the server keeps for answering *)
  Definition req_serve (cfg : proto_cfg) (d : delivery) : option (addr * list bytes * srv_info) :=
    match cfg with
    | CShadowsocks c =>
        let r := transport_run (ss_sdec (ss_cxs c) (ss_snow c)) (ss_scache c, ss_server_session c, codec_new, false) d in
        match server_view r with
        | Some (a, ps) => Some (a, ps, SiSs (ss_state_session (run_state r)))
        | None => None
        end
    | CVmess c =>
        let r := transport_run (server_vdecode P (vm_snow c) (vm_keys c)) SInit d in
        match server_view r, run_state r with
        | Some (a, ps), SReady h s _ => Some (a, ps, SiVmess h s)
        | _, _ => None
        end
    | CTrojan c =>
        let r := transport_run (trojan_server_decode (tj_key c)) THeader d in
        match server_view r with Some (a, ps) => Some (a, ps, SiTrojan) | None => None end
    end.

  (* server -> wire: the messages of the target's reads ts *)
  Definition ans_msgs (cfg : proto_cfg) (info : srv_info) (ts : list bytes) : res (list bytes) :=
    match cfg, info with
    | CShadowsocks c, SiSs s => let* (_, ms) := encode_msgs (ss_server_enc c s) codec_new ts in Ok ms
    | CVmess c, SiVmess h s => let* (_, ms) := encode_msgs (vm_server_enc h s) (None, vm_spads c) ts in Ok ms
    | CTrojan _, SiTrojan => let* (_, ms) := encode_msgs tj_server_enc tt ts in Ok ms
    | _, _ => Err EOther
    end.

  (* wire -> client -> application: the chunks handed to the application's socket *)
  Definition ans_recv (cfg : proto_cfg) (target : addr) (d : delivery) : option (list bytes) :=
    match cfg with
    | CShadowsocks c =>
        client_view (transport_run (ss_cdec (ss_cxc c) (ss_cnow2 c)) (ss_ccache c, ss_client_session c target, codec_new) d)
    | CVmess c => client_view (transport_run (client_vdecode P (vm_header c target) (vm_sess c)) None d)
    | CTrojan _ => client_view (transport_run tj_client_dec tt d)
    end.

  (* ------------------------------------------------------------------------------------------ *)
  (* 5. the whole flow as one function (what the Examples evaluate)                              *)
  (* ------------------------------------------------------------------------------------------ *)
  Record flow_in := {
    fi_app : bytes;               (* everything the application writes *)
    fi_hist : list N;             (* arrival history seen by the handshake *)
    fi_local : addr;              (* the client's local address (SOCKS5 reply) *)
    fi_reads : list bytes;        (* how the client's pump reads the rest of the stream *)
    fi_req : delivery;            (* how the request wire reaches the server *)
    fi_target : list bytes;       (* the target's answer, as the server's pump reads it *)
    fi_ans : delivery             (* how the answer wire reaches the client *)
  }.

  Inductive flow_out :=
  | FNoTunnel (o : outcome)                    (* the handshake did not produce a tunnel *)
  | FClientEncodeFailed | FServerRefused | FServerEncodeFailed | FClientRefused
  | FRelayed (k : hkind) (target : addr) (reply : bytes) (consumed : N)
             (dialled : addr)                  (* the address in the server's ConnectTcp *)
             (to_target : list bytes)          (* payload0 :: chunks, as written to the target *)
             (to_app : list bytes).            (* after `reply`: the chunks written to the application *)

  Definition e2e_flow (cfg : proto_cfg) (i : flow_in) : flow_out :=
    match handshake (fi_app i) (fi_local i) (fi_hist i) with
    | Tunnel k target reply consumed =>
        match req_msgs cfg target ([] :: fi_reads i) with
        | Ok _ =>
            match req_serve cfg (fi_req i) with
            | Some (dialled, to_target, info) =>
                match ans_msgs cfg info (fi_target i) with
                | Ok _ =>
                    match ans_recv cfg target (fi_ans i) with
                    | Some to_app => FRelayed k target reply consumed dialled to_target to_app
                    | None => FClientRefused
                    end
                | _ => FServerEncodeFailed
                end
            | None => FServerRefused
            end
        | _ => FClientEncodeFailed
        end
    | o => FNoTunnel o
    end.

  (* the side conditions that tie the free parameters of flow_in to each other (hypotheses of the theorems):
     the reads split what the handshake left in the stream; each wire carries exactly the encoder's messages *)
  Definition reads_split (i : flow_in) (consumed : N) : Prop := concat (fi_reads i) = dropN consumed (fi_app i).
  Definition carries (d : delivery) (msgs : res (list bytes)) : Prop :=
    match msgs with Ok ms => delivered_bytes d = concat ms | _ => False end.
End EndToEnd.

(* ------------------------------------------------------------------------------------------ *)
(* 6. the pumps (Model/Relay.v) fed by a stream that yields given items                         *)
(* ------------------------------------------------------------------------------------------ *)
(* the chunks a pump took from its stream, in order *)
Fixpoint reads_of (les : list Relay.levent) : list bytes :=
  match les with
  | [] => []
  | Relay.LRead bs :: t => bs :: reads_of t
  | _ :: t => reads_of t
  end.
(* the events of one direction are those of a stream that yields `items` one after the other and ends after the last
   one (what the stream does after it has ended is never observed: forward fuses it) *)
Fixpoint feeds (items : list bytes) (les : list Relay.levent) : Prop :=
  match les with
  | [] => True
  | Relay.LRead bs :: t => match items with i :: rest => bs = i /\ feeds rest t | [] => False end
  | Relay.LEof :: t => items = []
  | _ :: t => feeds items t
  end.
(* ... and the stream reports no error (the decoder does not fail on the flows considered; socket errors are not
   part of C01) *)
Definition no_stream_error (les : list Relay.levent) : Prop :=
  Forall (fun e => match e with Relay.LStreamErr | Relay.LFilteredErr _ => False | _ => True end) les.
