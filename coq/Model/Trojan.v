(* server/trojan.rs (ServerCodec), client/trojan.rs (tcp/udp ClientCodec).  Definitions only. *)
From Coq Require Import NArith List Bool.
From Octo Require Import Base.Bytes Crypto.Prims Model.Address Model.SsTcp.
Import ListNotations.
Open Scope N_scope.

Definition CR : N := 13.  Definition LF : N := 10.

(* util::hex::decode on the 56 key bytes, guarded so that only ASCII hex digits reach it *)
Definition hexval (c : N) : option N :=
  if (48 <=? c) && (c <=? 57) then Some (c - 48)
  else if (97 <=? c) && (c <=? 102) then Some (c - 87)
  else if (65 <=? c) && (c <=? 70) then Some (c - 55)
  else None.
Fixpoint hex_decode (l : bytes) : option bytes :=
  match l with
  | [] => Some []
  | a :: b :: t => match hexval a, hexval b, hex_decode t with
                   | Some x, Some y, Some r => Some (x * 16 + y :: r) | _, _, _ => None end
  | _ => None
  end.
Definition hexdigit (v : N) : N := if v <? 10 then 48 + v else 87 + v.
Definition hex_encode (l : bytes) : bytes := flat_map (fun b => [hexdigit (b / 16); hexdigit (b mod 16)]) l.

(* one UDP-over-stream packet: addr ‖ len(2) ‖ CRLF ‖ payload; None = not complete yet *)
Definition trojan_packet (src : bytes) : res (option (bytes * addr * bytes)) :=
  let* need := s5_try_decode_at src 0 in
  match need with
  | None => Ok None
  | Some al =>
    if lenN src <? al + 2 + 2 then Ok None else
    let len := be (takeN 2 (dropN al src)) in
    if lenN src <? al + 4 + len then Ok None else
    let* (ad, r) := s5_decode src in
    let* (l, r) := get_u16 r in
    let* r := advance 2 r in
    let* (pl, r) := split_to l r in
    Ok (Some (pl, ad, r))
  end.

Definition trojan_packet_encode (a : addr) (payload : bytes) : bytes :=
  s5_encode a ++ put_u16 (lenN payload mod 65536) ++ [CR; LF] ++ payload.

Inductive tstate := THeader | TTcp | TUdp.

Section Trojan.
  Variable P : prims.
  (* ServerCodec.key = SHA224(password) *)
  Definition trojan_key (password : bytes) : bytes := p_sha224 P password.

  Definition trojan_server_decode (key : bytes) (st : tstate) (src : bytes) : res (tstate * bytes * option inbound) :=
    match src with
    | [] => Ok (st, src, None)
    | _ =>
      match st with
      | THeader =>
        let* need := s5_try_decode_at src 59 in
        match need with
        | None => Ok (st, src, None)
        | Some al =>
          if lenN src <? 59 + al + 2 then Ok (st, src, None) else
          let* c56 := index src 56 in
          if negb (c56 =? CR) then Err EBadPassword else
          let* (k, r) := split_to 56 src in
          match hex_decode k with
          | None => Err EBadPassword
          | Some kb =>
            if negb (bytes_eqb key kb) then Err EBadPassword else
            let* r := advance 2 r in
            let* (cmd, r) := get_u8 r in
            if negb ((cmd =? 1) || (cmd =? 2) || (cmd =? 3)) then Err EBadCmd else
            let* (ad, r) := s5_decode r in
            let* r := advance 2 r in
            if cmd =? 1 then Ok (TTcp, [], Some (ConnectTcp r ad))
            else if cmd =? 3 then
              let* pk := trojan_packet r in
              match pk with
              | None => Ok (TUdp, r, None)
              | Some (pl, pa, r') => Ok (TUdp, r', Some (RelayUdp pl pa))
              end
            else Err EBadCmd
          end
        end
      | TTcp => Ok (TTcp, [], Some (RelayTcp src))
      | TUdp =>
        let* pk := trojan_packet src in
        match pk with
        | None => Ok (TUdp, src, None)
        | Some (pl, pa, r') => Ok (TUdp, r', Some (RelayUdp pl pa))
        end
      end
    end.

  (* client request head: hex(sha224(password)) CRLF cmd addr CRLF *)
  Definition trojan_client_head (password : bytes) (cmd : N) (a : addr) : bytes :=
    hex_encode (trojan_key password) ++ [CR; LF] ++ [cmd] ++ s5_encode a ++ [CR; LF].

  (* client/trojan.rs::udp::ClientCodec::decode *)
  Definition trojan_client_udp_decode (src : bytes) : res (bytes * option (bytes * addr)) :=
    match src with
    | [] => Ok (src, None)
    | _ => let* pk := trojan_packet src in
           match pk with None => Ok (src, None) | Some (pl, pa, r) => Ok (r, Some (pl, pa)) end
    end.
End Trojan.
