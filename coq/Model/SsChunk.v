(* codec/shadowsocks.rs: Authenticator, ChunkEncoder, ChunkDecoder.  Definitions only. *)
From Coq Require Import NArith List Bool.
From Octo Require Import Base.Bytes Crypto.Prims Model.NonceGen.
Import ListNotations.
Open Scope N_scope.

Section SsChunk.
  Variable P : prims.

  Record auth := { au_cipher : N; au_key : bytes; au_nonce : bytes }.
  (* CipherMethod::new(kind, key) slices key[..KeySize]: a shorter key panics *)
  Definition auth_new (c : N) (key : bytes) : res auth :=
    if lenN key <? cipher_key_size c then Panic
    else Ok {| au_cipher := c; au_key := takeN (cipher_key_size c) key; au_nonce := inc_init |}.

  Definition auth_step (a : auth) : auth := {| au_cipher := au_cipher a; au_key := au_key a; au_nonce := inc (au_nonce a) |}.
  (* seal / open: the generator is advanced first, its output is the nonce of this operation *)
  Definition auth_seal (a : auth) (pt : bytes) : bytes * auth :=
    let a' := auth_step a in (p_seal P (au_cipher a) (au_key a) (au_nonce a') [] pt, a').
  Definition auth_open (a : auth) (ct : bytes) : option bytes * auth :=
    let a' := auth_step a in (p_open P (au_cipher a) (au_key a) (au_nonce a') [] ct, a').

  Definition SIZE_BYTES : N := 2 + TAG.

  (* ChunkEncoder::encode_payload: while src non-empty { len = min(remaining, limit); size chunk; payload chunk } *)
  Fixpoint enc_chunks (fuel : nat) (a : auth) (limit : N) (src : bytes) : bytes * auth :=
    match fuel with
    | O => ([], a)
    | S f =>
      match src with
      | [] => ([], a)
      | _ =>
        let len := N.min (lenN src) limit in
        let (c1, a1) := auth_seal a (put_u16 (len mod 65536)) in
        let (c2, a2) := auth_seal a1 (takeN len src) in
        let (rest, a3) := enc_chunks f a2 limit (dropN len src) in
        (c1 ++ c2 ++ rest, a3)
      end
    end.
  (* limit = payload_limit - tag - size_bytes *)
  Definition chunk_limit (payload_limit : N) : N := payload_limit - TAG - SIZE_BYTES.
  Definition encode_payload (a : auth) (payload_limit : N) (src : bytes) : bytes * auth :=
    enc_chunks (S (length src)) a (chunk_limit payload_limit) src.

  Inductive dstate := DLen | DPay (len : N).

  (* ChunkDecoder::decode_payload: loop over the two states; Err = authentication failure *)
  Fixpoint dec_loop (fuel : nat) (a : auth) (st : dstate) (src dst : bytes) : res (auth * dstate * bytes * bytes) :=
    match fuel with
    | O => Ok (a, st, src, dst)
    | S f =>
      match st with
      | DLen =>
        if lenN src <? SIZE_BYTES then Ok (a, st, src, dst)
        else match auth_open a (takeN SIZE_BYTES src) with
             | (None, _) => Err EAead
             | (Some pl, a') =>
               let* (sz, _) := get_u16 pl in
               dec_loop f a' (DPay (sz + TAG)) (dropN SIZE_BYTES src) dst
             end
      | DPay len =>
        if lenN src <? len then Ok (a, st, src, dst)
        else match auth_open a (takeN len src) with
             | (None, _) => Err EAead
             | (Some p, a') => dec_loop f a' DLen (dropN len src) (dst ++ p)
             end
      end
    end.
  Definition decode_payload (a : auth) (st : dstate) (src : bytes) : res (auth * dstate * bytes * bytes) :=
    dec_loop (S (length src)) a st src [].

  (* datagram: one seal / one open over the whole packet *)
  Definition encode_packet (a : auth) (src : bytes) : bytes := fst (auth_seal a src).
  Definition decode_packet (a : auth) (src : bytes) : res bytes :=
    match fst (auth_open a src) with Some p => Ok p | None => Err EAead end.
End SsChunk.
