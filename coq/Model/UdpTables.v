(* Models of the two shared UDP tables.  Definitions only (facts: Proofs/UdpTableFacts.v).

     client binding table      octo-squirrel-client/src/client/template.rs   transfer_udp l.219-279,
                               new_binding l.288-330; keys, labels, what goes out with a datagram: the adapter functions
                               of client/{shadowsocks,trojan,vmess}.rs, NOT written here but taken from the tables
                               tools/gen_from_source.py extracts from their bodies (Generated/UdpAdapters.v, through
                               Model/UdpAdapters.v: shape, shape_of)
     server association table  octo-squirrel-server/src/server/shadowsocks.rs startup_udp l.105-153,
                               associate_key l.175-179 (its components: Generated/UdpAdapters.v
                               server_assoc_key_parts), UdpAssociateContext l.199-297

   Both loops use the tables through the entry of ONE key per event:
       look the key up -> act on / replace / remove that entry.
   The models are written exactly in that shape (`kstep`): an event has a key, `entry_step` maps
   the old entry (or None) to the new entry (or None) and to the actions.  TTL and capacity are
   abstracted by explicit `Evict k` events (Drop of an entry aborts its task, so an evicted
   entry produces nothing any more). *)
From Coq Require Import NArith List Bool.
From Octo Require Export Model.UdpAdapters.      (* proto, the adapter vocabulary, shape, shape_of *)
Import ListNotations.
Open Scope N_scope.

Definition addr := N.          (* a SocketAddr *)
Definition address := N.       (* a protocol Address (host or ip, port) *)
Definition payload := list N.

(* ---------------- finite maps as association lists, generic in the key ---------------- *)
Section Table.
  Context {K V : Type}.
  Variable eqb : K -> K -> bool.
  Fixpoint tlookup (k : K) (t : list (K * V)) : option V :=
    match t with [] => None | (k', v) :: r => if eqb k' k then Some v else tlookup k r end.
  Definition tremove (k : K) (t : list (K * V)) : list (K * V) := filter (fun p => negb (eqb (fst p) k)) t.
  Definition tput (k : K) (o : option V) (t : list (K * V)) : list (K * V) :=
    match o with Some v => (k, v) :: tremove k t | None => tremove k t end.
End Table.

(* a loop that touches one entry per event *)
Section Keyed.
  Context {K V E A : Type}.
  Variable eqb : K -> K -> bool.
  Variable key_of : E -> K.
  Variable entry_step : option V -> E -> option V * list A.
  Definition kstep (t : list (K * V)) (e : E) : list (K * V) * list A :=
    let k := key_of e in
    let '(o, a) := entry_step (tlookup eqb k t) e in (tput eqb k o t, a).
  (* a history; every action is tagged with the key of the event that caused it *)
  Fixpoint krun (t : list (K * V)) (evs : list E) : list (K * V) * list (K * A) :=
    match evs with
    | [] => (t, [])
    | e :: r => let '(t1, a) := kstep t e in
                let '(t2, b) := krun t1 r in (t2, map (fun x => (key_of e, x)) a ++ b)
    end.
End Keyed.

Definition opt_eqb (a b : option N) : bool :=
  match a, b with Some x, Some y => x =? y | None, None => true | _, _ => false end.

(* ===================================================================================== *)
(* client binding table                                                                   *)
(* ===================================================================================== *)
(* Everything protocol-specific enters through a `shape` (Model/UdpAdapters.v): the facts tools/gen_from_source.py
   reads off the adapter functions of one protocol.  `s_*` definitions are the model for ANY shape (regressions are
   other shapes); the unprefixed ones are the model of protocol p in the CURRENT source: shape_of p. *)

(* new_key(sender, target): client/{shadowsocks,trojan,vmess}.rs mod udp *)
Definition ckey := (addr * option address)%type.
Definition key_by (ks : key_shape) (sender : addr) (target : address) : ckey :=
  match ks with KSender => (sender, None) | KSenderTarget => (sender, Some target) end.
Definition new_key (p : proto) : addr -> address -> ckey := key_by (s_key (shape_of p)).
Definition ckey_eqb (a b : ckey) : bool := (fst a =? fst b) && opt_eqb (snd a) (snd b).

(* what the reply task of a binding captured when it was spawned (new_binding l.304-308):
   the sender and the target of the datagram that created it *)
Record binding := { b_sender : addr; b_target : address; b_alive : bool }.

Inductive cevent :=
| CLocal (sender : addr) (target : address) (content : payload) (out_ok send_ok : bool)
    (* a datagram of the local application; out_ok: new_out succeeds, send_ok: the send succeeds *)
| CReply (k : ckey) (content : payload) (carried : address)
    (* the reply task of k decodes a reply; carried = the address inside the packet
       (shadowsocks, trojan; a vmess reply carries none, the value is ignored) *)
| CTaskEnd (k : ckey)      (* decode error / outbound stream ended (l.319-325) *)
| CEvict (k : ckey).       (* ttl 600 s, capacity 64 *)

Inductive caction :=
| ToServer (k : ckey) (target : address) (content : payload)          (* sent on the outbound of binding k *)
| ToLocalApp (k : ckey) (dst : addr) (label : address) (content : payload).
    (* sent on the local socket to dst, as a SOCKS5 UDP reply whose address field is label *)

Definition s_cev_key (s : shape) (e : cevent) : ckey :=
  match e with
  | CLocal sender target _ _ _ => key_by (s_key s) sender target
  | CReply k _ _ | CTaskEnd k | CEvict k => k
  end.

(* to_inbound_recv(item, binding_target, sender): the label is the address inside the decoded item, or the target the
   binding was made for (new_binding hands `&_target`, a clone of the creating datagram's target); all send to `sender` *)
Definition label_by (ls : label_src) (b : binding) (carried : address) : address :=
  match ls with LabelFromServer => carried | LabelBindingTarget => b_target b end.
Definition reply_label (p : proto) : binding -> address -> address := label_by (s_label (shape_of p)).

Definition s_centry_step (s : shape) (o : option binding) (e : cevent) : option binding * list caction :=
  match e with
  | CLocal sender target content out_ok send_ok =>
      let k := key_by (s_key s) sender target in
      match o with
      | Some {| b_sender := _; b_target := _; b_alive := true |} =>            (* l.274 sink.send *)
          (o, if send_ok then [ToServer k target content] else [])
      | _ =>                                                                   (* l.238 vacant, l.258 retry *)
          if out_ok && send_ok
          then (Some {| b_sender := sender; b_target := target; b_alive := true |}, [ToServer k target content])
          else (o, [])                                                         (* l.245 / l.252: logged, entry as it was *)
      end
  | CReply k content carried =>
      match o with
      | Some b => if b_alive b then (o, [ToLocalApp k (b_sender b) (label_by (s_label s) b carried) content]) else (o, [])
      | None => (None, [])
      end
  | CTaskEnd k =>
      match o with
      | Some b => (Some {| b_sender := b_sender b; b_target := b_target b; b_alive := false |}, [])
      | None => (None, [])
      end
  | CEvict k => (None, [])
  end.

Definition ctable := list (ckey * binding).
Definition s_cstep (s : shape) : ctable -> cevent -> ctable * list caction := kstep ckey_eqb (s_cev_key s) (s_centry_step s).
Definition s_crun (s : shape) : ctable -> list cevent -> ctable * list (ckey * caction) :=
  krun ckey_eqb (s_cev_key s) (s_centry_step s).

Definition cev_key (p : proto) : cevent -> ckey := s_cev_key (shape_of p).
Definition centry_step (p : proto) : option binding -> cevent -> option binding * list caction := s_centry_step (shape_of p).
Definition cstep (p : proto) : ctable -> cevent -> ctable * list caction := s_cstep (shape_of p).
Definition crun (p : proto) : ctable -> list cevent -> ctable * list (ckey * caction) := s_crun (shape_of p).

(* The address the SERVER sends a datagram to, for a datagram with target `target` that went out on an outbound made
   for `bound` (the b_target of its binding): the address inside the packet when the server uses that one
   (server/trojan.rs decode_packet, server/shadowsocks.rs relay) -- there is one only if to_outbound_send kept the
   target --, or the address of the request header (server/vmess.rs: header.address) -- which is the outbound's
   creation-time target only if new_*_outbound built it in.  None: the server has no (defined) address to send to. *)
Definition wire_dest (s : shape) (bound target : address) : option address :=
  match s_dest s with
  | DestPerPacket => match s_out s with OutKeepsTarget => Some target | OutDropsTarget => None end
  | DestRequestHeader => match s_bound s with OutboundFixedTarget => Some bound | OutboundAnyTarget => None end
  end.

(* ===================================================================================== *)
(* server association table                                                               *)
(* ===================================================================================== *)
Definition user := N.          (* identity hash of an authenticated user; None: single-user server *)

(* AssociateKey = (client session id, user identity hash, client address for legacy ciphers), l.175-179 *)
Definition akey := (N * option user * option addr)%type.
(* the key holds exactly the components the source's associate_key puts into it (Generated/UdpAdapters.v
   server_assoc_key_parts); a component that is not there is a constant *)
Definition associate_key_of (parts : list akey_part) (replay_protected : bool) (sid : N) (u : option user) (client : addr) : akey :=
  (if has_part AkSessionId parts then sid else 0,
   if has_part AkUser parts then u else None,
   if has_part AkClientAlways parts then Some client
   else if has_part AkClientUnlessReplayProtected parts then (if replay_protected then None else Some client)
   else None).
Definition associate_key : bool -> N -> option user -> addr -> akey := associate_key_of server_assoc_key_parts.
Definition akey_eqb (a b : akey) : bool :=
  (fst (fst a) =? fst (fst b)) && opt_eqb (snd (fst a)) (snd (fst b)) && opt_eqb (snd a) (snd b).

(* a decoded client datagram: what SessionCodec::decode returns plus the source address *)
Record sdgram := {
  g_sid : N; g_user : option user; g_client : addr;
  g_pid : N; g_target : address; g_content : payload }.

(* UdpAssociateContext l.199-209: the fields the task captured at creation *)
Record assoc := { a_sid : N; a_user : option user; a_client : addr; a_alive : bool }.

Inductive sevent :=
| SDatagram (g : sdgram) (bind_ok resolvable fresh send_ok : bool)
    (* bind_ok: UdpSocket::bind for a new association; resolvable: DNS; fresh: the packet id passes
       the association's window; send_ok: send_to the target *)
| SPeer (k : akey) (from : address) (content : payload)    (* the task of k receives from a target *)
| STaskEnd (k : akey)
| SEvict (k : akey).

Inductive saction :=
| ToPeer (k : akey) (owner : option user) (target : address) (content : payload)
| ToClient (k : akey) (dst : addr) (from : address) (owner : option user) (sid : N) (content : payload).
    (* sent to dst, sealed for `owner`, session ids (sid, server session of k), source label `from` *)

Definition sev_key (rp : bool) (e : sevent) : akey :=
  match e with
  | SDatagram g _ _ _ _ => associate_key rp (g_sid g) (g_user g) (g_client g)
  | SPeer k _ _ | STaskEnd k | SEvict k => k
  end.

Definition sentry_step (rp : bool) (o : option assoc) (e : sevent) : option assoc * list saction :=
  match e with
  | SDatagram g bind_ok resolvable fresh send_ok =>
      let k := associate_key rp (g_sid g) (g_user g) (g_client g) in
      (* relay l.268-288: every failure is a `continue` *)
      let handle (a : assoc) :=
        if resolvable && fresh && send_ok then [ToPeer k (a_user a) (g_target g) (g_content g)] else [] in
      match o with
      | Some {| a_sid := s; a_user := u; a_client := c; a_alive := true |} =>     (* l.139 *)
          (o, handle {| a_sid := s; a_user := u; a_client := c; a_alive := true |})
      | _ =>                                                                      (* l.144 remove, l.145 create *)
          if bind_ok
          then let a := {| a_sid := g_sid g; a_user := g_user g; a_client := g_client g; a_alive := true |} in
               (Some a, handle a)
          else (None, [])
      end
  | SPeer k from content =>                                                        (* l.240-261, l.116-123 *)
      match o with
      | Some a => if a_alive a then (o, [ToClient k (a_client a) from (a_user a) (a_sid a) content]) else (o, [])
      | None => (None, [])
      end
  | STaskEnd k =>
      match o with
      | Some a => (Some {| a_sid := a_sid a; a_user := a_user a; a_client := a_client a; a_alive := false |}, [])
      | None => (None, [])
      end
  | SEvict k => (None, [])
  end.

Definition stable := list (akey * assoc).
Definition sstep (rp : bool) : stable -> sevent -> stable * list saction := kstep akey_eqb (sev_key rp) (sentry_step rp).
Definition srun (rp : bool) : stable -> list sevent -> stable * list (akey * saction) :=
  krun akey_eqb (sev_key rp) (sentry_step rp).
