(* client/handshake.rs::recognize_http on byte strings (Rust `str` operations find / rfind / ends_with /
   slicing / parse::<u16>), and the target grammar it is specified against.  Definitions only. *)
From Coq Require Import NArith List Bool.
From Octo Require Import Base.Bytes Model.Address.
Import ListNotations.
Open Scope N_scope.

Definition ch_colon : N := 58.   Definition ch_slash : N := 47.  Definition ch_qmark : N := 63.
Definition ch_rbracket : N := 93. Definition ch_lbracket : N := 91. Definition ch_plus : N := 43.

(* str::find(char): index of the first occurrence *)
Fixpoint find_byte (c : N) (s : bytes) : option nat :=
  match s with [] => None | x :: t => if x =? c then Some O else option_map S (find_byte c t) end.
(* str::rfind(char): index of the last occurrence *)
Fixpoint rfind_byte (c : N) (s : bytes) : option nat :=
  match s with
  | [] => None
  | x :: t => match rfind_byte c t with Some i => Some (S i) | None => if x =? c then Some O else None end
  end.
Fixpoint starts_with (p s : bytes) : bool :=
  match p, s with [], _ => true | a :: p', b :: s' => (a =? b) && starts_with p' s' | _, [] => false end.
(* str::find(&str) *)
Fixpoint find_sub (p s : bytes) : option nat :=
  if starts_with p s then Some O else match s with [] => None | _ :: t => option_map S (find_sub p t) end.

Definition is_digit (c : N) : bool := (48 <=? c) && (c <=? 57).
(* u16::from_str: optional leading '+', at least one digit, only digits, value <= 65535 *)
Fixpoint digits_val (s : bytes) (acc : N) : option N :=
  match s with [] => Some acc | c :: t => if is_digit c then digits_val t (acc * 10 + (c - 48)) else None end.
Definition parse_u16 (s : bytes) : option N :=
  let s' := match s with c :: t => if c =? ch_plus then t else s | [] => s end in
  match s' with
  | [] => None
  | _ => match digits_val s' 0 with Some v => if v <? 65536 then Some v else None | None => None end
  end.

Inductive proxy := PHttp (a : addr) | PHttps (a : addr).

Definition host_ok (h : bytes) : bool := (1 <=? lenN h) && (lenN h <=? 255).
Definition CONNECT : bytes := [67; 79; 78; 78; 69; 67; 84].

Definition recognize_http (method path : bytes) : res proxy :=
  let path := match find_byte ch_qmark path with Some i => firstn i path | None => path end in
  let path := match rev path with c :: r => if c =? ch_slash then rev r else path | [] => path end in
  let has_slash (s : bytes) := existsb (N.eqb ch_slash) s in
  let cut :=
    match find_sub [ch_colon; ch_slash; ch_slash] path with
    | Some i0 =>
      if has_slash (firstn i0 path) then None     (* "://" inside an origin-form path *)
      else let rest := skipn (i0 + 3) path in
           Some (match find_byte ch_slash rest with Some j => firstn j rest | None => rest end)
    | None => None
    end in
  let* path := match cut with
               | Some a => Ok a
               | None => if bytes_eqb method CONNECT && negb (has_slash path) then Ok path else Err EOther
               end in
  if bytes_eqb method CONNECT then
    match rfind_byte ch_colon path with
    | None => Err EOther
    | Some h_end =>
      let host := firstn h_end path in
      match parse_u16 (skipn (S h_end) path) with
      | None => Err EOther
      | Some port => if host_ok host then Ok (PHttps (ADom host port)) else Err EBadLen
      end
    end
  else
    let parse_at :=
      match rfind_byte ch_colon path, rfind_byte ch_rbracket path with
      | None, _ => None
      | Some h_end, None => Some h_end
      | Some h_end, Some v6_end => if Nat.ltb h_end v6_end then None else Some h_end
      end in
    match parse_at with
    | Some idx =>
      let host := firstn idx path in
      match parse_u16 (skipn (S idx) path) with
      | None => Err EOther
      | Some port => if host_ok host then Ok (PHttp (ADom host port)) else Err EBadLen
      end
    | None => if host_ok path then Ok (PHttp (ADom path 80)) else Err EBadLen
    end.

(* ---------------- the grammar of request targets the property quantifies over ---------------- *)
Definition none_of (bad : list N) (s : bytes) : Prop := forall c, In c s -> ~ In c bad.

(* reg-name or IPv4 literal: no ':' '/' '?' ']' ; bracketed IPv6 literal: '[' body ']' with body free of '/' '?' ']' *)
Inductive host_form : bytes -> Prop :=
| HReg : forall h, h <> [] -> none_of [ch_colon; ch_slash; ch_qmark; ch_rbracket] h -> host_form h
| HV6 : forall b, none_of [ch_slash; ch_qmark; ch_rbracket] b -> host_form ([ch_lbracket] ++ b ++ [ch_rbracket]).

Definition scheme_form (s : bytes) : Prop := none_of [ch_colon; ch_slash; ch_qmark] s.
(* path: empty or '/'-led, free of '?' *)
Definition path_form (p : bytes) : Prop := (p = [] \/ exists r, p = ch_slash :: r) /\ none_of [ch_qmark] p.
(* query: empty or '?' followed by anything at all (':' '/' '?' "://" included) *)
Definition query_form (q : bytes) : Prop := q = [] \/ exists r, q = ch_qmark :: r.
(* port: decimal digits, value < 65536 *)
Definition port_form (ds : bytes) (v : N) : Prop := ds <> [] /\ digits_val ds 0 = Some v /\ v < 65536.

Definition SEP : bytes := [ch_colon; ch_slash; ch_slash].
