(* codec/shadowsocks/udp.rs (AEADCipherCodec<N>::encode / decode, SessionCodec, Context, Session, get_cipher),
   codec/shadowsocks/aead_2022/udp.rs (nonce_length, new_cipher, aes_{en,de}crypt_in_place, with_eih, make_eih),
   client/shadowsocks.rs::udp::DatagramPacketCodec and server/shadowsocks.rs (UdpAssociateContext::relay,
   associate_key).  Definitions only; mirrors the Rust control flow: `Panic` where a slice / cursor operation
   of the Rust code would panic, `Err` where the code returns an error.

   Randomness (legacy salt, XChaCha nonce, padding bytes) and the clock are explicit inputs.
   The process-wide cipher cache `get_cipher` is keyed by (kind, key material, session id), i.e. by every
   argument of `new_cipher`: it is transparent and is modelled as a plain call of `udp_cipher_key`. *)
From Coq Require Import NArith List Bool.
From Octo Require Import Base.Bytes Crypto.Prims Model.NonceGen Model.SsChunk Model.Address Model.SsTcp Model.PacketWindow.
Import ListNotations.
Open Scope N_scope.

(* udp.rs: Session<N> *)
Record usess := { us_csid : N; us_ssid : N; us_pid : N; us_user : option user }.
Definition usess_default : usess := {| us_csid := 0; us_ssid := 0; us_pid := 0; us_user := None |}.

(* udp.rs: Context<N> (stream_type, user_manager, key, identity_keys) + the kind held by AEADCipherCodec *)
Record uctx := {
  uc_kind : kind;
  uc_mode : mode;
  uc_key : bytes;
  uc_ikeys : list bytes;
  uc_users : option (list user)
}.

Definition U64_MAX : N := 2 ^ 64 - 1.
Definition HKDF_SHA1_MAX : N := 255 * 20.      (* hkdf expand: InvalidLength beyond 255 blocks *)

(* identity_header.iter_mut().zip(session_id_packet_id).for_each(|(l, r)| *l ^= r) : only the zipped prefix changes *)
Fixpoint xor_into (a b : bytes) : bytes :=
  match a, b with
  | x :: a', y :: b' => N.lxor x y :: xor_into a' b'
  | _, _ => a
  end.

Section SsUdp.
  Variable P : prims.

  (* aead_2022/udp.rs::nonce_length *)
  Definition udp_nonce_len (k : kind) : N := if support_eih k then 0 else 24.
  (* the AEAD selected by new_cipher: AES-GCM for the AES kinds, XChaCha for the ChaCha kinds *)
  Definition udp_cipher_id (k : kind) : N :=
    if support_eih k then kind_cipher k else match k with K22_CC8 => 5 | _ => 4 end.
  (* new_cipher: AES kinds derive session_sub_key(key, sid.to_be_bytes()) and CipherMethod::new slices [..KeySize];
     XChaCha kinds slice key[..32] (the session id is ignored) *)
  Definition udp_cipher_key (k : kind) (key : bytes) (sid : N) : res bytes :=
    if support_eih k then
      let sk := session_sub_key P key (put_u64 sid) in
      let n := cipher_key_size (kind_cipher k) in
      if lenN sk <? n then Panic else Ok (takeN n sk)
    else if lenN key <? 32 then Panic else Ok (takeN 32 key).

  (* aes_encrypt_in_place / aes_decrypt_in_place: Aes{128,256}::new_from_slice(key)? then Block::from_mut_slice *)
  Definition aes_keylen (k : kind) : N := if kind_cipher k =? 0 then 16 else 32.
  Definition aes_block_enc (k : kind) (key block : bytes) : res bytes :=
    if negb (lenN key =? aes_keylen k) then Err EBadLen
    else if negb (lenN block =? 16) then Panic
    else Ok (p_aes_enc P key block).
  Definition aes_block_dec (k : kind) (key block : bytes) : res bytes :=
    if negb (lenN key =? aes_keylen k) then Err EBadLen
    else if negb (lenN block =? 16) then Panic
    else Ok (p_aes_dec P key block).

  (* make_eih(kind, ipsk, ipskn, sid‖pid): AES(ipsk, blake3(ipskn)[..16] xor sid‖pid) *)
  Definition udp_make_eih (k : kind) (ipsk ipskn sidpid : bytes) : res bytes :=
    let h := p_b3hash P ipskn in
    if lenN h <? 16 then Panic else                           (* &hash.as_bytes()[..16] *)
    aes_block_enc k ipsk (xor_into (takeN 16 h) sidpid).
  (* with_eih: for i in 0..len { make_eih(keys[i], if i != len-1 { keys[i+1] } else { key }) } *)
  Fixpoint udp_with_eih (k : kind) (key : bytes) (ikeys : list bytes) (sidpid : bytes) : res bytes :=
    match ikeys with
    | [] => Ok []
    | ik :: t =>
      let* h := udp_make_eih k ik (match t with [] => key | nxt :: _ => nxt end) sidpid in
      let* r := udp_with_eih k key t sidpid in
      Ok (h ++ r)
    end.

  Definition lenN_ikeys (l : list bytes) : N := N.of_nat (List.length l).

  (* ---------------- encode ---------------- *)
  (* [rnd]: legacy = the salt (N bytes), XChaCha kinds = the 24-byte nonce, AES 2022 kinds = unused.
     [pad]: the padding bytes; its length is next_padding_length(item): 0 when the payload is non-empty,
            otherwise a random value in 0..=900. *)
  Definition ssu_encode_legacy (cx : uctx) (rnd : bytes) (a : addr) (item : bytes) : res bytes :=
    if HKDF_SHA1_MAX <? lenN rnd then Err EOther else
    let* au := new_auth_legacy P (uc_kind cx) (uc_key cx) rnd in
    Ok (rnd ++ encode_packet P au (s5_encode a ++ item)).

  Definition ssu_encode_client (cx : uctx) (now : N) (rnd pad : bytes) (s : usess) (a : addr) (item : bytes) : res bytes :=
    let k := uc_kind cx in
    let sidpid := put_u64 (us_csid s) ++ put_u64 (us_pid s) in
    let require_eih := support_eih k && (match uc_ikeys cx with [] => false | _ => true end) in
    let* eihs := (if require_eih then udp_with_eih k (uc_key cx) (uc_ikeys cx) sidpid else Ok []) in
    let body := [mode_to_u8 Client] ++ put_u64 now ++ put_u16 (lenN pad) ++ pad ++ s5_encode a ++ item in
    if support_eih k then
      let key0 := match uc_ikeys cx with [] => uc_key cx | ik :: _ => ik end in
      let* hdr := aes_block_enc k key0 sidpid in
      let eih_len := if require_eih then 16 * lenN_ikeys (uc_ikeys cx) else 0 in
      (* every identity header (one per identity key) stays outside the AEAD: text = &mut text[eih_len..] *)
      let* ck := udp_cipher_key k (uc_key cx) (us_csid s) in
      Ok (hdr ++ takeN eih_len eihs ++
          p_seal P (udp_cipher_id k) ck (dropN 4 sidpid) [] (dropN eih_len eihs ++ body))
    else
      let* ck := udp_cipher_key k (uc_key cx) (us_csid s) in
      Ok (rnd ++ p_seal P (udp_cipher_id k) ck rnd [] (sidpid ++ body)).

  Definition ssu_encode_server (cx : uctx) (now : N) (rnd pad : bytes) (s : usess) (a : addr) (item : bytes) : res bytes :=
    let k := uc_kind cx in
    let sidpid := put_u64 (us_ssid s) ++ put_u64 (us_pid s) in
    let body := [mode_to_u8 Server] ++ put_u64 now ++ put_u64 (us_csid s) ++ put_u16 (lenN pad) ++ pad ++ s5_encode a ++ item in
    if support_eih k then
      let key := match us_user s with Some u => u_key u | None => uc_key cx end in
      let* hdr := aes_block_enc k key sidpid in
      let* ck := udp_cipher_key k key (us_ssid s) in
      Ok (hdr ++ p_seal P (udp_cipher_id k) ck (dropN 4 sidpid) [] body)
    else
      let* ck := udp_cipher_key k (uc_key cx) (us_ssid s) in
      Ok (rnd ++ p_seal P (udp_cipher_id k) ck rnd [] (sidpid ++ body)).

  (* AEADCipherCodec::encode / SessionCodec::encode *)
  Definition ssu_encode (cx : uctx) (now : N) (rnd pad : bytes) (s : usess) (a : addr) (item : bytes) : res bytes :=
    if is_2022 (uc_kind cx) then
      match uc_mode cx with
      | Client => ssu_encode_client cx now rnd pad s a item
      | Server => ssu_encode_server cx now rnd pad s a item
      end
    else ssu_encode_legacy cx rnd a item.

  (* ---------------- decode ---------------- *)
  (* AES kinds: separate header, optional identity header, AEAD body.
     Ok (session id, packet id, user chosen by the identity header, plaintext of the body) *)
  Definition udp_open_aes (cx : uctx) (require_eih : bool) (src : bytes) : res (N * N * option user * bytes) :=
    let k := uc_kind cx in
    let* (hdr, rest) := split_to 16 src in
    let* dec := aes_block_dec k (uc_key cx) hdr in
    let* nonce := (if lenN dec <? 16 then Panic else Ok (takeN 12 (dropN 4 dec))) in   (* &sid_pid[4..16] *)
    let* (sid, d1) := get_u64 dec in
    let* (pid, _) := get_u64 d1 in
    let* (u, rest) :=
      (if require_eih then
         let* (eih, rest) := split_to 16 rest in
         let* e := aes_block_dec k (uc_key cx) eih in
         match find_user (match uc_users cx with Some us => us | None => [] end) (xor_into e dec) with
         | Some u => Ok (Some u, rest)
         | None => Err EBadUser
         end
       else Ok (None, rest)) in
    let* ck := udp_cipher_key k (match u with Some u => u_key u | None => uc_key cx end) sid in
    match p_open P (udp_cipher_id k) ck nonce [] rest with
    | None => Err EAead
    | Some pt => Ok (sid, pid, u, pt)
    end.

  (* XChaCha kinds: nonce ‖ AEAD(sid ‖ pid ‖ body).  The "session id" read from the still-encrypted
     text[..8] only selects a cache slot (new_cipher ignores it for these kinds). *)
  Definition udp_open_xc (cx : uctx) (src : bytes) : res (N * N * option user * bytes) :=
    let k := uc_kind cx in
    let* (nonce, text) := split_to 24 src in
    if lenN text <? 8 then Panic else
    let* ck := udp_cipher_key k (uc_key cx) 0 in
    match p_open P (udp_cipher_id k) ck nonce [] text with
    | None => Err EAead
    | Some pt =>
      let* (sid, pt) := get_u64 pt in
      let* (pid, pt) := get_u64 pt in
      Ok (sid, pid, None, pt)
    end.

  (* the common tail: type, timestamp, [client session id], padding, address *)
  Definition udp_parse (m : mode) (now : N) (sid pid : N) (u : option user) (pt : bytes) : res (bytes * addr * usess) :=
    let* (ty, p) := get_u8 pt in
    if negb (ty =? mode_expect_u8 m) then Err EBadType else
    let* (ts, p) := get_u64 p in
    if negb (validate_timestamp now ts) then Err EBadTime else
    let* (csid, p) := (match m with Client => get_u64 p | Server => Ok (sid, p) end) in
    let* (padlen, p) := get_u16 p in
    if lenN p <? padlen then Err EShort else
    let* p := advance padlen p in
    let s := match m with
             | Client => {| us_csid := csid; us_ssid := sid; us_pid := pid; us_user := None |}
             | Server => {| us_csid := sid; us_ssid := 0; us_pid := pid; us_user := u |}
             end in
    let* (a, p) := s5_decode p in
    Ok (p, a, s).

  Definition udp_require_eih (cx : uctx) : bool :=
    match uc_mode cx with
    | Server => support_eih (uc_kind cx) && (match uc_users cx with Some (_ :: _) => true | _ => false end)
    | Client => false
    end.
  Definition udp_header_length (cx : uctx) : N :=
    udp_nonce_len (uc_kind cx) + TAG + 8 + 8 + (if udp_require_eih cx then 16 else 0) + 1 + 8
    + (match uc_mode cx with Client => 8 | Server => 0 end) + 2.

  Definition ssu_decode_2022 (cx : uctx) (now : N) (src : bytes) : res (bytes * addr * usess) :=
    if lenN src <? udp_header_length cx then Err EShort else
    let* (sid, pid, u, pt) :=
      (if support_eih (uc_kind cx) then udp_open_aes cx (udp_require_eih cx) src else udp_open_xc cx src) in
    udp_parse (uc_mode cx) now sid pid u pt.

  (* legacy: salt length is context.key.len() *)
  Definition ssu_decode_legacy (cx : uctx) (src : bytes) : res (bytes * addr * usess) :=
    let n := lenN (uc_key cx) in
    if lenN src <? n then Err EShort else
    let* (salt, rest) := split_to n src in
    if HKDF_SHA1_MAX <? n then Err EOther else
    let* au := new_auth_legacy P (uc_kind cx) (uc_key cx) salt in
    let* pt := decode_packet P au rest in
    let* (a, p) := s5_decode pt in
    Ok (p, a, usess_default).

  (* AEADCipherCodec::decode *)
  Definition ssu_decode (cx : uctx) (now : N) (src : bytes) : res (bytes * addr * usess) :=
    if is_2022 (uc_kind cx) then ssu_decode_2022 cx now src else ssu_decode_legacy cx src.

  (* SessionCodec::decode: an empty datagram yields no item *)
  Definition ssu_session_decode (cx : uctx) (now : N) (src : bytes) : res (option (bytes * addr * usess)) :=
    match src with
    | [] => Ok None
    | _ => let* r := ssu_decode cx now src in Ok (Some r)
    end.

  (* ---------------- client: DatagramPacketCodec ---------------- *)
  (* `filters: Vec<(u64, PacketWindowFilter)>`: one replay window per SERVER session id, newest last *)
  Definition MAX_SERVER_SESSIONS : N := 4.
  Record cstate := { cs_sess : usess; cs_filters : list (N * pw) }.
  Definition cstate_new (csid : N) : cstate :=      (* Session::from(Mode::Client): csid random, rest 0; Vec::with_capacity *)
    {| cs_sess := {| us_csid := csid; us_ssid := 0; us_pid := 0; us_user := None |}; cs_filters := [] |}.

  Definition set_ssid (s : usess) (v : N) : usess :=
    {| us_csid := us_csid s; us_ssid := v; us_pid := us_pid s; us_user := us_user s |}.
  Definition set_pid (s : usess) (v : N) : usess :=
    {| us_csid := us_csid s; us_ssid := us_ssid s; us_pid := v; us_user := us_user s |}.

  (* filters.iter().position(|(id, _)| *id == server_session_id): the FIRST entry of that id *)
  Fixpoint filters_find (fs : list (N * pw)) (ssid : N) : option pw :=
    match fs with
    | [] => None
    | (id, f) :: t => if id =? ssid then Some f else filters_find t ssid
    end.
  (* filter_of: the vector after find-or-create (the returned `&mut` points into it): an unknown id evicts the OLDEST
     entry (index 0) when MAX_SERVER_SESSIONS are held and is pushed with PacketWindowFilter::default() *)
  Definition filter_of (fs : list (N * pw)) (ssid : N) : list (N * pw) :=
    match filters_find fs ssid with
    | Some _ => fs
    | None => (if N.of_nat (length fs) =? MAX_SERVER_SESSIONS then tl fs else fs) ++ [(ssid, pw_new)]
    end.
  (* `.validate_packet_id(pid, u64::MAX)` through that `&mut`: the window of the first entry of that id is replaced in place
     (after filter_of there is such an entry; the [] case is not reached) *)
  Fixpoint filters_validate_at (fs : list (N * pw)) (ssid pid : N) : list (N * pw) * bool :=
    match fs with
    | [] => ([], false)
    | (id, f) :: t =>
      if id =? ssid then let '(f', ok) := pw_validate f pid U64_MAX in ((id, f') :: t, ok)
      else let '(t', ok) := filters_validate_at t ssid pid in ((id, f) :: t', ok)
    end.
  (* self.filter_of(server_session_id).validate_packet_id(packet_id, u64::MAX) *)
  Definition client_validate (fs : list (N * pw)) (ssid pid : N) : list (N * pw) * bool :=
    filters_validate_at (filter_of fs ssid) ssid pid.

  (* Decoder::decode: Ok (state, None) = nothing delivered (empty datagram, datagram of another client session,
     or packet id refused: dropped).  Both checks only when replay_protected, the session check FIRST: a datagram
     addressed to another client session does not reach filter_of. *)
  Definition client_dgram_decode (cx : uctx) (replay_protected : bool) (now : N) (st : cstate) (src : bytes)
    : res (cstate * option (bytes * addr)) :=
    match src with
    | [] => Ok (st, None)
    | _ =>
      let* r := ssu_session_decode cx now src in
      match r with
      | None => Ok (st, None)
      | Some (content, a, s) =>
        if replay_protected && negb (us_csid s =? us_csid (cs_sess st)) then Ok (st, None) else
        let '(fs', ok) := (if replay_protected then client_validate (cs_filters st) (us_ssid s) (us_pid s)
                           else (cs_filters st, true)) in
        if ok then Ok ({| cs_sess := set_ssid (cs_sess st) (us_ssid s); cs_filters := fs' |}, Some (content, a))
        else Ok ({| cs_sess := cs_sess st; cs_filters := fs' |}, None)
      end
    end.

  (* Encoder::encode: the state change (packet id) is kept even when the codec then fails *)
  Definition client_dgram_encode (cx : uctx) (now : N) (rnd pad : bytes) (st : cstate) (a : addr) (content : bytes)
    : cstate * res bytes :=
    if us_pid (cs_sess st) =? U64_MAX then (st, Err EOther)
    else
      let s' := set_pid (cs_sess st) ((us_pid (cs_sess st) + 1) mod 2 ^ 64) in    (* wrapping_add(1) *)
      ({| cs_sess := s'; cs_filters := cs_filters st |}, ssu_encode cx now rnd pad s' a content).

  (* ---------------- server: association task (UdpAssociateContext::relay) ---------------- *)
  Record astate := {
    as_csid : N;
    as_filter : pw;
    as_ssid : N;
    as_spid : N;                (* server_packet_id *)
    as_user : option user;
    as_rp : bool                (* replay_protected *)
  }.
  (* UdpAssociateContext::create; the server session id is random *)
  Definition astate_new (client : usess) (ssid : N) (rp : bool) : astate :=
    {| as_csid := us_csid client; as_filter := pw_new; as_ssid := ssid; as_spid := 0; as_user := us_user client; as_rp := rp |}.

  Inductive aevent :=
  | EvClient (content : bytes) (peer : addr) (s : usess) (resolved : option addr)  (* receiver.recv() = Some; DNS outcome *)
  | EvClientClosed                                                                 (* receiver.recv() = None *)
  | EvPeer (content : bytes) (peer : addr)                                         (* outbound.recv_from = Ok *)
  | EvPeerErr.                                                                     (* outbound.recv_from = Err *)
  Inductive aaction :=
  | ASendPeer (content : bytes) (resolved : addr)                                  (* outbound.send_to (its failure is only logged) *)
  | AToClient (content : bytes) (peer : addr) (s : usess).                         (* inbound.send *)

  Definition set_afilter (st : astate) (f : pw) : astate :=
    {| as_csid := as_csid st; as_filter := f; as_ssid := as_ssid st; as_spid := as_spid st; as_user := as_user st; as_rp := as_rp st |}.
  Definition set_spid (st : astate) (v : N) : astate :=
    {| as_csid := as_csid st; as_filter := as_filter st; as_ssid := as_ssid st; as_spid := v; as_user := as_user st; as_rp := as_rp st |}.

  (* one turn of the select! loop: new state, actions, continue? *)
  Definition server_assoc_step (st : astate) (ev : aevent) : astate * list aaction * bool :=
    match ev with
    | EvClient content peer s resolved =>
      match resolved with
      | None => (st, [], true)                                     (* DNS resolve failed: continue *)
      | Some r =>
        let '(f', ok) := (if as_rp st then pw_validate (as_filter st) (us_pid s) U64_MAX else (as_filter st, true)) in
        if ok then (set_afilter st f', [ASendPeer content r], true)
        else (set_afilter st f', [], true)                         (* refused packet id: dropped, continue *)
      end
    | EvClientClosed => (st, [], false)
    | EvPeer content peer =>
      if as_spid st =? U64_MAX then (st, [], false)                (* checked_add overflow: break *)
      else
        let st' := set_spid st (as_spid st + 1) in
        (st', [AToClient content peer {| us_csid := as_csid st; us_ssid := as_ssid st; us_pid := as_spid st + 1; us_user := as_user st |}], true)
    | EvPeerErr => (st, [], false)
    end.

  Fixpoint server_assoc_run (st : astate) (evs : list aevent) : astate * list aaction * bool :=
    match evs with
    | [] => (st, [], true)
    | ev :: t =>
      let '(st1, acts, go) := server_assoc_step st ev in
      if go then let '(st2, acts2, go2) := server_assoc_run st1 t in (st2, acts ++ acts2, go2)
      else (st1, acts, false)
    end.

  (* associate_key: which association a decoded client packet belongs to *)
  Definition associate_key (rp : bool) (s : usess) (client_addr : addr) : N * option bytes * option addr :=
    (us_csid s, match us_user s with Some u => Some (u_hash u) | None => None end, if rp then None else Some client_addr).
End SsUdp.
