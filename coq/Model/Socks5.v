(* protocol/socks5/codec.rs: the four handshake decoders and Socks5UdpCodec.  Definitions only.
   A decoder returns Ok None while its message is incomplete (tokio Decoder contract). *)
From Coq Require Import NArith List Bool.
From Octo Require Import Base.Bytes Model.Address.
Import ListNotations.
Open Scope N_scope.

Definition S5_VERSION : N := 5.
Definition auth_method_ok (b : N) : bool := (b =? 0) || (b =? 1) || (b =? 2) || (b =? 255).
Definition command_ok (b : N) : bool := (b =? 1) || (b =? 2) || (b =? 3).

(* Socks5InitialRequestDecoder: VER NMETHODS METHODS... *)
Definition s5_initial_request (src : bytes) : res (bytes * option (list N)) :=
  if lenN src <? 2 then Ok (src, None) else
  let* v := index src 0 in
  if negb (v =? S5_VERSION) then Err EBadVersion else
  let* cnt := index src 1 in
  if lenN src <? 2 + cnt then Ok (src, None) else
  let* r := advance 2 src in
  let* (ms, r) := split_to cnt r in
  if forallb auth_method_ok ms then Ok (r, Some ms) else Err EBadAuth.

(* Socks5CommandRequestDecoder: VER CMD RSV ATYP ADDR PORT *)
Definition s5_command_request (src : bytes) : res (bytes * option (N * addr)) :=
  if lenN src <? 4 then Ok (src, None) else
  let* v := index src 0 in
  if negb (v =? S5_VERSION) then Err EBadVersion else
  let* c := index src 1 in
  if negb (command_ok c) then Err EBadCmd else
  let* need := s5_try_decode_at src 3 in
  match need with
  | None => Ok (src, None)
  | Some al =>
    if lenN src <? 3 + al then Ok (src, None) else
    let* r := advance 3 src in
    let* (ad, r) := s5_decode r in
    Ok (r, Some (c, ad))
  end.

(* Socks5InitialResponseDecoder: VER METHOD *)
Definition s5_initial_response (src : bytes) : res (bytes * option N) :=
  if lenN src <? 2 then Ok (src, None) else
  let* v := index src 0 in
  if negb (v =? S5_VERSION) then Err EBadVersion else
  let* m := index src 1 in
  if auth_method_ok m then let* r := advance 2 src in Ok (r, Some m) else Err EBadAuth.

(* Socks5CommandResponseDecoder: VER REP RSV ATYP ADDR PORT *)
Definition s5_command_response (src : bytes) : res (bytes * option (N * addr)) :=
  if lenN src <? 4 then Ok (src, None) else
  let* v := index src 0 in
  if negb (v =? S5_VERSION) then Err EBadVersion else
  let* st := index src 1 in
  if negb ((st =? 0) || (st =? 1)) then Err EOther else
  let* need := s5_try_decode_at src 3 in
  match need with
  | None => Ok (src, None)
  | Some al =>
    if lenN src <? 3 + al then Ok (src, None) else
    let* r := advance 3 src in
    let* (ad, r) := s5_decode r in
    Ok (r, Some (st, ad))
  end.

(* Socks5UdpCodec::decode on one datagram: anything that is not a complete unfragmented SOCKS5-UDP
   request is DROPPED (consumed, no item, no error) so that UdpFramed moves on to the next datagram *)
Definition s5_udp_decode (src : bytes) : res (bytes * option (bytes * addr)) :=
  match src with
  | [] => Ok (src, None)
  | _ =>
    if lenN src <? 5 then Ok ([], None) else
    let* frag := index src 2 in
    if negb (frag =? 0) then Ok ([], None) else
    let* r := advance 3 src in
    match s5_decode r with
    | Ok (ad, pl) => Ok ([], Some (pl, ad))
    | Err _ => Ok ([], None)
    | Panic => Panic
    end
  end.
Definition s5_udp_encode (payload : bytes) (a : addr) : bytes := [0; 0; 0] ++ s5_encode a ++ payload.
