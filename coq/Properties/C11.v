(* C11 -- each UDP packet ID is accepted at most once, in any arrival order.
   Only statements, `exact`, pins and Print Assumptions live here. *)
From Coq Require Import NArith List Bool.
From Octo Require Import Model.PacketWindow Proofs.PacketWindowList Generated.Params Model.SsUdp Proofs.SsUdpFacts.
Import ListNotations.
Open Scope N_scope.

(* For EVERY finite sequence of ids and every limit, the verdicts of the implementation's
   algorithm (ring of 128 x 64 bits, Model.PacketWindow.pw_validate mirrors the Rust line by line)
   are exactly those of the specification "id < limit, not accepted before, and not more than
   WINDOW_SIZE behind the highest id accepted so far". *)
Theorem C11_history : forall (ids : list N) (limit : N),
  snd (pw_run pw_new ids limit) = snd (spec_run [] ids limit).
Proof. exact pw_history_correct. Qed.

(* one step, from any reachable state: verdict = spec, invariant kept, refusal leaves the state identical *)
Theorem C11_step : forall s acc id limit s' b,
  R s acc -> pw_validate s id limit = (s', b) ->
  b = spec_accept acc id limit /\ R s' (if b then id :: acc else acc) /\ (b = false -> s' = s).
Proof. exact pw_validate_refines. Qed.

Theorem C11_limit : forall s id limit, limit <= id -> pw_validate s id limit = (s, false).
Proof. exact pw_limit_respected. Qed.

(* a refused (duplicate / stale / over-limit) id does not disturb what follows *)
Theorem C11_refused_invisible : forall ids1 id ids2 limit,
  let s := fst (pw_run pw_new ids1 limit) in
  snd (pw_validate s id limit) = false ->
  snd (pw_run (fst (pw_validate s id limit)) ids2 limit) = snd (pw_run s ids2 limit).
Proof. exact pw_refused_invisible. Qed.

(* tie A: the constants the model was proved with are the constants of the source *)
Theorem C11_constants_match_source :
  (PW_BLOCK_BIT_LOG, PW_BLOCK_BITS, PW_RING_BLOCKS, PW_WINDOW_SIZE, PW_BLOCK_MASK, PW_BIT_MASK)
  = (BLOCK_BIT_LOG, BLOCK_BITS, RING_BLOCKS, WINDOW_SIZE, BLOCK_MASK, BIT_MASK).
Proof. vm_compute. reflexivity. Qed.

(* the property text: window size 8128; the stated limit at both call sites refuses the top id *)
Theorem C11_window_is_8128 : WINDOW_SIZE = 8128.
Proof. reflexivity. Qed.
Theorem C11_callsite_limits : PW_LIMIT_SERVER = 2^64 - 1 /\ PW_LIMIT_CLIENT = 2^64 - 1.
Proof. split; vm_compute; reflexivity. Qed.

(* non-vacuity: the spec and the model on a concrete history crossing block, window and ring edges *)
Example C11_example :
  snd (pw_run pw_new [0; 1; 1; 9; 8; 8129; 8128; 2; 1; 8129 + 16; 3; 70000; 70000 - 8128; 70000 - 8129; 2^64 - 1; 2^64 - 2] (2^64 - 1))
  = [true; true; false; true; true; true; true; true; false; true; false; true; true; false; false; true].
Proof. vm_compute. reflexivity. Qed.
Example C11_R_reachable : R pw_new [].
Proof. exact R_init. Qed.

(* client reply decoder: a refused id yields no item and leaves the session unchanged *)
Definition C11_client_refused_keeps_session := @refused_packet_keeps_session_client.
(* ... the rest of the run is as if it had not arrived *)
Definition C11_client_refused_invisible := @refused_packet_invisible_client.
(* delivered ids are pairwise distinct, any order *)
Definition C11_client_at_most_once := @client_packet_id_at_most_once.
(* server association: a refused id is dropped, the task continues, state unchanged *)
Definition C11_server_refused_keeps_session := @refused_packet_keeps_session_server.
(* ... invisible to what follows *)
Definition C11_server_refused_invisible := @refused_packet_invisible_server.
(* forwarded ids pairwise distinct *)
Definition C11_server_at_most_once := @server_packet_id_at_most_once.
(* an unresolvable target does not end the association *)
Definition C11_server_unresolved_keeps_session := @unresolved_packet_keeps_session.

Check @C11_client_refused_keeps_session.
Check @C11_client_refused_invisible.
Check @C11_client_at_most_once.
Check @C11_server_refused_keeps_session.
Check @C11_server_refused_invisible.
Check @C11_server_at_most_once.
Check @C11_server_unresolved_keeps_session.
Check (C11_history : forall (ids : list N) (limit : N), snd (pw_run pw_new ids limit) = snd (spec_run [] ids limit)).
Print Assumptions C11_history.
Print Assumptions C11_step.
Print Assumptions C11_limit.
Print Assumptions C11_refused_invisible.
Print Assumptions C11_constants_match_source.
Print Assumptions C11_callsite_limits.
Print Assumptions C11_client_refused_keeps_session.
Print Assumptions C11_client_refused_invisible.
Print Assumptions C11_client_at_most_once.
Print Assumptions C11_server_refused_keeps_session.
Print Assumptions C11_server_refused_invisible.
Print Assumptions C11_server_at_most_once.
Print Assumptions C11_server_unresolved_keeps_session.
