(* C11 -- each UDP packet ID is accepted at most once, in any arrival order.
   Only statements, `exact`, pins and Print Assumptions live here. *)
From Coq Require Import NArith List Bool.
From Octo Require Import Model.PacketWindow Proofs.PacketWindowList Proofs.PacketWindowCorollaries Generated.Params Model.SsUdp Proofs.SsUdpFacts.
Import ListNotations.
Open Scope N_scope.

(* For EVERY finite sequence of ids and every limit, the verdicts of the implementation's
   algorithm (ring of 128 x 64 bits, Model.PacketWindow.pw_validate mirrors the Rust line by line)
   are exactly those of the specification "id < limit, not accepted before, and not more than
   WINDOW_SIZE behind the highest id accepted so far". *)
Theorem C11_history : forall (ids : list N) (limit : N),
  snd (pw_run pw_new ids limit) = snd (spec_run [] ids limit).
Proof. exact pw_history_correct. Qed.

(* one step, from any reachable state: verdict = spec, invariant kept, refusal leaves the state identical *)
Theorem C11_step : forall s acc id limit s' b,
  R s acc -> pw_validate s id limit = (s', b) ->
  b = spec_accept acc id limit /\ R s' (if b then id :: acc else acc) /\ (b = false -> s' = s).
Proof. exact pw_validate_refines. Qed.

Theorem C11_limit : forall s id limit, limit <= id -> pw_validate s id limit = (s, false).
Proof. exact pw_limit_respected. Qed.

(* a refused (duplicate / stale / over-limit) id does not disturb what follows *)
Theorem C11_refused_invisible : forall ids1 id ids2 limit,
  let s := fst (pw_run pw_new ids1 limit) in
  snd (pw_validate s id limit) = false ->
  snd (pw_run (fst (pw_validate s id limit)) ids2 limit) = snd (pw_run s ids2 limit).
Proof. exact pw_refused_invisible. Qed.

(* the property's own sentence, position by position and without an accumulator: the verdict on the id arriving after ANY history
   `pre` is "below the limit, not among the ids accepted during pre, not more than WINDOW_SIZE behind the highest of them",
   whatever follows *)
Theorem C11_verdict_at : forall (pre : list N) (id : N) (post : list N) (limit : N),
  nth (length pre) (snd (pw_run pw_new (pre ++ id :: post) limit)) false
  = spec_accept (rev (select pre (snd (pw_run pw_new pre limit)))) id limit.
Proof. exact pw_verdict_at. Qed.

(* at most once: the ids accepted along ANY history are pairwise distinct, and all below the limit *)
Theorem C11_accepted_pairwise_distinct : forall (ids : list N) (limit : N),
  NoDup (select ids (snd (pw_run pw_new ids limit))).
Proof. exact pw_accepted_nodup. Qed.
Theorem C11_accepted_below_limit : forall (ids : list N) (limit : N),
  Forall (fun id => id < limit) (select ids (snd (pw_run pw_new ids limit))).
Proof. exact pw_accepted_below_limit. Qed.
Example C11_select_example :
  select [0; 1; 1; 9; 8; 8129; 2] (snd (pw_run pw_new [0; 1; 1; 9; 8; 8129; 2] (2^64 - 1))) = [0; 1; 9; 8; 8129; 2].
Proof. vm_compute. reflexivity. Qed.

(* tie A: the constants the model was proved with are the constants of the source *)
Theorem C11_constants_match_source :
  (PW_BLOCK_BIT_LOG, PW_BLOCK_BITS, PW_RING_BLOCKS, PW_WINDOW_SIZE, PW_BLOCK_MASK, PW_BIT_MASK)
  = (BLOCK_BIT_LOG, BLOCK_BITS, RING_BLOCKS, WINDOW_SIZE, BLOCK_MASK, BIT_MASK).
Proof. vm_compute. reflexivity. Qed.

(* ... and of the client's vector of windows: how many server sessions are remembered, and that the entry that makes room
   is the one at the generated index (0 = the oldest) *)
Theorem C11_client_window_count_matches_source : SSUDP_CLIENT_MAX_SERVER_SESSIONS = MAX_SERVER_SESSIONS.
Proof. vm_compute. reflexivity. Qed.
Theorem C11_client_evicts_the_generated_index : forall e0 e1 e2 e3 A, ~ In A (fkeys [e0; e1; e2; e3]) ->
  filter_of [e0; e1; e2; e3] A
  = firstn (N.to_nat SSUDP_CLIENT_EVICTED_INDEX) [e0; e1; e2; e3] ++ skipn (S (N.to_nat SSUDP_CLIENT_EVICTED_INDEX)) [e0; e1; e2; e3]
    ++ [(A, pw_new)].
Proof. intros e0 e1 e2 e3 A H. rewrite (filter_of_new _ _ H). reflexivity. Qed.

(* the property text: window size 8128; the stated limit at both call sites refuses the top id *)
Theorem C11_window_is_8128 : WINDOW_SIZE = 8128.
Proof. reflexivity. Qed.
Theorem C11_callsite_limits : PW_LIMIT_SERVER = 2^64 - 1 /\ PW_LIMIT_CLIENT = 2^64 - 1.
Proof. split; vm_compute; reflexivity. Qed.

(* non-vacuity: the spec and the model on a concrete history crossing block, window and ring edges *)
Example C11_example :
  snd (pw_run pw_new [0; 1; 1; 9; 8; 8129; 8128; 2; 1; 8129 + 16; 3; 70000; 70000 - 8128; 70000 - 8129; 2^64 - 1; 2^64 - 2] (2^64 - 1))
  = [true; true; false; true; true; true; true; true; false; true; false; true; true; false; false; true].
Proof. vm_compute. reflexivity. Qed.
Example C11_R_reachable : R pw_new [].
Proof. exact R_init. Qed.

(* ---- client reply decoder (DatagramPacketCodec::decode): ONE window PER SERVER SESSION, the 4 newest are held ---- *)
(* one step: the verdict on a packet of a server session whose window is held is the specification's verdict on the ids
   accepted IN THAT SERVER SESSION, whatever the other windows hold *)
Definition C11_client_step_spec := @client_dgram_decode_spec.
(* a refused id yields no item; the session is unchanged -- identical state when the server session's window is held; otherwise
   (only possible with id >= 2^64-1) filter_of alone has run *)
Definition C11_client_refused_keeps_session := @refused_packet_keeps_session_client.
(* ... the rest of the run is as if it had not arrived *)
Definition C11_client_refused_invisible := @refused_packet_invisible_client.
(* full strength, every input sequence from every state: from the datagram that opens the window of server session A and while
   fewer than 4 further windows are opened, A's packets are delivered exactly as the specification window decides on A's ids
   alone; delivered ids of A pairwise distinct *)
Definition C11_client_at_most_once := @client_packet_id_at_most_once.
(* "opens a window" depends on the server session ids seen alone (FIFO of 4) *)
Definition C11_client_windows_fifo := @client_trace_new_is_fifo.
(* the repaired behaviour (5185ac1): the first packet of a server session whose window is not held is accepted from ANY state *)
Definition C11_client_new_server_session_accepted := @client_new_server_session_accepted.
(* ... and the single-window client of before refuses it (regression sensitivity) *)
Definition C11_single_window_drops_new_session_witness := ToyUdp.single_window_drops_new_session_witness.
(* stated limit: the 5th distinct server session displaces the first one's window (tightness of the bound 4) *)
Definition C11_client_window_eviction_witness := ToyUdp.client_window_eviction_witness.
(* repair 642ebdf: a datagram naming another client session is dropped before any window is consulted: it uses up no id *)
Definition C11_client_foreign_session_dropped := @client_foreign_session_datagram_dropped.
Definition C11_foreign_session_datagram_witness := ToyUdp.foreign_session_datagram_witness.
(* server association: a refused id is dropped, the task continues, state unchanged *)
Definition C11_server_refused_keeps_session := @refused_packet_keeps_session_server.
(* ... invisible to what follows *)
Definition C11_server_refused_invisible := @refused_packet_invisible_server.
(* forwarded ids pairwise distinct *)
Definition C11_server_at_most_once := @server_packet_id_at_most_once.
(* an unresolvable target does not end the association *)
Definition C11_server_unresolved_keeps_session := @unresolved_packet_keeps_session.

Check @C11_client_step_spec.
Check @C11_client_refused_keeps_session.
Check @C11_client_refused_invisible.
Check @C11_client_at_most_once.
Check @C11_client_windows_fifo.
Check @C11_client_new_server_session_accepted.
Check C11_single_window_drops_new_session_witness.
Check C11_client_window_eviction_witness.
Check @C11_client_foreign_session_dropped.
Check C11_foreign_session_datagram_witness.
Check C11_client_window_count_matches_source.
Check C11_client_evicts_the_generated_index.
Check @C11_server_refused_keeps_session.
Check @C11_server_refused_invisible.
Check @C11_server_at_most_once.
Check @C11_server_unresolved_keeps_session.
Check C11_verdict_at.
Check C11_accepted_pairwise_distinct.
Check C11_accepted_below_limit.
Check (C11_history : forall (ids : list N) (limit : N), snd (pw_run pw_new ids limit) = snd (spec_run [] ids limit)).
Print Assumptions C11_history.
Print Assumptions C11_step.
Print Assumptions C11_limit.
Print Assumptions C11_verdict_at.
Print Assumptions C11_accepted_pairwise_distinct.
Print Assumptions C11_accepted_below_limit.
Print Assumptions C11_refused_invisible.
Print Assumptions C11_constants_match_source.
Print Assumptions C11_callsite_limits.
Print Assumptions C11_client_window_count_matches_source.
Print Assumptions C11_client_evicts_the_generated_index.
Print Assumptions C11_client_step_spec.
Print Assumptions C11_client_refused_keeps_session.
Print Assumptions C11_client_refused_invisible.
Print Assumptions C11_client_at_most_once.
Print Assumptions C11_client_windows_fifo.
Print Assumptions C11_client_new_server_session_accepted.
Print Assumptions C11_single_window_drops_new_session_witness.
Print Assumptions C11_client_window_eviction_witness.
Print Assumptions C11_client_foreign_session_dropped.
Print Assumptions C11_foreign_session_datagram_witness.
Print Assumptions C11_server_refused_keeps_session.
Print Assumptions C11_server_refused_invisible.
Print Assumptions C11_server_at_most_once.
Print Assumptions C11_server_unresolved_keeps_session.
