(* C13 -- local SOCKS5 and HTTP handshakes yield exactly the requested target
   Only statements live here: each obligation is the kernel-checked statement of a lemma proved in
   Proofs/*.v, re-exported under a stable name; `Check` prints its full statement, which ./check
   compares with the committed pin (Properties/pins/C13.txt) so that a statement cannot be weakened
   silently; `Print Assumptions` lists the axioms it depends on (none are declared by this development). *)
From Coq Require Import NArith List Bool String.
From Octo Require Import Base.Bytes Crypto.Prims Lib.Framed Lib.Canon Model.Address Model.NonceGen Model.SsChunk Model.SsTcp Model.Trojan Model.Socks5 Model.Http Generated.Params Generated.Shared
  Proofs.AddressFacts Proofs.NonceFacts Proofs.SsChunkRoundtrip Proofs.SsChunkCanon Proofs.SsTcpSafety Proofs.SsTcpRoundtrip Proofs.CodecLemmas Proofs.TrojanFacts Proofs.Socks5Facts Proofs.HttpFacts.
Import ListNotations.
Set Printing Width 200.

(* absolute-form target without port: host of the grammar, port 80, whatever the path and query contain *)
Definition C13_authority_exact_noport := @authority_exact_noport.

(* ... with port *)
Definition C13_authority_exact_port := @authority_exact_port.

(* CONNECT authority *)
Definition C13_connect_exact := @connect_exact.

(* CONNECT with scheme/path/query *)
Definition C13_connect_exact_absolute := @connect_exact_absolute.

(* origin-form targets are refused *)
Definition C13_origin_form_refused := @origin_form_refused.

(* targets without scheme are refused for every non-CONNECT method *)
Definition C13_no_scheme_refused := @no_scheme_refused.

(* converse *)
Definition C13_accepted_has_scheme := @accepted_has_scheme.

(* an accepted host has 1..255 bytes, the port fits 16 bits *)
Definition C13_accepted_host_representable := @malformed_refused_a.

(* the result is a domain address *)
Definition C13_only_domain := @only_domain.

(* total case analysis *)
Definition C13_cases := @recognize_http_cases.

(* CONNECT without port refused *)
Definition C13_connect_no_colon_refused := @connect_no_colon_refused.

(* SOCKS5 request: command and address exactly, trailing bytes untouched *)
Definition C13_socks5_request_exact := @s5_command_request_roundtrip.

(* ... under every segmentation *)
Definition C13_socks5_request_segmentation := @s5_command_request_any_segmentation.

(* greeting under every segmentation *)
Definition C13_socks5_greeting_segmentation := @s5_initial_request_any_segmentation.

(* the client-side guard accepts exactly the representable addresses *)
Definition C13_guard := @accept_addr_iff.


Check @C13_authority_exact_noport.
Check @C13_authority_exact_port.
Check @C13_connect_exact.
Check @C13_connect_exact_absolute.
Check @C13_origin_form_refused.
Check @C13_no_scheme_refused.
Check @C13_accepted_has_scheme.
Check @C13_accepted_host_representable.
Check @C13_only_domain.
Check @C13_cases.
Check @C13_connect_no_colon_refused.
Check @C13_socks5_request_exact.
Check @C13_socks5_request_segmentation.
Check @C13_socks5_greeting_segmentation.
Check @C13_guard.
Print Assumptions C13_authority_exact_noport.
Print Assumptions C13_authority_exact_port.
Print Assumptions C13_connect_exact.
Print Assumptions C13_connect_exact_absolute.
Print Assumptions C13_origin_form_refused.
Print Assumptions C13_no_scheme_refused.
Print Assumptions C13_accepted_has_scheme.
Print Assumptions C13_accepted_host_representable.
Print Assumptions C13_only_domain.
Print Assumptions C13_cases.
Print Assumptions C13_connect_no_colon_refused.
Print Assumptions C13_socks5_request_exact.
Print Assumptions C13_socks5_request_segmentation.
Print Assumptions C13_socks5_greeting_segmentation.
Print Assumptions C13_guard.
