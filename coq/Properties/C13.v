(* C13 -- local SOCKS5 and HTTP handshakes yield exactly the requested target
   Only statements live here: each obligation is the kernel-checked statement of a lemma proved in
   Proofs/*.v, re-exported under a stable name; `Check` prints its full statement, which ./check
   compares with the committed pin (Properties/pins/C13.txt) so that a statement cannot be weakened
   silently; `Print Assumptions` lists the axioms it depends on (none are declared by this development). *)
From Coq Require Import NArith List Bool String.
From Octo Require Import Base.Bytes Crypto.Prims Lib.Framed Lib.Canon Model.Address Model.NonceGen Model.SsChunk Model.SsTcp Model.Trojan Model.Socks5 Model.Http Generated.Params Generated.Shared
  Proofs.AddressFacts Proofs.NonceFacts Proofs.SsChunkRoundtrip Proofs.SsChunkCanon Proofs.SsTcpSafety Proofs.SsTcpRoundtrip Proofs.CodecLemmas Proofs.TrojanFacts Proofs.Socks5Facts Proofs.HttpFacts Model.Handshake Proofs.HandshakeFacts.
Import ListNotations.
Set Printing Width 200.

(* absolute-form target without port: host of the grammar, port 80, whatever the path and query contain *)
Definition C13_authority_exact_noport := @authority_exact_noport.

(* ... with port *)
Definition C13_authority_exact_port := @authority_exact_port.

(* CONNECT authority *)
Definition C13_connect_exact := @connect_exact.

(* CONNECT with scheme/path/query *)
Definition C13_connect_exact_absolute := @connect_exact_absolute.

(* origin-form targets are refused *)
Definition C13_origin_form_refused := @origin_form_refused.

(* targets without scheme are refused for every non-CONNECT method *)
Definition C13_no_scheme_refused := @no_scheme_refused.

(* converse *)
Definition C13_accepted_has_scheme := @accepted_has_scheme.

(* an accepted host has 1..255 bytes, the port fits 16 bits *)
Definition C13_accepted_host_representable := @malformed_refused_a.

(* the result is a domain address *)
Definition C13_only_domain := @only_domain.

(* total case analysis *)
Definition C13_cases := @recognize_http_cases.

(* CONNECT without port refused *)
Definition C13_connect_no_colon_refused := @connect_no_colon_refused.

(* SOCKS5 request: command and address exactly, trailing bytes untouched *)
Definition C13_socks5_request_exact := @s5_command_request_roundtrip.

(* ... under every segmentation *)
Definition C13_socks5_request_segmentation := @s5_command_request_any_segmentation.

(* greeting under every segmentation *)
Definition C13_socks5_greeting_segmentation := @s5_initial_request_any_segmentation.

(* the client-side guard accepts exactly the representable addresses *)
Definition C13_guard := @accept_addr_iff.


(* httparse as recognize sees it: once method and path are set, more bytes never change them *)
Definition C13_hs_request_line_prefix_done := @request_line_done_app.
(* ... nor an error, nor whether the method was set before it *)
Definition C13_hs_request_line_prefix_err := @request_line_err_app.
(* method and path only ever come from a complete 'method SP uri SP' at the head of the stream (after empty lines) *)
Definition C13_hs_request_line_sound := @request_line_done_inv.
(* ... and every such line is parsed to exactly its method and uri *)
Definition C13_hs_request_line_complete := @request_line_complete_blank.
(* recognize: a decision taken on what has arrived is the decision taken on any longer arrival (non-empty, within the 1024-byte window) *)
Definition C13_hs_recognize_prefix_stable := @recognize_prefix_stable.
(* recognize waits exactly on an undecided window that is neither empty nor full *)
Definition C13_hs_recognize_wait_iff := @recognize_wait_iff.
(* never a wrong target: a target is recognize_http of the method and uri of a complete request line *)
Definition C13_hs_recognize_target_sound := @recognize_target_sound.
(* exactness of one recognize step on a well-formed request line, whatever follows *)
Definition C13_hs_recognize_complete := @recognize_complete.
(* outside the side condition: a request line cut by the full 1024-byte window is answered 414 or Unknown *)
Definition C13_hs_recognize_full_window_refuses := @recognize_full_window_refuses.
(* ... and so is ANY full window without a complete request line *)
Definition C13_hs_recognize_full_window_undecided := @recognize_full_window_undecided_refuses.
(* the DPanic decision is unreachable *)
Definition C13_hs_recognize_never_panics := @recognize_never_panics.
(* consume_request_head: the first CRLFCRLF does not move when more bytes arrive *)
Definition C13_hs_consume_step_stable := @consume_step_stable.
(* under every arrival history exactly the leading CR / LF bytes, the head and CRLFCRLF are consumed: what follows stays for the tunnel *)
Definition C13_hs_consume_head_exact := @consume_head_exact.
(* EVERY stream (HTTP, CONNECT, SOCKS5, well-formed or not), EVERY arrival history: the whole outcome, consumed count included, is the outcome of everything arriving at once *)
Definition C13_hs_segmentation_independent := @handshake_segmentation_independent.
(* plain HTTP: the named target (port 80 by default via recognize_http), no answer, NOTHING consumed *)
Definition C13_hs_plain_http_forwarded_untouched := @plain_http_forwarded_untouched.
(* CONNECT behind ANY number of empty lines: the named target, the 200 answer, exactly the empty lines and the request head consumed *)
Definition C13_hs_connect_yields_exact_target := @connect_yields_exact_target.
(* the answers, as text *)
Definition C13_hs_connect_reply_exact := @connect_reply_exact.
(* a complete request line whose target recognize_http refuses opens no tunnel *)
Definition C13_hs_bad_target_refused := @bad_target_refused.
(* a request line longer than the window is refused under every history *)
Definition C13_hs_long_request_line_refused := @long_request_line_refused.
(* a request line that never completes times out *)
Definition C13_hs_incomplete_request_times_out := @incomplete_request_times_out.
(* no complete request line in the window, or a refused target: no tunnel, under any history *)
Definition C13_hs_refused_opens_no_tunnel := @refused_opens_no_tunnel.
(* converse: a tunnel of the HTTP branch names the target of a complete request line; plain HTTP consumes nothing, CONNECT exactly up to the first empty line behind the leading CR / LF bytes *)
Definition C13_hs_http_tunnel_sound := @http_tunnel_sound.
(* SOCKS5 (one byte at a time): a well-formed greeting + request ends as s5_finish says under every history; EXACTLY the two messages are consumed, whatever follows them *)
Definition C13_hs_socks5_handshake_exact := @socks5_handshake_exact.
(* SOCKS5 CONNECT: the requested target, 05 00 and the success reply with the local address, exactly the handshake consumed -- early data stays for the tunnel *)
Definition C13_hs_socks5_connect_exact := @socks5_connect_exact.
(* BIND and UDP ASSOCIATE get the failure reply: no tunnel *)
Definition C13_hs_socks5_unsupported_refused := @socks5_unsupported_refused.
(* whatever the stream: a SOCKS5 tunnel goes to the address of a CONNECT request standing right behind a greeting; exactly those two messages were consumed *)
Definition C13_hs_socks5_tunnel_sound := @socks5_tunnel_sound.
(* non-vacuity: CONNECT under three histories *)
Definition C13_hs_example_connect := @ex_drive_connect.
(* non-vacuity: plain GET under three histories *)
Definition C13_hs_example_get := @ex_drive_get.
(* non-vacuity: SOCKS5 CONNECT under three histories *)
Definition C13_hs_example_socks := @ex_drive_socks.
(* non-vacuity: refusals *)
Definition C13_hs_example_refusals := @ex_drive_refusals.
(* the CONNECT theorem applies to the example *)
Definition C13_hs_example_theorem_applies := @ex_connect_by_theorem.


(* regression sensitivity: the FramedRead behaviour before fad5d1a (handshake_v0) loses early data depending on the history; the present code consumes 13 bytes under every history *)
Definition C13_hs_regression_socks5_early_data := @v0_socks5_early_data_lost.
(* regression sensitivity: before 32d4108 two empty lines before CONNECT made only them be consumed; now the empty lines and the head *)
Definition C13_hs_regression_connect_empty_lines := @v0_connect_after_empty_lines_forwarded.
(* non-vacuity: SOCKS5 CONNECT with early data under four histories *)
Definition C13_hs_example_socks_early_data := @ex_drive_socks_early_data.

Check @C13_hs_regression_socks5_early_data.
Check @C13_hs_regression_connect_empty_lines.
Check @C13_hs_example_socks_early_data.
Check @C13_hs_request_line_prefix_done.
Check @C13_hs_request_line_prefix_err.
Check @C13_hs_request_line_sound.
Check @C13_hs_request_line_complete.
Check @C13_hs_recognize_prefix_stable.
Check @C13_hs_recognize_wait_iff.
Check @C13_hs_recognize_target_sound.
Check @C13_hs_recognize_complete.
Check @C13_hs_recognize_full_window_refuses.
Check @C13_hs_recognize_full_window_undecided.
Check @C13_hs_recognize_never_panics.
Check @C13_hs_consume_step_stable.
Check @C13_hs_consume_head_exact.
Check @C13_hs_segmentation_independent.
Check @C13_hs_plain_http_forwarded_untouched.
Check @C13_hs_connect_yields_exact_target.
Check @C13_hs_connect_reply_exact.
Check @C13_hs_bad_target_refused.
Check @C13_hs_long_request_line_refused.
Check @C13_hs_incomplete_request_times_out.
Check @C13_hs_refused_opens_no_tunnel.
Check @C13_hs_http_tunnel_sound.
Check @C13_hs_socks5_handshake_exact.
Check @C13_hs_socks5_connect_exact.
Check @C13_hs_socks5_unsupported_refused.
Check @C13_hs_socks5_tunnel_sound.
Check @C13_hs_example_connect.
Check @C13_hs_example_get.
Check @C13_hs_example_socks.
Check @C13_hs_example_refusals.
Check @C13_hs_example_theorem_applies.
Check @C13_authority_exact_noport.
Check @C13_authority_exact_port.
Check @C13_connect_exact.
Check @C13_connect_exact_absolute.
Check @C13_origin_form_refused.
Check @C13_no_scheme_refused.
Check @C13_accepted_has_scheme.
Check @C13_accepted_host_representable.
Check @C13_only_domain.
Check @C13_cases.
Check @C13_connect_no_colon_refused.
Check @C13_socks5_request_exact.
Check @C13_socks5_request_segmentation.
Check @C13_socks5_greeting_segmentation.
Check @C13_guard.
Print Assumptions C13_authority_exact_noport.
Print Assumptions C13_authority_exact_port.
Print Assumptions C13_connect_exact.
Print Assumptions C13_connect_exact_absolute.
Print Assumptions C13_origin_form_refused.
Print Assumptions C13_no_scheme_refused.
Print Assumptions C13_accepted_has_scheme.
Print Assumptions C13_accepted_host_representable.
Print Assumptions C13_only_domain.
Print Assumptions C13_cases.
Print Assumptions C13_connect_no_colon_refused.
Print Assumptions C13_socks5_request_exact.
Print Assumptions C13_socks5_request_segmentation.
Print Assumptions C13_socks5_greeting_segmentation.
Print Assumptions C13_guard.
Print Assumptions C13_hs_request_line_prefix_done.
Print Assumptions C13_hs_request_line_prefix_err.
Print Assumptions C13_hs_request_line_sound.
Print Assumptions C13_hs_request_line_complete.
Print Assumptions C13_hs_recognize_prefix_stable.
Print Assumptions C13_hs_recognize_wait_iff.
Print Assumptions C13_hs_recognize_target_sound.
Print Assumptions C13_hs_recognize_complete.
Print Assumptions C13_hs_recognize_full_window_refuses.
Print Assumptions C13_hs_recognize_full_window_undecided.
Print Assumptions C13_hs_recognize_never_panics.
Print Assumptions C13_hs_consume_step_stable.
Print Assumptions C13_hs_consume_head_exact.
Print Assumptions C13_hs_segmentation_independent.
Print Assumptions C13_hs_plain_http_forwarded_untouched.
Print Assumptions C13_hs_connect_yields_exact_target.
Print Assumptions C13_hs_connect_reply_exact.
Print Assumptions C13_hs_bad_target_refused.
Print Assumptions C13_hs_long_request_line_refused.
Print Assumptions C13_hs_incomplete_request_times_out.
Print Assumptions C13_hs_refused_opens_no_tunnel.
Print Assumptions C13_hs_http_tunnel_sound.
Print Assumptions C13_hs_socks5_handshake_exact.
Print Assumptions C13_hs_socks5_connect_exact.
Print Assumptions C13_hs_socks5_unsupported_refused.
Print Assumptions C13_hs_socks5_tunnel_sound.
Print Assumptions C13_hs_example_connect.
Print Assumptions C13_hs_example_get.
Print Assumptions C13_hs_example_socks.
Print Assumptions C13_hs_example_refusals.
Print Assumptions C13_hs_example_theorem_applies.
Print Assumptions C13_hs_regression_socks5_early_data.
Print Assumptions C13_hs_regression_connect_empty_lines.
Print Assumptions C13_hs_example_socks_early_data.
