(* C01 -- TCP relay is byte-transparent end to end for every supported configuration
   Only statements live here: each obligation is the kernel-checked statement of a lemma proved in
   Proofs/*.v, re-exported under a stable name; `Check` prints its full statement, which ./check
   compares with the committed pin (Properties/pins/C01.txt) so that a statement cannot be weakened
   silently; `Print Assumptions` lists the axioms it depends on (none are declared by this development). *)
From Coq Require Import NArith List Bool String.
From Octo Require Import Base.Bytes Crypto.Prims Lib.Framed Lib.WsFramed Model.Address Model.SsChunk Model.SsTcp Model.Trojan Model.Vmess Model.Relay Proofs.SsChunkRoundtrip Proofs.SsChunkCanon Proofs.SsTcpRoundtrip Proofs.TrojanFacts Proofs.VmessFacts Proofs.WsFramedFacts Proofs.RelayFacts Proofs.AddressFacts Proofs.VmessRoundtrip Model.EndToEnd Proofs.SsTcpStreamReq Proofs.SsTcpStreamResp Proofs.VmessStream Proofs.EndToEndFacts.
Import ListNotations.
Set Printing Width 200.

(* relay pumps (two forward pumps under try_join): for every event history what has been delivered to one side is a prefix of what was read from the other *)
Definition C01_pump_delivers_prefix := @delivered_is_prefix.

(* ... exactly: read = delivered ++ in flight *)
Definition C01_pump_exact := @delivered_plus_inflight.

(* when a side reaches end-of-stream while its pump is alive, everything read from it is delivered and the opposite side is closed (EOF observable) before the flow returns *)
Definition C01_eof_delivers_all := @eof_delivers_all.

(* the two directions do not influence each other's delivery while the flow lives *)
Definition C01_directions_independent := @directions_independent.

(* codec level, Shadowsocks legacy: whatever the transport's segmentation, the server obtains the requested address and exactly the written bytes *)
Definition C01_ss_legacy_request := @legacy_server_segmentation_independent.

(* codec level, Shadowsocks 2022 request *)
Definition C01_ss_2022_request := @request_roundtrip_2022_general.

(* codec level, Shadowsocks 2022 response *)
Definition C01_ss_2022_response := @response_roundtrip_2022_general.

(* every further write in either direction *)
Definition C01_ss_further_writes := @second_write_roundtrip.

(* established streams are independent of segmentation *)
Definition C01_ss_body_segmentation := @ss_body_segmentation_independent.

(* codec level, Trojan: address and body exactly, any segmentation *)
Definition C01_trojan_request := @trojan_header_segmentation.

(* codec level, VMess body (all option masks, both securities) *)
Definition C01_vmess_body := @body_new_roundtrip_stream.

(* ... independent of segmentation *)
Definition C01_vmess_body_segmentation := @vmess_body_segmentation_independent.

(* WebSocket transport behaves as the stream transport with message boundaries as segment boundaries *)
Definition C01_ws_transport := @ws_run_is_framed_run.

(* the dialled address is the requested one *)
Definition C01_address_exact := @s5_roundtrip.


(* codec level, VMess request: address and first payload exactly *)
Definition C01_vmess_request := @request_roundtrip_vmess.
(* codec level, VMess response *)
Definition C01_vmess_response := @response_roundtrip_vmess.

(* CAPSTONE (Model/EndToEnd.v, Proofs/EndToEndFacts.v): one whole flow - handshake, empty first message, any reads, any delivery (stream or WebSocket, per direction), every protocol family: the server dials exactly the handshake's target, sends it exactly the rest of the application's stream, the application receives exactly the target's bytes *)
Definition C01_e2e_flow_transparent := @c01_flow_transparent.
(* ... the bundled hypotheses of a flow, spelled out *)
Definition C01_e2e_flow_ok_meaning := @flow_ok_meaning.
(* ... per protocol: Shadowsocks (legacy / 2022 / 2022 with identity header) *)
Definition C01_e2e_proto_ok_shadowsocks := @proto_ok_shadowsocks_meaning.
(* ... VMess (every option mask below 32, both securities) *)
Definition C01_e2e_proto_ok_vmess := @proto_ok_vmess_meaning.
(* ... Trojan *)
Definition C01_e2e_proto_ok_trojan := @proto_ok_trojan_meaning.
(* ... the Shadowsocks-2022 first-read exemption as a condition on the arrival counts *)
Definition C01_e2e_delivery_ok_shadowsocks := @delivery_ok_shadowsocks_meaning.
(* ... no condition on the delivery for the other protocols *)
Definition C01_e2e_delivery_ok_others := @delivery_ok_others_meaning.
(* ... what passing a pump exactly once means *)
Definition C01_e2e_delivered_exactly_once_meaning := @delivered_exactly_once_meaning.
(* request direction, every protocol family: any writes, any delivery *)
Definition C01_e2e_proto_request := @proto_request_transparent.
(* answer direction, every protocol family *)
Definition C01_e2e_proto_answer := @proto_answer_transparent.
(* the WebSocket transport gives the same flow as the stream transport carrying the message payloads as segments *)
Definition C01_e2e_ws_same_as_stream := @e2e_ws_same_as_stream.
(* ... because every delivery is a FramedRead run over its segments *)
Definition C01_e2e_transport_run_segments := @transport_run_segments.
(* over a WebSocket delivering the encoder's own messages the first-read condition holds by itself (request) *)
Definition C01_e2e_own_ws_request := @own_ws_request_delivery_ok.
(* ... (answer) *)
Definition C01_e2e_own_ws_answer := @own_ws_answer_delivery_ok.
(* a first (non-empty) segment holding salt and fixed header suffices for the first-read condition *)
Definition C01_e2e_first_read_first_big := @first_read_ok_first_big.
(* at any time: what the decoder has released is a prefix of what it releases in the end *)
Definition C01_e2e_items_prefix := @run_items_prefix.
(* pump fed by given items: delivered is a prefix at any time, everything plus orderly shutdown once the source ended *)
Definition C01_e2e_pumps_deliver := @pumps_deliver.
(* request direction from the handshake to the target's socket *)
Definition C01_e2e_flow_request_exact := @flow_request_exact.
(* answer direction from the target's socket to the application's *)
Definition C01_e2e_flow_answer_exact := @flow_answer_exact.
(* when the target closes after answering, the application receives the complete answer followed by end-of-stream (codecs + pumps + exit paths) *)
Definition C01_e2e_target_closes_after_answering := @e2e_target_closes_after_answering.
(* per protocol, hypotheses spelled out: Trojan *)
Definition C01_e2e_target_exact_trojan := @e2e_target_exact_trojan.
(*  *)
Definition C01_e2e_request_bytes_exact_trojan := @e2e_request_bytes_exact_trojan.
(*  *)
Definition C01_e2e_response_bytes_exact_trojan := @e2e_response_bytes_exact_trojan.
(* VMess *)
Definition C01_e2e_target_exact_vmess := @e2e_target_exact_vmess.
(*  *)
Definition C01_e2e_request_bytes_exact_vmess := @e2e_request_bytes_exact_vmess.
(*  *)
Definition C01_e2e_response_bytes_exact_vmess := @e2e_response_bytes_exact_vmess.
(* Shadowsocks legacy *)
Definition C01_e2e_target_exact_sslegacy := @e2e_target_exact_sslegacy.
(*  *)
Definition C01_e2e_request_bytes_exact_sslegacy := @e2e_request_bytes_exact_sslegacy.
(*  *)
Definition C01_e2e_response_bytes_exact_sslegacy := @e2e_response_bytes_exact_sslegacy.
(* Shadowsocks 2022 *)
Definition C01_e2e_target_exact_ss2022 := @e2e_target_exact_ss2022.
(*  *)
Definition C01_e2e_request_bytes_exact_ss2022 := @e2e_request_bytes_exact_ss2022.
(*  *)
Definition C01_e2e_response_bytes_exact_ss2022 := @e2e_response_bytes_exact_ss2022.
(* Shadowsocks 2022 with identity header *)
Definition C01_e2e_target_exact_ss2022_identity := @e2e_target_exact_ss2022_identity.
(*  *)
Definition C01_e2e_request_bytes_exact_ss2022_identity := @e2e_request_bytes_exact_ss2022_identity.
(*  *)
Definition C01_e2e_response_bytes_exact_ss2022_identity := @e2e_response_bytes_exact_ss2022_identity.
(* down to the request bytes: SOCKS5 CONNECT names exactly that address *)
Definition C01_e2e_socks5_connect_flow := @c01_socks5_connect_flow.
(* HTTP CONNECT *)
Definition C01_e2e_http_connect_flow := @c01_http_connect_flow.
(* CONNECT host:port names exactly that host and port *)
Definition C01_e2e_http_connect_host_port_flow := @c01_http_connect_host_port_flow.
(* plain HTTP proxy request: forwarded untouched from its first byte *)
Definition C01_e2e_plain_http_flow := @c01_plain_http_flow.
(* ... absolute URI without port goes to port 80 *)
Definition C01_e2e_plain_http_default_port_flow := @c01_plain_http_default_port_flow.
(* codec level (new): Shadowsocks 2022 request, any writes, any segmentation satisfying the first-read condition *)
Definition C01_ss2022_request_stream := @ss2022_request_stream.
(* legacy request as inbound items *)
Definition C01_sslegacy_request_stream := @sslegacy_request_stream.
(* 2022 request with identity header *)
Definition C01_ss2022_identity_request_stream := @ss2022_identity_request_stream.
(* 2022 answer *)
Definition C01_ss2022_response_stream := @ss2022_response_stream.
(* legacy answer *)
Definition C01_sslegacy_response_stream := @sslegacy_response_stream.
(* VMess request: header cut anywhere, then body *)
Definition C01_vmess_request_stream := @vmess_request_stream.
(* VMess answer *)
Definition C01_vmess_response_stream := @vmess_response_stream.
(* the two directions share the codec record but not its parts *)
Definition C01_ss_encode_reads_enc_only := @ss_encode_reads_enc_only.
(*  *)
Definition C01_ss_decode_keeps_enc := @ss_decode_keeps_enc.
(* non-vacuity: one concrete flow per family satisfies every hypothesis and evaluates to the expected target and bytes *)
Definition C01_e2e_example_trojan_ok := @E2EExamples.tj_flow_ok.
(*  *)
Definition C01_e2e_example_trojan := @E2EExamples.tj_flow.
(*  *)
Definition C01_e2e_example_ss2022_ok := @E2EExamples.ss22_flow_ok.
(*  *)
Definition C01_e2e_example_ss2022 := @E2EExamples.ss22_flow.
(* the first-read condition is a genuine hypothesis *)
Definition C01_e2e_example_ss2022_first_read_needed := @E2EExamples.ss22_first_read_needed.
(*  *)
Definition C01_e2e_example_ss2022_identity_ok := @E2EExamples.ssid_flow_ok.
(*  *)
Definition C01_e2e_example_ss2022_identity := @E2EExamples.ssid_flow.
(*  *)
Definition C01_e2e_example_sslegacy_ok := @E2EExamples.ssl_flow_ok.
(*  *)
Definition C01_e2e_example_sslegacy := @E2EExamples.ssl_flow.
(*  *)
Definition C01_e2e_example_vmess_ok := @E2EExamples.vm_flow_ok.
(*  *)
Definition C01_e2e_example_vmess := @E2EExamples.vm_flow.

(* every target the handshake hands out (SOCKS5, CONNECT, absolute URI) is one the codecs accept, provided the stream consists of bytes *)
Definition C01_e2e_handshake_target_acceptable := @handshake_target_acceptable.
(* ... so for a stream of bytes the two address hypotheses of flow_ok are consequences *)
Definition C01_e2e_flow_transparent_bytes := @c01_flow_transparent_bytes.

Check @C01_e2e_handshake_target_acceptable.
Check @C01_e2e_flow_transparent_bytes.
Check @C01_e2e_flow_transparent.
Check @C01_e2e_flow_ok_meaning.
Check @C01_e2e_proto_ok_shadowsocks.
Check @C01_e2e_proto_ok_vmess.
Check @C01_e2e_proto_ok_trojan.
Check @C01_e2e_delivery_ok_shadowsocks.
Check @C01_e2e_delivery_ok_others.
Check @C01_e2e_delivered_exactly_once_meaning.
Check @C01_e2e_proto_request.
Check @C01_e2e_proto_answer.
Check @C01_e2e_ws_same_as_stream.
Check @C01_e2e_transport_run_segments.
Check @C01_e2e_own_ws_request.
Check @C01_e2e_own_ws_answer.
Check @C01_e2e_first_read_first_big.
Check @C01_e2e_items_prefix.
Check @C01_e2e_pumps_deliver.
Check @C01_e2e_flow_request_exact.
Check @C01_e2e_flow_answer_exact.
Check @C01_e2e_target_closes_after_answering.
Check @C01_e2e_target_exact_trojan.
Check @C01_e2e_request_bytes_exact_trojan.
Check @C01_e2e_response_bytes_exact_trojan.
Check @C01_e2e_target_exact_vmess.
Check @C01_e2e_request_bytes_exact_vmess.
Check @C01_e2e_response_bytes_exact_vmess.
Check @C01_e2e_target_exact_sslegacy.
Check @C01_e2e_request_bytes_exact_sslegacy.
Check @C01_e2e_response_bytes_exact_sslegacy.
Check @C01_e2e_target_exact_ss2022.
Check @C01_e2e_request_bytes_exact_ss2022.
Check @C01_e2e_response_bytes_exact_ss2022.
Check @C01_e2e_target_exact_ss2022_identity.
Check @C01_e2e_request_bytes_exact_ss2022_identity.
Check @C01_e2e_response_bytes_exact_ss2022_identity.
Check @C01_e2e_socks5_connect_flow.
Check @C01_e2e_http_connect_flow.
Check @C01_e2e_http_connect_host_port_flow.
Check @C01_e2e_plain_http_flow.
Check @C01_e2e_plain_http_default_port_flow.
Check @C01_ss2022_request_stream.
Check @C01_sslegacy_request_stream.
Check @C01_ss2022_identity_request_stream.
Check @C01_ss2022_response_stream.
Check @C01_sslegacy_response_stream.
Check @C01_vmess_request_stream.
Check @C01_vmess_response_stream.
Check @C01_ss_encode_reads_enc_only.
Check @C01_ss_decode_keeps_enc.
Check @C01_e2e_example_trojan_ok.
Check @C01_e2e_example_trojan.
Check @C01_e2e_example_ss2022_ok.
Check @C01_e2e_example_ss2022.
Check @C01_e2e_example_ss2022_first_read_needed.
Check @C01_e2e_example_ss2022_identity_ok.
Check @C01_e2e_example_ss2022_identity.
Check @C01_e2e_example_sslegacy_ok.
Check @C01_e2e_example_sslegacy.
Check @C01_e2e_example_vmess_ok.
Check @C01_e2e_example_vmess.
Check @C01_vmess_request.
Check @C01_vmess_response.
Check @C01_pump_delivers_prefix.
Check @C01_pump_exact.
Check @C01_eof_delivers_all.
Check @C01_directions_independent.
Check @C01_ss_legacy_request.
Check @C01_ss_2022_request.
Check @C01_ss_2022_response.
Check @C01_ss_further_writes.
Check @C01_ss_body_segmentation.
Check @C01_trojan_request.
Check @C01_vmess_body.
Check @C01_vmess_body_segmentation.
Check @C01_ws_transport.
Check @C01_address_exact.
Print Assumptions C01_pump_delivers_prefix.
Print Assumptions C01_pump_exact.
Print Assumptions C01_eof_delivers_all.
Print Assumptions C01_directions_independent.
Print Assumptions C01_ss_legacy_request.
Print Assumptions C01_ss_2022_request.
Print Assumptions C01_ss_2022_response.
Print Assumptions C01_ss_further_writes.
Print Assumptions C01_ss_body_segmentation.
Print Assumptions C01_trojan_request.
Print Assumptions C01_vmess_body.
Print Assumptions C01_vmess_body_segmentation.
Print Assumptions C01_ws_transport.
Print Assumptions C01_address_exact.
Print Assumptions C01_vmess_request.
Print Assumptions C01_vmess_response.
Print Assumptions C01_e2e_flow_transparent.
Print Assumptions C01_e2e_flow_ok_meaning.
Print Assumptions C01_e2e_proto_ok_shadowsocks.
Print Assumptions C01_e2e_proto_ok_vmess.
Print Assumptions C01_e2e_proto_ok_trojan.
Print Assumptions C01_e2e_delivery_ok_shadowsocks.
Print Assumptions C01_e2e_delivery_ok_others.
Print Assumptions C01_e2e_delivered_exactly_once_meaning.
Print Assumptions C01_e2e_proto_request.
Print Assumptions C01_e2e_proto_answer.
Print Assumptions C01_e2e_ws_same_as_stream.
Print Assumptions C01_e2e_transport_run_segments.
Print Assumptions C01_e2e_own_ws_request.
Print Assumptions C01_e2e_own_ws_answer.
Print Assumptions C01_e2e_first_read_first_big.
Print Assumptions C01_e2e_items_prefix.
Print Assumptions C01_e2e_pumps_deliver.
Print Assumptions C01_e2e_flow_request_exact.
Print Assumptions C01_e2e_flow_answer_exact.
Print Assumptions C01_e2e_target_closes_after_answering.
Print Assumptions C01_e2e_target_exact_trojan.
Print Assumptions C01_e2e_request_bytes_exact_trojan.
Print Assumptions C01_e2e_response_bytes_exact_trojan.
Print Assumptions C01_e2e_target_exact_vmess.
Print Assumptions C01_e2e_request_bytes_exact_vmess.
Print Assumptions C01_e2e_response_bytes_exact_vmess.
Print Assumptions C01_e2e_target_exact_sslegacy.
Print Assumptions C01_e2e_request_bytes_exact_sslegacy.
Print Assumptions C01_e2e_response_bytes_exact_sslegacy.
Print Assumptions C01_e2e_target_exact_ss2022.
Print Assumptions C01_e2e_request_bytes_exact_ss2022.
Print Assumptions C01_e2e_response_bytes_exact_ss2022.
Print Assumptions C01_e2e_target_exact_ss2022_identity.
Print Assumptions C01_e2e_request_bytes_exact_ss2022_identity.
Print Assumptions C01_e2e_response_bytes_exact_ss2022_identity.
Print Assumptions C01_e2e_socks5_connect_flow.
Print Assumptions C01_e2e_http_connect_flow.
Print Assumptions C01_e2e_http_connect_host_port_flow.
Print Assumptions C01_e2e_plain_http_flow.
Print Assumptions C01_e2e_plain_http_default_port_flow.
Print Assumptions C01_ss2022_request_stream.
Print Assumptions C01_sslegacy_request_stream.
Print Assumptions C01_ss2022_identity_request_stream.
Print Assumptions C01_ss2022_response_stream.
Print Assumptions C01_sslegacy_response_stream.
Print Assumptions C01_vmess_request_stream.
Print Assumptions C01_vmess_response_stream.
Print Assumptions C01_ss_encode_reads_enc_only.
Print Assumptions C01_ss_decode_keeps_enc.
Print Assumptions C01_e2e_example_trojan_ok.
Print Assumptions C01_e2e_example_trojan.
Print Assumptions C01_e2e_example_ss2022_ok.
Print Assumptions C01_e2e_example_ss2022.
Print Assumptions C01_e2e_example_ss2022_first_read_needed.
Print Assumptions C01_e2e_example_ss2022_identity_ok.
Print Assumptions C01_e2e_example_ss2022_identity.
Print Assumptions C01_e2e_example_sslegacy_ok.
Print Assumptions C01_e2e_example_sslegacy.
Print Assumptions C01_e2e_example_vmess_ok.
Print Assumptions C01_e2e_example_vmess.
Print Assumptions C01_e2e_handshake_target_acceptable.
Print Assumptions C01_e2e_flow_transparent_bytes.
