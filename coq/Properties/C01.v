(* C01 -- TCP relay is byte-transparent end to end for every supported configuration
   Only statements live here: each obligation is the kernel-checked statement of a lemma proved in
   Proofs/*.v, re-exported under a stable name; `Check` prints its full statement, which ./check
   compares with the committed pin (Properties/pins/C01.txt) so that a statement cannot be weakened
   silently; `Print Assumptions` lists the axioms it depends on (none are declared by this development). *)
From Coq Require Import NArith List Bool String.
From Octo Require Import Base.Bytes Crypto.Prims Lib.Framed Lib.WsFramed Model.Address Model.SsChunk Model.SsTcp Model.Trojan Model.Vmess Model.Relay Proofs.SsChunkRoundtrip Proofs.SsChunkCanon Proofs.SsTcpRoundtrip Proofs.TrojanFacts Proofs.VmessFacts Proofs.WsFramedFacts Proofs.RelayFacts Proofs.AddressFacts Proofs.VmessRoundtrip.
Import ListNotations.
Set Printing Width 200.

(* relay pumps (two forward pumps under try_join): for every event history what has been delivered to one side is a prefix of what was read from the other *)
Definition C01_pump_delivers_prefix := @delivered_is_prefix.

(* ... exactly: read = delivered ++ in flight *)
Definition C01_pump_exact := @delivered_plus_inflight.

(* when a side reaches end-of-stream while its pump is alive, everything read from it is delivered and the opposite side is closed (EOF observable) before the flow returns *)
Definition C01_eof_delivers_all := @eof_delivers_all.

(* the two directions do not influence each other's delivery while the flow lives *)
Definition C01_directions_independent := @directions_independent.

(* codec level, Shadowsocks legacy: whatever the transport's segmentation, the server obtains the requested address and exactly the written bytes *)
Definition C01_ss_legacy_request := @legacy_server_segmentation_independent.

(* codec level, Shadowsocks 2022 request *)
Definition C01_ss_2022_request := @request_roundtrip_2022_general.

(* codec level, Shadowsocks 2022 response *)
Definition C01_ss_2022_response := @response_roundtrip_2022_general.

(* every further write in either direction *)
Definition C01_ss_further_writes := @second_write_roundtrip.

(* established streams are independent of segmentation *)
Definition C01_ss_body_segmentation := @ss_body_segmentation_independent.

(* codec level, Trojan: address and body exactly, any segmentation *)
Definition C01_trojan_request := @trojan_header_segmentation.

(* codec level, VMess body (all option masks, both securities) *)
Definition C01_vmess_body := @body_new_roundtrip_stream.

(* ... independent of segmentation *)
Definition C01_vmess_body_segmentation := @vmess_body_segmentation_independent.

(* WebSocket transport behaves as the stream transport with message boundaries as segment boundaries *)
Definition C01_ws_transport := @ws_run_is_framed_run.

(* the dialled address is the requested one *)
Definition C01_address_exact := @s5_roundtrip.


(* codec level, VMess request: address and first payload exactly *)
Definition C01_vmess_request := @request_roundtrip_vmess.
(* codec level, VMess response *)
Definition C01_vmess_response := @response_roundtrip_vmess.

Check @C01_vmess_request.
Check @C01_vmess_response.
Check @C01_pump_delivers_prefix.
Check @C01_pump_exact.
Check @C01_eof_delivers_all.
Check @C01_directions_independent.
Check @C01_ss_legacy_request.
Check @C01_ss_2022_request.
Check @C01_ss_2022_response.
Check @C01_ss_further_writes.
Check @C01_ss_body_segmentation.
Check @C01_trojan_request.
Check @C01_vmess_body.
Check @C01_vmess_body_segmentation.
Check @C01_ws_transport.
Check @C01_address_exact.
Print Assumptions C01_pump_delivers_prefix.
Print Assumptions C01_pump_exact.
Print Assumptions C01_eof_delivers_all.
Print Assumptions C01_directions_independent.
Print Assumptions C01_ss_legacy_request.
Print Assumptions C01_ss_2022_request.
Print Assumptions C01_ss_2022_response.
Print Assumptions C01_ss_further_writes.
Print Assumptions C01_ss_body_segmentation.
Print Assumptions C01_trojan_request.
Print Assumptions C01_vmess_body.
Print Assumptions C01_vmess_body_segmentation.
Print Assumptions C01_ws_transport.
Print Assumptions C01_address_exact.
Print Assumptions C01_vmess_request.
Print Assumptions C01_vmess_response.
