(* C15 -- closing or failing one side tears the whole flow down and frees it
   Only statements live here: each obligation is the kernel-checked statement of a lemma proved in
   Proofs/*.v, re-exported under a stable name; `Check` prints its full statement, which ./check
   compares with the committed pin (Properties/pins/C15.txt) so that a statement cannot be weakened
   silently; `Print Assumptions` lists the axioms it depends on (none are declared by this development). *)
From Coq Require Import NArith List Bool String.
From Octo Require Import Model.Relay Proofs.RelayFacts Generated.ExitPaths Model.ExitPaths Proofs.ExitPathFacts.
Import ListNotations.
Set Printing Width 200.

(* when a side reaches EOF everything read from it before has been written and the opposite side shut down before the flow returns *)
Definition C15_close_flushes_then_ends := @eof_delivers_all.

(* the opposite side is only shut down by a close (EOF or an error that ends the stream), never spontaneously *)
Definition C15_shut_only_by_close := @shut_only_by_close.

(* after the first pump returns the flow has returned: no further event is processed *)
Definition C15_first_exit_ends_flow := @first_exit_ends_flow.

(* ... and it returns exactly then *)
Definition C15_flow_returns_with_first_pump := @flow_returns_with_first_pump.

(* a returned flow holds no socket and no task; a live one holds all four *)
Definition C15_resources_freed := @resources_freed.

(* nothing but what was read is ever delivered *)
Definition C15_delivered_is_prefix := @delivered_is_prefix.


(* the relay functions of the CURRENT source (generated step lists) have the shape the pump model assumes: first send before the join, both pump outcomes mapped to Err, try_join *)
Definition C15_exit_relay_shape := @relay_model_assumptions_hold.
(* a sink is shut by the pumps exactly when the pump writing to it returned first with Close (what the exit-path model reads off the ending) *)
Definition C15_exit_pump_closed_sink := @pump_closed_sink_iff_ending.
(* every server scenario (transport x first item x environment x pump ending x peer alive) has a trace under the generated tables *)
Definition C15_exit_server_defined := @server_exit_defined.
(* server: on EVERY exit path (refused, unresolvable, bind failure, wrong first item, decode error, early EOF, every pump ending; tcp tls ws wss quic) the proxy client observes end-of-stream before the task waits for anything slower than one round trip *)
Definition C15_exit_peer_sees_end := @peer_sees_end_promptly.
(* server: the target socket exists exactly on the paths that connected/bound and is dropped again on every one of them, before any slow await *)
Definition C15_exit_outbound_released := @outbound_released.
(* server: the per-connection task ends on every path having dropped its end of the link (QUIC: and the connection handle) *)
Definition C15_exit_task_finishes := @task_finishes.
(* server: ... without a slow await unless the transport is QUIC and the peer no longer answers *)
Definition C15_exit_task_finishes_promptly := @task_finishes_promptly.
(* server QUIC: the connection handle is dropped only after the peer acknowledged the finished stream *)
Definition C15_exit_quic_server_graceful := @quic_server_closes_gracefully.
(* every client scenario has a trace under the generated tables *)
Definition C15_exit_client_defined := @client_exit_defined.
(* client: whoever ends the flow, the local application observes end-of-stream before the task waits *)
Definition C15_exit_app_sees_end := @app_sees_end_promptly.
(* client: the tunnel exists exactly when codec and dial succeeded, is always dropped again, and the server observes end-of-stream on it promptly (in particular when the application ends) *)
Definition C15_exit_tunnel_shut := @tunnel_shut_promptly.
(* client: the task ends on every path, drops the local socket, never waits longer than the 5 s close timer and not at all slowly while the server answers *)
Definition C15_exit_client_task_finishes := @client_task_finishes.
(* client QUIC: the connection is closed only after the server acknowledged the finished stream *)
Definition C15_exit_quic_client_graceful := @quic_client_closes_gracefully.
(* pumps + exit path: when the target closes first everything read from it was delivered and the link shut, and the proxy client sees the end promptly *)
Definition C15_exit_delivered_then_end := @target_closes_first_delivered_then_peer_sees_end.
(* sensitivity: with finish() removed from QuicStream::close the end-of-stream theorem is FALSE (target refused over QUIC) *)
Definition C15_exit_sens_finish_removed := @finish_removed_breaks_peer_sees_end.
(* ... the concrete trace: the server waits for the idle timeout before the peer sees the end *)
Definition C15_exit_sens_finish_removed_witness := @finish_removed_target_refused_witness.
(* sensitivity: quic::relay without inbound.close() still ends the stream at once but closes the connection unacknowledged (rejected by the graceful-close theorem) *)
Definition C15_exit_sens_no_close_witness := @quic_relay_without_close_witness.
(* sensitivity: the client QUIC arm without close() closes the connection unacknowledged *)
Definition C15_exit_sens_client_no_close_witness := @client_quic_without_close_witness.
(* sensitivity: join! instead of try_join! leaves the pump model: no trace, every theorem fails *)
Definition C15_exit_sens_join_witness := @join_instead_of_try_join_witness.
(* a relay_to arm that returns early on connect failure instead of logging changes no trace *)
Definition C15_exit_harmless_early_return := @relay_to_early_return_on_connect_failure_harmless.

Check @C15_exit_relay_shape.
Check @C15_exit_pump_closed_sink.
Check @C15_exit_server_defined.
Check @C15_exit_peer_sees_end.
Check @C15_exit_outbound_released.
Check @C15_exit_task_finishes.
Check @C15_exit_task_finishes_promptly.
Check @C15_exit_quic_server_graceful.
Check @C15_exit_client_defined.
Check @C15_exit_app_sees_end.
Check @C15_exit_tunnel_shut.
Check @C15_exit_client_task_finishes.
Check @C15_exit_quic_client_graceful.
Check @C15_exit_delivered_then_end.
Check @C15_exit_sens_finish_removed.
Check @C15_exit_sens_finish_removed_witness.
Check @C15_exit_sens_no_close_witness.
Check @C15_exit_sens_client_no_close_witness.
Check @C15_exit_sens_join_witness.
Check @C15_exit_harmless_early_return.
Check @C15_close_flushes_then_ends.
Check @C15_shut_only_by_close.
Check @C15_first_exit_ends_flow.
Check @C15_flow_returns_with_first_pump.
Check @C15_resources_freed.
Check @C15_delivered_is_prefix.
Print Assumptions C15_close_flushes_then_ends.
Print Assumptions C15_shut_only_by_close.
Print Assumptions C15_first_exit_ends_flow.
Print Assumptions C15_flow_returns_with_first_pump.
Print Assumptions C15_resources_freed.
Print Assumptions C15_delivered_is_prefix.
Print Assumptions C15_exit_relay_shape.
Print Assumptions C15_exit_pump_closed_sink.
Print Assumptions C15_exit_server_defined.
Print Assumptions C15_exit_peer_sees_end.
Print Assumptions C15_exit_outbound_released.
Print Assumptions C15_exit_task_finishes.
Print Assumptions C15_exit_task_finishes_promptly.
Print Assumptions C15_exit_quic_server_graceful.
Print Assumptions C15_exit_client_defined.
Print Assumptions C15_exit_app_sees_end.
Print Assumptions C15_exit_tunnel_shut.
Print Assumptions C15_exit_client_task_finishes.
Print Assumptions C15_exit_quic_client_graceful.
Print Assumptions C15_exit_delivered_then_end.
Print Assumptions C15_exit_sens_finish_removed.
Print Assumptions C15_exit_sens_finish_removed_witness.
Print Assumptions C15_exit_sens_no_close_witness.
Print Assumptions C15_exit_sens_client_no_close_witness.
Print Assumptions C15_exit_sens_join_witness.
Print Assumptions C15_exit_harmless_early_return.
