(* C15 -- closing or failing one side tears the whole flow down and frees it
   Only statements live here: each obligation is the kernel-checked statement of a lemma proved in
   Proofs/*.v, re-exported under a stable name; `Check` prints its full statement, which ./check
   compares with the committed pin (Properties/pins/C15.txt) so that a statement cannot be weakened
   silently; `Print Assumptions` lists the axioms it depends on (none are declared by this development). *)
From Coq Require Import NArith List Bool String.
From Octo Require Import Model.Relay Proofs.RelayFacts.
Import ListNotations.
Set Printing Width 200.

(* when a side reaches EOF everything read from it before has been written and the opposite side shut down before the flow returns *)
Definition C15_close_flushes_then_ends := @eof_delivers_all.

(* the opposite side is only shut down by a close (EOF or an error that ends the stream), never spontaneously *)
Definition C15_shut_only_by_close := @shut_only_by_close.

(* after the first pump returns the flow has returned: no further event is processed *)
Definition C15_first_exit_ends_flow := @first_exit_ends_flow.

(* ... and it returns exactly then *)
Definition C15_flow_returns_with_first_pump := @flow_returns_with_first_pump.

(* a returned flow holds no socket and no task; a live one holds all four *)
Definition C15_resources_freed := @resources_freed.

(* nothing but what was read is ever delivered *)
Definition C15_delivered_is_prefix := @delivered_is_prefix.


Check @C15_close_flushes_then_ends.
Check @C15_shut_only_by_close.
Check @C15_first_exit_ends_flow.
Check @C15_flow_returns_with_first_pump.
Check @C15_resources_freed.
Check @C15_delivered_is_prefix.
Print Assumptions C15_close_flushes_then_ends.
Print Assumptions C15_shut_only_by_close.
Print Assumptions C15_first_exit_ends_flow.
Print Assumptions C15_flow_returns_with_first_pump.
Print Assumptions C15_resources_freed.
Print Assumptions C15_delivered_is_prefix.
