(* C08 -- one failing or hostile flow never takes the service down for others
   Only statements live here: each obligation is the kernel-checked statement of a lemma proved in
   Proofs/*.v, re-exported under a stable name; `Check` prints its full statement, which ./check
   compares with the committed pin (Properties/pins/C08.txt) so that a statement cannot be weakened
   silently; `Print Assumptions` lists the axioms it depends on (none are declared by this development). *)
From Coq Require Import NArith List Bool String.
From Octo Require Import Model.Loops Proofs.LoopFacts Model.Socks5 Proofs.Socks5Facts.
Import ListNotations.
Set Printing Width 200.

(* all five long-lived loops: after ANY finite sequence of catalogue faults the loop is still running and a well-behaved connection / datagram still gets its forwarding action *)
Definition C08_service_survives := @service_survives.

(* server TCP accept loop (plain, TLS, WebSocket) *)
Definition C08_server_tcp := @stcp_service_survives.

(* server QUIC accept loop *)
Definition C08_server_quic := @squic_service_survives.

(* client TCP accept loop *)
Definition C08_client_tcp := @ctcp_service_survives.

(* server UDP loop + association tasks *)
Definition C08_server_udp := @sudp_service_survives.

(* client UDP loop + binding tasks *)
Definition C08_client_udp := @cudp_service_survives.

(* the server UDP loop ends only on an event that cannot occur while it owns its channel *)
Definition C08_server_udp_exit_only_on_fatal := @sudp_exit_only_on_fatal.

(* likewise the client UDP loop *)
Definition C08_client_udp_exit_only_on_fatal := @cudp_exit_only_on_fatal.

(* the fault catalogue contains no fatal event *)
Definition C08_fatal_not_in_catalogue := @sudp_fatal_not_in_catalogue.

(* a malformed local datagram is consumed and dropped: UdpFramed cannot be wedged *)
Definition C08_local_udp_never_wedges := @s5_udp_decode_consumes_all.

(* (recorded) a socket-level receive error on the local UDP socket parks that select! branch until another branch fires; it does not end the loop *)
Definition C08_OBSERVED_local_recv_error := @local_recv_error_parks_local_branch.


Check @C08_service_survives.
Check @C08_server_tcp.
Check @C08_server_quic.
Check @C08_client_tcp.
Check @C08_server_udp.
Check @C08_client_udp.
Check @C08_server_udp_exit_only_on_fatal.
Check @C08_client_udp_exit_only_on_fatal.
Check @C08_fatal_not_in_catalogue.
Check @C08_local_udp_never_wedges.
Check @C08_OBSERVED_local_recv_error.
Print Assumptions C08_service_survives.
Print Assumptions C08_server_tcp.
Print Assumptions C08_server_quic.
Print Assumptions C08_client_tcp.
Print Assumptions C08_server_udp.
Print Assumptions C08_client_udp.
Print Assumptions C08_server_udp_exit_only_on_fatal.
Print Assumptions C08_client_udp_exit_only_on_fatal.
Print Assumptions C08_fatal_not_in_catalogue.
Print Assumptions C08_local_udp_never_wedges.
Print Assumptions C08_OBSERVED_local_recv_error.
