(* C08 -- one failing or hostile flow never takes the service down for others
   Only statements live here: each obligation is the kernel-checked statement of a lemma proved in
   Proofs/*.v, re-exported under a stable name; `Check` prints its full statement, which ./check
   compares with the committed pin (Properties/pins/C08.txt) so that a statement cannot be weakened
   silently; `Print Assumptions` lists the axioms it depends on (none are declared by this development). *)
From Coq Require Import NArith List Bool String.
From Octo Require Import Model.Loops Proofs.LoopFacts Model.Socks5 Proofs.Socks5Facts Generated.LoopShapes Model.LoopShapes Proofs.LoopShapeFacts.
Import ListNotations.
Set Printing Width 200.

(* all five long-lived loops: after ANY finite sequence of catalogue faults the loop is still running and a well-behaved connection / datagram still gets its forwarding action *)
Definition C08_service_survives := @service_survives.

(* server TCP accept loop (plain, TLS, WebSocket) *)
Definition C08_server_tcp := @stcp_service_survives.

(* server QUIC accept loop *)
Definition C08_server_quic := @squic_service_survives.

(* client TCP accept loop *)
Definition C08_client_tcp := @ctcp_service_survives.

(* server UDP loop + association tasks *)
Definition C08_server_udp := @sudp_service_survives.

(* client UDP loop + binding tasks *)
Definition C08_client_udp := @cudp_service_survives.

(* the server UDP loop ends only on an event that cannot occur while it owns its channel *)
Definition C08_server_udp_exit_only_on_fatal := @sudp_exit_only_on_fatal.

(* likewise the client UDP loop *)
Definition C08_client_udp_exit_only_on_fatal := @cudp_exit_only_on_fatal.

(* the fault catalogue contains no fatal event *)
Definition C08_fatal_not_in_catalogue := @sudp_fatal_not_in_catalogue.

(* a malformed local datagram is consumed and dropped: UdpFramed cannot be wedged *)
Definition C08_local_udp_never_wedges := @s5_udp_decode_consumes_all.

(* (recorded) a socket-level receive error on the local UDP socket parks that select! branch until another branch fires; it does not end the loop *)
Definition C08_OBSERVED_local_recv_error := @local_recv_error_parks_local_branch.


(* tie A (Generated/LoopShapes.v): an event ends a service loop according to the CURRENT source tables (a Propagate point: ?, return, break, loop condition) exactly when the hand-written loop model gives Exit *)
Definition C08_shapes_match_loops_model := @shapes_match_loops_model.
(* the same as equalities: the source's exit set of each loop is the model's *_fatal predicate *)
Definition C08_shapes_fatal_sets := @shapes_fatal_sets.
(* every catalogue event goes only through points that the current source handles on the loop (Handled) or runs inside tokio::spawn (InTask); a stalling peer only through InTask points *)
Definition C08_no_per_flow_fault_ends_service := @no_per_flow_fault_ends_service.
(* the fault classes named by the property, one concrete event each: in the catalogue, contained, and not vacuously (each goes through at least one extracted point) *)
Definition C08_fault_classes_contained := @c08_fault_classes_contained.
(* the model's stalling events are exactly the refutable select! patterns of the source *)
Definition C08_parked_is_stalling := @parked_is_stalling.
(* the client's select! has a branch with an irrefutable pattern, so else => break cannot run (the model's cudp_enabled); the server's select! has no refutable pattern *)
Definition C08_select_else_unreachable := @select_else_unreachable.
(* no datagram fault ends a running association (source table and model agree), the association runs in a spawned task, UAssocEnded / LReplyTaskEnded have causes in the source *)
Definition C08_assoc_shape_matches_model := @assoc_shape_matches_model.
(* sensitivity: with the table of the source before 5f7202f (new_out / new_binding / send followed by ?) containment is false *)
Definition C08_SENSITIVE_client_udp_question_marks := @pre_5f7202f_client_udp_breaks_containment.
(* sensitivity: and the source's exit set no longer equals the model's *)
Definition C08_SENSITIVE_client_udp_question_marks_match := @pre_5f7202f_client_udp_breaks_match.
(* sensitivity: while let Ok(..) = listener.accept().await makes an accept error (descriptor exhaustion) fatal *)
Definition C08_SENSITIVE_while_let_ok_accept := @while_let_ok_accept_client_breaks_containment.
(* sensitivity: same, against the model's exit set *)
Definition C08_SENSITIVE_while_let_ok_accept_match := @while_let_ok_accept_client_breaks_match.
(* sensitivity: the server accept loops before 3422c50 *)
Definition C08_SENSITIVE_server_accept_loops := @pre_3422c50_server_tcp_breaks_containment.
(* sensitivity: a TLS handshake awaited on the accept loop is not contained even though its error is handled (stall) *)
Definition C08_SENSITIVE_tls_handshake_on_accept_loop := @tls_handshake_on_accept_loop_breaks_containment.
(* sensitivity: new_codec(..)? in the QUIC accept loop *)
Definition C08_SENSITIVE_server_quic_codec := @pre_3422c50_server_quic_breaks_containment.
(* sensitivity: break on a replayed packet + try_send(..)? ends the service; each half alone is analysed *)
Definition C08_SENSITIVE_replayed_datagram_chain := @replayed_datagram_chain_witness.
(* sensitivity: try_send(..)? alone is fatal as soon as an association ends *)
Definition C08_SENSITIVE_try_send_question_mark := @try_send_question_mark_breaks_containment.
(* sensitivity: break on an undecodable datagram *)
Definition C08_SENSITIVE_decode_error_break := @decode_error_break_breaks_containment.
(* a point that vanished from a table is not silently contained *)
Definition C08_SENSITIVE_missing_point := @missing_point_is_not_contained.
(* (recorded) source side of the local receive error observation: the pattern Some(Ok(..)) parks the branch *)
Definition C08_OBSERVED_local_recv_error_parked := @local_recv_error_is_parked_OBSERVED.
(* (recorded) the client's UDP loop awaits new_out / new_binding / send on its own task: their failure is handled, a stall is not contained *)
Definition C08_OBSERVED_client_udp_setup_on_loop := @client_udp_outbound_setup_on_loop_OBSERVED.

Check @C08_shapes_match_loops_model.
Check @C08_shapes_fatal_sets.
Check @C08_no_per_flow_fault_ends_service.
Check @C08_fault_classes_contained.
Check @C08_parked_is_stalling.
Check @C08_select_else_unreachable.
Check @C08_assoc_shape_matches_model.
Check @C08_SENSITIVE_client_udp_question_marks.
Check @C08_SENSITIVE_client_udp_question_marks_match.
Check @C08_SENSITIVE_while_let_ok_accept.
Check @C08_SENSITIVE_while_let_ok_accept_match.
Check @C08_SENSITIVE_server_accept_loops.
Check @C08_SENSITIVE_tls_handshake_on_accept_loop.
Check @C08_SENSITIVE_server_quic_codec.
Check @C08_SENSITIVE_replayed_datagram_chain.
Check @C08_SENSITIVE_try_send_question_mark.
Check @C08_SENSITIVE_decode_error_break.
Check @C08_SENSITIVE_missing_point.
Check @C08_OBSERVED_local_recv_error_parked.
Check @C08_OBSERVED_client_udp_setup_on_loop.
Check @C08_service_survives.
Check @C08_server_tcp.
Check @C08_server_quic.
Check @C08_client_tcp.
Check @C08_server_udp.
Check @C08_client_udp.
Check @C08_server_udp_exit_only_on_fatal.
Check @C08_client_udp_exit_only_on_fatal.
Check @C08_fatal_not_in_catalogue.
Check @C08_local_udp_never_wedges.
Check @C08_OBSERVED_local_recv_error.
Print Assumptions C08_service_survives.
Print Assumptions C08_server_tcp.
Print Assumptions C08_server_quic.
Print Assumptions C08_client_tcp.
Print Assumptions C08_server_udp.
Print Assumptions C08_client_udp.
Print Assumptions C08_server_udp_exit_only_on_fatal.
Print Assumptions C08_client_udp_exit_only_on_fatal.
Print Assumptions C08_fatal_not_in_catalogue.
Print Assumptions C08_local_udp_never_wedges.
Print Assumptions C08_OBSERVED_local_recv_error.
Print Assumptions C08_shapes_match_loops_model.
Print Assumptions C08_shapes_fatal_sets.
Print Assumptions C08_no_per_flow_fault_ends_service.
Print Assumptions C08_fault_classes_contained.
Print Assumptions C08_parked_is_stalling.
Print Assumptions C08_select_else_unreachable.
Print Assumptions C08_assoc_shape_matches_model.
Print Assumptions C08_SENSITIVE_client_udp_question_marks.
Print Assumptions C08_SENSITIVE_client_udp_question_marks_match.
Print Assumptions C08_SENSITIVE_while_let_ok_accept.
Print Assumptions C08_SENSITIVE_while_let_ok_accept_match.
Print Assumptions C08_SENSITIVE_server_accept_loops.
Print Assumptions C08_SENSITIVE_tls_handshake_on_accept_loop.
Print Assumptions C08_SENSITIVE_server_quic_codec.
Print Assumptions C08_SENSITIVE_replayed_datagram_chain.
Print Assumptions C08_SENSITIVE_try_send_question_mark.
Print Assumptions C08_SENSITIVE_decode_error_break.
Print Assumptions C08_SENSITIVE_missing_point.
Print Assumptions C08_OBSERVED_local_recv_error_parked.
Print Assumptions C08_OBSERVED_client_udp_setup_on_loop.
