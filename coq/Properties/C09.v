(* C09 -- concurrent flows are independent of one another
   Only statements live here: each obligation is the kernel-checked statement of a lemma proved in
   Proofs/*.v, re-exported under a stable name; `Check` prints its full statement, which ./check
   compares with the committed pin (Properties/pins/C09.txt) so that a statement cannot be weakened
   silently; `Print Assumptions` lists the axioms it depends on (none are declared by this development). *)
From Coq Require Import NArith List Bool String.
From Octo Require Import Model.UdpTables Model.SaltCache Proofs.UdpTableFacts Proofs.SaltCacheFacts Generated.Shared Generated.UdpAdapters Model.UdpAdapters Proofs.UdpAdapterFacts Proofs.UdpAdapterTableFacts.
Import ListNotations.
Set Printing Width 200.

(* table level: events of two different flows commute (same table, same actions per flow) *)
Definition C09_flows_commute := @flows_commute.

(* each flow's entry and actions after any interleaved history equal those of its own events alone *)
Definition C09_flow_alone := @flow_alone.

(* k concurrent copies of one handshake, any schedule: exactly one is accepted (check-and-insert is one atomic step under the mutex) *)
Definition C09_same_salt_exactly_one := @no_replay_concurrent.

(* ... at most one, without hypotheses *)
Definition C09_same_salt_at_most_one := @no_replay_concurrent_at_most_one.

(* (repaired defect, kept as a witness) reading a failed try_lock as 'not seen' lets two copies through *)
Definition C09_WITNESS_try_lock := @try_lock_witness.

(* (repaired defect) separate check and insert lets two copies through *)
Definition C09_WITNESS_check_then_insert := @check_then_insert_witness.

(* shared mutable state is inventoried from the source on every run; the obligation: no try_lock, no &->&mut cast, and no
   process-wide static beyond the mutex-guarded cipher cache (and the verification clock hook) *)
Definition shared_budget : list (string * string * nat) :=
  [ ("static", "octo-squirrel/src/codec/shadowsocks/udp.rs", 1%nat);
    ("static", "octo-squirrel/src/verif_clock.rs", 1%nat) ]%string.
Definition is_shared_kind (k : string) : bool := existsb (String.eqb k) ["static"; "try_lock"; "cast_mut"]%string.
Definition count_sites (k f : string) : nat :=
  List.length (filter (fun e => String.eqb (fst (fst e)) k && String.eqb (snd (fst e)) f) shared_inventory).
Definition protected (e : string * string * string) : bool :=
  negb (is_shared_kind (fst (fst e))) ||
  existsb (fun b => String.eqb (fst (fst b)) (fst (fst e)) && String.eqb (snd (fst b)) (snd (fst e))
                    && Nat.leb (count_sites (fst (fst e)) (snd (fst e))) (snd b)) shared_budget.
Theorem C09_inventory_protected : forallb protected shared_inventory = true.
Proof. vm_compute. reflexivity. Qed.
(* the one process-wide static is declared as a Mutex *)
Theorem C09_static_cache_is_mutex :
  forallb (fun e => negb (String.eqb (fst (fst e)) "static" && String.eqb (snd (fst e)) "octo-squirrel/src/codec/shadowsocks/udp.rs")
                    || (match index 0 "Mutex<" (snd e) with Some _ => true | None => false end)) shared_inventory = true.
Proof. vm_compute. reflexivity. Qed.

(* shared binding table, adapter tables regenerated from the source - two targets of one application never collide on a binding, the target travels with every datagram or is part of the binding key (and the outbound is made for it) *)
Definition C09_adapters_target := @target_reaches_wire_or_key.
(* after any interleaved history a datagram goes out on a live binding of its own sender and the server will send it to its own target *)
Definition C09_adapters_datagram_reaches_target := @datagram_reaches_addressed_target.
(* a reply label taken from the shared binding is only used where the binding key contains the target *)
Definition C09_adapters_label := @label_is_replying_target.
(* after any interleaved history a reply is labelled with the reported source or with the one and only target its binding has sent to *)
Definition C09_adapters_reply_labelled := @reply_labelled_with_replier.
(* shared association table - equal keys mean equal client session, equal user (and equal client address without replay protection) *)
Definition C09_adapters_assoc_key := @assoc_key_separates_sessions_and_users.
(* sensitivity, vmess bindings keyed by the sender only - delivery to the wrong target *)
Definition C09_WITNESS_R1 := @R1_datagram_reaches_target_refuted.
(* sensitivity, shadowsocks labelling with the binding target - wrong label *)
Definition C09_WITNESS_R2 := @R2_reply_labelled_with_replier_refuted.
(* sensitivity, association key without the user - two users share an association *)
Definition C09_WITNESS_R3 := @R3_users_share_an_association.

Check @C09_adapters_target.
Check @C09_adapters_datagram_reaches_target.
Check @C09_adapters_label.
Check @C09_adapters_reply_labelled.
Check @C09_adapters_assoc_key.
Check @C09_WITNESS_R1.
Check @C09_WITNESS_R2.
Check @C09_WITNESS_R3.
Check @C09_flows_commute.
Check @C09_flow_alone.
Check @C09_same_salt_exactly_one.
Check @C09_same_salt_at_most_one.
Check @C09_WITNESS_try_lock.
Check @C09_WITNESS_check_then_insert.
Check @C09_inventory_protected.
Check @C09_static_cache_is_mutex.
Print Assumptions C09_flows_commute.
Print Assumptions C09_flow_alone.
Print Assumptions C09_same_salt_exactly_one.
Print Assumptions C09_same_salt_at_most_one.
Print Assumptions C09_WITNESS_try_lock.
Print Assumptions C09_WITNESS_check_then_insert.
Print Assumptions C09_inventory_protected.
Print Assumptions C09_static_cache_is_mutex.
Print Assumptions C09_adapters_target.
Print Assumptions C09_adapters_datagram_reaches_target.
Print Assumptions C09_adapters_label.
Print Assumptions C09_adapters_reply_labelled.
Print Assumptions C09_adapters_assoc_key.
Print Assumptions C09_WITNESS_R1.
Print Assumptions C09_WITNESS_R2.
Print Assumptions C09_WITNESS_R3.
