(* C06 -- no relaying without the configured credential; users stay separated
   Only statements live here: each obligation is the kernel-checked statement of a lemma proved in
   Proofs/*.v, re-exported under a stable name; `Check` prints its full statement, which ./check
   compares with the committed pin (Properties/pins/C06.txt) so that a statement cannot be weakened
   silently; `Print Assumptions` lists the axioms it depends on (none are declared by this development). *)
From Coq Require Import NArith List Bool String.
From Octo Require Import Base.Bytes Crypto.Prims Lib.Framed Lib.Canon Model.Address Model.NonceGen Model.SsChunk Model.SsTcp Model.Trojan Model.Socks5 Model.Http Generated.Params Generated.Shared
  Proofs.AddressFacts Proofs.NonceFacts Proofs.SsChunkRoundtrip Proofs.SsChunkCanon Proofs.SsTcpSafety Proofs.SsTcpRoundtrip Proofs.CodecLemmas Proofs.TrojanFacts Proofs.Socks5Facts Proofs.HttpFacts Model.Vmess Proofs.VmessSafety Proofs.VmessFacts Model.SsUdp Proofs.SsUdpFacts Proofs.SsChunkTamper.
Import ListNotations.
Set Printing Width 200.

(* Trojan: an item is produced from the header state only if the first 56 bytes are hex of the configured SHA-224 value *)
Definition C06_trojan_requires_hash := @trojan_requires_hash_strong.

(* Trojan: a head made for another password is refused *)
Definition C06_trojan_wrong_key := @trojan_wrong_key_refused.

(* Shadowsocks 2022: a payload is released only after the fixed and the variable header opened under the key selected for this request *)
Definition C06_ss_release_needs_auth := @release_implies_accept.

(* ... with everything that acceptance entails *)
Definition C06_ss_accept := @accept_implies_fresh_and_typed.

(* multi-user: the decoder key is the key of the user whose identity hash the identity header decrypts to; unknown hash => refused *)
Definition C06_ss_eih_binds_user := @open_fixed_user.

(* no payload for a salt that is not remembered *)
Definition C06_ss_no_insert_no_release := @no_release_without_insert.

(* the only outcomes besides items are wait / BadPassword / BadCmd / BadAddrType *)
Definition C06_trojan_errors := @trojan_server_decode_errors.


(* VMess: an item requires an auth id matching a REGISTERED user key (CRC, time window) and a header opened under that key *)
Definition C06_vmess_requires_user := @vmess_requires_user.
(* VMess: without registered users nothing is ever served *)
Definition C06_vmess_no_user_no_service := @vmess_no_user_no_service.
(* Shadowsocks stream: a decoder under whose key nothing was sealed releases nothing *)
Definition C06_ss_no_credential_no_release := @reflection_rejected.

Check @C06_vmess_requires_user.
Check @C06_vmess_no_user_no_service.
Check @C06_ss_no_credential_no_release.
Check @C06_trojan_requires_hash.
Check @C06_trojan_wrong_key.
Check @C06_ss_release_needs_auth.
Check @C06_ss_accept.
Check @C06_ss_eih_binds_user.
Check @C06_ss_no_insert_no_release.
Check @C06_trojan_errors.
Print Assumptions C06_trojan_requires_hash.
Print Assumptions C06_trojan_wrong_key.
Print Assumptions C06_ss_release_needs_auth.
Print Assumptions C06_ss_accept.
Print Assumptions C06_ss_eih_binds_user.
Print Assumptions C06_ss_no_insert_no_release.
Print Assumptions C06_trojan_errors.
Print Assumptions C06_vmess_requires_user.
Print Assumptions C06_vmess_no_user_no_service.
Print Assumptions C06_ss_no_credential_no_release.
