(* C06 -- no relaying without the configured credential; users stay separated
   Only statements live here: each obligation is the kernel-checked statement of a lemma proved in
   Proofs/*.v, re-exported under a stable name; `Check` prints its full statement, which ./check
   compares with the committed pin (Properties/pins/C06.txt) so that a statement cannot be weakened
   silently; `Print Assumptions` lists the axioms it depends on (none are declared by this development). *)
From Coq Require Import NArith List Bool String.
From Octo Require Import Base.Bytes Crypto.Prims Lib.Framed Lib.Canon Model.Address Model.NonceGen Model.SsChunk Model.SsTcp Model.Trojan Model.Socks5 Model.Http Generated.Params Generated.Shared
  Proofs.AddressFacts Proofs.NonceFacts Proofs.SsChunkRoundtrip Proofs.SsChunkCanon Proofs.SsTcpSafety Proofs.SsTcpRoundtrip Proofs.CodecLemmas Proofs.TrojanFacts Proofs.Socks5Facts Proofs.HttpFacts Model.Vmess Proofs.VmessSafety Proofs.VmessFacts Model.SsUdp Proofs.SsUdpFacts Proofs.SsChunkTamper Proofs.VmessTamper Proofs.SsUdpTamper.
Import ListNotations.
Set Printing Width 200.

(* Trojan: an item is produced from the header state only if the first 56 bytes are hex of the configured SHA-224 value *)
Definition C06_trojan_requires_hash := @trojan_requires_hash_strong.

(* Trojan: a head made for another password is refused *)
Definition C06_trojan_wrong_key := @trojan_wrong_key_refused.

(* Shadowsocks 2022: a payload is released only after the fixed and the variable header opened under the key selected for this request *)
Definition C06_ss_release_needs_auth := @release_implies_accept.

(* ... with everything that acceptance entails *)
Definition C06_ss_accept := @accept_implies_fresh_and_typed.

(* multi-user: the decoder key is the key of the user whose identity hash the identity header decrypts to; unknown hash => refused *)
Definition C06_ss_eih_binds_user := @open_fixed_user.

(* no payload for a salt that is not remembered *)
Definition C06_ss_no_insert_no_release := @no_release_without_insert.

(* the only outcomes besides items are wait / BadPassword / BadCmd / BadAddrType *)
Definition C06_trojan_errors := @trojan_server_decode_errors.


(* VMess: an item requires an auth id matching a REGISTERED user key (CRC, time window) and a header opened under that key *)
Definition C06_vmess_requires_user := @vmess_requires_user.
(* VMess: without registered users nothing is ever served *)
Definition C06_vmess_no_user_no_service := @vmess_no_user_no_service.
(* Shadowsocks stream: a decoder under whose key nothing was sealed releases nothing *)
Definition C06_ss_no_credential_no_release := @reflection_rejected.

(* VMess under an ideal AEAD: the server leaves SInit (target known, body codec created) only if both sealed parts of the request header are honest units under keys derived from a REGISTERED user id, with the auth id of the request as associated data *)
Definition C06_vmess_header_accept_is_honest := @vm_header_accept_is_honest.
(* VMess: if nothing the peer can produce opens under a key derived from a registered user id, the server never dials a target *)
Definition C06_vmess_no_user_key_no_target := @vm_no_user_key_no_target.
(* SS UDP: if nothing on the wire opens under keys derivable from the configured PSK / registered user keys (another PSK, an unregistered user), no datagram is ever accepted *)
Definition C06_ssudp_wrong_key_datagram_refused := @wrong_key_datagram_refused.
(* SS UDP: ... and the session codec never yields an item to forward *)
Definition C06_ssudp_wrong_key_never_item := @wrong_key_session_decode_never_some.
(* SS UDP: the AEAD part of every accepted datagram is an honest unit under a key derived from the configured secrets *)
Definition C06_ssudp_accepted_is_sealed := @accepted_is_sealed.
(* SS UDP 2022 multi-user: an accepted datagram is attributed to the REGISTERED user its identity header (under the server key) selects, and was sealed under THAT user key *)
Definition C06_ssudp_accepted_multiuser_attributed := @accepted_multiuser_attributed.
(* SS UDP 2022 multi-user: attribution to user u implies the unit was sealed under the key of u -- never decrypted or attributed under another user key *)
Definition C06_ssudp_user_separation := @user_separation.
(* SS UDP 2022 multi-user: an identity header selecting no registered user is refused (EBadUser) before any AEAD key is derived *)
Definition C06_ssudp_unregistered_identity_refused := @unregistered_identity_refused.
(* non-vacuity: user separation instantiated with the ideal AEAD *)
Definition C06_ssudp_nonvacuous_user_separation := @UdpTamperExamples.ideal_user_separation.
(* non-vacuity: a decoder configured with another PSK accepts nothing *)
Definition C06_ssudp_nonvacuous_wrong_key := @UdpTamperExamples.ideal_wrong_key_xc.

Check @C06_vmess_header_accept_is_honest.
Check @C06_vmess_no_user_key_no_target.
Check @C06_ssudp_wrong_key_datagram_refused.
Check @C06_ssudp_wrong_key_never_item.
Check @C06_ssudp_accepted_is_sealed.
Check @C06_ssudp_accepted_multiuser_attributed.
Check @C06_ssudp_user_separation.
Check @C06_ssudp_unregistered_identity_refused.
Check @C06_ssudp_nonvacuous_user_separation.
Check @C06_ssudp_nonvacuous_wrong_key.
Check @C06_vmess_requires_user.
Check @C06_vmess_no_user_no_service.
Check @C06_ss_no_credential_no_release.
Check @C06_trojan_requires_hash.
Check @C06_trojan_wrong_key.
Check @C06_ss_release_needs_auth.
Check @C06_ss_accept.
Check @C06_ss_eih_binds_user.
Check @C06_ss_no_insert_no_release.
Check @C06_trojan_errors.
Print Assumptions C06_trojan_requires_hash.
Print Assumptions C06_trojan_wrong_key.
Print Assumptions C06_ss_release_needs_auth.
Print Assumptions C06_ss_accept.
Print Assumptions C06_ss_eih_binds_user.
Print Assumptions C06_ss_no_insert_no_release.
Print Assumptions C06_trojan_errors.
Print Assumptions C06_vmess_requires_user.
Print Assumptions C06_vmess_no_user_no_service.
Print Assumptions C06_ss_no_credential_no_release.
Print Assumptions C06_vmess_header_accept_is_honest.
Print Assumptions C06_vmess_no_user_key_no_target.
Print Assumptions C06_ssudp_wrong_key_datagram_refused.
Print Assumptions C06_ssudp_wrong_key_never_item.
Print Assumptions C06_ssudp_accepted_is_sealed.
Print Assumptions C06_ssudp_accepted_multiuser_attributed.
Print Assumptions C06_ssudp_user_separation.
Print Assumptions C06_ssudp_unregistered_identity_refused.
Print Assumptions C06_ssudp_nonvacuous_user_separation.
Print Assumptions C06_ssudp_nonvacuous_wrong_key.
