(* C14 -- addresses survive encoding exactly or are refused. *)
From Coq Require Import NArith List Bool.
From Octo Require Import Base.Bytes Model.Utf8 Model.Address Proofs.AddressFacts Proofs.AddressCorollaries.
Import ListNotations.
Open Scope N_scope.

(* SOCKS5-style: every representable address decodes to itself, consuming exactly its own bytes
   (whatever follows is returned untouched), for every trailing payload *)
Theorem C14_s5_roundtrip : forall a tail, addr_wf a -> representable a ->
  s5_decode (s5_encode a ++ tail) = Ok (a, tail).
Proof. exact s5_roundtrip. Qed.

Theorem C14_s5_length : forall a, addr_wf a -> s5_length a = lenN (s5_encode a).
Proof. exact s5_length_exact. Qed.

Theorem C14_s5_try_decode_at : forall pre a tail, addr_wf a -> representable a ->
  s5_try_decode_at (pre ++ s5_encode a ++ tail) (lenN pre) = Ok (Some (lenN (s5_encode a))).
Proof. exact s5_try_decode_at_ok. Qed.

(* VMess-style *)
Theorem C14_vmess_roundtrip : forall utf8_ok a tail, addr_wf a -> representable a ->
  (forall h p, a = ADom h p -> utf8_ok h = true) ->
  exists w, vm_write a = Ok w /\ vm_read utf8_ok (w ++ tail) = Ok (a, tail).
Proof. exact vm_roundtrip. Qed.

(* an empty name or one longer than 255 bytes is refused by the client-side guard, and the VMess
   writer never produces bytes for it *)
Theorem C14_unrepresentable_refused : forall a, ~ representable a ->
  accept_addr a = false /\ (forall w, vm_write a <> Ok w).
Proof. exact unrepresentable_refused. Qed.
Theorem C14_accept_iff_representable : forall a, accept_addr a = true <-> representable a.
Proof. exact accept_addr_iff. Qed.

(* decoders and writers are total: no input makes them panic (shared with C07) *)
Theorem C14_s5_decode_total : forall src, s5_decode src <> Panic.
Proof. exact s5_decode_total. Qed.
Theorem C14_s5_try_total : forall src at_, s5_try_decode_at src at_ <> Panic.
Proof. exact s5_try_decode_at_total. Qed.
Theorem C14_vm_read_total : forall utf8_ok src, vm_read utf8_ok src <> Panic.
Proof. exact vm_read_total. Qed.
Theorem C14_vm_write_total : forall a, vm_write a <> Panic.
Proof. exact vm_write_total. Qed.

(* "never re-interpreted as a different address plus payload": both encodings are prefix-free on the representable addresses --
   whatever payloads follow, equal wire bytes mean the same address and the same payload *)
Theorem C14_s5_prefix_free : forall a b t1 t2, addr_wf a -> representable a -> addr_wf b -> representable b ->
  s5_encode a ++ t1 = s5_encode b ++ t2 -> a = b /\ t1 = t2.
Proof. exact s5_prefix_free. Qed.
Theorem C14_vm_prefix_free : forall a b wa wb t1 t2, addr_wf a -> representable a -> addr_wf b -> representable b ->
  vm_write a = Ok wa -> vm_write b = Ok wb -> wa ++ t1 = wb ++ t2 -> a = b /\ t1 = t2.
Proof. exact vm_prefix_free. Qed.

(* the guard is necessary: the SOCKS5-style encoder itself truncates the length of a 300-byte name *)
Example C14_guard_is_needed :
  let h := repeat 97 300 in
  exists a' rest, s5_decode (s5_encode (ADom h 80)) = Ok (a', rest) /\ a' <> ADom h 80 /\ rest <> [].
Proof. exact s5_truncates_long_host. Qed.

(* non-vacuity *)
Example C14_example_domain :
  s5_decode (s5_encode (ADom [119; 119; 119; 46; 119; 51; 46; 111; 114; 103] 80) ++ [1; 2; 3])
  = Ok (ADom [119; 119; 119; 46; 119; 51; 46; 111; 114; 103] 80, [1; 2; 3]).
Proof. vm_compute. reflexivity. Qed.
Example C14_example_wf : addr_wf (AV4 [192; 168; 1; 1] 8080) /\ representable (ADom [97] 1).
Proof. cbn. repeat split; try (repeat constructor; fail); try reflexivity. all: try (vm_compute; discriminate). Qed.

Check C14_s5_prefix_free.
Check C14_vm_prefix_free.
Check (C14_s5_roundtrip : forall a tail, addr_wf a -> representable a -> s5_decode (s5_encode a ++ tail) = Ok (a, tail)).
Print Assumptions C14_s5_roundtrip.
Print Assumptions C14_s5_length.
Print Assumptions C14_s5_prefix_free.
Print Assumptions C14_vm_prefix_free.
Print Assumptions C14_s5_try_decode_at.
Print Assumptions C14_vmess_roundtrip.
Print Assumptions C14_unrepresentable_refused.
Print Assumptions C14_s5_decode_total.
Print Assumptions C14_vm_read_total.
