(* C05 -- tampered or reflected ciphertext is never delivered as plaintext
   Only statements live here: each obligation is the kernel-checked statement of a lemma proved in
   Proofs/*.v, re-exported under a stable name; `Check` prints its full statement, which ./check
   compares with the committed pin (Properties/pins/C05.txt) so that a statement cannot be weakened
   silently; `Print Assumptions` lists the axioms it depends on (none are declared by this development). *)
From Coq Require Import NArith List Bool String.
From Octo Require Import Base.Bytes Crypto.Prims Lib.Framed Lib.Canon Lib.WsFramed Model.Address Model.NonceGen Model.SsChunk Model.SsTcp
  Proofs.NonceFacts Proofs.SsChunkRoundtrip Proofs.SsChunkCanon Proofs.SsChunkTamper Proofs.SsTcpSafety Proofs.SsTcpRoundtrip Proofs.WsFramedFacts.
Import ListNotations.
Set Printing Width 200.

(* WHATEVER bytes arrive (flipped, inserted, deleted, truncated, reordered, duplicated, spliced) and however they are segmented: under forge-freeness what the decoder releases is a prefix of what the honest sender wrote, and the run ends Waiting or Failed EAead *)
Definition C05_released_is_prefix := @released_is_prefix.

(* after a failure nothing more is released, whatever follows *)
Definition C05_nothing_after_failure := @nothing_after_failure.

(* ... for any decoder under FramedRead *)
Definition C05_run_stops_after_failure := @run_stops_after_failure.

(* a stream altered first in unit j releases at most the plaintext of the units before it and fails as soon as unit j is complete *)
Definition C05_tampered_unit_rejected := @tampered_unit_rejected.

(* ... stated with 'the ciphertext of unit j differs' *)
Definition C05_tampered_unit_rejected_neq := @tampered_unit_rejected_neq.

(* a decoder under whose key the presented bytes were not sealed (the opposite direction, another session, no credential) releases nothing *)
Definition C05_reflection_rejected := @reflection_rejected.

(* non-vacuity: the untampered stream is released completely under every segmentation *)
Definition C05_honest_run_released_all := @honest_run_released_all.

(* over WebSocket transport the adapter stops after the first decode error too *)
Definition C05_ws_stops_after_failure := @ws_failed_silent.

(* Shadowsocks 2022: a response spliced from another request (other request salt) is refused *)
Definition C05_wrong_echo_refused := @response_wrong_echo_refused.

(* on an authentication failure what was released is a prefix of the units before the failing one, for every segmentation *)
Definition C05_failure_is_prefix := @ss_body_segmentation_independent.

(* the hypotheses are jointly satisfiable: an ideal AEAD (opens exactly the honest units) for a concrete run *)
Definition C05_nonvacuous_forge_free := @TamperExamples.ideal_forge_free.
Definition C05_nonvacuous_prefix := @TamperExamples.ideal_released_is_prefix.

Check @C05_released_is_prefix.
Check @C05_nothing_after_failure.
Check @C05_run_stops_after_failure.
Check @C05_tampered_unit_rejected.
Check @C05_tampered_unit_rejected_neq.
Check @C05_reflection_rejected.
Check @C05_honest_run_released_all.
Check @C05_ws_stops_after_failure.
Check @C05_wrong_echo_refused.
Check @C05_failure_is_prefix.
Check @C05_nonvacuous_forge_free.
Check @C05_nonvacuous_prefix.
Print Assumptions C05_released_is_prefix.
Print Assumptions C05_nothing_after_failure.
Print Assumptions C05_run_stops_after_failure.
Print Assumptions C05_tampered_unit_rejected.
Print Assumptions C05_tampered_unit_rejected_neq.
Print Assumptions C05_reflection_rejected.
Print Assumptions C05_honest_run_released_all.
Print Assumptions C05_ws_stops_after_failure.
Print Assumptions C05_wrong_echo_refused.
Print Assumptions C05_failure_is_prefix.
Print Assumptions C05_nonvacuous_forge_free.
Print Assumptions C05_nonvacuous_prefix.
