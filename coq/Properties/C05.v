(* C05 -- tampered or reflected ciphertext is never delivered as plaintext
   Only statements live here: each obligation is the kernel-checked statement of a lemma proved in
   Proofs/*.v, re-exported under a stable name; `Check` prints its full statement, which ./check
   compares with the committed pin (Properties/pins/C05.txt) so that a statement cannot be weakened
   silently; `Print Assumptions` lists the axioms it depends on (none are declared by this development). *)
From Coq Require Import NArith List Bool String.
From Octo Require Import Base.Bytes Crypto.Prims Lib.Framed Lib.Canon Lib.WsFramed Model.Address Model.NonceGen Model.SsChunk Model.SsTcp
  Proofs.NonceFacts Proofs.SsChunkRoundtrip Proofs.SsChunkCanon Proofs.SsChunkTamper Proofs.SsTcpSafety Proofs.SsTcpRoundtrip Proofs.WsFramedFacts Proofs.VmessTamper Proofs.SsUdpTamper Proofs.VmessRespTamper.
Import ListNotations.
Set Printing Width 200.

(* WHATEVER bytes arrive (flipped, inserted, deleted, truncated, reordered, duplicated, spliced) and however they are segmented: under forge-freeness what the decoder releases is a prefix of what the honest sender wrote, and the run ends Waiting or Failed EAead *)
Definition C05_released_is_prefix := @released_is_prefix.

(* after a failure nothing more is released, whatever follows *)
Definition C05_nothing_after_failure := @nothing_after_failure.

(* ... for any decoder under FramedRead *)
Definition C05_run_stops_after_failure := @run_stops_after_failure.

(* a stream altered first in unit j releases at most the plaintext of the units before it and fails as soon as unit j is complete *)
Definition C05_tampered_unit_rejected := @tampered_unit_rejected.

(* ... stated with 'the ciphertext of unit j differs' *)
Definition C05_tampered_unit_rejected_neq := @tampered_unit_rejected_neq.

(* a decoder under whose key the presented bytes were not sealed (the opposite direction, another session, no credential) releases nothing *)
Definition C05_reflection_rejected := @reflection_rejected.

(* non-vacuity: the untampered stream is released completely under every segmentation *)
Definition C05_honest_run_released_all := @honest_run_released_all.

(* over WebSocket transport the adapter stops after the first decode error too *)
Definition C05_ws_stops_after_failure := @ws_failed_silent.

(* Shadowsocks 2022: a response spliced from another request (other request salt) is refused *)
Definition C05_wrong_echo_refused := @response_wrong_echo_refused.

(* on an authentication failure what was released is a prefix of the units before the failing one, for every segmentation *)
Definition C05_failure_is_prefix := @ss_body_segmentation_independent.

(* the hypotheses are jointly satisfiable: an ideal AEAD (opens exactly the honest units) for a concrete run *)
Definition C05_nonvacuous_forge_free := @TamperExamples.ideal_forge_free.
Definition C05_nonvacuous_prefix := @TamperExamples.ideal_released_is_prefix.

(* non-vacuity: the restricted laws (seal_len, open_len, open_seal on what the honest sender sealed) hold for the ideal AEAD of the concrete run *)
Definition C05_ss_nonvacuous_laws := @TamperExamples.ideal_laws.
(* non-vacuity: tampered_unit_rejected_neq with ALL its hypotheses discharged (laws_on + forge_free + nonce discipline hold together) *)
Definition C05_ss_nonvacuous_tamper := @TamperExamples.ideal_tampered_unit_rejected.
(* VMess body stream, every option mask and both ciphers: WHATEVER bytes arrive and however they are segmented, under forge-freeness of the body key what is released is a prefix of the concatenation of the sender payloads; the run ends Waiting or Failed EAead *)
Definition C05_vmess_released_is_prefix := @vm_released_is_prefix.
(* VMess: after a failure nothing more is released, whatever follows *)
Definition C05_vmess_nothing_after_failure := @vm_nothing_after_failure.
(* VMess: honest wire up to chunk j, then ANY bytes whose head is not an intact chunk j: exactly the payload of the first j chunks is released and nothing after the point of tampering *)
Definition C05_vmess_tampered_chunk_not_released := @vm_tampered_chunk_not_released.
(* VMess: ... and as soon as the tampered chunk is complete by the decoder own reckoning the run fails, under every segmentation *)
Definition C05_vmess_tampered_chunk_rejected := @vm_tampered_chunk_rejected.
(* VMess, plain reading: the honest size field followed by any other bytes in place of the sealed payload is rejected *)
Definition C05_vmess_tampered_ciphertext_rejected := @vm_tampered_ciphertext_rejected.
(* VMess AuthenticatedLength: 18 bytes that are not an honest size unit for the counter nonce of chunk j fail at once *)
Definition C05_vmess_tampered_auth_size_rejected := @vm_tampered_auth_size_rejected.
(* VMess (witness, by protocol design): the random padding of a chunk is NOT authenticated -- any bytes of the same length are accepted, with the same released bytes and decoder state *)
Definition C05_vmess_REFUTED_padding_authenticated := @vm_padding_tamper_accepted.
(* VMess non-vacuity: the untampered stream is released completely under every segmentation *)
Definition C05_vmess_honest_run_released_all := @vm_honest_run_released_all.
(* VMess: ideal AEAD over both body keys of a session + the two keys differ => forge-freeness per direction *)
Definition C05_vmess_direction_separation := @vm_direction_separation.
(* VMess reflection and splicing: the request decoder and the response decoder of a session, fed with ANY bytes (the opposite direction reflected back, spliced chunks), release a prefix of what the sender of THEIR direction wrote *)
Definition C05_vmess_cross_direction := @vm_cross_direction_released_is_prefix.
(* VMess: a unit sealed under the other direction key opens under this direction key only if byte-identical to a ciphertext this direction sender produced *)
Definition C05_vmess_opposite_unit_rejected := @vm_opposite_unit_rejected.
(* VMess: a decoder under whose body key nothing was sealed (other session, other direction) releases nothing *)
Definition C05_vmess_reflection_rejected := @vm_reflection_rejected.
(* KNOWN FINDING F-12b seen from C05 (witness): with AuthenticatedLength the SIZE FIELD of the opposite direction IS accepted when reflected; the sealed payload behind it is not (vmess_cross_direction) *)
Definition C05_vmess_KNOWN_auth_len_size_reflected := @vm_auth_len_size_reflected_accepted.
(* (recorded) why the 65536-chunk bound is a premise: the 16-bit counter of the protocol wraps, a replayed chunk opens again 65536 chunks later *)
Definition C05_vmess_counter_wrap_replay := @vm_replay_after_wrap_opens.
(* VMess packet mode: a datagram is released only if it is exactly the plaintext of the honest unit at the decoder position *)
Definition C05_vmess_packet_accept_is_honest := @vm_packet_accept_is_honest.
(* VMess packet mode: a tampered datagram chunk is dropped entirely -- Err EAead or (incomplete) no item, never a datagram *)
Definition C05_vmess_packet_tampered_dropped := @vm_packet_tampered_dropped.
(* VMess packet mode: a complete tampered chunk is Err EAead *)
Definition C05_vmess_packet_tampered_rejected := @vm_packet_tampered_rejected.
(* VMess packet mode on what encode_packet_v wrote: honest size field, any other bytes in place of the sealed datagram => Err EAead *)
Definition C05_vmess_packet_ciphertext_tampered_rejected := @vm_packet_ciphertext_tampered_rejected.
(* VMess request header: if for no registered user both sealed parts are honest units under the keys derived with the auth id and connection nonce of src, the server never leaves SInit (no target, nothing released) *)
Definition C05_vmess_header_tampered_refused := @vm_header_tampered_refused.
(* ... the outcome is an error or waiting *)
Definition C05_vmess_header_tampered_no_target := @vm_header_tampered_no_target.
(* VMess request header, plain reading for one honest request: another auth id, or any other changed byte of the sealed header, is refused *)
Definition C05_vmess_header_tampered_refused_neq := @vm_header_tampered_refused_neq.
(* non-vacuity: forge-freeness holds for an ideal AEAD on a concrete two-write session (all options) *)
Definition C05_vmess_nonvacuous_forge_free := @VmessTamperExamples.ideal_forge_free_req.
(* non-vacuity: the restricted laws hold for the same ideal AEAD *)
Definition C05_vmess_nonvacuous_laws := @VmessTamperExamples.ideal_laws_req.
(* non-vacuity: vm_released_is_prefix with all hypotheses discharged *)
Definition C05_vmess_nonvacuous_prefix := @VmessTamperExamples.ideal_released_is_prefix.
(* non-vacuity: vm_tampered_ciphertext_rejected with all hypotheses discharged *)
Definition C05_vmess_nonvacuous_tamper := @VmessTamperExamples.ideal_tampered_ciphertext_rejected.
(* non-vacuity: vm_tampered_auth_size_rejected with all hypotheses discharged *)
Definition C05_vmess_nonvacuous_auth_size := @VmessTamperExamples.ideal_tampered_auth_size_rejected.
(* non-vacuity: both directions, key separation checked on the concrete keys *)
Definition C05_vmess_nonvacuous_cross := @VmessTamperExamples.ideal_cross_direction.
(* non-vacuity: packet mode *)
Definition C05_vmess_nonvacuous_packet := @VmessTamperExamples.ideal_packet_rejected.
(* non-vacuity: request header *)
Definition C05_vmess_nonvacuous_header := @VmessTamperExamples.ideal_header_tampered_refused.
(* SS UDP legacy: whatever ssu_decode accepts is exactly an honestly sealed unit under the key and nonce named by the datagram salt *)
Definition C05_ssudp_accepted_legacy_is_sealed := @accepted_legacy_is_sealed.
(* SS UDP 2022 AES: ... under the session key and nonce named by the decrypted header block (and identity header) *)
Definition C05_ssudp_accepted_aes_is_sealed := @accepted_aes_is_sealed.
(* SS UDP 2022 XChaCha: ... under the PSK and the nonce carried by the datagram *)
Definition C05_ssudp_accepted_xc_is_sealed := @accepted_xc_is_sealed.
(* SS UDP legacy, general form: no honest unit under the named key and nonce with this ciphertext => not accepted *)
Definition C05_ssudp_tampered_legacy_rejected := @tampered_legacy_rejected.
(* SS UDP legacy: honest salt kept, AEAD part altered in any way => not accepted *)
Definition C05_ssudp_tampered_legacy_rejected_neq := @tampered_legacy_rejected_neq.
(* SS UDP 2022 AES, general form *)
Definition C05_ssudp_tampered_aes_rejected := @tampered_aes_rejected.
(* SS UDP 2022 AES: honest header (and identity header) kept, AEAD part altered => not accepted *)
Definition C05_ssudp_tampered_aes_rejected_neq := @tampered_aes_rejected_neq.
(* SS UDP 2022 XChaCha, general form *)
Definition C05_ssudp_tampered_xc_rejected := @tampered_xc_rejected.
(* SS UDP 2022 XChaCha: honest nonce kept, AEAD part altered => not accepted *)
Definition C05_ssudp_tampered_xc_rejected_neq := @tampered_xc_rejected_neq.
(* SS UDP: a datagram that is not accepted is an Err item: the client session is untouched and the rest of the run is as if it had not arrived *)
Definition C05_ssudp_unaccepted_datagram_dropped := @unaccepted_datagram_dropped_client.
(* SS UDP: ... the run after a refused datagram *)
Definition C05_ssudp_refused_datagram_invisible := @refused_datagram_invisible_client.
(* SS UDP server: a refused datagram yields no item (no client event for the association task) *)
Definition C05_ssudp_refused_datagram_no_item_server := @refused_datagram_no_item_server.
(* SS UDP 2022 AES: an accepted unit carries the type byte of the OPPOSITE side and a fresh timestamp *)
Definition C05_ssudp_accepted_aes_unit_typed := @accepted_aes_unit_typed.
(* SS UDP 2022 XChaCha: the same *)
Definition C05_ssudp_accepted_xc_unit_typed := @accepted_xc_unit_typed.
(* SS UDP 2022 AES reflection: a unit with the decoder own type byte is refused even if it opens under the very same key and nonce *)
Definition C05_ssudp_own_type_unit_rejected_aes := @own_type_unit_rejected_aes.
(* SS UDP 2022 XChaCha reflection: the same *)
Definition C05_ssudp_own_type_unit_rejected_xc := @own_type_unit_rejected_xc.
(* SS UDP 2022 AES: what a client encodes is refused by a same-key client decoder (all payloads, paddings, addresses) *)
Definition C05_ssudp_reflection_refused_aes_client := @reflection_refused_aes_client.
(* SS UDP 2022 AES: what a server encodes is refused by a same-key server decoder *)
Definition C05_ssudp_reflection_refused_aes_server := @reflection_refused_aes_server.
(* SS UDP 2022 XChaCha: client to client *)
Definition C05_ssudp_reflection_refused_xc_client := @reflection_refused_xc_client.
(* SS UDP 2022 XChaCha: server to server *)
Definition C05_ssudp_reflection_refused_xc_server := @reflection_refused_xc_server.
(* (documentation) legacy Shadowsocks UDP has no direction separation: outside the claim of C05, which covers reflection for Shadowsocks 2022 and VMess *)
Definition C05_ssudp_NOTE_legacy_reflection_accepted := @legacy_reflection_accepted.
(* non-vacuity: forge-freeness holds for an ideal AEAD over a concrete table (legacy, AES, AES with identity header, XChaCha, server reply) *)
Definition C05_ssudp_nonvacuous_forge_free := @UdpTamperExamples.ideal_forge_free.
(* non-vacuity: legacy *)
Definition C05_ssudp_nonvacuous_tampered_legacy := @UdpTamperExamples.ideal_tampered_legacy.
(* non-vacuity: AES *)
Definition C05_ssudp_nonvacuous_tampered_aes := @UdpTamperExamples.ideal_tampered_aes.
(* non-vacuity: AES with identity header *)
Definition C05_ssudp_nonvacuous_tampered_multiuser := @UdpTamperExamples.ideal_tampered_multiuser.
(* non-vacuity: XChaCha *)
Definition C05_ssudp_nonvacuous_tampered_xc := @UdpTamperExamples.ideal_tampered_xc.
(* computed: every single-byte flip of four honest datagrams is refused by a tag-checking toy AEAD *)
Definition C05_ssudp_every_flip_refused := @UdpTamperExamples.every_flip_refused.

(* VMess response header (client): the decoder leaves None on ANY bytes only if both sealed blocks at the front of the input are table units under the two response-header (key, nonce) pairs of THIS session and the opened header starts with the session response byte *)
Definition C05_vmess_resp_header_accept_is_honest := @vm_resp_header_accept_is_honest.
(* ... with the honest server units in a table that also holds whatever was sealed under other keys (key separation): an accepted input starts with the 38 bytes the server answering THIS request sealed, and the call is the body call on the rest *)
Definition C05_vmess_resp_header_accept_is_own := @vm_resp_header_accept_is_own.
(* every call from None on any bytes: still waiting (fewer than 38 bytes, state and buffer untouched) or Err EAead or own genuine header then the body decoder *)
Definition C05_vmess_resp_init_shape := @client_init_shape.
(* any bytes that do not start with the genuine header of this session: Err EAead or still waiting, nothing released *)
Definition C05_vmess_resp_header_tampered_refused := @vm_resp_header_tampered_refused.
(* 38 bytes present and different from the genuine header: Err EAead *)
Definition C05_vmess_resp_header_tampered_rejected := @vm_resp_header_tampered_rejected.
(* general not-In form for an arbitrary table *)
Definition C05_vmess_resp_header_tampered_refused_general := @vm_resp_header_tampered_refused_general.
(* a genuine response to ANOTHER request (other derived keys, table holds the units of both sessions) is refused *)
Definition C05_vmess_resp_from_other_session_refused := @vm_resp_from_other_session_refused.
(* the client own request bytes (sealed header and body stream) fed back to it are refused *)
Definition C05_vmess_resp_reflected_request_refused := @vm_resp_reflected_request_refused.
(* whole response direction from (None, empty buffer) under FramedRead: ANY bytes in ANY segmentation release a prefix of what the honest server wrote for THIS session; the run ends Waiting or Failed EAead *)
Definition C05_vmess_response_released_is_prefix := @vm_response_released_is_prefix.
(* after a failure of the client decoder nothing more is looked at or released *)
Definition C05_vmess_response_nothing_after_failure := @vm_response_nothing_after_failure.
(* ... with the body keys of both directions in one table and key separation (reflection and splicing from the request direction) *)
Definition C05_vmess_response_reflection_released_is_prefix := @vm_response_reflection_released_is_prefix.
(* UDP command: the datagram released by the accepting call is exactly honest unit 0 behind the genuine header *)
Definition C05_vmess_response_first_datagram_is_honest := @vm_response_first_datagram_is_honest.
(* a header sealed under the HONEST keys but empty or with another first byte is refused with EBadAuth (no panic on the empty header) *)
Definition C05_vmess_resp_malformed_header_refused := @vm_resp_malformed_header_refused.
(* fewer bytes than the authentic length unit announces: wait, nothing released *)
Definition C05_vmess_resp_truncated_header_waits := @vm_resp_truncated_header_waits.
(* REFUTED expectation: a header of one byte (the response byte alone, or followed by anything) sealed under the honest keys IS accepted -- only the first byte is checked *)
Definition C05_vmess_resp_NOTE_short_header_accepted := @vm_resp_short_header_refused_refuted.
(* non-vacuity: the forge-freeness premise over the table of everything holds for the ideal opener *)
Definition C05_vmess_resp_nonvacuous_forge_free := @VmessRespTamperExamples.ideal_resp_forge_free.
(* non-vacuity: key separation of the concrete table *)
Definition C05_vmess_resp_nonvacuous_separate := @VmessRespTamperExamples.ideal_resp_separate.
(* non-vacuity: tampered_refused with all premises discharged *)
Definition C05_vmess_resp_nonvacuous_tampered := @VmessRespTamperExamples.ideal_resp_tampered_refused.
(* non-vacuity: other-session refusal with all premises discharged *)
Definition C05_vmess_resp_nonvacuous_other_session := @VmessRespTamperExamples.ideal_other_session_refused.
(* non-vacuity: the reflected request is refused, all premises discharged *)
Definition C05_vmess_resp_nonvacuous_reflected := @VmessRespTamperExamples.ideal_reflected_request_refused_nil.
(* non-vacuity: the whole-direction prefix theorem with all premises discharged *)
Definition C05_vmess_resp_nonvacuous_prefix := @VmessRespTamperExamples.ideal_response_released_is_prefix.
(* ... and the same opener releases the untampered response completely *)
Definition C05_vmess_resp_nonvacuous_honest_all := @VmessRespTamperExamples.ideal_response_honest_all.
(* computed: each of the 304 single-bit flips of the 38 header bytes is Err EAead *)
Definition C05_vmess_resp_every_bit_flip_refused := @VmessRespTamperExamples.resp_header_every_bit_flip_refused.

Check @C05_vmess_resp_header_accept_is_honest.
Check @C05_vmess_resp_header_accept_is_own.
Check @C05_vmess_resp_init_shape.
Check @C05_vmess_resp_header_tampered_refused.
Check @C05_vmess_resp_header_tampered_rejected.
Check @C05_vmess_resp_header_tampered_refused_general.
Check @C05_vmess_resp_from_other_session_refused.
Check @C05_vmess_resp_reflected_request_refused.
Check @C05_vmess_response_released_is_prefix.
Check @C05_vmess_response_nothing_after_failure.
Check @C05_vmess_response_reflection_released_is_prefix.
Check @C05_vmess_response_first_datagram_is_honest.
Check @C05_vmess_resp_malformed_header_refused.
Check @C05_vmess_resp_truncated_header_waits.
Check @C05_vmess_resp_NOTE_short_header_accepted.
Check @C05_vmess_resp_nonvacuous_forge_free.
Check @C05_vmess_resp_nonvacuous_separate.
Check @C05_vmess_resp_nonvacuous_tampered.
Check @C05_vmess_resp_nonvacuous_other_session.
Check @C05_vmess_resp_nonvacuous_reflected.
Check @C05_vmess_resp_nonvacuous_prefix.
Check @C05_vmess_resp_nonvacuous_honest_all.
Check @C05_vmess_resp_every_bit_flip_refused.
Check @C05_ss_nonvacuous_laws.
Check @C05_ss_nonvacuous_tamper.
Check @C05_vmess_released_is_prefix.
Check @C05_vmess_nothing_after_failure.
Check @C05_vmess_tampered_chunk_not_released.
Check @C05_vmess_tampered_chunk_rejected.
Check @C05_vmess_tampered_ciphertext_rejected.
Check @C05_vmess_tampered_auth_size_rejected.
Check @C05_vmess_REFUTED_padding_authenticated.
Check @C05_vmess_honest_run_released_all.
Check @C05_vmess_direction_separation.
Check @C05_vmess_cross_direction.
Check @C05_vmess_opposite_unit_rejected.
Check @C05_vmess_reflection_rejected.
Check @C05_vmess_KNOWN_auth_len_size_reflected.
Check @C05_vmess_counter_wrap_replay.
Check @C05_vmess_packet_accept_is_honest.
Check @C05_vmess_packet_tampered_dropped.
Check @C05_vmess_packet_tampered_rejected.
Check @C05_vmess_packet_ciphertext_tampered_rejected.
Check @C05_vmess_header_tampered_refused.
Check @C05_vmess_header_tampered_no_target.
Check @C05_vmess_header_tampered_refused_neq.
Check @C05_vmess_nonvacuous_forge_free.
Check @C05_vmess_nonvacuous_laws.
Check @C05_vmess_nonvacuous_prefix.
Check @C05_vmess_nonvacuous_tamper.
Check @C05_vmess_nonvacuous_auth_size.
Check @C05_vmess_nonvacuous_cross.
Check @C05_vmess_nonvacuous_packet.
Check @C05_vmess_nonvacuous_header.
Check @C05_ssudp_accepted_legacy_is_sealed.
Check @C05_ssudp_accepted_aes_is_sealed.
Check @C05_ssudp_accepted_xc_is_sealed.
Check @C05_ssudp_tampered_legacy_rejected.
Check @C05_ssudp_tampered_legacy_rejected_neq.
Check @C05_ssudp_tampered_aes_rejected.
Check @C05_ssudp_tampered_aes_rejected_neq.
Check @C05_ssudp_tampered_xc_rejected.
Check @C05_ssudp_tampered_xc_rejected_neq.
Check @C05_ssudp_unaccepted_datagram_dropped.
Check @C05_ssudp_refused_datagram_invisible.
Check @C05_ssudp_refused_datagram_no_item_server.
Check @C05_ssudp_accepted_aes_unit_typed.
Check @C05_ssudp_accepted_xc_unit_typed.
Check @C05_ssudp_own_type_unit_rejected_aes.
Check @C05_ssudp_own_type_unit_rejected_xc.
Check @C05_ssudp_reflection_refused_aes_client.
Check @C05_ssudp_reflection_refused_aes_server.
Check @C05_ssudp_reflection_refused_xc_client.
Check @C05_ssudp_reflection_refused_xc_server.
Check @C05_ssudp_NOTE_legacy_reflection_accepted.
Check @C05_ssudp_nonvacuous_forge_free.
Check @C05_ssudp_nonvacuous_tampered_legacy.
Check @C05_ssudp_nonvacuous_tampered_aes.
Check @C05_ssudp_nonvacuous_tampered_multiuser.
Check @C05_ssudp_nonvacuous_tampered_xc.
Check @C05_ssudp_every_flip_refused.
Check @C05_released_is_prefix.
Check @C05_nothing_after_failure.
Check @C05_run_stops_after_failure.
Check @C05_tampered_unit_rejected.
Check @C05_tampered_unit_rejected_neq.
Check @C05_reflection_rejected.
Check @C05_honest_run_released_all.
Check @C05_ws_stops_after_failure.
Check @C05_wrong_echo_refused.
Check @C05_failure_is_prefix.
Check @C05_nonvacuous_forge_free.
Check @C05_nonvacuous_prefix.
Print Assumptions C05_released_is_prefix.
Print Assumptions C05_nothing_after_failure.
Print Assumptions C05_run_stops_after_failure.
Print Assumptions C05_tampered_unit_rejected.
Print Assumptions C05_tampered_unit_rejected_neq.
Print Assumptions C05_reflection_rejected.
Print Assumptions C05_honest_run_released_all.
Print Assumptions C05_ws_stops_after_failure.
Print Assumptions C05_wrong_echo_refused.
Print Assumptions C05_failure_is_prefix.
Print Assumptions C05_nonvacuous_forge_free.
Print Assumptions C05_nonvacuous_prefix.
Print Assumptions C05_ss_nonvacuous_laws.
Print Assumptions C05_ss_nonvacuous_tamper.
Print Assumptions C05_vmess_released_is_prefix.
Print Assumptions C05_vmess_nothing_after_failure.
Print Assumptions C05_vmess_tampered_chunk_not_released.
Print Assumptions C05_vmess_tampered_chunk_rejected.
Print Assumptions C05_vmess_tampered_ciphertext_rejected.
Print Assumptions C05_vmess_tampered_auth_size_rejected.
Print Assumptions C05_vmess_REFUTED_padding_authenticated.
Print Assumptions C05_vmess_honest_run_released_all.
Print Assumptions C05_vmess_direction_separation.
Print Assumptions C05_vmess_cross_direction.
Print Assumptions C05_vmess_opposite_unit_rejected.
Print Assumptions C05_vmess_reflection_rejected.
Print Assumptions C05_vmess_KNOWN_auth_len_size_reflected.
Print Assumptions C05_vmess_counter_wrap_replay.
Print Assumptions C05_vmess_packet_accept_is_honest.
Print Assumptions C05_vmess_packet_tampered_dropped.
Print Assumptions C05_vmess_packet_tampered_rejected.
Print Assumptions C05_vmess_packet_ciphertext_tampered_rejected.
Print Assumptions C05_vmess_header_tampered_refused.
Print Assumptions C05_vmess_header_tampered_no_target.
Print Assumptions C05_vmess_header_tampered_refused_neq.
Print Assumptions C05_vmess_nonvacuous_forge_free.
Print Assumptions C05_vmess_nonvacuous_laws.
Print Assumptions C05_vmess_nonvacuous_prefix.
Print Assumptions C05_vmess_nonvacuous_tamper.
Print Assumptions C05_vmess_nonvacuous_auth_size.
Print Assumptions C05_vmess_nonvacuous_cross.
Print Assumptions C05_vmess_nonvacuous_packet.
Print Assumptions C05_vmess_nonvacuous_header.
Print Assumptions C05_ssudp_accepted_legacy_is_sealed.
Print Assumptions C05_ssudp_accepted_aes_is_sealed.
Print Assumptions C05_ssudp_accepted_xc_is_sealed.
Print Assumptions C05_ssudp_tampered_legacy_rejected.
Print Assumptions C05_ssudp_tampered_legacy_rejected_neq.
Print Assumptions C05_ssudp_tampered_aes_rejected.
Print Assumptions C05_ssudp_tampered_aes_rejected_neq.
Print Assumptions C05_ssudp_tampered_xc_rejected.
Print Assumptions C05_ssudp_tampered_xc_rejected_neq.
Print Assumptions C05_ssudp_unaccepted_datagram_dropped.
Print Assumptions C05_ssudp_refused_datagram_invisible.
Print Assumptions C05_ssudp_refused_datagram_no_item_server.
Print Assumptions C05_ssudp_accepted_aes_unit_typed.
Print Assumptions C05_ssudp_accepted_xc_unit_typed.
Print Assumptions C05_ssudp_own_type_unit_rejected_aes.
Print Assumptions C05_ssudp_own_type_unit_rejected_xc.
Print Assumptions C05_ssudp_reflection_refused_aes_client.
Print Assumptions C05_ssudp_reflection_refused_aes_server.
Print Assumptions C05_ssudp_reflection_refused_xc_client.
Print Assumptions C05_ssudp_reflection_refused_xc_server.
Print Assumptions C05_ssudp_NOTE_legacy_reflection_accepted.
Print Assumptions C05_ssudp_nonvacuous_forge_free.
Print Assumptions C05_ssudp_nonvacuous_tampered_legacy.
Print Assumptions C05_ssudp_nonvacuous_tampered_aes.
Print Assumptions C05_ssudp_nonvacuous_tampered_multiuser.
Print Assumptions C05_ssudp_nonvacuous_tampered_xc.
Print Assumptions C05_ssudp_every_flip_refused.
Print Assumptions C05_vmess_resp_header_accept_is_honest.
Print Assumptions C05_vmess_resp_header_accept_is_own.
Print Assumptions C05_vmess_resp_init_shape.
Print Assumptions C05_vmess_resp_header_tampered_refused.
Print Assumptions C05_vmess_resp_header_tampered_rejected.
Print Assumptions C05_vmess_resp_header_tampered_refused_general.
Print Assumptions C05_vmess_resp_from_other_session_refused.
Print Assumptions C05_vmess_resp_reflected_request_refused.
Print Assumptions C05_vmess_response_released_is_prefix.
Print Assumptions C05_vmess_response_nothing_after_failure.
Print Assumptions C05_vmess_response_reflection_released_is_prefix.
Print Assumptions C05_vmess_response_first_datagram_is_honest.
Print Assumptions C05_vmess_resp_malformed_header_refused.
Print Assumptions C05_vmess_resp_truncated_header_waits.
Print Assumptions C05_vmess_resp_NOTE_short_header_accepted.
Print Assumptions C05_vmess_resp_nonvacuous_forge_free.
Print Assumptions C05_vmess_resp_nonvacuous_separate.
Print Assumptions C05_vmess_resp_nonvacuous_tampered.
Print Assumptions C05_vmess_resp_nonvacuous_other_session.
Print Assumptions C05_vmess_resp_nonvacuous_reflected.
Print Assumptions C05_vmess_resp_nonvacuous_prefix.
Print Assumptions C05_vmess_resp_nonvacuous_honest_all.
Print Assumptions C05_vmess_resp_every_bit_flip_refused.
