(* C03 -- wire format interoperates with the published protocol specifications
   Only statements live here: each obligation is the kernel-checked statement of a lemma proved in
   Proofs/*.v, re-exported under a stable name; `Check` prints its full statement, which ./check
   compares with the committed pin (Properties/pins/C03.txt) so that a statement cannot be weakened
   silently; `Print Assumptions` lists the axioms it depends on (none are declared by this development). *)
From Coq Require Import NArith List Bool String.
From Octo Require Import Base.Bytes Crypto.Prims Lib.Framed Lib.Canon Model.Address Model.NonceGen Model.SsChunk Model.SsTcp Model.Trojan Model.Socks5 Model.Http Generated.Params Generated.Shared
  Proofs.AddressFacts Proofs.NonceFacts Proofs.SsChunkRoundtrip Proofs.SsChunkCanon Proofs.SsTcpSafety Proofs.SsTcpRoundtrip Proofs.CodecLemmas Proofs.TrojanFacts Proofs.Socks5Facts Proofs.HttpFacts Model.Vmess Proofs.VmessSafety Proofs.VmessFacts Model.SsUdp Proofs.SsUdpFacts Proofs.VmessRoundtrip.
Import ListNotations.
Set Printing Width 200.

(* SIP004/2022 chunk stream: a decoder in the encoder's state decodes exactly the written bytes and ends in lockstep (any payload, any limit <= 0xffff) *)
Definition C03_ss_chunk_roundtrip := @chunk_roundtrip.

(* ... for both payload limits used by the code *)
Definition C03_ss_chunk_roundtrip_payload := @encode_decode_payload.

(* sender limits: legacy chunks <= 0x3fff - overhead, 2022 chunks <= 65501, chunks non-empty, u16 length fields never truncate, chunks concatenate to the write *)
Definition C03_ss_sender_limits := @encode_payload_limit.

(* every chunk 0 < len <= limit *)
Definition C03_ss_chunk_lens := @enc_chunks_lens.

(* the first nonce of a stream is 0 (little-endian counter), as both specifications require *)
Definition C03_ss_first_nonce := @first_nonce_is_zero.

(* the k-th AEAD operation uses nonce k-1 *)
Definition C03_ss_kth_nonce := @kth_nonce_value.

(* legacy request: salt || chunks(addr || payload): the server obtains exactly address and payload *)
Definition C03_ss_request_legacy := @request_roundtrip_legacy.

(* 2022 request: salt || fixed header || variable header(addr, padding, payload): likewise, within the 30 s window *)
Definition C03_ss_request_2022 := @request_roundtrip_2022.

(* subsequent writes *)
Definition C03_ss_second_write := @second_write_roundtrip.

(* 2022 response header (type 1, timestamp, request salt) *)
Definition C03_ss_response_2022 := @response_roundtrip_2022.

(* Trojan request hex(SHA224(pw)) CRLF cmd addr CRLF payload *)
Definition C03_trojan_tcp := @trojan_header_tcp_roundtrip.

(* Trojan UDP associate + packet *)
Definition C03_trojan_udp := @trojan_header_udp_roundtrip.

(* Trojan packet addr len CRLF payload *)
Definition C03_trojan_packet := @trojan_packet_roundtrip.

(* SOCKS5 UDP request header *)
Definition C03_socks5_udp := @s5_udp_roundtrip.

(* SOCKS5 address *)
Definition C03_socks5_addr := @s5_roundtrip.

(* VMess address *)
Definition C03_vmess_addr := @vm_roundtrip.

(* lower-case hex of the Trojan key *)
Definition C03_hex := @hex_decode_encode.

(* tie A: the constants and labels the model was proved with are those of the source *)
Theorem C03_constants_match_source :
  (SS_LEGACY_PAYLOAD_LIMIT, SS2022_PAYLOAD_LIMIT, SS2022_MAX_PADDING_LENGTH, SS_SUBKEY_INFO, SS2022_SESSION_LABEL, SS2022_IDENTITY_LABEL,
   SS_MODE_CLIENT_TO_U8, SS_MODE_SERVER_TO_U8, SS_MODE_CLIENT_EXPECT_U8, SS_MODE_SERVER_EXPECT_U8)
  = (LEGACY_PAYLOAD_LIMIT, A2022_PAYLOAD_LIMIT, MAX_PADDING, SUBKEY_INFO, SESSION_LABEL, IDENTITY_LABEL,
     mode_to_u8 Client, mode_to_u8 Server, mode_expect_u8 Client, mode_expect_u8 Server).
Proof. vm_compute. reflexivity. Qed.
(* SIP004: payload length of a chunk <= 0x3FFF *)
Theorem C03_legacy_limit_is_spec : (LEGACY_PAYLOAD_LIMIT <= 16383)%N.
Proof. vm_compute. discriminate. Qed.

(* VMess body stream round trip, all 32 option masks, both securities, lockstep *)
Definition C03_vmess_body_stream := @body_new_roundtrip_stream.
(* VMess packet mode round trip (whole datagram) *)
Definition C03_vmess_body_packet := @body_new_roundtrip_packet.
(* a datagram that does not fit one chunk is refused, never truncated *)
Definition C03_vmess_packet_limit := @encode_packet_v_too_big.
(* Shadowsocks UDP legacy datagram *)
Definition C03_ssudp_legacy := @roundtrip_legacy.
(* 2022 AES client packet (separate header, session subkey, nonce from ids) *)
Definition C03_ssudp_aes_client := @roundtrip_aes_client_plain.
(* ... with identity header and user table *)
Definition C03_ssudp_aes_client_eih := @roundtrip_aes_client_eih.
(* 2022 AES server packet *)
Definition C03_ssudp_aes_server := @roundtrip_aes_server.
(* 2022 XChaCha client packet *)
Definition C03_ssudp_xchacha_client := @roundtrip_xchacha_client.
(* 2022 XChaCha server packet *)
Definition C03_ssudp_xchacha_server := @roundtrip_xchacha_server.

(* VMess request header bytes parse back to the same header and session *)
Definition C03_vmess_header := @header_parse_roundtrip.
(* VMess sealed header (auth id, sealed length, nonce, sealed header) opens to the header *)
Definition C03_vmess_sealed_header := @seal_open_header_roundtrip.
(* VMess request end to end: the server obtains the command, the address and exactly the first payload *)
Definition C03_vmess_request := @request_roundtrip_vmess.
(* VMess response end to end *)
Definition C03_vmess_response := @response_roundtrip_vmess.
(* request and response chained *)
Definition C03_vmess_exchange := @vmess_first_exchange.

Check @C03_vmess_header.
Check @C03_vmess_sealed_header.
Check @C03_vmess_request.
Check @C03_vmess_response.
Check @C03_vmess_exchange.
Check @C03_vmess_body_stream.
Check @C03_vmess_body_packet.
Check @C03_vmess_packet_limit.
Check @C03_ssudp_legacy.
Check @C03_ssudp_aes_client.
Check @C03_ssudp_aes_client_eih.
Check @C03_ssudp_aes_server.
Check @C03_ssudp_xchacha_client.
Check @C03_ssudp_xchacha_server.
Check @C03_ss_chunk_roundtrip.
Check @C03_ss_chunk_roundtrip_payload.
Check @C03_ss_sender_limits.
Check @C03_ss_chunk_lens.
Check @C03_ss_first_nonce.
Check @C03_ss_kth_nonce.
Check @C03_ss_request_legacy.
Check @C03_ss_request_2022.
Check @C03_ss_second_write.
Check @C03_ss_response_2022.
Check @C03_trojan_tcp.
Check @C03_trojan_udp.
Check @C03_trojan_packet.
Check @C03_socks5_udp.
Check @C03_socks5_addr.
Check @C03_vmess_addr.
Check @C03_hex.
Check @C03_constants_match_source.
Check @C03_legacy_limit_is_spec.
Print Assumptions C03_ss_chunk_roundtrip.
Print Assumptions C03_ss_chunk_roundtrip_payload.
Print Assumptions C03_ss_sender_limits.
Print Assumptions C03_ss_chunk_lens.
Print Assumptions C03_ss_first_nonce.
Print Assumptions C03_ss_kth_nonce.
Print Assumptions C03_ss_request_legacy.
Print Assumptions C03_ss_request_2022.
Print Assumptions C03_ss_second_write.
Print Assumptions C03_ss_response_2022.
Print Assumptions C03_trojan_tcp.
Print Assumptions C03_trojan_udp.
Print Assumptions C03_trojan_packet.
Print Assumptions C03_socks5_udp.
Print Assumptions C03_socks5_addr.
Print Assumptions C03_vmess_addr.
Print Assumptions C03_hex.
Print Assumptions C03_constants_match_source.
Print Assumptions C03_legacy_limit_is_spec.
Print Assumptions C03_vmess_body_stream.
Print Assumptions C03_vmess_body_packet.
Print Assumptions C03_vmess_packet_limit.
Print Assumptions C03_ssudp_legacy.
Print Assumptions C03_ssudp_aes_client.
Print Assumptions C03_ssudp_aes_client_eih.
Print Assumptions C03_ssudp_aes_server.
Print Assumptions C03_ssudp_xchacha_client.
Print Assumptions C03_ssudp_xchacha_server.
Print Assumptions C03_vmess_header.
Print Assumptions C03_vmess_sealed_header.
Print Assumptions C03_vmess_request.
Print Assumptions C03_vmess_response.
Print Assumptions C03_vmess_exchange.
