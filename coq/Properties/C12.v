(* C12 -- no key ever encrypts two messages with the same nonce
   Only statements live here: each obligation is the kernel-checked statement of a lemma proved in
   Proofs/*.v, re-exported under a stable name; `Check` prints its full statement, which ./check
   compares with the committed pin (Properties/pins/C12.txt) so that a statement cannot be weakened
   silently; `Print Assumptions` lists the axioms it depends on (none are declared by this development). *)
From Coq Require Import NArith List Bool String.
From Octo Require Import Base.Bytes Crypto.Prims Lib.Framed Lib.Canon Model.Address Model.NonceGen Model.SsChunk Model.SsTcp Model.Trojan Model.Socks5 Model.Http Generated.Params Generated.Shared
  Proofs.AddressFacts Proofs.NonceFacts Proofs.SsChunkRoundtrip Proofs.SsChunkCanon Proofs.SsTcpSafety Proofs.SsTcpRoundtrip Proofs.CodecLemmas Proofs.TrojanFacts Proofs.Socks5Facts Proofs.HttpFacts.
Import ListNotations.
Set Printing Width 200.

(* the first 2^96 outputs of the Shadowsocks nonce generator are pairwise distinct *)
Definition C12_increasing_injective := @nonces_distinct.

(* the k-th output is k-1 *)
Definition C12_kth_nonce := @kth_nonce_value.

(* every seal of an encoder consumes exactly one generator step *)
Definition C12_one_step_per_seal := @seal_nonces_lockstep.

(* no (key, nonce) pair repeats within one stream direction, any number and size of writes *)
Definition C12_stream_nonces_unique := @stream_nonces_unique.

(* ... for the chunk encoder *)
Definition C12_enc_nonces_unique := @enc_nonces_unique.

(* VMess: the first 65536 counter nonces of a direction are pairwise distinct *)
Definition C12_counting_injective := @counting_distinct.

(* VMess: different counters give different nonces *)
Definition C12_counting_splice_inj := @counting_splice_inj.


Check @C12_increasing_injective.
Check @C12_kth_nonce.
Check @C12_one_step_per_seal.
Check @C12_stream_nonces_unique.
Check @C12_enc_nonces_unique.
Check @C12_counting_injective.
Check @C12_counting_splice_inj.
Print Assumptions C12_increasing_injective.
Print Assumptions C12_kth_nonce.
Print Assumptions C12_one_step_per_seal.
Print Assumptions C12_stream_nonces_unique.
Print Assumptions C12_enc_nonces_unique.
Print Assumptions C12_counting_injective.
Print Assumptions C12_counting_splice_inj.
