(* C12 -- no key ever encrypts two messages with the same nonce
   Only statements live here: each obligation is the kernel-checked statement of a lemma proved in
   Proofs/*.v, re-exported under a stable name; `Check` prints its full statement, which ./check
   compares with the committed pin (Properties/pins/C12.txt) so that a statement cannot be weakened
   silently; `Print Assumptions` lists the axioms it depends on (none are declared by this development). *)
From Coq Require Import NArith List Bool String.
From Octo Require Import Base.Bytes Crypto.Prims Lib.Framed Lib.Canon Model.Address Model.NonceGen Model.SsChunk Model.SsTcp Model.Trojan Model.Socks5 Model.Http Generated.Params Generated.Shared
  Proofs.AddressFacts Proofs.NonceFacts Proofs.SsChunkRoundtrip Proofs.SsChunkCanon Proofs.SsTcpSafety Proofs.SsTcpRoundtrip Proofs.CodecLemmas Proofs.TrojanFacts Proofs.Socks5Facts Proofs.HttpFacts Model.Vmess Proofs.VmessSafety Proofs.VmessFacts Model.SsUdp Proofs.SsUdpFacts.
Import ListNotations.
Set Printing Width 200.

(* the first 2^96 outputs of the Shadowsocks nonce generator are pairwise distinct *)
Definition C12_increasing_injective := @nonces_distinct.

(* the k-th output is k-1 *)
Definition C12_kth_nonce := @kth_nonce_value.

(* every seal of an encoder consumes exactly one generator step *)
Definition C12_one_step_per_seal := @seal_nonces_lockstep.

(* no (key, nonce) pair repeats within one stream direction, any number and size of writes *)
Definition C12_stream_nonces_unique := @stream_nonces_unique.

(* ... for the chunk encoder *)
Definition C12_enc_nonces_unique := @enc_nonces_unique.

(* VMess: the first 65536 counter nonces of a direction are pairwise distinct *)
Definition C12_counting_injective := @counting_distinct.

(* VMess: different counters give different nonces *)
Definition C12_counting_splice_inj := @counting_splice_inj.


(* VMess: payload seals of one direction use distinct nonces for 65536 chunks *)
Definition C12_vmess_payload_nonces := @pay_nonces_distinct.
(* VMess: authenticated-length seals likewise *)
Definition C12_vmess_size_nonces := @size_nonces_distinct.
(* (recorded) the 16-bit counter wraps after 65536 chunks, the width the protocol defines *)
Definition C12_vmess_counter_wraps := @pay_nonce_wraps.
(* 2022 UDP: different packet ids of a session give different nonces *)
Definition C12_udp_nonce_distinct := @udp_nonce_distinct.
(* the client's packet ids strictly increase and the session ends instead of wrapping *)
Definition C12_udp_packet_id_never_reused := @packet_id_never_reused.
(* the server's packet ids never wrap *)
Definition C12_udp_server_id_no_wrap := @server_packet_id_no_wrap.
(* KNOWN FINDING F-12b stated exactly: with AuthenticatedLength both directions seal their size fields under the same key and nonces *)
Definition C12_KNOWN_vmess_auth_len_shared := @auth_len_key_nonce_shared.

Check @C12_vmess_payload_nonces.
Check @C12_vmess_size_nonces.
Check @C12_vmess_counter_wraps.
Check @C12_udp_nonce_distinct.
Check @C12_udp_packet_id_never_reused.
Check @C12_udp_server_id_no_wrap.
Check @C12_KNOWN_vmess_auth_len_shared.
Check @C12_increasing_injective.
Check @C12_kth_nonce.
Check @C12_one_step_per_seal.
Check @C12_stream_nonces_unique.
Check @C12_enc_nonces_unique.
Check @C12_counting_injective.
Check @C12_counting_splice_inj.
Print Assumptions C12_increasing_injective.
Print Assumptions C12_kth_nonce.
Print Assumptions C12_one_step_per_seal.
Print Assumptions C12_stream_nonces_unique.
Print Assumptions C12_enc_nonces_unique.
Print Assumptions C12_counting_injective.
Print Assumptions C12_counting_splice_inj.
Print Assumptions C12_vmess_payload_nonces.
Print Assumptions C12_vmess_size_nonces.
Print Assumptions C12_vmess_counter_wraps.
Print Assumptions C12_udp_nonce_distinct.
Print Assumptions C12_udp_packet_id_never_reused.
Print Assumptions C12_udp_server_id_no_wrap.
Print Assumptions C12_KNOWN_vmess_auth_len_shared.
