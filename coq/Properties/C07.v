(* C07 -- no input from the network can crash a task or the process
   Only statements live here: each obligation is the kernel-checked statement of a lemma proved in
   Proofs/*.v, re-exported under a stable name; `Check` prints its full statement, which ./check
   compares with the committed pin (Properties/pins/C07.txt) so that a statement cannot be weakened
   silently; `Print Assumptions` lists the axioms it depends on (none are declared by this development). *)
From Coq Require Import NArith List Bool String.
From Octo Require Import Base.Bytes Crypto.Prims Lib.Framed Lib.Canon Model.Address Model.NonceGen Model.SsChunk Model.SsTcp Model.Trojan Model.Socks5 Model.Http Generated.Params Generated.Shared
  Proofs.AddressFacts Proofs.NonceFacts Proofs.SsChunkRoundtrip Proofs.SsChunkCanon Proofs.SsTcpSafety Proofs.SsTcpRoundtrip Proofs.CodecLemmas Proofs.TrojanFacts Proofs.Socks5Facts Proofs.HttpFacts Model.Vmess Proofs.VmessSafety Proofs.VmessFacts Model.SsUdp Proofs.SsUdpFacts.
Import ListNotations.
Set Printing Width 200.

(* SOCKS5-style address decoder: never panics, for every byte string *)
Definition C07_s5_decode := @s5_decode_total.

(* address length probe: never panics, any offset *)
Definition C07_s5_try_decode_at := @s5_try_decode_at_total.

(* VMess-style address reader: never panics *)
Definition C07_vm_read := @vm_read_total.

(* VMess-style address writer: never panics (empty / over-long host is an error) *)
Definition C07_vm_write := @vm_write_total.

(* Shadowsocks chunk decoder: never panics in any reachable state, any input, arbitrary open results *)
Definition C07_ss_chunk_decode := @decode_payload_no_panic.

(* Shadowsocks TCP codec (legacy and 2022, client and server, EIH): never panics, any input / key / cache / clock *)
Definition C07_ss_decode := @ss_decode_no_panic.

(* ... and every state it reaches satisfies the invariant the theorem needs *)
Definition C07_ss_decode_wf := @ss_decode_preserves_wf.

(* ... hence from a fresh codec, after any history of successful decodes *)
Definition C07_ss_reachable := @reachable_no_panic.

(* server-side PayloadCodec glue (ConnectTcp / RelayTcp) *)
Definition C07_ss_server_decode := @server_decode_no_panic.

(* Trojan server codec, every state, every input (incl. non-hex / non-ASCII key bytes) *)
Definition C07_trojan_server := @trojan_server_decode_total.

(* Trojan UDP-over-stream packet parser *)
Definition C07_trojan_packet := @trojan_packet_total.

(* Trojan client UDP decoder *)
Definition C07_trojan_client_udp := @trojan_client_udp_decode_total.

(* SOCKS5 greeting decoder *)
Definition C07_socks5_initial_request := @s5_initial_request_total.

(* SOCKS5 request decoder *)
Definition C07_socks5_command_request := @s5_command_request_total.

(* SOCKS5 method-selection decoder *)
Definition C07_socks5_initial_response := @s5_initial_response_total.

(* SOCKS5 reply decoder *)
Definition C07_socks5_command_response := @s5_command_response_total.

(* SOCKS5-UDP datagram decoder *)
Definition C07_socks5_udp := @s5_udp_decode_total.

(* ... which never errs and always consumes the datagram (UdpFramed cannot wedge) *)
Definition C07_socks5_udp_progress := @s5_udp_decode_consumes_all.

(* HTTP request-target recogniser *)
Definition C07_http_target := @never_panic.

(* Rust-level undefined behaviour that is not a panic cannot be expressed in the model; the sites are
   inventoried from the source on every run (Generated/Shared.v) and bounded per (kind, file): a NEW
   unsafe / unchecked site breaks this obligation. *)
Definition unsafe_budget : list (string * string * nat) :=
  [ ("unsafe", "octo-squirrel/src/codec/shadowsocks/udp.rs", 6%nat);
    ("unsafe", "octo-squirrel/src/codec/shadowsocks.rs", 2%nat);
    ("unsafe", "octo-squirrel/src/util.rs", 1%nat);
    ("unsafe", "octo-squirrel/src/protocol/socks5/address.rs", 1%nat);
    ("unsafe", "octo-squirrel-server/src/server/trojan.rs", 1%nat);
    ("advance_mut", "octo-squirrel/src/codec/shadowsocks.rs", 1%nat);
    ("advance_mut", "octo-squirrel/src/codec/shadowsocks/udp.rs", 4%nat);
    ("from_raw_parts", "octo-squirrel/src/codec/shadowsocks.rs", 1%nat);
    ("from_raw_parts", "octo-squirrel/src/codec/shadowsocks/udp.rs", 2%nat);
    ("from_utf8_unchecked", "octo-squirrel/src/protocol/socks5/address.rs", 1%nat);
    ("from_utf8_unchecked", "octo-squirrel-server/src/server/trojan.rs", 1%nat);
    ("get_unchecked", "octo-squirrel/src/util.rs", 1%nat);
    ("box_leak", "octo-squirrel-client/src/client/shadowsocks.rs", 2%nat) ]%string.
Definition is_unsafe_kind (k : string) : bool :=
  existsb (String.eqb k) ["unsafe"; "advance_mut"; "from_raw_parts"; "from_utf8_unchecked"; "get_unchecked"; "box_leak"; "cast_mut"]%string.
Definition count_sites (k f : string) : nat :=
  List.length (filter (fun e => String.eqb (fst (fst e)) k && String.eqb (snd (fst e)) f) shared_inventory).
Definition within_budget (e : string * string * string) : bool :=
  negb (is_unsafe_kind (fst (fst e))) ||
  existsb (fun b => String.eqb (fst (fst b)) (fst (fst e)) && String.eqb (snd (fst b)) (snd (fst e))
                    && Nat.leb (count_sites (fst (fst e)) (snd (fst e))) (snd b)) unsafe_budget.
Theorem C07_unsafe_inventory_within_budget : forallb within_budget shared_inventory = true.
Proof. vm_compute. reflexivity. Qed.

(* VMess server codec (auth id, sealed header, header parse, body in all option masks): never panics, any input *)
Definition C07_vmess_server := @server_vdecode_no_panic.
(* VMess client codec (response header, body) *)
Definition C07_vmess_client := @client_vdecode_no_panic.
(* VMess body decoder, stream mode, every state *)
Definition C07_vmess_body_stream := @decode_payload_v_no_panic.
(* VMess body decoder, packet mode *)
Definition C07_vmess_body_packet := @decode_packet_v_no_panic.
(* VMess request header parser on arbitrary authenticated plaintext *)
Definition C07_vmess_parse_header := @parse_header_no_panic.
(* Shadowsocks UDP datagram decoder, all kinds and modes *)
Definition C07_ssudp_decode := @ssu_decode_no_panic.
(* SessionCodec::decode *)
Definition C07_ssudp_session_decode := @ssu_session_decode_no_panic.

Check @C07_vmess_server.
Check @C07_vmess_client.
Check @C07_vmess_body_stream.
Check @C07_vmess_body_packet.
Check @C07_vmess_parse_header.
Check @C07_ssudp_decode.
Check @C07_ssudp_session_decode.
Check @C07_s5_decode.
Check @C07_s5_try_decode_at.
Check @C07_vm_read.
Check @C07_vm_write.
Check @C07_ss_chunk_decode.
Check @C07_ss_decode.
Check @C07_ss_decode_wf.
Check @C07_ss_reachable.
Check @C07_ss_server_decode.
Check @C07_trojan_server.
Check @C07_trojan_packet.
Check @C07_trojan_client_udp.
Check @C07_socks5_initial_request.
Check @C07_socks5_command_request.
Check @C07_socks5_initial_response.
Check @C07_socks5_command_response.
Check @C07_socks5_udp.
Check @C07_socks5_udp_progress.
Check @C07_http_target.
Print Assumptions C07_s5_decode.
Print Assumptions C07_s5_try_decode_at.
Print Assumptions C07_vm_read.
Print Assumptions C07_vm_write.
Print Assumptions C07_ss_chunk_decode.
Print Assumptions C07_ss_decode.
Print Assumptions C07_ss_decode_wf.
Print Assumptions C07_ss_reachable.
Print Assumptions C07_ss_server_decode.
Print Assumptions C07_trojan_server.
Print Assumptions C07_trojan_packet.
Print Assumptions C07_trojan_client_udp.
Print Assumptions C07_socks5_initial_request.
Print Assumptions C07_socks5_command_request.
Print Assumptions C07_socks5_initial_response.
Print Assumptions C07_socks5_command_response.
Print Assumptions C07_socks5_udp.
Print Assumptions C07_socks5_udp_progress.
Print Assumptions C07_http_target.
Print Assumptions C07_vmess_server.
Print Assumptions C07_vmess_client.
Print Assumptions C07_vmess_body_stream.
Print Assumptions C07_vmess_body_packet.
Print Assumptions C07_vmess_parse_header.
Print Assumptions C07_ssudp_decode.
Print Assumptions C07_ssudp_session_decode.
