(* C04 -- decoding is independent of how the byte stream is segmented, and never stalls
   Only statements live here: each obligation is the kernel-checked statement of a lemma proved in
   Proofs/*.v, re-exported under a stable name; `Check` prints its full statement, which ./check
   compares with the committed pin (Properties/pins/C04.txt) so that a statement cannot be weakened
   silently; `Print Assumptions` lists the axioms it depends on (none are declared by this development). *)
From Coq Require Import NArith List Bool String.
From Octo Require Import Base.Bytes Crypto.Prims Lib.Framed Lib.Canon Model.Address Model.NonceGen Model.SsChunk Model.SsTcp Model.Trojan Model.Socks5 Model.Http Generated.Params Generated.Shared
  Proofs.AddressFacts Proofs.NonceFacts Proofs.SsChunkRoundtrip Proofs.SsChunkCanon Proofs.SsTcpSafety Proofs.SsTcpRoundtrip Proofs.CodecLemmas Proofs.TrojanFacts Proofs.Socks5Facts Proofs.HttpFacts Lib.WsFramed Proofs.WsFramedFacts Model.Vmess Proofs.VmessSafety Proofs.VmessFacts.
Import ListNotations.
Set Printing Width 200.

(* generic: running a unit machine on c ++ b = running it on c, then on leftover ++ b (any output monoid) *)
Definition C04_unit_machine_run_app := @Canon.run_app.

(* generic: feeding segments one by one equals one run on the concatenation *)
Definition C04_unit_machine_segments := @Canon.run_segs_concat.

(* generic: after a run nothing whole is left in the leftover *)
Definition C04_unit_machine_no_stall := @Canon.run_no_whole_unit.

(* the Shadowsocks chunk decoder (with its internal loop and batching) IS its unit machine *)
Definition C04_ss_chunk_is_unit_machine := @decode_payload_is_canon.

(* Shadowsocks body under FramedRead: same plaintext, state, leftover for every segmentation; failures agree; no livelock/panic; no stall *)
Definition C04_ss_body := @ss_body_segmentation_independent.

(* ... any two segmentations of the same bytes agree *)
Definition C04_ss_body_two := @ss_body_two_segmentations.

(* ... after any run that is waiting, feeding nothing yields nothing: all that has arrived was delivered *)
Definition C04_ss_body_no_stall := @ss_body_no_stall.

(* whole legacy server decoder (salt, chunks, address extraction): every segmentation of a valid request stream yields the address and exactly the written bytes; no stall *)
Definition C04_ss_legacy_server := @legacy_server_segmentation_independent.

(* 2022 request (protocol exemption: header in the first read): a first read holding the whole first write yields address and payload, any length *)
Definition C04_ss_2022_first_read := @request_roundtrip_2022_general.

(* 2022 response likewise *)
Definition C04_ss_2022_response := @response_roundtrip_2022_general.

(* Trojan request (header + TCP body): every segmentation yields one ConnectTcp and relays whose bytes are exactly the body *)
Definition C04_trojan_header := @trojan_header_segmentation.

(* Trojan TCP body passes every segment through *)
Definition C04_trojan_tcp := @trojan_tcp_passthrough.

(* Trojan UDP-over-stream packets (server): same LIST of datagrams for every segmentation; no stall *)
Definition C04_trojan_udp_server := @trojan_server_udp_segmentation_independent.

(* ... client side *)
Definition C04_trojan_udp_client := @trojan_client_udp_segmentation_independent.

(* a stream of encoded datagrams decodes to exactly those datagrams under every segmentation *)
Definition C04_trojan_udp_stream := @trojan_server_udp_stream_any_segmentation.

(* SOCKS5 request under every segmentation: exactly one item, nothing left *)
Definition C04_socks5_request := @s5_command_request_any_segmentation.

(* SOCKS5 greeting likewise *)
Definition C04_socks5_greeting := @s5_initial_request_any_segmentation.

(* on every proper prefix of a request the decoder waits and consumes nothing *)
Definition C04_socks5_waits := @s5_command_request_waits.



(* WebSocket transport: the repository's WebSocketFramed adapter, fed message by message, is FramedRead fed segment by
   segment (message boundaries in the role of segment boundaries): every theorem above transfers verbatim *)
Definition C04_ws_is_framed := @ws_run_is_framed_run.
Definition C04_ws_binary_is_framed := @ws_run_binary_is_framed_run.
(* ... per message, everything that has completely arrived is delivered (no stall) *)
Definition C04_ws_no_stall := @ws_step_items_are_feed_items.
(* ... and nothing is delivered after a decode error *)
Definition C04_ws_failed_silent := @ws_failed_silent.
Definition C04_ws_trojan := @trojan_ws_is_framed.
Definition C04_ws_vmess := @vmess_ws_is_framed.
Definition C04_ws_ss := @ss_ws_is_framed.

(* VMess body stream under FramedRead: every segmentation, all option masks; no stall, no livelock *)
Definition C04_vmess_body := @vmess_body_segmentation_independent.
(* VMess packet mode: the same LIST of datagrams for every segmentation *)
Definition C04_vmess_packets := @vmess_packet_segmentation_independent.
(* the VMess body decoder is its unit machine *)
Definition C04_vmess_body_is_canon := @decode_payload_v_is_canon.

Check @C04_vmess_body.
Check @C04_vmess_packets.
Check @C04_vmess_body_is_canon.
Check @C04_ws_is_framed.
Check @C04_ws_binary_is_framed.
Check @C04_ws_no_stall.
Check @C04_ws_failed_silent.
Check @C04_ws_trojan.
Check @C04_ws_vmess.
Check @C04_ws_ss.
Check @C04_unit_machine_run_app.
Check @C04_unit_machine_segments.
Check @C04_unit_machine_no_stall.
Check @C04_ss_chunk_is_unit_machine.
Check @C04_ss_body.
Check @C04_ss_body_two.
Check @C04_ss_body_no_stall.
Check @C04_ss_legacy_server.
Check @C04_ss_2022_first_read.
Check @C04_ss_2022_response.
Check @C04_trojan_header.
Check @C04_trojan_tcp.
Check @C04_trojan_udp_server.
Check @C04_trojan_udp_client.
Check @C04_trojan_udp_stream.
Check @C04_socks5_request.
Check @C04_socks5_greeting.
Check @C04_socks5_waits.
Print Assumptions C04_unit_machine_run_app.
Print Assumptions C04_unit_machine_segments.
Print Assumptions C04_unit_machine_no_stall.
Print Assumptions C04_ss_chunk_is_unit_machine.
Print Assumptions C04_ss_body.
Print Assumptions C04_ss_body_two.
Print Assumptions C04_ss_body_no_stall.
Print Assumptions C04_ss_legacy_server.
Print Assumptions C04_ss_2022_first_read.
Print Assumptions C04_ss_2022_response.
Print Assumptions C04_trojan_header.
Print Assumptions C04_trojan_tcp.
Print Assumptions C04_trojan_udp_server.
Print Assumptions C04_trojan_udp_client.
Print Assumptions C04_trojan_udp_stream.
Print Assumptions C04_socks5_request.
Print Assumptions C04_socks5_greeting.
Print Assumptions C04_socks5_waits.
Print Assumptions C04_ws_is_framed.
Print Assumptions C04_ws_binary_is_framed.
Print Assumptions C04_ws_no_stall.
Print Assumptions C04_ws_failed_silent.
Print Assumptions C04_ws_trojan.
Print Assumptions C04_ws_vmess.
Print Assumptions C04_ws_ss.
Print Assumptions C04_vmess_body.
Print Assumptions C04_vmess_packets.
Print Assumptions C04_vmess_body_is_canon.
