(* C10 -- stale, replayed, mis-typed or unbound handshakes are rejected
   Only statements live here: each obligation is the kernel-checked statement of a lemma proved in
   Proofs/*.v, re-exported under a stable name; `Check` prints its full statement, which ./check
   compares with the committed pin (Properties/pins/C10.txt) so that a statement cannot be weakened
   silently; `Print Assumptions` lists the axioms it depends on (none are declared by this development). *)
From Coq Require Import NArith List Bool String.
From Octo Require Import Base.Bytes Crypto.Prims Lib.Framed Lib.Canon Model.Address Model.NonceGen Model.SsChunk Model.SsTcp Model.Trojan Model.Socks5 Model.Http Generated.Params Generated.Shared
  Proofs.AddressFacts Proofs.NonceFacts Proofs.SsChunkRoundtrip Proofs.SsChunkCanon Proofs.SsTcpSafety Proofs.SsTcpRoundtrip Proofs.CodecLemmas Proofs.TrojanFacts Proofs.Socks5Facts Proofs.HttpFacts Model.Vmess Proofs.VmessSafety Proofs.VmessFacts Model.SsUdp Proofs.SsUdpFacts Proofs.VmessRespTamper.
Import ListNotations.
Set Printing Width 200.

(* an accepted 2022 header has the expected type, |ts-now| <= 30, an unseen salt, and (client) echoes the client's own salt *)
Definition C10_accept_implies_fresh_and_typed := @accept_implies_fresh_and_typed.

(* accepted iff ts <= now+30 and now <= ts+30 *)
Definition C10_timestamp_window := @validate_timestamp_iff.

(* accepts at exactly 30, rejects at 31, both sides *)
Definition C10_boundary_exact := @boundary_exact.

(* the type byte is the expected one *)
Definition C10_type_checked := @open_fixed_type.

(* client: echoed request salt = own salt *)
Definition C10_echo_checked := @open_fixed_echo.

(* a response made for another request is refused *)
Definition C10_wrong_echo_refused := @response_wrong_echo_refused.

(* a salt that is in the cache is rejected *)
Definition C10_replay_rejected := @replay_rejected.

(* ... whatever the length of the presented bytes, nothing is released *)
Definition C10_replay_never_releases := @replay_never_releases.

(* releasing a first payload puts the salt into the cache *)
Definition C10_release_inserts_salt := @release_inserts_salt.

(* hence any later presentation of the same salt is rejected while it is remembered *)
Definition C10_replay_after_release := @replay_after_release.

(* a decode call never forgets a salt *)
Definition C10_cache_only_grows := @cache_only_grows.

(* tie A *)
Theorem C10_constants_match_source :
  (SS2022_SERVER_STREAM_TIMESTAMP_MAX_DIFF, SS2022_TS_REJECT_IS_STRICT) = (TS_MAX_DIFF, true).
Proof. vm_compute. reflexivity. Qed.
(* a salt must be remembered for as long as its timestamp can still be accepted: a request stamped now+D
   is acceptable until now+2D *)
Theorem C10_salt_ttl_covers_window : (2 * SS2022_SERVER_STREAM_TIMESTAMP_MAX_DIFF <= SALT_CACHE_TTL)%N.
Proof. vm_compute. discriminate. Qed.
Theorem C10_vmess_window : (VMESS_AUTHID_WINDOW, VMESS_AUTHID_ACCEPT_IS_LE) = (120%N, true).
Proof. vm_compute. reflexivity. Qed.

(* VMess auth id honoured iff |ts - now| <= 120 (CRC valid) *)
Definition C10_vmess_auth_window := @auth_window_iff.
(* accept at exactly 120 *)
Definition C10_vmess_accept_120 := @auth_window_accept_120_late.
(* reject at 121 *)
Definition C10_vmess_reject_121 := @auth_window_reject_121_late.
(* a stale auth id is refused as unknown user *)
Definition C10_vmess_stale_refused := @stale_auth_id_refused.
(* VMess client: the response header opens under keys derived from the request and carries the request's authentication byte *)
Definition C10_vmess_response_bound := @response_bound_to_request.
(* wrong byte refused *)
Definition C10_vmess_response_wrong_byte := @response_wrong_byte_refused.
(* 2022 datagrams: accepted only with the expected type and |ts-now|<=30 *)
Definition C10_udp_typed_and_fresh := @accepted_2022_typed_and_fresh.
(* datagram boundaries 30 / 31 *)
Definition C10_udp_time_boundary := @udp_time_boundary.

(* VMess client: a response is accepted only if both header blocks were sealed under the request-derived response-header keys of THIS session and carry its response byte (forge-freeness premise) *)
Definition C10_vmess_response_accept_is_honest := @vm_resp_header_accept_is_honest.
(* ... hence only the header the server sealed in answer to THIS request (key separation from everything else sealed) *)
Definition C10_vmess_response_accept_is_own := @vm_resp_header_accept_is_own.
(* request-derived keys: the genuine response to another request (other key / iv, even with the same response byte) is refused *)
Definition C10_vmess_response_other_session_refused := @vm_resp_from_other_session_refused.
(* the client own request reflected is refused *)
Definition C10_vmess_response_reflected_request_refused := @vm_resp_reflected_request_refused.
(* the response byte: an authentic header that is empty or carries another first byte is refused *)
Definition C10_vmess_response_malformed_refused := @vm_resp_malformed_header_refused.
(* why key separation is a premise: the binding to the request is ONLY through resp_key, resp_iv and the response byte *)
Definition C10_vmess_response_NOTE_same_derived_keys_accepted := @vm_resp_same_derived_keys_accepted.
(* non-vacuity: all premises discharged by the ideal opener (two sessions with the same response byte) *)
Definition C10_vmess_response_nonvacuous_other_session := @VmessRespTamperExamples.ideal_other_session_refused.
(* computed with the tag-checking toy AEAD: the genuine response to another request is Err EAead *)
Definition C10_vmess_response_other_session_computed := @VmessRespTamperExamples.resp_other_session.

Check @C10_vmess_response_accept_is_honest.
Check @C10_vmess_response_accept_is_own.
Check @C10_vmess_response_other_session_refused.
Check @C10_vmess_response_reflected_request_refused.
Check @C10_vmess_response_malformed_refused.
Check @C10_vmess_response_NOTE_same_derived_keys_accepted.
Check @C10_vmess_response_nonvacuous_other_session.
Check @C10_vmess_response_other_session_computed.
Check @C10_vmess_auth_window.
Check @C10_vmess_accept_120.
Check @C10_vmess_reject_121.
Check @C10_vmess_stale_refused.
Check @C10_vmess_response_bound.
Check @C10_vmess_response_wrong_byte.
Check @C10_udp_typed_and_fresh.
Check @C10_udp_time_boundary.
Check @C10_accept_implies_fresh_and_typed.
Check @C10_timestamp_window.
Check @C10_boundary_exact.
Check @C10_type_checked.
Check @C10_echo_checked.
Check @C10_wrong_echo_refused.
Check @C10_replay_rejected.
Check @C10_replay_never_releases.
Check @C10_release_inserts_salt.
Check @C10_replay_after_release.
Check @C10_cache_only_grows.
Check @C10_constants_match_source.
Check @C10_salt_ttl_covers_window.
Check @C10_vmess_window.
Print Assumptions C10_accept_implies_fresh_and_typed.
Print Assumptions C10_timestamp_window.
Print Assumptions C10_boundary_exact.
Print Assumptions C10_type_checked.
Print Assumptions C10_echo_checked.
Print Assumptions C10_wrong_echo_refused.
Print Assumptions C10_replay_rejected.
Print Assumptions C10_replay_never_releases.
Print Assumptions C10_release_inserts_salt.
Print Assumptions C10_replay_after_release.
Print Assumptions C10_cache_only_grows.
Print Assumptions C10_constants_match_source.
Print Assumptions C10_salt_ttl_covers_window.
Print Assumptions C10_vmess_window.
Print Assumptions C10_vmess_auth_window.
Print Assumptions C10_vmess_accept_120.
Print Assumptions C10_vmess_reject_121.
Print Assumptions C10_vmess_stale_refused.
Print Assumptions C10_vmess_response_bound.
Print Assumptions C10_vmess_response_wrong_byte.
Print Assumptions C10_udp_typed_and_fresh.
Print Assumptions C10_udp_time_boundary.
Print Assumptions C10_vmess_response_accept_is_honest.
Print Assumptions C10_vmess_response_accept_is_own.
Print Assumptions C10_vmess_response_other_session_refused.
Print Assumptions C10_vmess_response_reflected_request_refused.
Print Assumptions C10_vmess_response_malformed_refused.
Print Assumptions C10_vmess_response_NOTE_same_derived_keys_accepted.
Print Assumptions C10_vmess_response_nonvacuous_other_session.
Print Assumptions C10_vmess_response_other_session_computed.
