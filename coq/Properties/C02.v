(* C02 -- UDP relay preserves each datagram, its addresses and its owner
   Only statements live here: each obligation is the kernel-checked statement of a lemma proved in
   Proofs/*.v, re-exported under a stable name; `Check` prints its full statement, which ./check
   compares with the committed pin (Properties/pins/C02.txt) so that a statement cannot be weakened
   silently; `Print Assumptions` lists the axioms it depends on (none are declared by this development). *)
From Coq Require Import NArith List Bool String.
From Octo Require Import Base.Bytes Crypto.Prims Model.Address Model.SsUdp Model.Vmess Model.Trojan Model.Socks5 Model.UdpTables Proofs.SsUdpFacts Proofs.VmessFacts Proofs.TrojanFacts Proofs.Socks5Facts Proofs.UdpTableFacts.
Import ListNotations.
Set Printing Width 200.

(* Shadowsocks legacy datagram: whole payload and address, or an error *)
Definition C02_ss_legacy := @roundtrip_legacy.

(* Shadowsocks 2022 AES client packet *)
Definition C02_ss_aes_client := @roundtrip_aes_client_plain.

(* ... with user identity *)
Definition C02_ss_aes_client_eih := @roundtrip_aes_client_eih.

(* Shadowsocks 2022 AES server packet (reply labelled with the target's address) *)
Definition C02_ss_aes_server := @roundtrip_aes_server.

(* Shadowsocks 2022 XChaCha client packet *)
Definition C02_ss_xchacha_client := @roundtrip_xchacha_client.

(* Shadowsocks 2022 XChaCha server packet *)
Definition C02_ss_xchacha_server := @roundtrip_xchacha_server.

(* VMess packet mode: one datagram = one chunk, whole or refused *)
Definition C02_vmess_packet := @body_new_roundtrip_packet.

(* a datagram that does not fit is refused, never truncated *)
Definition C02_vmess_no_truncation := @encode_packet_v_too_big.

(* Trojan packet framing *)
Definition C02_trojan_packet := @trojan_packet_roundtrip.

(* Trojan packets over a stream: the same datagrams under any segmentation (never merged or split) *)
Definition C02_trojan_stream := @trojan_server_udp_stream_any_segmentation.

(* VMess packets over a stream likewise *)
Definition C02_vmess_stream := @vmess_packet_segmentation_independent.

(* local SOCKS5-UDP header *)
Definition C02_socks5_udp := @s5_udp_roundtrip.

(* client binding table: a reply read on a binding goes to the local application that created it, labelled with the replying target's address *)
Definition C02_reply_goes_to_owner := @reply_goes_to_owner.

(* ... and is not swallowed *)
Definition C02_reply_delivered := @reply_delivered_when_bound.

(* a local datagram is forwarded with its target and content *)
Definition C02_datagram_preserved := @datagram_preserved_client.

(* server association table: a datagram authenticated as user u / session sid is handled only by the association of (sid, u) (legacy: of its client address) *)
Definition C02_assoc_owned_by_one_user := @assoc_owned_by_one_user.

(* two users never share an association, even with equal session ids *)
Definition C02_keys_separate_users := @keys_separate_users.

(* replies of an association go to its client under its user's key *)
Definition C02_reply_for_key_owner := @reply_sealed_for_key_owner.

(* one datagram in, at most one out *)
Definition C02_one_in_one_out := @one_in_one_out.


Check @C02_ss_legacy.
Check @C02_ss_aes_client.
Check @C02_ss_aes_client_eih.
Check @C02_ss_aes_server.
Check @C02_ss_xchacha_client.
Check @C02_ss_xchacha_server.
Check @C02_vmess_packet.
Check @C02_vmess_no_truncation.
Check @C02_trojan_packet.
Check @C02_trojan_stream.
Check @C02_vmess_stream.
Check @C02_socks5_udp.
Check @C02_reply_goes_to_owner.
Check @C02_reply_delivered.
Check @C02_datagram_preserved.
Check @C02_assoc_owned_by_one_user.
Check @C02_keys_separate_users.
Check @C02_reply_for_key_owner.
Check @C02_one_in_one_out.
Print Assumptions C02_ss_legacy.
Print Assumptions C02_ss_aes_client.
Print Assumptions C02_ss_aes_client_eih.
Print Assumptions C02_ss_aes_server.
Print Assumptions C02_ss_xchacha_client.
Print Assumptions C02_ss_xchacha_server.
Print Assumptions C02_vmess_packet.
Print Assumptions C02_vmess_no_truncation.
Print Assumptions C02_trojan_packet.
Print Assumptions C02_trojan_stream.
Print Assumptions C02_vmess_stream.
Print Assumptions C02_socks5_udp.
Print Assumptions C02_reply_goes_to_owner.
Print Assumptions C02_reply_delivered.
Print Assumptions C02_datagram_preserved.
Print Assumptions C02_assoc_owned_by_one_user.
Print Assumptions C02_keys_separate_users.
Print Assumptions C02_reply_for_key_owner.
Print Assumptions C02_one_in_one_out.
