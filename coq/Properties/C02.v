(* C02 -- UDP relay preserves each datagram, its addresses and its owner
   Only statements live here: each obligation is the kernel-checked statement of a lemma proved in
   Proofs/*.v, re-exported under a stable name; `Check` prints its full statement, which ./check
   compares with the committed pin (Properties/pins/C02.txt) so that a statement cannot be weakened
   silently; `Print Assumptions` lists the axioms it depends on (none are declared by this development). *)
From Coq Require Import NArith List Bool String.
From Octo Require Import Base.Bytes Crypto.Prims Model.Address Model.SsUdp Model.Vmess Model.Trojan Model.Socks5 Model.UdpTables Proofs.SsUdpFacts Proofs.VmessFacts Proofs.TrojanFacts Proofs.Socks5Facts Proofs.UdpTableFacts Generated.UdpAdapters Model.UdpAdapters Proofs.UdpAdapterFacts Proofs.UdpAdapterTableFacts.
Import ListNotations.
Set Printing Width 200.

(* Shadowsocks legacy datagram: whole payload and address, or an error *)
Definition C02_ss_legacy := @roundtrip_legacy.

(* Shadowsocks 2022 AES client packet *)
Definition C02_ss_aes_client := @roundtrip_aes_client_plain.

(* ... with user identity *)
Definition C02_ss_aes_client_eih := @roundtrip_aes_client_eih.

(* Shadowsocks 2022 AES server packet (reply labelled with the target's address) *)
Definition C02_ss_aes_server := @roundtrip_aes_server.

(* Shadowsocks 2022 XChaCha client packet *)
Definition C02_ss_xchacha_client := @roundtrip_xchacha_client.

(* Shadowsocks 2022 XChaCha server packet *)
Definition C02_ss_xchacha_server := @roundtrip_xchacha_server.

(* a Shadowsocks 2022 server datagram that names ANOTHER client session id (every client session of a configuration shares the key) is not
   delivered to this session's application and leaves the codec's state unchanged (repair 642ebdf) *)
Definition C02_ss_foreign_session_datagram_dropped := @client_foreign_session_datagram_dropped.
(* ... the rest of the run is as if it had not arrived *)
Definition C02_ss_foreign_session_datagram_invisible := @foreign_session_datagram_invisible_client.
(* ... and the client of before the repair delivered it (regression sensitivity) *)
Definition C02_ss_foreign_session_datagram_witness := ToyUdp.foreign_session_datagram_witness.

(* VMess packet mode: one datagram = one chunk, whole or refused *)
Definition C02_vmess_packet := @body_new_roundtrip_packet.

(* a datagram that does not fit is refused, never truncated *)
Definition C02_vmess_no_truncation := @encode_packet_v_too_big.

(* Trojan packet framing *)
Definition C02_trojan_packet := @trojan_packet_roundtrip.

(* Trojan packets over a stream: the same datagrams under any segmentation (never merged or split) *)
Definition C02_trojan_stream := @trojan_server_udp_stream_any_segmentation.

(* VMess packets over a stream likewise *)
Definition C02_vmess_stream := @vmess_packet_segmentation_independent.

(* local SOCKS5-UDP header *)
Definition C02_socks5_udp := @s5_udp_roundtrip.

(* client binding table: a reply read on a binding goes to the local application that created it, labelled with the replying target's address *)
Definition C02_reply_goes_to_owner := @reply_goes_to_owner.

(* ... and is not swallowed *)
Definition C02_reply_delivered := @reply_delivered_when_bound.

(* a local datagram is forwarded with its target and content *)
Definition C02_datagram_preserved := @datagram_preserved_client.

(* server association table: a datagram authenticated as user u / session sid is handled only by the association of (sid, u) (legacy: of its client address) *)
Definition C02_assoc_owned_by_one_user := @assoc_owned_by_one_user.

(* two users never share an association, even with equal session ids *)
Definition C02_keys_separate_users := @keys_separate_users.

(* replies of an association go to its client under its user's key *)
Definition C02_reply_for_key_owner := @reply_sealed_for_key_owner.

(* one datagram in, at most one out *)
Definition C02_one_in_one_out := @one_in_one_out.


(* adapter tables regenerated from the source (Generated/UdpAdapters.v), every protocol - the address the server sends a datagram to is its own target, either it travels with every datagram and the server uses that one, or the server uses the request header, the outbound is made for the binding target and the binding key contains the target *)
Definition C02_adapters_target := @target_reaches_wire_or_key.
(* after any history a datagram of an application addressed to a target goes out on a live binding of that application and the address the server will send it to is that target *)
Definition C02_adapters_datagram_reaches_target := @datagram_reaches_addressed_target.
(* adapter tables, every protocol - the label of a reply is the source the server reported, or the binding target in a protocol whose binding key contains the target *)
Definition C02_adapters_label := @label_is_replying_target.
(* after any history a reply read on a binding goes to the application of that binding labelled with the reported source or with the one and only target that binding has sent to *)
Definition C02_adapters_reply_labelled := @reply_labelled_with_replier.
(* the association key of the shadowsocks server (regenerated from associate_key) names the client session, the user and the client address *)
Definition C02_adapters_assoc_key_parts := @assoc_key_parts_complete.
(* two datagrams with the same association key have the same client session id and the same user (without replay protection also the same client address) *)
Definition C02_adapters_assoc_key := @assoc_key_separates_sessions_and_users.
(* the regenerated adapter tables are the ones the table model was first written with by hand *)
Definition C02_adapters_match_model := @generated_adapters_match_model.
(* sensitivity, vmess bindings keyed by the sender only - the second target of one application is sent to the first *)
Definition C02_WITNESS_R1_collision := @R1_second_target_sent_to_first.
(* ... so the delivery theorem is false for that shape *)
Definition C02_WITNESS_R1 := @R1_datagram_reaches_target_refuted.
(* sensitivity, shadowsocks labelling replies with the binding target - a reply from the second target is labelled with the first *)
Definition C02_WITNESS_R2_mislabel := @R2_reply_mislabelled.
(* ... so the label theorem is false for that shape *)
Definition C02_WITNESS_R2 := @R2_reply_labelled_with_replier_refuted.
(* sensitivity, an association key without the user - two users with equal session ids share an association *)
Definition C02_WITNESS_R3 := @R3_users_share_an_association.

Check @C02_adapters_target.
Check @C02_adapters_datagram_reaches_target.
Check @C02_adapters_label.
Check @C02_adapters_reply_labelled.
Check @C02_adapters_assoc_key_parts.
Check @C02_adapters_assoc_key.
Check @C02_adapters_match_model.
Check @C02_WITNESS_R1_collision.
Check @C02_WITNESS_R1.
Check @C02_WITNESS_R2_mislabel.
Check @C02_WITNESS_R2.
Check @C02_WITNESS_R3.
Check @C02_ss_legacy.
Check @C02_ss_aes_client.
Check @C02_ss_aes_client_eih.
Check @C02_ss_aes_server.
Check @C02_ss_foreign_session_datagram_dropped.
Check @C02_ss_foreign_session_datagram_invisible.
Check C02_ss_foreign_session_datagram_witness.
Check @C02_ss_xchacha_client.
Check @C02_ss_xchacha_server.
Check @C02_vmess_packet.
Check @C02_vmess_no_truncation.
Check @C02_trojan_packet.
Check @C02_trojan_stream.
Check @C02_vmess_stream.
Check @C02_socks5_udp.
Check @C02_reply_goes_to_owner.
Check @C02_reply_delivered.
Check @C02_datagram_preserved.
Check @C02_assoc_owned_by_one_user.
Check @C02_keys_separate_users.
Check @C02_reply_for_key_owner.
Check @C02_one_in_one_out.
Print Assumptions C02_ss_legacy.
Print Assumptions C02_ss_aes_client.
Print Assumptions C02_ss_aes_client_eih.
Print Assumptions C02_ss_aes_server.
Print Assumptions C02_ss_foreign_session_datagram_dropped.
Print Assumptions C02_ss_foreign_session_datagram_invisible.
Print Assumptions C02_ss_foreign_session_datagram_witness.
Print Assumptions C02_ss_xchacha_client.
Print Assumptions C02_ss_xchacha_server.
Print Assumptions C02_vmess_packet.
Print Assumptions C02_vmess_no_truncation.
Print Assumptions C02_trojan_packet.
Print Assumptions C02_trojan_stream.
Print Assumptions C02_vmess_stream.
Print Assumptions C02_socks5_udp.
Print Assumptions C02_reply_goes_to_owner.
Print Assumptions C02_reply_delivered.
Print Assumptions C02_datagram_preserved.
Print Assumptions C02_assoc_owned_by_one_user.
Print Assumptions C02_keys_separate_users.
Print Assumptions C02_reply_for_key_owner.
Print Assumptions C02_one_in_one_out.
Print Assumptions C02_adapters_target.
Print Assumptions C02_adapters_datagram_reaches_target.
Print Assumptions C02_adapters_label.
Print Assumptions C02_adapters_reply_labelled.
Print Assumptions C02_adapters_assoc_key_parts.
Print Assumptions C02_adapters_assoc_key.
Print Assumptions C02_adapters_match_model.
Print Assumptions C02_WITNESS_R1_collision.
Print Assumptions C02_WITNESS_R1.
Print Assumptions C02_WITNESS_R2_mislabel.
Print Assumptions C02_WITNESS_R2.
Print Assumptions C02_WITNESS_R3.
