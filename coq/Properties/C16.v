(* C16 -- configuration names select exactly the documented behaviour.
   Spec.Readme = the README tables, typed in by hand and PROVED equal to Generated.Readme = /repo/README.md as it is now
   (regenerated on every run, tie A; last section of this file); Model.Config = what the current source does
   (names and arm lists regenerated from /repo on every run, tie A; behaviour of the serde types and of the
   key-derivation functions compared with the real code by the harness component `config`, tie B). *)
From Coq Require Import String Ascii List Bool NArith.
From Octo Require Import Base.Bytes Crypto.Prims Generated.Tables Generated.ConfigTables Model.Config Spec.Readme Proofs.ConfigFacts
  Generated.Readme Proofs.ReadmeFacts.
Import ListNotations.
Open Scope string_scope.
Open Scope list_scope.

(* ---- every documented name is accepted and selects exactly the documented algorithm ------------------ *)
Theorem C16_names_complete_and_exact :
  (forall d, In d readme_ciphers -> exists c p, cipher_selected d c p)
  /\ (forall n p, In (n, p) readme_protocols -> parse_protocol n = Some p)
  /\ (forall n m, In (n, m) readme_modes -> parse_mode n = Some m)
  /\ field_mode None = parse_mode readme_default_mode.
Proof.
  exact (conj names_complete_and_exact_cipher (conj names_complete_and_exact_protocol
        (conj names_complete_and_exact_mode (proj1 default_mode_documented)))).
Qed.

(* the generated tables name no variant the model does not know, and no serde name beyond the documented ones:
   the #[default] variant `Unknown` is #[serde(skip_deserializing)] *)
Theorem C16_tables_closed :
  known cipher_variants ConfigTables.cipher_names_all = true /\ known protocol_variants Tables.protocol_names = true
  /\ known mode_variants Tables.mode_names = true
  /\ ConfigTables.cipher_names_all = Tables.cipher_names
  /\ ConfigTables.cipher_not_deserializable = [ConfigTables.cipher_default_variant]
  /\ Tables.cipher_unknown_is_nameable = false.
Proof. exact tables_closed. Qed.

(* ---- every other string is refused (ALL strings, no exception) --------------------------------------- *)
Theorem C16_unknown_names_rejected :
  (forall s, ~ In s readme_cipher_names -> parse_cipher s = None)
  /\ (forall s, ~ In s readme_protocol_names -> parse_protocol s = None)
  /\ (forall s, ~ In s readme_mode_names -> parse_mode s = None).
Proof. exact (conj unknown_cipher_rejected (conj unknown_protocol_rejected unknown_mode_rejected)). Qed.

Theorem C16_object_with_unknown_name_rejected : forall c p m,
  (exists s, c = Some s /\ ~ In s readme_cipher_names) \/ ~ In p readme_protocol_names
  \/ (exists s, m = Some s /\ ~ In s readme_mode_names) ->
  parse_server_config c p m = None.
Proof. exact object_with_unknown_name_rejected. Qed.

(* ---- no silent fallback ------------------------------------------------------------------------------- *)
(* NO name yields the kind `Unknown`; it is only what an ABSENT cipher field becomes, and then the shadowsocks server and
   client stop with an error, and the VMess / Trojan servers do not depend on the cipher at all *)
Theorem C16_no_silent_fallback :
  (forall s, parse_cipher s <> Some CUnknown)
  /\ (forall s, In s readme_cipher_names -> parse_cipher s <> None)
  /\ field_cipher None = Some CUnknown
  /\ (forall m ssl ws quic, exists msg, startup_server PShadowsocks CUnknown m ssl ws quic = StartupError msg)
  /\ (forall m, exists msg, startup_client PShadowsocks CUnknown m = StartupError msg)
  /\ (forall p c c' m ssl ws quic, p <> PShadowsocks -> startup_server p c m ssl ws quic = startup_server p c' m ssl ws quic).
Proof.
  exact (conj no_name_is_unknown (conj (fun s H => proj2 (documented_name_never_unknown s H)) (conj absent_cipher_is_unknown
        (conj unknown_kind_shadowsocks_server (conj unknown_kind_shadowsocks_client cipher_ignored_by_other_servers))))).
Qed.
(* the Ciphers table: a documented cipher is usable with a protocol exactly when the README ticks it *)
Theorem C16_documented_cipher_usable : forall d c p, In d readme_ciphers -> parse_cipher (dc_name d) = Some c ->
  kind_usable p c = readme_cipher_allowed p d.
Proof. exact documented_cipher_starts. Qed.
(* VMess client: the ticked ciphers select exactly their security, the others are refused wherever the cipher is consulted *)
Theorem C16_vmess_cipher_exact : forall d c, In d readme_ciphers -> parse_cipher (dc_name d) = Some c ->
  forall net, In net ["tcp"; "udp"; "context"] ->
  vmess_client_security net c = if dc_vmess d then VSecurity (readme_vmess_security d) else VRefused.
Proof. exact vmess_cipher_exact. Qed.
Theorem C16_vmess_other_kinds_refused : forall c, c <> CAes128Gcm -> c <> CChaCha20Poly1305 ->
  vmess_client_security "tcp" c = VRefused /\ vmess_client_security "udp" c = VRefused
  /\ forall m, fst (listeners_client m) = true -> exists msg, startup_client PVMess c m = StartupError msg.
Proof. exact vmess_other_kinds_refused. Qed.

(* ---- listeners ------------------------------------------------------------------------------------------ *)
(* every (protocol, kind, mode, ssl?, ws?, quic?): exactly the documented sockets, or -- for a mode that asks for QUIC
   without a quic section -- a startup error; never "serving while an error went unreported" *)
Theorem C16_listeners_match_readme :
  (forall p c m ssl ws quic, (p = PShadowsocks -> server_n c <> None) ->
     meets (startup_server p c m ssl ws quic) (readme_server_startup p m quic))
  /\ (forall p c m, kind_usable p c = true ->
     meets (startup_client p c m) (readme_client_startup m)
     /\ (forall l, readme_client_listeners m = Some l -> listeners_client m = l /\ client_keeps_running m = true)).
Proof. exact (conj listeners_match_readme_server listeners_match_readme_client). Qed.
Theorem C16_quic_mode_needs_quic_section : forall c m ssl ws,
  enable_quic m = true -> exists msg, startup_server PShadowsocks c m ssl ws false = StartupError msg.
Proof. intros c [] ssl ws H; try discriminate H; eexists; reflexivity. Qed.
Theorem C16_no_swallowed_startup_error : forall p c m ssl ws quic l msg,
  startup_server p c m ssl ws quic <> StartedDespiteError l msg.
Proof. exact no_swallowed_startup_error. Qed.
Theorem C16_server_mode_refused_by_client : forall p c m, readme_client_listeners m = None ->
  startup_client p c m = StartupError server_mode_msg /\ client_keeps_running m = false.
Proof. exact server_mode_refused_by_client. Qed.

(* ---- transports ----------------------------------------------------------------------------------------- *)
Theorem C16_transport_match_readme :
  (forall ssl ws quic,
     transport_client ssl ws quic = Some (readme_sections_transport ssl ws quic)
     /\ transport_server_tcp ssl ws = Some (readme_sections_transport ssl ws false)
     /\ forall p, readme_tcp_transport p (readme_sections_transport ssl ws quic) = true)
  /\ (forall p ssl ws quic,
     match transport_client_udp p ssl ws quic with
     | UdpVia t => readme_udp_transport p t = true /\ (p <> PShadowsocks -> t = readme_sections_transport ssl ws quic)
     | UdpFlowError => p = PTrojan /\ ssl = false /\ quic = false
     | UdpNoArm => False
     end)
  /\ (forall p t, readme_udp_transport p t = true -> exists ssl ws quic, transport_client_udp p ssl ws quic = UdpVia t).
Proof. exact (conj transport_match_readme_tcp (conj transport_match_readme_udp transport_readme_udp_reachable)). Qed.

(* ---- keys ------------------------------------------------------------------------------------------------ *)
Theorem C16_key_size_dispatch_agrees : forall c,
  client_tcp_n c = client_udp_n c /\ client_tcp_n c = server_n c
  /\ match cipher_method c with
     | Ok a => client_tcp_n c = Some (cipher_key_size a)
     | _ => c = CUnknown /\ client_tcp_n c = None
     end.
Proof. exact key_size_dispatch_agrees. Qed.

Theorem C16_legacy_key_same_on_tcp_udp : forall (P : prims) (b64 : string -> option bytes) c sd n pw, is_aead_2022 c = false ->
  derive_key P b64 c NetTcp sd n pw = derive_key P b64 c NetUdp sd n pw
  /\ derive_key P b64 c NetUdp sd n pw =
     match openssl_bytes_to_key P n (bytes_of_string pw) with Ok k => KeyOk k [] | Err _ => KeyError | Panic => KeyPanic end.
Proof. exact legacy_key_same_on_tcp_udp. Qed.

Theorem C16_legacy_password_never_refused : forall (P : prims) (b64 : string -> option bytes),
  (forall m, lenN (p_md5 P m) = 16%N) ->
  forall c sd nt n pw, is_aead_2022 c = false -> n = 16%N \/ n = 32%N ->
  exists k, derive_key P b64 c nt sd n pw = KeyOk k [] /\ lenN k = n.
Proof. exact legacy_password_never_refused. Qed.

(* `b64` (base64 decoding of one key) is a parameter: the statement holds for every decoder *)
Theorem C16_key_length_exact : forall (b64 : string -> option bytes) n pw k ik,
  config_password_to_keys b64 n pw = Some (k, ik) ->
  lenN k = n /\ Forall (fun x => lenN x = n) ik
  /\ forall s, In s (split_on ":"%char pw) -> exists k', b64 s = Some k' /\ lenN k' = n.
Proof. exact key_length_exact. Qed.
Theorem C16_wrong_key_length_rejected : forall (b64 : string -> option bytes) n pw s,
  In s (split_on ":"%char pw) -> (forall k, b64 s = Some k -> lenN k <> n) -> config_password_to_keys b64 n pw = None.
Proof. exact wrong_key_length_rejected. Qed.
Theorem C16_key_2022_exact : forall (P : prims) (b64 : string -> option bytes) c nt sd n pw k ik, is_aead_2022 c = true ->
  derive_key P b64 c nt sd n pw = KeyOk k ik -> lenN k = n /\ Forall (fun x => lenN x = n) ik.
Proof. exact key_2022_exact. Qed.
Theorem C16_user_key_exact : forall (b64 : string -> option bytes) n pw k, user_key b64 n pw = Some k -> lenN k = n.
Proof. exact user_key_exact. Qed.

(* the documented credential format of every documented cipher, on every path (tcp|udp, client|server) *)
Theorem C16_credential_format_exact : forall (P : prims) (b64 : string -> option bytes),
  (forall m, lenN (p_md5 P m) = 16%N) ->
  forall d c, In d readme_ciphers -> parse_cipher (dc_name d) = Some c ->
  forall nt sd pw,
    match dc_credential d with
    | OrdinaryPassword =>
      (exists k, derive_key P b64 c nt sd (dc_key_len d) pw = KeyOk k [] /\ lenN k = dc_key_len d)
      /\ derive_key P b64 c NetTcp sd (dc_key_len d) pw = derive_key P b64 c NetUdp sd (dc_key_len d) pw
    | Base64Key len =>
      len = dc_key_len d
      /\ (forall k ik, derive_key P b64 c nt sd len pw = KeyOk k ik -> lenN k = len /\ Forall (fun x => lenN x = len) ik)
      /\ (derive_key P b64 c nt sd len pw = KeyError \/ exists k ik, derive_key P b64 c nt sd len pw = KeyOk k ik)
    end.
Proof. exact credential_format_exact. Qed.

(* ---- the documented side is the README as it is now ----------------------------------------------------------- *)
(* Generated.Readme = /repo/README.md's tables, option lists and notes as plain data, regenerated on every run (tie A).
   The hand transcription Spec.Readme used by every theorem above is exactly that text under the reading spelled out in
   Proofs/ReadmeFacts.v (readme_column_protocol, readme_transport_name, readme_local_peer, md_marks): the README table of
   ciphers + the one alias of the repository's configuration examples; the `protocol` line; the `mode` lists and their
   defaults; the Transport table, whose last row the README spells `ucp` and which is read as `udp` (stated on its own). *)
Theorem C16_generated_readme_ciphers_match_spec :
  md_cipher_columns = ["Shadowsocks"; "VMess"]
  /\ md_cipher_legend = [("C", "client"); ("S", "server")]
  (* the README table is readme_ciphers without the alias: row for row, in the README's order, same two columns *)
  /\ md_cipher_rows = map md_cipher_row_of (filter not_alias readme_ciphers)
  /\ length readme_ciphers = S (length md_cipher_rows)
  (* the alias is in no README row; in readme_ciphers it is the chacha20-poly1305 entry under a second name *)
  /\ ~ In readme_config_example_alias (map mdc_name md_cipher_rows)
  /\ (forall d, In d readme_ciphers -> dc_name d = readme_config_example_alias ->
        exists d0, In d0 readme_ciphers /\ dc_name d0 = "chacha20-poly1305" /\ In (md_cipher_row_of d0) md_cipher_rows
                   /\ d = dc_with_name readme_config_example_alias d0)
  (* every README row is the readme_ciphers entry of that name (there is one: the names are distinct), same columns *)
  /\ (forall r, In r md_cipher_rows -> exists d, In d readme_ciphers /\ dc_name d = mdc_name r /\ r = md_cipher_row_of d)
  (* and every other readme_ciphers entry is a README row *)
  /\ (forall d, In d readme_ciphers -> dc_name d <> readme_config_example_alias -> In (md_cipher_row_of d) md_cipher_rows)
  /\ NoDup readme_cipher_names.
Proof. exact generated_readme_ciphers_match_spec. Qed.
Theorem C16_generated_readme_protocols_match_spec :
  md_protocol_options = readme_protocol_names
  /\ (forall n, In n md_protocol_options <-> exists p, In (n, p) readme_protocols)
  (* the protocol columns of the Transport table are these protocols, in this order; the Ciphers table has the first two *)
  /\ map readme_column_protocol md_transport_columns = map (fun n => assoc n readme_protocols) md_protocol_options
  /\ map readme_column_protocol md_transport_columns = map Some all_protocols
  /\ map readme_column_protocol md_cipher_columns = [Some PShadowsocks; Some PVMess].
Proof. exact generated_readme_protocols_match_spec. Qed.
Theorem C16_generated_readme_modes_match_spec :
  map mdm_who md_mode_items = ["client"; "shadowsocks server"; "shadowsocks quic server"]
  (* 1. client: the option names, in the README's order, are the client modes; "(default)" marks exactly readme_default_mode *)
  /\ (exists i, md_mode_item_of "client" = Some i
        /\ md_option_names i = readme_client_modes
        /\ md_option_names i = map fst (filter is_client_mode readme_modes)
        /\ md_defaults i = [readme_default_mode])
  (* 2. shadowsocks server: the option names are the server modes = every documented mode name *)
  /\ (exists i, md_mode_item_of "shadowsocks server" = Some i
        /\ md_option_names i = readme_server_modes
        /\ (forall s, In s (md_option_names i) <-> In s readme_mode_names)
        /\ NoDup (md_option_names i) /\ length (md_option_names i) = length readme_mode_names
        /\ md_defaults i = [readme_default_mode])
  (* 3. shadowsocks quic server: a remark, no further option *)
  /\ (exists i, md_mode_item_of "shadowsocks quic server" = Some i /\ mdm_options i = [])
  (* no mode name is documented anywhere else, and none of readme_modes is undocumented *)
  /\ (forall s, In s readme_mode_names <-> exists i, In i md_mode_items /\ In s (md_option_names i)).
Proof. exact generated_readme_modes_match_spec. Qed.
Theorem C16_readme_ucp_row_is_udp_quic :
  filter (fun r => negb (mdt_local r =? "tcp") && negb (mdt_local r =? "udp")) md_transport_rows = [md_ucp_row]
  /\ md_transport_rows = removelast md_transport_rows ++ [md_ucp_row]
  /\ Forall (fun r => mdt_local r = "tcp" \/ mdt_local r = "udp") (removelast md_transport_rows)
  /\ readme_local_peer (mdt_local md_ucp_row) = Some LocalUdp
  /\ readme_transport_name (mdt_peer md_ucp_row) = Some TQuic
  /\ mdt_ticks md_ucp_row = map (fun p => readme_udp_transport p TQuic) all_protocols
  /\ ~ In ("udp", "quic") (map (fun r => (mdt_local r, mdt_peer r)) md_transport_rows).
Proof. exact readme_ucp_row_is_udp_quic. Qed.
Theorem C16_generated_readme_transports_match_spec :
  md_transport_key_columns = ["Local-Peer"; "Client-Server"]
  /\ map readme_column_protocol md_transport_columns = map Some all_protocols
  (* every row of the README table is understood and carries exactly the ticks of readme_tcp_transport / readme_udp_transport *)
  /\ (forall r, In r md_transport_rows ->
        exists l t, readme_local_peer (mdt_local r) = Some l /\ readme_transport_name (mdt_peer r) = Some t
                    /\ mdt_ticks r = map (fun p => readme_transport l p t) all_protocols)
  (* vice versa: whatever readme_tcp_transport / readme_udp_transport allow is a row of the README table *)
  /\ (forall l p t, readme_transport l p t = true ->
        exists r, In r md_transport_rows /\ readme_local_peer (mdt_local r) = Some l /\ readme_transport_name (mdt_peer r) = Some t)
  (* one row per (Local-Peer, Client-Server) pair *)
  /\ NoDup (map (fun r => (readme_local_peer (mdt_local r), readme_transport_name (mdt_peer r))) md_transport_rows)
  (* the only cell text that needed a reading beyond its spelling *)
  /\ (forall r, In r md_transport_rows -> mdt_local r = "tcp" \/ mdt_local r = "udp" \/ r = md_ucp_row).
Proof. exact generated_readme_transports_match_spec. Qed.
Theorem C16_generated_readme_sections_match_spec :
  map mdn_key (filter md_optional md_config_notes) = ["mode"; "ssl"; "ws"; "quic"]
  /\ map (fun n => (mdn_key n, map fst (mdn_subkeys n))) (filter md_has_subkeys md_config_notes)
     = [("ssl", ["certificateFile"; "serverName"]); ("ws", ["header"; "path"]); ("quic", ["certificateFile"; "keyFile"; "serverName"])]
  /\ (forall ssl ws quic, exists r, In r md_transport_rows /\ readme_local_peer (mdt_local r) = Some LocalTcp
        /\ readme_transport_name (mdt_peer r) = Some (readme_sections_transport ssl ws quic))
  /\ (forall r, In r md_transport_rows -> readme_local_peer (mdt_local r) = Some LocalTcp ->
        exists ssl ws quic, readme_transport_name (mdt_peer r) = Some (readme_sections_transport ssl ws quic)).
Proof. exact generated_readme_sections_match_spec. Qed.

(* ---- documentation gap (F-16h, kept): a VMess / Trojan server ignores `mode` altogether (the README documents `mode`
   for the shadowsocks server only): mode "udp" still opens the TCP listener and no UDP socket ---------------------- *)
Example C16_FINDING_mode_ignored_by_vmess_trojan :
  forall m ssl ws quic, listeners_server PVMess m ssl ws quic = {| l_tcp := true; l_udp := false; l_quic := quic |}
                     /\ listeners_server PTrojan m ssl ws quic = {| l_tcp := true; l_udp := false; l_quic := quic |}.
Proof. intros [] [] [] []; split; reflexivity. Qed.

(* ---- non-vacuity ---------------------------------------------------------------------------------------- *)
Example C16_example_names :
  parse_cipher "chacha20-ietf-poly1305" = Some CChaCha20Poly1305 /\ parse_cipher "2022-blake3-chacha8-poly1305" = Some C22ChaCha8Poly1305
  /\ parse_cipher "AES-128-GCM" = None /\ parse_cipher "aes-128-gcm " = None /\ parse_cipher "" = None
  /\ parse_protocol "vmess" = Some PVMess /\ parse_protocol "VMess" = None
  /\ parse_mode "tcp_and_quic" = Some MTcpAndQuic /\ parse_mode "tcp-and-udp" = None.
Proof. repeat split. Qed.
Example C16_example_params :
  kind_params C22Aes128Gcm = Some {| kp_n := 16; kp_tag := 16; kp_2022 := true; kp_eih := true; kp_algo := 0 |}
  /\ kind_params CChaCha20Poly1305 = Some {| kp_n := 32; kp_tag := 16; kp_2022 := false; kp_eih := false; kp_algo := 2 |}
  /\ kind_params CUnknown = None /\ tag_size CUnknown = Panic.
Proof. repeat split. Qed.
Example C16_example_listeners :
  listeners_server PShadowsocks MTcpAndQuic false false true = {| l_tcp := true; l_udp := false; l_quic := true |}
  /\ listeners_server PShadowsocks MTcpAndUdp true true false = {| l_tcp := true; l_udp := true; l_quic := false |}
  /\ listeners_server PShadowsocks MQuic false false true = {| l_tcp := false; l_udp := false; l_quic := true |}
  /\ listeners_client MUdp = (false, true) /\ client_keeps_running MUdp = true
  /\ startup_server PShadowsocks C22Aes128Gcm MTcpAndQuic false false true = Started {| l_tcp := true; l_udp := false; l_quic := true |}
  /\ startup_server PShadowsocks C22Aes128Gcm MTcpAndQuic false false false = StartupError quic_section_msg
  /\ startup_server PShadowsocks C22Aes128Gcm MQuic true true false = StartupError quic_section_msg
  /\ startup_client PTrojan CUnknown MQuic = StartupError server_mode_msg
  /\ startup_client PVMess CAes256Gcm MTcp = StartupError vmess_cipher_msg
  /\ startup_client PVMess CChaCha20Poly1305 MTcpAndUdp = Started {| l_tcp := true; l_udp := true; l_quic := false |}
  /\ parse_cipher "Unknown" = None /\ parse_server_config (Some "Unknown") "vmess" None = None.
Proof. repeat split. Qed.
Example C16_example_transports :
  transport_client true true false = Some TWss /\ transport_client true true true = Some TQuic
  /\ transport_client_udp PTrojan false false false = UdpFlowError /\ transport_client_udp PShadowsocks true true true = UdpVia TUdp.
Proof. repeat split. Qed.
(* keys: the concrete base64 decoder (compared with base64ct by the harness) as the instance of the parameter *)
Example C16_example_keys :
  config_password_to_keys b64_decode 16 "MDEyMzQ1Njc4OWFiY2RlZg==" = Some ([48; 49; 50; 51; 52; 53; 54; 55; 56; 57; 97; 98; 99; 100; 101; 102]%N, [])
  /\ config_password_to_keys b64_decode 32 "MDEyMzQ1Njc4OWFiY2RlZg==" = None          (* 16 bytes where 32 are required *)
  /\ config_password_to_keys b64_decode 16 "MDEyMzQ1Njc4OWFiY2RlZmc=" = None          (* 17 bytes *)
  /\ config_password_to_keys b64_decode 16 "MDEyMzQ1Njc4OWFiY2Rl" = None              (* 15 bytes *)
  /\ config_password_to_keys b64_decode 16 "hunter2" = None                            (* not base64 *)
  /\ (exists k ik, config_password_to_keys b64_decode 16 "MDEyMzQ1Njc4OWFiY2RlZg==:MDEyMzQ1Njc4OWFiY2RlZg==" = Some (k, ik) /\ length ik = 1%nat)
  /\ config_password_to_keys b64_decode 16 "MDEyMzQ1Njc4OWFiY2Rl:MDEyMzQ1Njc4OWFiY2RlZg==" = None.
Proof. repeat split; try reflexivity. vm_compute. eexists _, _. split; reflexivity. Qed.
Example C16_example_legacy_key :
  (forall m, lenN (p_md5 toy_prims m) = 16%N)
  /\ derive_key toy_prims b64_decode CAes256Gcm NetUdp OnServer 32 "hunter2" = derive_key toy_prims b64_decode CAes256Gcm NetTcp OnClient 32 "hunter2"
  /\ (exists k, derive_key toy_prims b64_decode CAes256Gcm NetUdp OnServer 32 "hunter2" = KeyOk k [] /\ lenN k = 32%N)
  /\ derive_key toy_prims b64_decode C22Aes256Gcm NetUdp OnServer 32 "hunter2" = KeyError.
Proof. split; [exact toy_md5_len|]. split; [reflexivity|]. split; [|reflexivity]. vm_compute. eexists. split; reflexivity. Qed.

Check (C16_unknown_names_rejected :
  (forall s, ~ In s readme_cipher_names -> parse_cipher s = None)
  /\ (forall s, ~ In s readme_protocol_names -> parse_protocol s = None)
  /\ (forall s, ~ In s readme_mode_names -> parse_mode s = None)).
Check @C16_names_complete_and_exact.
Check @C16_tables_closed.
Check @C16_unknown_names_rejected.
Check @C16_object_with_unknown_name_rejected.
Check @C16_no_silent_fallback.
Check @C16_documented_cipher_usable.
Check @C16_vmess_cipher_exact.
Check @C16_vmess_other_kinds_refused.
Check @C16_listeners_match_readme.
Check @C16_quic_mode_needs_quic_section.
Check @C16_no_swallowed_startup_error.
Check @C16_server_mode_refused_by_client.
Check @C16_transport_match_readme.
Check @C16_key_size_dispatch_agrees.
Check @C16_legacy_key_same_on_tcp_udp.
Check @C16_legacy_password_never_refused.
Check @C16_key_length_exact.
Check @C16_wrong_key_length_rejected.
Check @C16_key_2022_exact.
Check @C16_user_key_exact.
Check @C16_credential_format_exact.
Check @C16_generated_readme_ciphers_match_spec.
Check @C16_generated_readme_protocols_match_spec.
Check @C16_generated_readme_modes_match_spec.
Check @C16_readme_ucp_row_is_udp_quic.
Check @C16_generated_readme_transports_match_spec.
Check @C16_generated_readme_sections_match_spec.
Print Assumptions C16_names_complete_and_exact.
Print Assumptions C16_tables_closed.
Print Assumptions C16_unknown_names_rejected.
Print Assumptions C16_object_with_unknown_name_rejected.
Print Assumptions C16_no_silent_fallback.
Print Assumptions C16_documented_cipher_usable.
Print Assumptions C16_vmess_cipher_exact.
Print Assumptions C16_vmess_other_kinds_refused.
Print Assumptions C16_listeners_match_readme.
Print Assumptions C16_quic_mode_needs_quic_section.
Print Assumptions C16_no_swallowed_startup_error.
Print Assumptions C16_server_mode_refused_by_client.
Print Assumptions C16_transport_match_readme.
Print Assumptions C16_key_size_dispatch_agrees.
Print Assumptions C16_legacy_key_same_on_tcp_udp.
Print Assumptions C16_legacy_password_never_refused.
Print Assumptions C16_key_length_exact.
Print Assumptions C16_wrong_key_length_rejected.
Print Assumptions C16_key_2022_exact.
Print Assumptions C16_user_key_exact.
Print Assumptions C16_credential_format_exact.
Print Assumptions C16_generated_readme_ciphers_match_spec.
Print Assumptions C16_generated_readme_protocols_match_spec.
Print Assumptions C16_generated_readme_modes_match_spec.
Print Assumptions C16_readme_ucp_row_is_udp_quic.
Print Assumptions C16_generated_readme_transports_match_spec.
Print Assumptions C16_generated_readme_sections_match_spec.
