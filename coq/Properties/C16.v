(* C16 -- configuration names select exactly the documented behaviour.
   Spec.Readme = the README tables (typed in by hand once); Model.Config = what the current source does
   (names and arm lists regenerated from /repo on every run, tie A; behaviour of the serde types and of the
   key-derivation functions compared with the real code by the harness component `config`, tie B). *)
From Coq Require Import String Ascii List Bool NArith.
From Octo Require Import Base.Bytes Crypto.Prims Generated.Tables Generated.ConfigTables Model.Config Spec.Readme Proofs.ConfigFacts.
Import ListNotations.
Open Scope string_scope.
Open Scope list_scope.

(* ---- every documented name is accepted and selects exactly the documented algorithm ------------------ *)
Theorem C16_names_complete_and_exact :
  (forall d, In d readme_ciphers -> exists c p, cipher_selected d c p)
  /\ (forall n p, In (n, p) readme_protocols -> parse_protocol n = Some p)
  /\ (forall n m, In (n, m) readme_modes -> parse_mode n = Some m)
  /\ field_mode None = parse_mode readme_default_mode.
Proof.
  exact (conj names_complete_and_exact_cipher (conj names_complete_and_exact_protocol
        (conj names_complete_and_exact_mode (proj1 default_mode_documented)))).
Qed.

(* the generated tables name no variant the model does not know, and no serde name beyond the documented ones
   except the spelling of the #[default] variant *)
Theorem C16_tables_closed :
  known cipher_variants ConfigTables.cipher_names_all = true /\ known protocol_variants Tables.protocol_names = true
  /\ known mode_variants Tables.mode_names = true
  /\ ConfigTables.cipher_names_all = Tables.cipher_names ++ [(ConfigTables.cipher_default_variant, ConfigTables.cipher_default_variant)]
  /\ Tables.cipher_unknown_is_nameable = false.
Proof. exact tables_closed. Qed.

(* ---- every other string is refused (ALL strings) ------------------------------------------------------ *)
Theorem C16_unknown_names_rejected :
  (forall s, ~ In s readme_cipher_names -> s <> "Unknown" -> parse_cipher s = None)
  /\ (forall s, ~ In s readme_protocol_names -> parse_protocol s = None)
  /\ (forall s, ~ In s readme_mode_names -> parse_mode s = None).
Proof. exact (conj unknown_cipher_rejected (conj unknown_protocol_rejected unknown_mode_rejected)). Qed.

Theorem C16_object_with_unknown_name_rejected : forall c p m,
  (exists s, c = Some s /\ ~ In s readme_cipher_names /\ s <> "Unknown") \/ ~ In p readme_protocol_names
  \/ (exists s, m = Some s /\ ~ In s readme_mode_names) ->
  parse_server_config c p m = None.
Proof. exact object_with_unknown_name_rejected. Qed.

(* ---- no silent fallback ------------------------------------------------------------------------------- *)
(* a name never yields the kind `Unknown`, except the literal spelling "Unknown" of the variant itself;
   `Unknown` is what an ABSENT cipher field becomes, and then: *)
Theorem C16_no_silent_fallback :
  (forall s, In s readme_cipher_names -> parse_cipher s <> Some CUnknown /\ parse_cipher s <> None)
  /\ (forall s, parse_cipher s = Some CUnknown -> s = "Unknown")
  /\ field_cipher None = Some CUnknown
  /\ (forall m ssl ws quic, startup_server PShadowsocks CUnknown m ssl ws quic = StartupError "unknown cipher kind")
  /\ (forall m, startup_client PShadowsocks CUnknown m = StartupError "unknown cipher kind")
  /\ (forall p c m ssl ws quic, p <> PShadowsocks -> startup_server p c m ssl ws quic = Started (listeners_server p m ssl ws quic)).
Proof.
  exact (conj documented_name_never_unknown (conj unknown_kind_only_by_its_own_name (conj absent_cipher_is_unknown
        (conj unknown_kind_shadowsocks_server (conj unknown_kind_shadowsocks_client cipher_ignored_by_other_servers))))).
Qed.
Theorem C16_documented_cipher_starts : forall d c, In d readme_ciphers -> parse_cipher (dc_name d) = Some c ->
  forall p m ssl ws quic, startup_server p c m ssl ws quic = Started (listeners_server p m ssl ws quic)
                          /\ exists l, startup_client p c m = Started l.
Proof. exact documented_cipher_starts. Qed.
Theorem C16_vmess_cipher_exact : forall d c, In d readme_ciphers -> dc_vmess d = true -> parse_cipher (dc_name d) = Some c ->
  vmess_client_security "tcp" c = Some (readme_vmess_security d) /\ vmess_client_security "udp" c = Some (readme_vmess_security d).
Proof. exact vmess_cipher_exact. Qed.

(* ---- listeners ------------------------------------------------------------------------------------------ *)
Theorem C16_listeners_match_readme :
  (forall p m ssl ws quic, readme_consistent p m quic = true ->
     listeners_server p m ssl ws quic = mk (readme_server_listeners p m quic))
  /\ (forall m l, readme_client_listeners m = Some l -> listeners_client m = l /\ client_keeps_running m = true).
Proof. exact (conj listeners_match_readme_server listeners_match_readme_client). Qed.

(* ---- transports ----------------------------------------------------------------------------------------- *)
Theorem C16_transport_match_readme :
  (forall ssl ws quic,
     transport_client ssl ws quic = Some (readme_sections_transport ssl ws quic)
     /\ transport_server_tcp ssl ws = Some (readme_sections_transport ssl ws false)
     /\ forall p, readme_tcp_transport p (readme_sections_transport ssl ws quic) = true)
  /\ (forall p ssl ws quic,
     match transport_client_udp p ssl ws quic with
     | UdpVia t => readme_udp_transport p t = true /\ (p <> PShadowsocks -> t = readme_sections_transport ssl ws quic)
     | UdpFlowError => p = PTrojan /\ ssl = false /\ quic = false
     | UdpNoArm => False
     end)
  /\ (forall p t, readme_udp_transport p t = true -> exists ssl ws quic, transport_client_udp p ssl ws quic = UdpVia t).
Proof. exact (conj transport_match_readme_tcp (conj transport_match_readme_udp transport_readme_udp_reachable)). Qed.

(* ---- keys ------------------------------------------------------------------------------------------------ *)
Theorem C16_key_size_dispatch_agrees : forall c,
  client_tcp_n c = client_udp_n c /\ client_tcp_n c = server_n c
  /\ match cipher_method c with
     | Ok a => client_tcp_n c = Some (cipher_key_size a)
     | _ => c = CUnknown /\ client_tcp_n c = None
     end.
Proof. exact key_size_dispatch_agrees. Qed.

Theorem C16_legacy_key_same_on_tcp_udp : forall (P : prims) (b64 : string -> option bytes) c sd n pw, is_aead_2022 c = false ->
  derive_key P b64 c NetTcp sd n pw = derive_key P b64 c NetUdp sd n pw
  /\ derive_key P b64 c NetUdp sd n pw =
     match openssl_bytes_to_key P n (bytes_of_string pw) with Ok k => KeyOk k [] | Err _ => KeyError | Panic => KeyPanic end.
Proof. exact legacy_key_same_on_tcp_udp. Qed.

Theorem C16_legacy_password_never_refused : forall (P : prims) (b64 : string -> option bytes),
  (forall m, lenN (p_md5 P m) = 16%N) ->
  forall c sd nt n pw, is_aead_2022 c = false -> n = 16%N \/ n = 32%N ->
  exists k, derive_key P b64 c nt sd n pw = KeyOk k [] /\ lenN k = n.
Proof. exact legacy_password_never_refused. Qed.

(* `b64` (base64 decoding of one key) is a parameter: the statement holds for every decoder *)
Theorem C16_key_length_exact : forall (b64 : string -> option bytes) n pw k ik,
  config_password_to_keys b64 n pw = Some (k, ik) ->
  lenN k = n /\ Forall (fun x => lenN x = n) ik
  /\ forall s, In s (split_on ":"%char pw) -> exists k', b64 s = Some k' /\ lenN k' = n.
Proof. exact key_length_exact. Qed.
Theorem C16_wrong_key_length_rejected : forall (b64 : string -> option bytes) n pw s,
  In s (split_on ":"%char pw) -> (forall k, b64 s = Some k -> lenN k <> n) -> config_password_to_keys b64 n pw = None.
Proof. exact wrong_key_length_rejected. Qed.
Theorem C16_key_2022_exact : forall (P : prims) (b64 : string -> option bytes) c nt sd n pw k ik, is_aead_2022 c = true ->
  derive_key P b64 c nt sd n pw = KeyOk k ik -> lenN k = n /\ Forall (fun x => lenN x = n) ik.
Proof. exact key_2022_exact. Qed.
Theorem C16_user_key_exact : forall (b64 : string -> option bytes) n pw k, user_key b64 n pw = Some k -> lenN k = n.
Proof. exact user_key_exact. Qed.

(* the documented credential format of every documented cipher, on every path (tcp|udp, client|server) *)
Theorem C16_credential_format_exact : forall (P : prims) (b64 : string -> option bytes),
  (forall m, lenN (p_md5 P m) = 16%N) ->
  forall d c, In d readme_ciphers -> parse_cipher (dc_name d) = Some c ->
  forall nt sd pw,
    match dc_credential d with
    | OrdinaryPassword =>
      (exists k, derive_key P b64 c nt sd (dc_key_len d) pw = KeyOk k [] /\ lenN k = dc_key_len d)
      /\ derive_key P b64 c NetTcp sd (dc_key_len d) pw = derive_key P b64 c NetUdp sd (dc_key_len d) pw
    | Base64Key len =>
      len = dc_key_len d
      /\ (forall k ik, derive_key P b64 c nt sd len pw = KeyOk k ik -> lenN k = len /\ Forall (fun x => lenN x = len) ik)
      /\ (derive_key P b64 c nt sd len pw = KeyError \/ exists k ik, derive_key P b64 c nt sd len pw = KeyOk k ik)
    end.
Proof. exact credential_format_exact. Qed.

(* ---- FINDINGS: what the current source does where the README (or the property) says otherwise ----------- *)
(* F-16d  the string "Unknown" (the Rust spelling of the #[default] variant) is an accepted cipher name *)
Example C16_FINDING_unknown_is_a_name : parse_cipher "Unknown" = Some CUnknown /\ ~ In "Unknown" readme_cipher_names.
Proof. split; [reflexivity|]. cbn. intros H. repeat (destruct H as [H|H]; [discriminate H|]). exact H. Qed.
(* F-16e  shadowsocks server, mode "quic" / "tcp_and_quic" WITHOUT a `quic` section: no error -- the QUIC endpoint is
   silently not started; with mode "quic" the server then listens on nothing at all *)
Example C16_FINDING_quic_mode_without_section_is_silent :
  readme_consistent PShadowsocks MQuic false = false
  /\ startup_server PShadowsocks CAes128Gcm MQuic false false false = Started no_listener
  /\ startup_server PShadowsocks CAes128Gcm MTcpAndQuic false false false = Started {| l_tcp := true; l_udp := false; l_quic := false |}.
Proof. repeat split. Qed.
(* F-16f  the client accepts the two server-only mode names; "quic" opens nothing and the process ends at once *)
Example C16_FINDING_client_accepts_server_modes :
  ~ In "quic" readme_client_modes /\ parse_mode "quic" = Some MQuic
  /\ listeners_client MQuic = (false, false) /\ client_keeps_running MQuic = false
  /\ listeners_client MTcpAndQuic = (true, false).
Proof. repeat split. cbn. intros H. repeat (destruct H as [H|H]; [discriminate H|]). exact H. Qed.
(* F-16g  VMess client with a cipher the README does not list for VMess (or with none): not refused, AES-128-GCM is used *)
Example C16_FINDING_vmess_cipher_fallback :
  forall d c, In d readme_ciphers -> dc_vmess d = false -> parse_cipher (dc_name d) = Some c ->
  vmess_client_security "tcp" c = Some "Aes128Gcm" /\ vmess_client_security "udp" c = Some "Aes128Gcm"
  /\ vmess_client_security "tcp" CUnknown = Some "Aes128Gcm".
Proof.
  intros d c Hd Hv Hc. cbn in Hd.
  repeat (destruct Hd as [<-|Hd]; [try discriminate Hv; vm_compute in Hc; injection Hc as <-; repeat split|]). destruct Hd.
Qed.
(* F-16h  a VMess / Trojan server ignores `mode` altogether (documented for the shadowsocks server only): mode "udp" still
   opens the TCP listener and no UDP socket *)
Example C16_FINDING_mode_ignored_by_vmess_trojan :
  forall m ssl ws quic, listeners_server PVMess m ssl ws quic = {| l_tcp := true; l_udp := false; l_quic := quic |}
                     /\ listeners_server PTrojan m ssl ws quic = {| l_tcp := true; l_udp := false; l_quic := quic |}.
Proof. intros [] [] [] []; split; reflexivity. Qed.

(* ---- non-vacuity ---------------------------------------------------------------------------------------- *)
Example C16_example_names :
  parse_cipher "chacha20-ietf-poly1305" = Some CChaCha20Poly1305 /\ parse_cipher "2022-blake3-chacha8-poly1305" = Some C22ChaCha8Poly1305
  /\ parse_cipher "AES-128-GCM" = None /\ parse_cipher "aes-128-gcm " = None /\ parse_cipher "" = None
  /\ parse_protocol "vmess" = Some PVMess /\ parse_protocol "VMess" = None
  /\ parse_mode "tcp_and_quic" = Some MTcpAndQuic /\ parse_mode "tcp-and-udp" = None.
Proof. repeat split. Qed.
Example C16_example_params :
  kind_params C22Aes128Gcm = Some {| kp_n := 16; kp_tag := 16; kp_2022 := true; kp_eih := true; kp_algo := 0 |}
  /\ kind_params CChaCha20Poly1305 = Some {| kp_n := 32; kp_tag := 16; kp_2022 := false; kp_eih := false; kp_algo := 2 |}
  /\ kind_params CUnknown = None /\ tag_size CUnknown = Panic.
Proof. repeat split. Qed.
Example C16_example_listeners :
  listeners_server PShadowsocks MTcpAndQuic false false true = {| l_tcp := true; l_udp := false; l_quic := true |}
  /\ listeners_server PShadowsocks MTcpAndUdp true true false = {| l_tcp := true; l_udp := true; l_quic := false |}
  /\ listeners_server PShadowsocks MQuic false false true = {| l_tcp := false; l_udp := false; l_quic := true |}
  /\ listeners_client MUdp = (false, true) /\ client_keeps_running MUdp = true.
Proof. repeat split. Qed.
Example C16_example_transports :
  transport_client true true false = Some TWss /\ transport_client true true true = Some TQuic
  /\ transport_client_udp PTrojan false false false = UdpFlowError /\ transport_client_udp PShadowsocks true true true = UdpVia TUdp.
Proof. repeat split. Qed.
(* keys: the concrete base64 decoder (compared with base64ct by the harness) as the instance of the parameter *)
Example C16_example_keys :
  config_password_to_keys b64_decode 16 "MDEyMzQ1Njc4OWFiY2RlZg==" = Some ([48; 49; 50; 51; 52; 53; 54; 55; 56; 57; 97; 98; 99; 100; 101; 102]%N, [])
  /\ config_password_to_keys b64_decode 32 "MDEyMzQ1Njc4OWFiY2RlZg==" = None          (* 16 bytes where 32 are required *)
  /\ config_password_to_keys b64_decode 16 "MDEyMzQ1Njc4OWFiY2RlZmc=" = None          (* 17 bytes *)
  /\ config_password_to_keys b64_decode 16 "MDEyMzQ1Njc4OWFiY2Rl" = None              (* 15 bytes *)
  /\ config_password_to_keys b64_decode 16 "hunter2" = None                            (* not base64 *)
  /\ (exists k ik, config_password_to_keys b64_decode 16 "MDEyMzQ1Njc4OWFiY2RlZg==:MDEyMzQ1Njc4OWFiY2RlZg==" = Some (k, ik) /\ length ik = 1%nat)
  /\ config_password_to_keys b64_decode 16 "MDEyMzQ1Njc4OWFiY2Rl:MDEyMzQ1Njc4OWFiY2RlZg==" = None.
Proof. repeat split; try reflexivity. vm_compute. eexists _, _. split; reflexivity. Qed.
Example C16_example_legacy_key :
  (forall m, lenN (p_md5 toy_prims m) = 16%N)
  /\ derive_key toy_prims b64_decode CAes256Gcm NetUdp OnServer 32 "hunter2" = derive_key toy_prims b64_decode CAes256Gcm NetTcp OnClient 32 "hunter2"
  /\ (exists k, derive_key toy_prims b64_decode CAes256Gcm NetUdp OnServer 32 "hunter2" = KeyOk k [] /\ lenN k = 32%N)
  /\ derive_key toy_prims b64_decode C22Aes256Gcm NetUdp OnServer 32 "hunter2" = KeyError.
Proof. split; [exact toy_md5_len|]. split; [reflexivity|]. split; [|reflexivity]. vm_compute. eexists. split; reflexivity. Qed.

Check (C16_unknown_names_rejected :
  (forall s, ~ In s readme_cipher_names -> s <> "Unknown" -> parse_cipher s = None)
  /\ (forall s, ~ In s readme_protocol_names -> parse_protocol s = None)
  /\ (forall s, ~ In s readme_mode_names -> parse_mode s = None)).
Check (C16_listeners_match_readme :
  (forall p m ssl ws quic, readme_consistent p m quic = true -> listeners_server p m ssl ws quic = mk (readme_server_listeners p m quic))
  /\ (forall m l, readme_client_listeners m = Some l -> listeners_client m = l /\ client_keeps_running m = true)).
Check (C16_key_length_exact : forall (b64 : string -> option bytes) n pw k ik,
  config_password_to_keys b64 n pw = Some (k, ik) ->
  lenN k = n /\ Forall (fun x => lenN x = n) ik /\ forall s, In s (split_on ":"%char pw) -> exists k', b64 s = Some k' /\ lenN k' = n).
Print Assumptions C16_names_complete_and_exact.
Print Assumptions C16_tables_closed.
Print Assumptions C16_unknown_names_rejected.
Print Assumptions C16_object_with_unknown_name_rejected.
Print Assumptions C16_no_silent_fallback.
Print Assumptions C16_documented_cipher_starts.
Print Assumptions C16_vmess_cipher_exact.
Print Assumptions C16_listeners_match_readme.
Print Assumptions C16_transport_match_readme.
Print Assumptions C16_key_size_dispatch_agrees.
Print Assumptions C16_legacy_key_same_on_tcp_udp.
Print Assumptions C16_legacy_password_never_refused.
Print Assumptions C16_key_length_exact.
Print Assumptions C16_wrong_key_length_rejected.
Print Assumptions C16_key_2022_exact.
Print Assumptions C16_user_key_exact.
Print Assumptions C16_credential_format_exact.
