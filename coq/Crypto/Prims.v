(* Cryptographic primitives are parameters of the model, never axioms: a record of functions.
   Theorems quantify over every record (plus, where needed, the laws below); the extracted model is
   run with closures that call the real RustCrypto primitives; Crypto/Toy.v shows the laws are satisfiable. *)
From Coq Require Import NArith List Bool.
From Octo Require Import Base.Bytes.
Import ListNotations.
Open Scope N_scope.

(* AEAD cipher ids: 0 aes-128-gcm, 1 aes-256-gcm, 2 chacha20-poly1305, 3 chacha8-poly1305,
   4 xchacha20-poly1305, 5 xchacha8-poly1305 *)
Record prims := {
  p_seal : N -> bytes -> bytes -> bytes -> bytes -> bytes;            (* cipher key nonce aad plaintext *)
  p_open : N -> bytes -> bytes -> bytes -> bytes -> option bytes;     (* cipher key nonce aad ciphertext *)
  p_hkdf_sha1 : bytes -> bytes -> bytes -> N -> bytes;                (* ikm salt info len *)
  p_b3derive : bytes -> bytes -> bytes;                               (* context material -> 32 bytes *)
  p_b3hash : bytes -> bytes;
  p_aes_enc : bytes -> bytes -> bytes;                                (* key (16|32) block(16) *)
  p_aes_dec : bytes -> bytes -> bytes;
  p_md5 : bytes -> bytes;
  p_sha224 : bytes -> bytes;
  p_sha256 : bytes -> bytes;
  p_shake128 : bytes -> N -> bytes;                                   (* seed, number of output bytes *)
  p_crc32 : bytes -> N
}.

Definition TAG : N := 16.
Definition cipher_key_size (c : N) : N := if c =? 0 then 16 else 32.
Definition cipher_nonce_size (c : N) : N := if (c =? 4) || (c =? 5) then 24 else 12.

Record prim_laws (P : prims) : Prop := {
  open_seal : forall c k n a m, p_open P c k n a (p_seal P c k n a m) = Some m;
  seal_len : forall c k n a m, lenN (p_seal P c k n a m) = lenN m + TAG;
  open_len : forall c k n a ct m, p_open P c k n a ct = Some m -> lenN ct = lenN m + TAG;
  aes_dec_enc : forall k b, p_aes_dec P k (p_aes_enc P k b) = b;
  aes_enc_dec : forall k b, p_aes_enc P k (p_aes_dec P k b) = b
}.
