(* Bytes, partial cursor operations with explicit Panic, big-endian numbers.
   byte := N (range < 256 is a side condition where it matters), lengths are N. *)
From Coq Require Import NArith List Lia ZArith ZifyBool ZifyN ZifyNat.
Import ListNotations.
Open Scope N_scope.

Definition bytes := list N.

(* error classes; error texts are never compared *)
Inductive err := EAead | EBadType | EBadTime | EReplay | EBadUser | EBadPassword | EBadAddrType
               | EBadCmd | EShort | EBadVersion | EBadAuth | EUtf8 | EBadLen | EOther.

(* outcome of a call into the implementation: a value, an error return, or a panic *)
Inductive res (A : Type) := Ok (a : A) | Err (e : err) | Panic.
Arguments Ok {A}. Arguments Err {A}. Arguments Panic {A}.

Definition bind {A B} (r : res A) (f : A -> res B) : res B :=
  match r with Ok a => f a | Err e => Err e | Panic => Panic end.
Notation "'let*' x ':=' r 'in' k" := (bind r (fun x => k)) (at level 200, x pattern, r at level 100, k at level 200).

Definition is_panic {A} (r : res A) : bool := match r with Panic => true | _ => false end.

Fixpoint lenN_acc (acc : N) (l : bytes) : N := match l with [] => acc | _ :: t => lenN_acc (N.succ acc) t end.
Definition lenN (l : bytes) : N := lenN_acc 0 l.

Definition takeN (n : N) (l : bytes) : bytes := firstn (N.to_nat n) l.
Definition dropN (n : N) (l : bytes) : bytes := skipn (N.to_nat n) l.

(* Buf::get_u8 / split_to / advance / copy_to_slice: panic when fewer bytes remain *)
Definition get_u8 (b : bytes) : res (N * bytes) := match b with [] => Panic | x :: t => Ok (x, t) end.
Definition split_to (n : N) (b : bytes) : res (bytes * bytes) :=
  if n <=? lenN b then Ok (takeN n b, dropN n b) else Panic.
Definition advance (n : N) (b : bytes) : res bytes := if n <=? lenN b then Ok (dropN n b) else Panic.

(* big-endian value of a byte string *)
Definition be (l : bytes) : N := fold_left (fun a x => a * 256 + x) l 0.
Definition get_be (k : N) (b : bytes) : res (N * bytes) := let* (h, t) := split_to k b in Ok (be h, t).
Definition get_u16 := get_be 2.
Definition get_u32 := get_be 4.
Definition get_u64 := get_be 8.
Definition get_u128 := get_be 16.

(* k-byte big-endian encoding of v mod 256^k (put_u16 of a value already reduced by `as u16`) *)
Fixpoint put_be_nat (k : nat) (v : N) : bytes :=
  match k with O => [] | S j => put_be_nat j (v / 256) ++ [v mod 256] end.
Definition put_be (k : N) (v : N) : bytes := put_be_nat (N.to_nat k) v.
Definition put_u16 := put_be 2.
Definition put_u32 := put_be 4.
Definition put_u64 := put_be 8.

(* slice indexing src[i] : panics when out of range *)
Definition index (b : bytes) (i : N) : res N := match nth_error b (N.to_nat i) with Some x => Ok x | None => Panic end.

Definition wf_bytes (l : bytes) : Prop := Forall (fun x => x < 256) l.
Definition wf_bytesb (l : bytes) : bool := forallb (fun x => x <? 256) l.

Definition bytes_eqb (a b : bytes) : bool := if list_eq_dec N.eq_dec a b then true else false.

(* ---------------- facts ---------------- *)
Lemma lenN_acc_spec l acc : lenN_acc acc l = acc + N.of_nat (length l).
Proof. revert acc; induction l as [|x t IH]; intro acc; cbn [lenN_acc length]; [lia|]. rewrite IH. lia. Qed.
Lemma lenN_spec l : lenN l = N.of_nat (length l).
Proof. unfold lenN. rewrite lenN_acc_spec. lia. Qed.
Lemma lenN_app a b : lenN (a ++ b) = lenN a + lenN b.
Proof. rewrite !lenN_spec, app_length. lia. Qed.
Lemma lenN_nil : lenN [] = 0. Proof. reflexivity. Qed.
Lemma lenN_cons x l : lenN (x :: l) = 1 + lenN l.
Proof. rewrite !lenN_spec. cbn [length]. lia. Qed.

Lemma takeN_app_exact a b : takeN (lenN a) (a ++ b) = a.
Proof. unfold takeN. rewrite lenN_spec, Nat2N.id. rewrite firstn_app, Nat.sub_diag, firstn_all. cbn. apply app_nil_r. Qed.
Lemma dropN_app_exact a b : dropN (lenN a) (a ++ b) = b.
Proof. unfold dropN. rewrite lenN_spec, Nat2N.id. rewrite skipn_app, Nat.sub_diag, skipn_all. reflexivity. Qed.
Lemma take_drop n l : takeN n l ++ dropN n l = l.
Proof. apply firstn_skipn. Qed.
Lemma lenN_takeN n l : n <= lenN l -> lenN (takeN n l) = n.
Proof. rewrite !lenN_spec. unfold takeN. rewrite firstn_length. lia. Qed.
Lemma lenN_dropN n l : lenN (dropN n l) = lenN l - n.
Proof. rewrite !lenN_spec. unfold dropN. rewrite skipn_length. lia. Qed.

Lemma split_to_app a b : split_to (lenN a) (a ++ b) = Ok (a, b).
Proof. unfold split_to. rewrite lenN_app. destruct (N.leb_spec (lenN a) (lenN a + lenN b)); [|lia].
       rewrite takeN_app_exact, dropN_app_exact. reflexivity. Qed.
Lemma split_to_ok n b : n <= lenN b -> split_to n b = Ok (takeN n b, dropN n b).
Proof. intros H. unfold split_to. destruct (N.leb_spec n (lenN b)); [reflexivity|lia]. Qed.
Lemma advance_ok n b : n <= lenN b -> advance n b = Ok (dropN n b).
Proof. intros H. unfold advance. destruct (N.leb_spec n (lenN b)); [reflexivity|lia]. Qed.
Lemma get_be_ok k b : k <= lenN b -> get_be k b = Ok (be (takeN k b), dropN k b).
Proof. intros H. unfold get_be. rewrite split_to_ok by assumption. reflexivity. Qed.

Lemma put_be_nat_length k v : length (put_be_nat k v) = k.
Proof. revert v; induction k as [|k IH]; intro v; cbn [put_be_nat]; [reflexivity|]. rewrite app_length, IH. cbn. lia. Qed.
Lemma lenN_put_be k v : lenN (put_be k v) = k.
Proof. unfold put_be. rewrite lenN_spec, put_be_nat_length. lia. Qed.

Lemma be_app a b : be (a ++ b) = be a * 256 ^ lenN b + be b.
Proof.
  unfold be. rewrite fold_left_app. generalize (fold_left (fun a0 x => a0 * 256 + x) a 0) as s.
  induction b as [|x t IH]; intro s; cbn [fold_left].
  - rewrite lenN_nil. change (256 ^ 0) with 1. ring.
  - rewrite IH. rewrite (IH (0 * 256 + x)). rewrite lenN_cons. replace (1 + lenN t) with (N.succ (lenN t)) by lia.
    rewrite N.pow_succ_r'. ring.
Qed.

Lemma be_put_be_nat k v : be (put_be_nat k v) = v mod 256 ^ N.of_nat k.
Proof.
  revert v; induction k as [|k IH]; intro v; cbn [put_be_nat].
  - cbn. rewrite N.mod_1_r. reflexivity.
  - rewrite be_app, IH. change (lenN [v mod 256]) with 1. change (be [v mod 256]) with (0 * 256 + v mod 256).
    rewrite Nat2N.inj_succ, N.pow_succ_r'. rewrite N.pow_1_r.
    assert (0 < 256 ^ N.of_nat k) by (apply N.neq_0_lt_0, N.pow_nonzero; lia).
    set (P := 256 ^ N.of_nat k) in *.
    rewrite N.mod_mul_r by lia. ring.
Qed.
Lemma be_put_be k v : v < 256 ^ k -> be (put_be k v) = v.
Proof. intros H. unfold put_be. rewrite be_put_be_nat, N2Nat.id. apply N.mod_small. assumption. Qed.

Lemma put_be_nat_wf k v : wf_bytes (put_be_nat k v).
Proof. revert v; induction k as [|k IH]; intro v; cbn [put_be_nat]; [constructor|].
       apply Forall_app. split; [apply IH|]. constructor; [|constructor]. apply N.mod_lt. lia. Qed.

Lemma get_be_put_be k v t : v < 256 ^ k -> get_be k (put_be k v ++ t) = Ok (v, t).
Proof.
  intros H. unfold get_be. replace k with (lenN (put_be k v)) at 1 by apply lenN_put_be.
  rewrite split_to_app. cbn [bind]. rewrite be_put_be by assumption. reflexivity.
Qed.
