//! T1 for the Shadowsocks TCP codec (legacy AEAD and 2022): scripts of encode / feed-segment operations on the
//! real `AEADCipherCodec<N>` (+ Context, Session), mirrored by Model/SsTcp.v through Lib/Framed.v.
//!
//! case: sstcp \t kind \t key \t ikeys(csv) \t users(csv hash:key, "none" = no user manager) \t mode \t own_salt \t addr|- \t now \t ops
//! ops (';' separated):  E<hex> encode item (bytes compared) | e<hex> encode item (only status compared: random padding)
//!                       D<hex> bytes arrive, FramedRead-style drain | N new connection (fresh codec+session, same context/salt cache)
//!                       S<k> switch to connection k of the same context | T<secs> the clock now reads <secs> (later ops, every connection)
use std::io::Write;
use std::sync::Arc;

use bytes::BytesMut;
use octo_squirrel::codec::aead::CipherKind;
use octo_squirrel::codec::shadowsocks::tcp::{AEADCipherCodec, Context, Identity, Session};
use octo_squirrel::manager::shadowsocks::{ServerUser, ServerUserManager};
use octo_squirrel::protocol::shadowsocks::Mode;

use crate::canon::{addr_str, classify, parse_addr};
use crate::prims;
use crate::rng::Rng;
use crate::util::{catch, hex, unhex};

pub const KINDS: [&str; 7] = ["a128", "a256", "cc20", "22a128", "22a256", "22cc8", "22cc20"];

pub fn kind_of(s: &str) -> (CipherKind, usize, bool, &'static str) {
    match s {
        "a128" => (CipherKind::Aes128Gcm, 16, false, "aes128gcm"),
        "a256" => (CipherKind::Aes256Gcm, 32, false, "aes256gcm"),
        "cc20" => (CipherKind::ChaCha20Poly1305, 32, false, "chacha20"),
        "22a128" => (CipherKind::Aead2022Blake3Aes128Gcm, 16, true, "aes128gcm"),
        "22a256" => (CipherKind::Aead2022Blake3Aes256Gcm, 32, true, "aes256gcm"),
        "22cc8" => (CipherKind::Aead2022Blake3ChaCha8Poly1305, 32, true, "chacha8"),
        _ => (CipherKind::Aead2022Blake3ChaCha20Poly1305, 32, true, "chacha20"),
    }
}

fn arr<const N: usize>(b: &[u8]) -> [u8; N] {
    let mut a = [0u8; N];
    a.copy_from_slice(&b[..N]);
    a
}

fn csv(s: &str) -> Vec<&str> {
    if s == "-" || s.is_empty() { vec![] } else { s.split(',').collect() }
}

fn run_script<const N: usize>(kind: CipherKind, f: &[&str]) -> Vec<String> {
    let key: [u8; N] = arr(&unhex(f[2]));
    let ikeys: Vec<[u8; N]> = csv(f[3]).iter().map(|h| arr(&unhex(h))).collect();
    let um = if f[4] == "none" {
        None
    } else {
        let mut m: ServerUserManager<N> = ServerUserManager::new();
        for u in csv(f[4]) {
            let (h, k) = u.split_once(':').unwrap();
            m.add_user(ServerUser { name: "u".into(), key: arr(&unhex(k)), identity_hash: arr(&unhex(h)) });
        }
        Some(Arc::new(m))
    };
    let mode = if f[5] == "client" { Mode::Client } else { Mode::Server };
    let own_salt: [u8; N] = arr(&unhex(f[6]));
    let addr = if f[7] == "-" { None } else { Some(parse_addr(f[7])) };
    let now: i64 = f[8].parse().unwrap();
    octo_squirrel::verif_clock::set(Some(now));
    let context = Context::new(key, ikeys, kind, um);
    let new_conn = || (AEADCipherCodec::<N>::default(), Session::new(mode, Identity { salt: own_salt, request_salt: None, user: None }, addr.clone()));
    let (mut codec, mut session) = new_conn();
    let mut buf = BytesMut::new();
    let mut out = Vec::new();
    let mut dead = false;
    let mut cur: usize = 0;
    let mut parked: Vec<(usize, AEADCipherCodec<N>, Session<N>, BytesMut, bool)> = Vec::new();
    for op in f[9].split(';') {
        if op.is_empty() {
            continue;
        }
        if dead && op != "N" && !op.starts_with('S') && !op.starts_with('T') {
            out.push("SKIP".to_string());
            continue;
        }
        let (c, arg) = op.split_at(1);
        match c {
            "S" => {
                // switch to connection <k> of the same context (created on first use): interleaved connections
                let k: usize = arg.parse().unwrap();
                parked.push((cur, std::mem::replace(&mut codec, AEADCipherCodec::<N>::default()), std::mem::replace(&mut session, new_conn().1), std::mem::take(&mut buf), dead));
                if let Some(pos) = parked.iter().position(|p| p.0 == k) {
                    let p = parked.remove(pos);
                    codec = p.1;
                    session = p.2;
                    buf = p.3;
                    dead = p.4;
                } else {
                    dead = false;
                }
                cur = k;
                out.push(format!("CONN{}", k));
            }
            "T" => {
                // the clock moves on (a slow peer, a long-lived connection): validate_timestamp / new_header read it again
                octo_squirrel::verif_clock::set(Some(arg.parse().unwrap()));
                out.push("CLOCK".into());
            }
            "N" => {
                let (c2, s2) = new_conn();
                codec = c2;
                session = s2;
                buf = BytesMut::new();
                dead = false;
                out.push("NEW".into());
            }
            "E" | "e" => {
                let item = BytesMut::from(&unhex(arg)[..]);
                let r = catch(|| {
                    let mut dst = BytesMut::new();
                    codec.encode(&context, &session, item, &mut dst).map(|_| dst)
                });
                out.push(match r {
                    Ok(Ok(d)) => {
                        if c == "E" { format!("OK {}", hex(&d)) } else { "OK".into() }
                    }
                    Ok(Err(e)) => {
                        dead = true;
                        format!("ERR {}", classify(&e))
                    }
                    Err(_) => {
                        dead = true;
                        "PANIC".into()
                    }
                });
            }
            _ => {
                buf.extend_from_slice(&unhex(arg));
                let mut items: Vec<String> = Vec::new();
                let mut status = String::from("WAIT");
                // FramedRead: call decode until it returns None; an item without progress would be a livelock
                for round in 0..(buf.len() + 3) {
                    let r = catch(|| codec.decode(&context, &mut session, &mut buf));
                    match r {
                        Ok(Ok(Some(it))) => items.push(hex(&it)),
                        Ok(Ok(None)) => break,
                        Ok(Err(e)) => {
                            status = format!("ERR {}", classify(&e));
                            dead = true;
                            break;
                        }
                        Err(_) => {
                            status = "PANIC".into();
                            dead = true;
                            break;
                        }
                    }
                    if round == buf.len() + 2 {
                        status = "LIVELOCK".into();
                        dead = true;
                    }
                }
                if dead {
                    out.push(format!("{} [{}]", status, items.join(",")));
                } else {
                    out.push(format!("{} [{}] rest={} addr={}", status, items.join(","), buf.len(), session.address.as_ref().map(addr_str).unwrap_or("-".into())));
                }
            }
        }
    }
    octo_squirrel::verif_clock::set(None);
    vec![out.join(" | ")]
}

pub fn exec(f: &[&str]) -> Vec<String> {
    let (kind, n, _, _) = kind_of(f[1]);
    if n == 16 { run_script::<16>(kind, f) } else { run_script::<32>(kind, f) }
}

// ------------------------------------------------------------------------------------------------
// a small reference builder for shadowsocks-2022 stream headers (used to craft authenticated-but-unusual
// inputs: wrong type byte, boundary timestamps, wrong request-salt echo, malformed address, long padding)
fn nonce_le(k: u64) -> Vec<u8> {
    let mut n = vec![0u8; 12];
    n[..8].copy_from_slice(&k.to_le_bytes());
    n
}
pub struct Craft<'a> {
    pub cipher: &'a str,
    pub key: &'a [u8],
    pub n: usize,
}
impl Craft<'_> {
    pub fn subkey(&self, salt: &[u8]) -> Vec<u8> {
        let mut m = self.key.to_vec();
        m.extend_from_slice(salt);
        let k = blake3::derive_key("shadowsocks 2022 session subkey", &m).to_vec();
        k[..if self.cipher == "aes128gcm" { 16 } else { 32 }].to_vec()
    }
    /// salt ‖ [eih] ‖ seal(fixed) ‖ seal(var)
    pub fn stream_head(&self, salt: &[u8], eih: &[u8], ty: u8, ts: u64, req_salt: &[u8], var: &[u8], len_field: Option<u16>) -> Vec<u8> {
        let sk = self.subkey(salt);
        let mut fixed = vec![ty];
        fixed.extend_from_slice(&ts.to_be_bytes());
        fixed.extend_from_slice(req_salt);
        fixed.extend_from_slice(&len_field.unwrap_or(var.len() as u16).to_be_bytes());
        let mut out = salt.to_vec();
        out.extend_from_slice(eih);
        out.extend_from_slice(&prims::aead(self.cipher, true, &sk, &nonce_le(0), &[], &fixed).unwrap());
        out.extend_from_slice(&prims::aead(self.cipher, true, &sk, &nonce_le(1), &[], var).unwrap());
        out
    }
}

fn segmentations(rng: &mut Rng, w: &[u8], focus: usize, count: usize) -> Vec<Vec<Vec<u8>>> {
    // whole; every single cut in the first `focus`+14 bytes (sampled); random multi-cuts; byte-by-byte for short streams
    let mut v = vec![vec![w.to_vec()]];
    let lim = (focus + 14).min(w.len().saturating_sub(1));
    let mut cuts: Vec<usize> = (1..=lim).collect();
    while cuts.len() > count {
        let i = rng.below(cuts.len() as u64) as usize;
        cuts.remove(i);
    }
    for c in cuts {
        v.push(vec![w[..c].to_vec(), w[c..].to_vec()]);
    }
    for _ in 0..count / 2 {
        let k = rng.range(2, 6) as usize;
        let mut ps: Vec<usize> = (0..k).map(|_| rng.range(1, w.len().max(2) as u64 - 1) as usize).collect();
        ps.sort();
        ps.dedup();
        let mut segs = Vec::new();
        let mut last = 0;
        for p in ps {
            if p > last && p < w.len() {
                segs.push(w[last..p].to_vec());
                last = p;
            }
        }
        segs.push(w[last..].to_vec());
        v.push(segs);
    }
    if w.len() <= 200 {
        v.push(w.iter().map(|b| vec![*b]).collect());
    }
    v
}

fn ops_d(segs: &[Vec<u8>]) -> String {
    segs.iter().map(|s| format!("D{}", hex(s))).collect::<Vec<_>>().join(";")
}

pub fn generate(w: &mut dyn Write, seed: u64, thorough: bool) {
    let mut rng = Rng::new(seed);
    let now: i64 = 1_790_000_000;
    let per = if thorough { 40 } else { 10 };
    for kname in KINDS {
        let (_, n, is22, cipher) = kind_of(kname);
        let key = rng.bytes(n);
        let addrs = ["D:6578616d706c652e636f6d:443".to_string(), "4:7f000001:80".into(), format!("6:{}:8080", "20010db8".repeat(4)), format!("D:{}:1", "61".repeat(255))];
        // user tables (2022 AES kinds only): server key = key, client enc key = user key, identity key = server key
        let user_cfgs: Vec<Option<Vec<Vec<u8>>>> = if kname == "22a128" || kname == "22a256" { vec![None, Some(vec![rng.bytes(n)]), Some(vec![rng.bytes(n), rng.bytes(n), rng.bytes(n)])] } else { vec![None] };
        for users in &user_cfgs {
            let users_s = match users {
                None => "none".to_string(),
                Some(us) => us.iter().map(|k| format!("{}:{}", hex(&blake3::hash(k).as_bytes()[..16]), hex(k))).collect::<Vec<_>>().join(","),
            };
            for (ai, addr) in addrs.iter().enumerate() {
                let writes: Vec<Vec<u8>> = match ai {
                    0 => vec![rng.bytes(1), rng.bytes(300)],
                    1 => vec![rng.bytes(17)],
                    2 => vec![rng.bytes(70000)],
                    _ => vec![rng.bytes(5), rng.bytes(0x4000), rng.bytes(3)],
                };
                if ai == 2 && !thorough && users.is_some() {
                    continue;
                }
                let csalt = rng.bytes(n);
                let ssalt = rng.bytes(n);
                // which user does the client use: last of the table
                let (ckey, cikeys) = match users {
                    Some(us) => (us.last().unwrap().clone(), hex(&key)),
                    None => (key.clone(), "-".to_string()),
                };
                // 1. client encodes the request (bytes compared with the model)
                let eops: Vec<String> = writes.iter().map(|x| format!("E{}", hex(x))).collect();
                let cargs: Vec<String> = vec!["sstcp".into(), kname.into(), hex(&ckey), cikeys.clone(), "none".into(), "client".into(), hex(&csalt), addr.clone(), now.to_string(), eops.join(";")];
                let cf: Vec<&str> = cargs.iter().map(|s| s.as_str()).collect();
                let r = exec(&cf);
                crate::emit_case(w, &cargs, exec);
                let wires: Vec<Vec<u8>> = r[0].split(" | ").filter_map(|x| x.strip_prefix("OK ")).map(unhex).collect();
                if wires.len() != writes.len() {
                    continue;
                }
                let req: Vec<u8> = wires.concat();
                // 2. server decodes the request under many segmentations, then encodes a response
                let resp_writes = [rng.bytes(2), rng.bytes(1000)];
                let head = n + if users.is_some() { 16 } else { 0 } + if is22 { 27 } else { 0 };
                let mut resp_wire: Vec<u8> = Vec::new();
                let per_here = if ai == 2 { 2 } else { per };
                for (si, segs) in segmentations(&mut rng, &req, head, per_here).iter().enumerate() {
                    let mut ops = ops_d(segs);
                    for x in &resp_writes {
                        ops.push_str(&format!(";E{}", hex(x)));
                    }
                    let sargs: Vec<String> = vec!["sstcp".into(), kname.into(), hex(&key), "-".into(), users_s.clone(), "server".into(), hex(&ssalt), "-".into(), now.to_string(), ops, if !is22 || segs[0].len() >= head { format!("@x={}", hex(&writes.concat())) } else { "@-".to_string() }];
                    if si == 0 {
                        let sf: Vec<&str> = sargs.iter().map(|s| s.as_str()).collect();
                        let r = exec(&sf);
                        resp_wire = r[0].split(" | ").filter_map(|x| x.strip_prefix("OK ")).map(unhex).collect::<Vec<_>>().concat();
                    }
                    crate::emit_case(w, &sargs, exec);
                }
                // replay of the same request on a new connection (same context)
                let sargs: Vec<String> = vec!["sstcp".into(), kname.into(), hex(&key), "-".into(), users_s.clone(), "server".into(), hex(&ssalt), "-".into(), now.to_string(), format!("D{};N;D{};N;D{}", hex(&req), hex(&req), hex(&req[..req.len().min(head + 40)]))];
                crate::emit_case(w, &sargs, exec);
                // replay across INTERLEAVED connections: connection 0 receives the request up to a cut (header complete, first
                // payload not), connection 1 receives the whole request, then connection 0 receives the rest
                if is22 {
                    for cut in [head, head + 1, head + 5, req.len() - 1] {
                        if cut < req.len() {
                            let ops = format!("S0;D{};S1;D{};S0;D{};S2;D{}", hex(&req[..cut]), hex(&req), hex(&req[cut..]), hex(&req));
                            let sargs: Vec<String> = vec!["sstcp".into(), kname.into(), hex(&key), "-".into(), users_s.clone(), "server".into(), hex(&ssalt), "-".into(), now.to_string(), ops];
                            crate::emit_case(w, &sargs, exec);
                        }
                    }
                }
                // 3. client decodes the response under segmentations (after having encoded its request)
                if !resp_wire.is_empty() {
                    let rhead = n + if is22 { 11 + n + 16 } else { 0 };
                    for segs in segmentations(&mut rng, &resp_wire, rhead, per) {
                        let ops = format!("E{};{}", hex(&writes[0]), ops_d(&segs));
                        let a: Vec<String> = vec!["sstcp".into(), kname.into(), hex(&ckey), cikeys.clone(), "none".into(), "client".into(), hex(&csalt), addr.clone(), now.to_string(), ops, if !is22 || segs[0].len() >= rhead { format!("@x={}", hex(&resp_writes.concat())) } else { "@-".to_string() }];
                        crate::emit_case(w, &a, exec);
                    }
                    // a response made for ANOTHER client's request (different request salt) must be refused (2022)
                    let other = rng.bytes(n);
                    let ops = format!("E{};D{}", hex(&writes[0]), hex(&resp_wire));
                    let a: Vec<String> = vec!["sstcp".into(), kname.into(), hex(&ckey), cikeys.clone(), "none".into(), "client".into(), hex(&other), addr.clone(), now.to_string(), ops, if is22 { "@n".to_string() } else { "@-".to_string() }];
                    crate::emit_case(w, &a, exec);
                    // reflection: the client's own request bytes come back
                    let ops = format!("E{};D{}", hex(&writes[0]), hex(&req));
                    let a: Vec<String> = vec!["sstcp".into(), kname.into(), hex(&ckey), cikeys.clone(), "none".into(), "client".into(), hex(&csalt), addr.clone(), now.to_string(), ops, if is22 { "@n".to_string() } else { "@-".to_string() }];
                    crate::emit_case(w, &a, exec);
                }
                // 4. mutations of the request: every truncation point near the header, bit flips, chunk duplication
                if ai <= 1 {
                    let lim = (head + 60).min(req.len());
                    for cut in (0..lim).step_by(if thorough { 1 } else { 3 }) {
                        let sargs: Vec<String> = vec!["sstcp".into(), kname.into(), hex(&key), "-".into(), users_s.clone(), "server".into(), hex(&ssalt), "-".into(), now.to_string(), format!("D{}", hex(&req[..cut])), format!("@p={}", hex(&writes.concat()))];
                        crate::emit_case(w, &sargs, exec);
                    }
                    let flips = if thorough { req.len().min(400) * 8 } else { 60 };
                    for j in 0..flips {
                        let bit = if thorough { j } else { rng.below((req.len().min(400) * 8) as u64) as usize };
                        let mut m = req.clone();
                        m[bit / 8] ^= 1 << (bit % 8);
                        let sargs: Vec<String> = vec!["sstcp".into(), kname.into(), hex(&key), "-".into(), users_s.clone(), "server".into(), hex(&ssalt), "-".into(), now.to_string(), format!("D{}", hex(&m)), format!("@p={}", hex(&writes.concat()))];
                        crate::emit_case(w, &sargs, exec);
                    }
                }
            }
            // 4b. tiny chunks: writes of 1, 1, 2, 3, 15, 16, 17, 18, 19 and 1 bytes (around the tag and size-field lengths);
            //     every two-cut of the whole stream and byte-by-byte delivery: a chunk shorter than a length field must be
            //     delivered as soon as its last byte has arrived
            if users.is_none() || thorough {
                let tiny: Vec<Vec<u8>> = [1usize, 1, 2, 3, 15, 16, 17, 18, 19, 1].iter().map(|&l| rng.bytes(l)).collect();
                let csalt = rng.bytes(n);
                let (ckey, cikeys) = match users {
                    Some(us) => (us.last().unwrap().clone(), hex(&key)),
                    None => (key.clone(), "-".to_string()),
                };
                let eops: Vec<String> = tiny.iter().map(|x| format!("E{}", hex(x))).collect();
                let cargs: Vec<String> = vec!["sstcp".into(), kname.into(), hex(&ckey), cikeys.clone(), "none".into(), "client".into(), hex(&csalt), "4:7f000001:80".into(), now.to_string(), eops.join(";")];
                let cf: Vec<&str> = cargs.iter().map(|s| s.as_str()).collect();
                let r = exec(&cf);
                crate::emit_case(w, &cargs, exec);
                let parts: Vec<Vec<u8>> = r[0].split(" | ").filter_map(|x| x.strip_prefix("OK ")).map(unhex).collect();
                if parts.len() == tiny.len() {
                    let req: Vec<u8> = parts.concat();
                    let head = n + if users.is_some() { 16 } else { 0 } + if is22 { 27 } else { 0 };
                    let expect = format!("@x={}", hex(&tiny.concat()));
                    let mut cuts: Vec<Vec<Vec<u8>>> = (1..req.len()).map(|c| vec![req[..c].to_vec(), req[c..].to_vec()]).collect();
                    cuts.push(req.iter().map(|b| vec![*b]).collect());
                    // the stream also as: first write whole, then byte by byte
                    let mut fb = vec![req[..parts[0].len()].to_vec()];
                    fb.extend(req[parts[0].len()..].iter().map(|b| vec![*b]));
                    cuts.push(fb);
                    // tampering inside a stream of tiny chunks that arrives in ONE read (several chunks are decoded by one call): a bit
                    // of every byte is flipped (thorough: every bit); only a prefix of the written bytes may be released, nothing after
                    let pfx = format!("@p={}", hex(&tiny.concat()));
                    for i in 0..req.len() {
                        for b in 0..8 {
                            if !thorough && b != i % 8 {
                                continue;
                            }
                            let mut m = req.clone();
                            m[i] ^= 1 << b;
                            let sargs: Vec<String> = vec!["sstcp".into(), kname.into(), hex(&key), "-".into(), users_s.clone(), "server".into(), hex(&rng.bytes(n)), "-".into(), now.to_string(), format!("D{}", hex(&m)), pfx.clone()];
                            crate::emit_case(w, &sargs, exec);
                        }
                    }
                    for segs in cuts {
                        let meta = if !is22 || segs[0].len() >= head { expect.clone() } else { "@-".to_string() };
                        let sargs: Vec<String> = vec!["sstcp".into(), kname.into(), hex(&key), "-".into(), users_s.clone(), "server".into(), hex(&rng.bytes(n)), "-".into(), now.to_string(), ops_d(&segs), meta];
                        crate::emit_case(w, &sargs, exec);
                    }
                }
            }
            // 4b'. multi-user server: an identity header that names NO registered user must be refused whatever key sealed the request --
            //      sealed under the server key itself (a peer that knows only the server key), under an unregistered user key, and a
            //      registered user's request whose identity header was replaced by random bytes
            if let Some(us) = users {
                let stranger = rng.bytes(n);
                for (ck, what) in [(key.clone(), "server-key"), (stranger.clone(), "stranger")] {
                    let _ = what;
                    let cargs: Vec<String> = vec!["sstcp".into(), kname.into(), hex(&ck), hex(&key), "none".into(), "client".into(), hex(&rng.bytes(n)), "4:7f000001:80".into(), now.to_string(), format!("E{}", hex(b"GET / HTTP/1.1\r\n\r\n"))];
                    let cf: Vec<&str> = cargs.iter().map(|s| s.as_str()).collect();
                    let r = exec(&cf);
                    if let Some(wire) = r[0].split(" | ").next().and_then(|x| x.strip_prefix("OK ")).map(unhex) {
                        let sargs: Vec<String> = vec!["sstcp".into(), kname.into(), hex(&key), "-".into(), users_s.clone(), "server".into(), hex(&rng.bytes(n)), "-".into(), now.to_string(), format!("D{}", hex(&wire)), "@n".to_string()];
                        crate::emit_case(w, &sargs, exec);
                    }
                }
                let good = us.last().unwrap().clone();
                let cargs: Vec<String> = vec!["sstcp".into(), kname.into(), hex(&good), hex(&key), "none".into(), "client".into(), hex(&rng.bytes(n)), "4:7f000001:80".into(), now.to_string(), format!("E{}", hex(b"hello"))];
                let cf: Vec<&str> = cargs.iter().map(|s| s.as_str()).collect();
                if let Some(mut wire) = exec(&cf)[0].split(" | ").next().and_then(|x| x.strip_prefix("OK ")).map(unhex) {
                    for i in n..n + 16 {
                        wire[i] = rng.bytes(1)[0];
                    }
                    let sargs: Vec<String> = vec!["sstcp".into(), kname.into(), hex(&key), "-".into(), users_s.clone(), "server".into(), hex(&rng.bytes(n)), "-".into(), now.to_string(), format!("D{}", hex(&wire)), "@n".to_string()];
                    crate::emit_case(w, &sargs, exec);
                }
            }
            // 4c. chains of identity keys (iPSK0:iPSK1:...:uPSK): header i is keyed by iPSK_i and names the NEXT key; only the client
            //     builds such chains (the server here handles one level), so the bytes are compared with the model of the specification
            if users.is_none() && (kname == "22a128" || kname == "22a256") {
                for levels in [2usize, 3, 4] {
                    let iks: Vec<Vec<u8>> = (0..levels).map(|_| rng.bytes(n)).collect();
                    let iks_s = iks.iter().map(|k| hex(k)).collect::<Vec<_>>().join(",");
                    let eops = format!("E{};E{}", hex(&rng.bytes(40)), hex(&rng.bytes(5)));
                    let cargs: Vec<String> = vec!["sstcp".into(), kname.into(), hex(&rng.bytes(n)), iks_s, "none".into(), "client".into(), hex(&rng.bytes(n)), "D:6578616d706c652e636f6d:443".into(), now.to_string(), eops];
                    crate::emit_case(w, &cargs, exec);
                }
            }
            // 5. crafted 2022 heads: type byte, timestamps around the boundary, echo, malformed plaintext
            if is22 {
                let cr = Craft { cipher, key: &key, n };
                let good_var = {
                    let mut v = vec![1u8, 127, 0, 0, 1, 0, 80, 0, 3, 9, 9, 9];
                    v.extend_from_slice(b"hello");
                    v
                };
                if users.is_none() {
                    for (ty, dt) in [(0u8, 0i64), (1, 0), (2, 0), (255, 0), (0, 29), (0, 30), (0, 31), (0, -29), (0, -30), (0, -31), (0, 3600), (0, -3600)] {
                        let salt = rng.bytes(n);
                        let wire = cr.stream_head(&salt, &[], ty, (now + dt) as u64, &[], &good_var, None);
                        let sargs: Vec<String> = vec!["sstcp".into(), kname.into(), hex(&key), "-".into(), "none".into(), "server".into(), hex(&rng.bytes(n)), "-".into(), now.to_string(), format!("D{}", hex(&wire))];
                        crate::emit_case(w, &sargs, exec);
                    }
                    // authenticated but malformed variable part: every length 0..=24 of garbage, bad address types, padding beyond the end
                    for l in 0..=24usize {
                        let mut var = rng.bytes(l);
                        if l > 0 {
                            var[0] = *rng.pick(&[1u8, 3, 4, 1, 3, 4, 0, 9]);
                        }
                        let salt = rng.bytes(n);
                        let wire = cr.stream_head(&salt, &[], 0, now as u64, &[], &var, None);
                        let sargs: Vec<String> = vec!["sstcp".into(), kname.into(), hex(&key), "-".into(), "none".into(), "server".into(), hex(&rng.bytes(n)), "-".into(), now.to_string(), format!("D{}", hex(&wire))];
                        crate::emit_case(w, &sargs, exec);
                    }
                    for padlen in [0u16, 1, 5, 6, 900, 65535] {
                        let mut var = vec![1u8, 127, 0, 0, 1, 0, 80];
                        var.extend_from_slice(&padlen.to_be_bytes());
                        var.extend_from_slice(&[7u8; 5]);
                        let salt = rng.bytes(n);
                        let wire = cr.stream_head(&salt, &[], 0, now as u64, &[], &var, None);
                        let sargs: Vec<String> = vec!["sstcp".into(), kname.into(), hex(&key), "-".into(), "none".into(), "server".into(), hex(&rng.bytes(n)), "-".into(), now.to_string(), format!("D{}", hex(&wire))];
                        crate::emit_case(w, &sargs, exec);
                    }
                    // responses to a client: type, time, echo
                    let csalt = rng.bytes(n);
                    for (ty, dt, echo_ok) in [(1u8, 0i64, true), (0, 0, true), (1, 31, true), (1, -30, true), (1, 0, false)] {
                        let salt = rng.bytes(n);
                        let echo = if echo_ok { csalt.clone() } else { rng.bytes(n) };
                        let wire = cr.stream_head(&salt, &[], ty, (now + dt) as u64, &echo, b"response", None);
                        let a: Vec<String> = vec!["sstcp".into(), kname.into(), hex(&key), "-".into(), "none".into(), "client".into(), hex(&csalt), "4:7f000001:80".into(), now.to_string(), format!("Eaa;D{}", hex(&wire))];
                        crate::emit_case(w, &a, exec);
                    }
                }
                // first payload empty: random padding, only the status is compared
                let a: Vec<String> = vec!["sstcp".into(), kname.into(), hex(&key), "-".into(), "none".into(), "client".into(), hex(&rng.bytes(n)), "4:7f000001:80".into(), now.to_string(), "e-;Eabcd".into()];
                crate::emit_case(w, &a, exec);
            }
        }
        // 6. malformed stream: random bytes of many lengths (first read sizes around every threshold)
        for l in (0..140).step_by(if thorough { 1 } else { 3 }) {
            let sargs: Vec<String> = vec!["sstcp".into(), kname.into(), hex(&key), "-".into(), "none".into(), "server".into(), hex(&rng.bytes(n)), "-".into(), now.to_string(), format!("D{}", hex(&rng.bytes(l))), "@n".to_string()];
            crate::emit_case(w, &sargs, exec);
            let a: Vec<String> = vec!["sstcp".into(), kname.into(), hex(&key), "-".into(), "none".into(), "client".into(), hex(&rng.bytes(n)), "4:7f000001:80".into(), now.to_string(), format!("Eaa;D{}", hex(&rng.bytes(l))), "@n".to_string()];
            crate::emit_case(w, &a, exec);
        }
    }
    // dimensions added by the audit of seeded/audit/aud-sst.md (own Rng stream: the cases above stay what they were for a seed)
    crate::aud_sstcp::generate(w, seed, thorough);
}
