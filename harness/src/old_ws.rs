//! SEEDED MUTANT, never used in a normal run: the `Stream` half of `WebSocketFramed` as it was BEFORE the repository's commit
//! "fix: WebSocketFramed delivers every complete frame, registers its wakeup, and stops after a decode error"
//! (copied from `git show bd2af1f^:octo-squirrel/src/codec.rs`).  With VERIF_ADAPTERS_MUTANT=oldws the component `adapters`
//! runs its WebSocket ways through this adapter instead of the real one; the run must then report disagreements
//! (one item per message, Pending without a registered waker, decoding after an error).  This validates the component.
use std::pin::Pin;
use std::task::{Context, Poll, ready};

use bytes::BytesMut;
use futures::{Stream, StreamExt};
use tokio::io::{AsyncRead, AsyncWrite};
use tokio_util::codec::Decoder;
use tokio_websockets::WebSocketStream;

pub struct OldWebSocketFramed<T, C> {
    stream: WebSocketStream<T>,
    codec: C,
    buffer: Option<BytesMut>,
}

impl<T, C> OldWebSocketFramed<T, C> {
    pub fn new(stream: WebSocketStream<T>, codec: C) -> Self {
        Self { stream, codec, buffer: None }
    }
}

impl<T, C> Unpin for OldWebSocketFramed<T, C> {}

impl<T, C, D> Stream for OldWebSocketFramed<T, C>
where
    T: AsyncRead + AsyncWrite + Unpin,
    C: Decoder<Item = D, Error = anyhow::Error> + Unpin,
{
    type Item = anyhow::Result<D>;

    fn poll_next(mut self: Pin<&mut Self>, cx: &mut Context<'_>) -> Poll<Option<Self::Item>> {
        loop {
            match ready!(self.stream.poll_next_unpin(cx)) {
                Some(Ok(msg)) => {
                    if msg.is_binary() || msg.is_text() {
                        let mut payload = match self.buffer.take() {
                            Some(buffer) => {
                                let msg_payload = msg.as_payload();
                                let mut payload = BytesMut::with_capacity(buffer.len() + msg_payload.len());
                                payload.extend_from_slice(&buffer);
                                payload.extend_from_slice(msg_payload);
                                payload
                            }
                            None => BytesMut::from(msg.into_payload()),
                        };
                        let decoded = self.codec.decode(&mut payload);
                        if !payload.is_empty() {
                            self.buffer = Some(payload);
                        }
                        match decoded {
                            Ok(Some(item)) => return Poll::Ready(Some(Ok(item))),
                            Ok(None) => return Poll::Pending,
                            Err(e) => return Poll::Ready(Some(Err(e))),
                        }
                    }
                    continue;
                }
                Some(Err(e)) => return Poll::Ready(Some(Err(anyhow::anyhow!(e)))),
                None => return Poll::Ready(None),
            }
        }
    }
}
