//! T1 for the address codecs (C14, C07): socks5-style and vmess-style encode/decode on the public functions.
use std::io::Write;

use bytes::{Bytes, BytesMut};
use octo_squirrel::protocol::address::Address;
use octo_squirrel::protocol::socks5::address as s5;
use octo_squirrel::protocol::vmess::address as vm;

use crate::canon::{addr_str, classify, classify_str, parse_addr};
use crate::rng::Rng;
use crate::util::{catch, hex, unhex};

pub fn exec(f: &[&str]) -> Vec<String> {
    match f[0] {
        "s5enc" => {
            let a = parse_addr(f[1]);
            let r = catch(|| {
                let mut dst = BytesMut::new();
                s5::encode(&a, &mut dst);
                (dst, s5::length(&a))
            });
            match r {
                Ok((d, l)) => vec![format!("OK {} {}", hex(&d), l)],
                Err(_) => vec!["PANIC".into()],
            }
        }
        "s5dec" => {
            let src = unhex(f[1]);
            let r = catch(|| {
                let mut b = BytesMut::from(&src[..]);
                s5::decode(&mut b).map(|a| (a, b))
            });
            match r {
                Ok(Ok((a, rest))) => vec![format!("OK {} {}", addr_str(&a), hex(&rest))],
                Ok(Err(e)) => vec![format!("ERR {}", classify(&e))],
                Err(_) => vec!["PANIC".into()],
            }
        }
        "s5try" => {
            let src = unhex(f[1]);
            let at: usize = f[2].parse().unwrap();
            let r = catch(|| s5_try(&BytesMut::from(&src[..]), at));
            match r {
                Ok(x) => vec![x],
                Err(_) => vec!["PANIC".into()],
            }
        }
        "vmw" => {
            let a = parse_addr(f[1]);
            let r = catch(|| {
                let mut dst = BytesMut::new();
                vm::write_address_port(&a, &mut dst).map(|_| dst)
            });
            match r {
                Ok(Ok(d)) => vec![format!("OK {}", hex(&d))],
                Ok(Err(e)) => vec![format!("ERR {}", classify_str(&e.to_string()))],
                Err(_) => vec!["PANIC".into()],
            }
        }
        "vmr" => {
            let src = unhex(f[1]);
            let r = catch(|| {
                let mut b = Bytes::from(src.clone());
                vm::read_address_port(&mut b).map(|a| (a, b)).map_err(anyhow::Error::from)
            });
            match r {
                Ok(Ok((a, rest))) => vec![format!("OK {} {}", addr_str(&a), hex(&rest))],
                Ok(Err(e)) => vec![format!("ERR {}", classify(&e))],
                Err(_) => vec!["PANIC".into()],
            }
        }
        _ => vec!["UNKNOWN".into()],
    }
}

#[allow(unreachable_code)]
fn s5_try(src: &BytesMut, at: usize) -> String {
    // adapts to the signature in the tree: Result<usize> (original) or Result<Option<usize>> (repaired)
    trait Show {
        fn show(self) -> String;
    }
    impl Show for anyhow::Result<usize> {
        fn show(self) -> String {
            match self {
                Ok(n) => format!("SOME {}", n),
                Err(e) => format!("ERR {}", classify(&e)),
            }
        }
    }
    impl Show for anyhow::Result<Option<usize>> {
        fn show(self) -> String {
            match self {
                Ok(Some(n)) => format!("SOME {}", n),
                Ok(None) => "NONE".into(),
                Err(e) => format!("ERR {}", classify(&e)),
            }
        }
    }
    s5::try_decode_at(src, at).show()
}

fn host_of(rng: &mut Rng, len: usize, class: u64) -> Vec<u8> {
    match class {
        0 => (0..len).map(|i| b"abcdefghijklmnopqrstuvwxyz0123456789-."[(i * 7 + len) % 38]).collect(),
        1 => {
            // valid multi-byte UTF-8 (2-byte chars), padded with 'x' to the exact length
            let mut v = Vec::new();
            while v.len() + 2 <= len {
                v.extend_from_slice("é".as_bytes());
            }
            while v.len() < len {
                v.push(b'x');
            }
            v
        }
        2 => vec![0u8; len],
        3 => vec![b'.'; len],
        _ => (0..len).map(|_| rng.range(0x20, 0x7e) as u8).collect(),
    }
}

pub fn generate(w: &mut dyn Write, seed: u64, thorough: bool) {
    let mut rng = Rng::new(seed);
    let ports = [0u16, 1, 80, 443, 0x1234, 65535];
    let mut addrs: Vec<String> = Vec::new();
    // every host length 0..=1024 (quick: all up to 300, then a stride) x byte classes
    let lens: Vec<usize> = if thorough { (0..=1024).collect() } else { (0..=300).chain((301..=1024).step_by(37)).chain([511, 512, 513, 767, 768, 1023, 1024]).collect() };
    for &l in &lens {
        let classes: &[u64] = if thorough { &[0, 1, 2, 3, 4] } else if l <= 260 { &[0, 1] } else { &[0] };
        for &c in classes {
            let h = host_of(&mut rng, l, c);
            addrs.push(format!("D:{}:{}", hex(&h), rng.pick(&ports)));
        }
    }
    for _ in 0..(if thorough { 400 } else { 60 }) {
        addrs.push(format!("4:{}:{}", hex(&rng.bytes(4)), rng.pick(&ports)));
        addrs.push(format!("6:{}:{}", hex(&rng.bytes(16)), rng.pick(&ports)));
    }
    addrs.push("4:00000000:0".into());
    addrs.push("4:ffffffff:65535".into());
    addrs.push(format!("6:{}:65535", "ff".repeat(16)));
    // IPv6 addresses with a special meaning (unspecified, loopback, IPv4-mapped, IPv4-compatible, 6to4, link-local, multicast):
    // they are addresses like any other and must survive as the same 16 bytes
    for h in ["00000000000000000000000000000000", "00000000000000000000000000000001", "00000000000000000000ffff7f000001", "00000000000000000000ffffc0000201",
              "00000000000000000000ffff00000000", "00000000000000000000ffffffffffff", "000000000000000000000000c0000201", "0064ff9b0000000000000000c0000201",
              "2002c000020100000000000000000001", "fe800000000000000000000000000001", "ff020000000000000000000000000001", "20010db8000000000000000000000000"] {
        addrs.push(format!("6:{}:{}", h, rng.pick(&ports)));
    }
    for _ in 0..(if thorough { 64 } else { 8 }) {
        addrs.push(format!("6:00000000000000000000ffff{}:{}", hex(&rng.bytes(4)), rng.pick(&ports)));
    }
    let mut wires: Vec<Vec<u8>> = Vec::new();
    let mut vwires: Vec<Vec<u8>> = Vec::new();
    for a in &addrs {
        crate::emit_case(w, &["s5enc".into(), a.clone()], exec);
        crate::emit_case(w, &["vmw".into(), a.clone()], exec);
        let ad = parse_addr(a);
        let mut d = BytesMut::new();
        s5::encode(&ad, &mut d);
        wires.push(d.to_vec());
        if let Ok(Ok(d)) = catch(|| {
            let mut d = BytesMut::new();
            vm::write_address_port(&ad, &mut d).map(|_| d)
        }) {
            vwires.push(d.to_vec());
        }
    }
    // decode: each encoding followed by tails, at offsets, and every truncation of short ones
    for (i, wv) in wires.iter().enumerate() {
        let tail = rng.bytes_of(&[0usize, 0, 1, 2, 8, 33]);
        let mut x = wv.clone();
        x.extend_from_slice(&tail);
        crate::emit_case(w, &["s5dec".into(), hex(&x)], exec);
        let pre = rng.bytes_of(&[0usize, 1, 59]);
        let mut y = pre.clone();
        y.extend_from_slice(&x);
        crate::emit_case(w, &["s5try".into(), hex(&y), pre.len().to_string()], exec);
        if wv.len() <= 40 || i % 97 == 0 {
            for cut in 0..wv.len().min(300) {
                crate::emit_case(w, &["s5dec".into(), hex(&wv[..cut])], exec);
                if cut <= 3 {
                    crate::emit_case(w, &["s5try".into(), hex(&wv[..cut]), "0".into()], exec);
                    crate::emit_case(w, &["s5try".into(), hex(&wv[..cut]), cut.to_string()], exec);
                }
            }
        }
    }
    for (i, wv) in vwires.iter().enumerate() {
        let tail = rng.bytes_of(&[0usize, 0, 1, 4, 20]);
        let mut x = wv.clone();
        x.extend_from_slice(&tail);
        crate::emit_case(w, &["vmr".into(), hex(&x)], exec);
        if wv.len() <= 40 || i % 97 == 0 {
            for cut in 0..wv.len().min(300) {
                crate::emit_case(w, &["vmr".into(), hex(&wv[..cut])], exec);
            }
        }
    }
    // ---- dimension audit (seeded/audit/aud-vm.md), VMess-style reader: names at the length limits with the buffer one byte short /
    // exact / longer, the empty name, every class of invalid UTF-8 at the start, in the middle and cut off at the end of a name,
    // each type byte with nothing behind it, port extremes ----
    for l in [0usize, 1, 2, 127, 128, 254, 255] {
        for class in [0u64, 1, 2] {
            let h = host_of(&mut rng, l, class);
            let mut x = vec![0xffu8, 0xff, 2, l as u8];
            x.extend_from_slice(&h);
            crate::emit_case(w, &["vmr".into(), hex(&x)], exec);
            if l > 0 {
                crate::emit_case(w, &["vmr".into(), hex(&x[..x.len() - 1])], exec);
            }
            x.extend_from_slice(&rng.bytes_of(&[1usize, 4, 300]));
            crate::emit_case(w, &["vmr".into(), hex(&x)], exec);
        }
    }
    let bad: [&[u8]; 12] = [&[0xff], &[0x80], &[0xc3], &[0xc0, 0xaf], &[0xc1, 0xbf], &[0xe0, 0x80, 0x80], &[0xed, 0xa0, 0x80], &[0xed, 0xbf, 0xbf], &[0xf0, 0x80, 0x80, 0x80], &[0xf4, 0x90, 0x80, 0x80], &[0xf8, 0x88, 0x80, 0x80, 0x80], &[0xe2, 0x82]];
    let good: [&[u8]; 6] = [&[0xc2, 0x80], &[0xdf, 0xbf], &[0xe0, 0xa0, 0x80], &[0xed, 0x9f, 0xbf], &[0xf0, 0x90, 0x80, 0x80], &[0xf4, 0x8f, 0xbf, 0xbf]];
    for seq in bad.iter().chain(good.iter()) {
        for (pre, post) in [(0usize, 0usize), (3, 0), (0, 3), (2, 2), (255 - seq.len(), 0)] {
            let mut h = vec![b'a'; pre];
            h.extend_from_slice(seq);
            h.extend(vec![b'z'; post]);
            let mut x = vec![1u8, 0xbb, 2, h.len() as u8];
            x.extend_from_slice(&h);
            x.extend_from_slice(&rng.bytes_of(&[0usize, 2]));
            crate::emit_case(w, &["vmr".into(), hex(&x)], exec);
        }
    }
    for t in [1u8, 2, 3] {
        for port in [[0u8, 0], [0xff, 0xff]] {
            crate::emit_case(w, &["vmr".into(), hex(&[port[0], port[1], t])], exec);
            let need = [0usize, 4, 1, 16][t as usize];
            let mut x = vec![port[0], port[1], t];
            x.extend(vec![0u8; need]);
            crate::emit_case(w, &["vmr".into(), hex(&x)], exec);
            crate::emit_case(w, &["vmr".into(), hex(&x[..x.len() - 1])], exec);
        }
    }
    // malformed stream: random bytes, all type bytes, invalid UTF-8 hosts
    for t in 0..=255u8 {
        let mut x = vec![t];
        x.extend_from_slice(&rng.bytes_of(&[0usize, 1, 3, 6, 18, 40]));
        crate::emit_case(w, &["s5dec".into(), hex(&x)], exec);
        crate::emit_case(w, &["s5try".into(), hex(&x), "0".into()], exec);
        let mut y = rng.bytes(2);
        y.push(t);
        y.extend_from_slice(&rng.bytes_of(&[0usize, 1, 3, 6, 18, 40]));
        crate::emit_case(w, &["vmr".into(), hex(&y)], exec);
    }
    for _ in 0..(if thorough { 3000 } else { 300 }) {
        let n = rng.below(30) as usize;
        let mut x = rng.bytes(n);
        if !x.is_empty() && rng.chance(3, 4) {
            x[0] = *rng.pick(&[1u8, 3, 4]);
        }
        crate::emit_case(w, &["s5dec".into(), hex(&x)], exec);
        let mut y = rng.bytes(n);
        if y.len() > 2 && rng.chance(3, 4) {
            y[2] = *rng.pick(&[1u8, 2, 3]);
        }
        crate::emit_case(w, &["vmr".into(), hex(&y)], exec);
    }

    // ---- dimension audit (seeded/audit/aud-misc.md), SOCKS5-style part ----
    // (a) host byte classes the quick tier leaves to `thorough` (NUL bytes, dots only, printable incl. ':' '/' '@' ' ',
    //     bytes >= 0x80 that are not UTF-8, uniformly random bytes) at the boundary lengths of the one-byte length field and
    //     of a 16-bit length; (b) try_decode_at at, just before and beyond the end of the buffer; (c) a name whose declared
    //     length is one more / one less than what is there
    let mut rng = Rng::new(seed ^ 0x6164_6472_6175_6431);
    let mut lens: Vec<usize> = vec![0, 1, 2, 63, 64, 127, 128, 253, 254, 255, 256, 257, 300, 511, 512, 513];
    if thorough {
        lens.extend_from_slice(&[65535, 65536, 65537]);
    } else {
        lens.push(65536);
    }
    for &l in &lens {
        let classes: &[u64] = if l > 1024 { &[0] } else { &[2, 3, 4, 5, 6] };
        for &c in classes {
            let h: Vec<u8> = match c {
                5 => (0..l).map(|i| [0xffu8, 0xc3, 0x80, 0xe4, 0xb8][i % 5]).collect(),
                6 => rng.bytes(l),
                _ => host_of(&mut rng, l, c),
            };
            let a = format!("D:{}:{}", hex(&h), rng.pick(&ports));
            crate::emit_case(w, &["s5enc".into(), a.clone()], exec);
            if l <= 255 {
                // the wire as the layout defines it (not through the encoder), then a tail
                let mut wire = vec![3u8, l as u8];
                wire.extend_from_slice(&h);
                wire.extend_from_slice(&rng.pick(&ports).to_be_bytes());
                let n = wire.len();
                let tail = rng.bytes_of(&[0usize, 1, 7]);
                let full = [&wire[..], &tail[..]].concat();
                crate::emit_case(w, &["s5dec".into(), hex(&full)], exec);
                for at in [0usize, 1, 2, n - 1, n, n + 1, n + tail.len(), n + tail.len() + 1, n + 1000] {
                    crate::emit_case(w, &["s5try".into(), hex(&full), at.to_string()], exec);
                }
                let pre = rng.bytes_of(&[1usize, 3, 59]);
                let shifted = [&pre[..], &wire[..]].concat();
                for at in [pre.len() - 1, pre.len(), pre.len() + 1, shifted.len() - 1, shifted.len()] {
                    crate::emit_case(w, &["s5try".into(), hex(&shifted), at.to_string()], exec);
                }
                for cut in [1usize, 2, 3, n.saturating_sub(3), n - 2, n - 1] {
                    if cut < n {
                        crate::emit_case(w, &["s5dec".into(), hex(&wire[..cut])], exec);
                    }
                }
                // declared length one more / one less than the name that follows
                for d in [l.wrapping_sub(1), l + 1] {
                    if d <= 255 {
                        let mut m = wire.clone();
                        m[1] = d as u8;
                        crate::emit_case(w, &["s5dec".into(), hex(&m)], exec);
                        crate::emit_case(w, &["s5try".into(), hex(&m), "0".into()], exec);
                    }
                }
            }
        }
    }
}
