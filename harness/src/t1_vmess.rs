//! T1 for VMess AEAD: body codec (public lib API), server codec and client codec (hooks).
//!
//! vmbody \t opt \t sec(3|4) \t role(client|server) \t sess(iv16‖key16‖v hex) \t ops
//!     ops: E<hex> encode_payload (bytes compared) | e<hex> same, status only (random padding bytes)
//!          P<hex> / p<hex> encode_packet | D<hex> bytes arrive, decode_payload drain | U<hex> bytes arrive, decode_packet drain
//!          R<n>,<hex> encode_payload n times, output dropped | L<n>,<hex> / M<n>,<hex> n times: the peer end's encoder writes the
//!          payload / packet and this end's decoder reads it (counters far from 0 without megabytes of case text)
//!     sec is any u8 (SecurityType::from), opt any u8
//! vmsrv \t now \t uuids(csv, "-" = no user) \t ops       ops: D<hex> | E<hex> | e<hex>   (ServerAeadCodec)
//! vmcli \t uuid \t opt \t sec \t cmd(1|2) \t addr \t sess \t now \t ops   ops: e<hex> | D<hex>   (ClientAEADCodec with chosen session)
//! vmrt \t uuid \t opt \t sec \t cmd \t addr \t sess \t now \t up \t down   client -> server -> client on the real codecs (see run_rt)
use std::io::Write;

use bytes::BytesMut;
use octo_squirrel::codec::vmess::aead::AEADBodyCodec;
use octo_squirrel::protocol::address::Address;
use octo_squirrel::protocol::vmess::header::{RequestCommand, RequestHeader, RequestOption, SecurityType};
use octo_squirrel::protocol::vmess::session::{ClientSession, ServerSession, Session};
use octo_squirrel_client::client::verif_hooks as ch;
use octo_squirrel_server::server::verif_hooks as sh;
use tokio_util::codec::{Decoder, Encoder};

use crate::canon::{classify, parse_addr};
use crate::framed::{drain, line};
use crate::rng::Rng;
use crate::t1_misc::{server_config, show_inbound};
use crate::util::{catch, hex, unhex};

fn header(opt: u8, sec: u8, cmd: u8, addr: Address, id: [u8; 16]) -> RequestHeader {
    RequestHeader::new(1, if cmd == 1 { RequestCommand::TCP } else { RequestCommand::UDP }, RequestOption::from_mask(opt), SecurityType::from(sec), addr, id)
}

fn aead_res(r: Result<Result<BytesMut, aead::Error>, String>, show_bytes: bool, dead: &mut bool) -> String {
    match r {
        Ok(Ok(d)) => {
            if show_bytes { format!("OK {}", hex(&d)) } else { "OK".into() }
        }
        Ok(Err(_)) => {
            *dead = true;
            "ERR Aead".into()
        }
        Err(_) => {
            *dead = true;
            "PANIC".into()
        }
    }
}

fn run_body(f: &[&str]) -> String {
    let opt: u8 = f[1].parse().unwrap();
    let sec: u8 = f[2].parse().unwrap();
    let sess = unhex(f[4]);
    let hd = header(opt, sec, 1, parse_addr("4:7f000001:1"), [0; 16]);
    let cs = ClientSession::from(&sess[..]);
    let ss: ServerSession = cs.clone().into();
    // `own` is the session of this role, `peer` the session object of the other end of the same connection (ops L / M)
    let (mut own, mut peer): (Box<dyn Session>, Box<dyn Session>) = if f[3] == "client" { (Box::new(cs), Box::new(ss)) } else { (Box::new(ss), Box::new(cs)) };
    let session: &mut dyn Session = &mut *own;
    let peer_session: &mut dyn Session = &mut *peer;
    let mut enc = AEADBodyCodec::new_encoder(&hd, session).unwrap();
    let mut dec = AEADBodyCodec::new_decoder(&hd, session).unwrap();
    let mut peer_enc = AEADBodyCodec::new_encoder(&hd, peer_session).unwrap();
    let mut buf = BytesMut::new();
    let mut out = Vec::new();
    let mut dead = false;
    for op in f[5].split(';') {
        if op.is_empty() {
            continue;
        }
        if dead {
            out.push("SKIP".to_string());
            continue;
        }
        let (c, arg) = op.split_at(1);
        if c == "R" || c == "L" || c == "M" {
            let (k, d) = arg.split_once(',').expect("repeat op");
            let k: usize = k.parse().expect("repeat count");
            let data = unhex(d);
            if c == "R" {
                // encode_payload k times, output discarded: advances the counters
                let r = catch(|| {
                    for _ in 0..k {
                        let mut dst = BytesMut::new();
                        enc.encode_payload(BytesMut::from(&data[..]), &mut dst, session)?;
                    }
                    Ok(BytesMut::new())
                });
                out.push(aead_res(r, false, &mut dead));
            } else {
                // k times: the peer's encoder writes the payload (L) / the packet (M), this role's decoder reads it at once
                let r = catch(|| {
                    let mut last = "-".to_string();
                    for i in 0..k {
                        let mut wire = BytesMut::new();
                        let e = if c == "L" { peer_enc.encode_payload(BytesMut::from(&data[..]), &mut wire, peer_session) } else { peer_enc.encode_packet(BytesMut::from(&data[..]), &mut wire, peer_session) };
                        if e.is_err() {
                            return Err("ERR Aead".to_string());
                        }
                        let d = if c == "L" { dec.decode_payload(&mut wire, session) } else { dec.decode_packet(&mut wire, session) };
                        match d {
                            Ok(it) => {
                                if !wire.is_empty() {
                                    return Err("ERR Leftover".to_string());
                                }
                                last = it.map(|x| hex(&x)).unwrap_or_else(|| "none".into());
                            }
                            Err(_) => return Err("ERR Aead".to_string()),
                        }
                        let _ = i;
                    }
                    Ok(format!("LOOP ok={} last={}", k, last))
                });
                out.push(match r {
                    Ok(Ok(x)) => x,
                    Ok(Err(x)) => {
                        dead = true;
                        x
                    }
                    Err(_) => {
                        dead = true;
                        "PANIC".into()
                    }
                });
            }
            continue;
        }
        let data = unhex(arg);
        match c {
            "E" | "e" => {
                let r = catch(|| {
                    let mut dst = BytesMut::new();
                    enc.encode_payload(BytesMut::from(&data[..]), &mut dst, session).map(|_| dst)
                });
                out.push(aead_res(r, c == "E", &mut dead));
            }
            "P" | "p" => {
                let r = catch(|| {
                    let mut dst = BytesMut::new();
                    enc.encode_packet(BytesMut::from(&data[..]), &mut dst, session).map(|_| dst)
                });
                out.push(aead_res(r, c == "P", &mut dead));
            }
            _ => {
                buf.extend_from_slice(&data);
                let mut items = Vec::new();
                let mut status = "WAIT".to_string();
                for _ in 0..(buf.len() + 3) {
                    let r = catch(|| if c == "D" { dec.decode_payload(&mut buf, session) } else { dec.decode_packet(&mut buf, session) });
                    match r {
                        Ok(Ok(Some(it))) => {
                            items.push(hex(&it));
                            if buf.is_empty() {
                                break;
                            }
                        }
                        Ok(Ok(None)) => break,
                        Ok(Err(_)) => {
                            status = "ERR Aead".into();
                            dead = true;
                            break;
                        }
                        Err(_) => {
                            status = "PANIC".into();
                            dead = true;
                            break;
                        }
                    }
                }
                out.push(if dead { format!("{} [{}]", status, items.join(",")) } else { format!("{} [{}] rest={}", status, items.join(","), buf.len()) });
            }
        }
    }
    out.join(" | ")
}

fn run_srv(f: &[&str]) -> String {
    let now: i64 = f[1].parse().unwrap();
    octo_squirrel::verif_clock::set(Some(now));
    let users: Vec<String> = if f[2] == "-" { Vec::new() } else { f[2].split(',').map(|s| s.to_string()).collect() };
    let mut codec = sh::vmess::new_codec(&server_config("vmess", "aes-128-gcm", "unused", &users)).unwrap();
    let mut buf = BytesMut::new();
    let mut out = Vec::new();
    let mut dead = false;
    for op in f[3].split(';') {
        if op.is_empty() {
            continue;
        }
        if dead {
            out.push("SKIP".to_string());
            continue;
        }
        let (c, arg) = op.split_at(1);
        let data = unhex(arg);
        match c {
            "E" | "e" => {
                let r = catch(|| {
                    let mut dst = BytesMut::new();
                    codec.encode(sh::OutboundIn::Tcp(BytesMut::from(&data[..])), &mut dst).map(|_| dst)
                });
                out.push(match r {
                    Ok(Ok(d)) => {
                        if c == "E" { format!("OK {}", hex(&d)) } else { "OK".into() }
                    }
                    Ok(Err(e)) => {
                        dead = true;
                        format!("ERR {}", classify(&e))
                    }
                    Err(_) => {
                        dead = true;
                        "PANIC".into()
                    }
                });
            }
            _ => {
                let d = drain(&mut codec, &mut buf, &data, show_inbound);
                dead = d.dead;
                out.push(line(&d, buf.len()));
            }
        }
    }
    octo_squirrel::verif_clock::set(None);
    out.join(" | ")
}

fn run_cli(f: &[&str]) -> String {
    let id = octo_squirrel::protocol::vmess::id::from_password(f[1]).unwrap();
    let opt: u8 = f[2].parse().unwrap();
    let sec: u8 = f[3].parse().unwrap();
    let cmd: u8 = f[4].parse().unwrap();
    let sess = unhex(f[6]);
    let now: i64 = f[7].parse().unwrap();
    octo_squirrel::verif_clock::set(Some(now));
    let mut codec = ch::vmess::ClientAEADCodec::verif_with_session(header(opt, sec, cmd, parse_addr(f[5]), id), ClientSession::from(&sess[..]));
    let mut buf = BytesMut::new();
    let mut out = Vec::new();
    let mut dead = false;
    for op in f[8].split(';') {
        if op.is_empty() {
            continue;
        }
        if dead {
            out.push("SKIP".to_string());
            continue;
        }
        let (c, arg) = op.split_at(1);
        let data = unhex(arg);
        match c {
            "e" | "w" => {
                let r = catch(|| {
                    let mut dst = BytesMut::new();
                    codec.encode(BytesMut::from(&data[..]), &mut dst).map(|_| dst)
                });
                out.push(match r {
                    Ok(Ok(d)) => {
                        if c == "w" { format!("OK {}", hex(&d)) } else { "OK".into() }
                    }
                    Ok(Err(e)) => {
                        dead = true;
                        format!("ERR {}", classify(&e))
                    }
                    Err(_) => {
                        dead = true;
                        "PANIC".into()
                    }
                });
            }
            _ => {
                let d = drain(&mut codec, &mut buf, &data, |b: BytesMut| hex(&b));
                dead = d.dead;
                out.push(line(&d, buf.len()));
            }
        }
    }
    octo_squirrel::verif_clock::set(None);
    out.join(" | ")
}

/// vmrt \t uuid \t opt \t sec \t cmd \t addr \t sess \t now \t up \t down : the whole exchange on the real codecs: the client
/// encodes `up` for `addr`, a server that knows only this user decodes it and answers `down`, the client decodes the answer.
/// The model performs the same exchange with its own encoders, so target address and payloads are compared end to end
/// (vmsrv alone decodes bytes the implementation's client wrote: an address the client mis-encodes would go unnoticed there).
fn run_rt(f: &[&str]) -> String {
    let id = octo_squirrel::protocol::vmess::id::from_password(f[1]).unwrap();
    let opt: u8 = f[2].parse().unwrap();
    let sec: u8 = f[3].parse().unwrap();
    let cmd: u8 = f[4].parse().unwrap();
    let sess = unhex(f[6]);
    let now: i64 = f[7].parse().unwrap();
    let (up, down) = (unhex(f[8]), unhex(f[9]));
    octo_squirrel::verif_clock::set(Some(now));
    let mut client = ch::vmess::ClientAEADCodec::verif_with_session(header(opt, sec, cmd, parse_addr(f[5]), id), ClientSession::from(&sess[..]));
    let mut server = sh::vmess::new_codec(&server_config("vmess", "aes-128-gcm", "unused", &[f[1].to_string()])).unwrap();
    let r = catch(|| {
        let mut dst = BytesMut::new();
        client.encode(BytesMut::from(&up[..]), &mut dst).map(|_| dst)
    });
    let wire = match r {
        Ok(Ok(d)) => d,
        Ok(Err(e)) => {
            octo_squirrel::verif_clock::set(None);
            return format!("ENC ERR {}", classify(&e));
        }
        Err(_) => {
            octo_squirrel::verif_clock::set(None);
            return "ENC PANIC".into();
        }
    };
    let mut buf = BytesMut::new();
    let d = drain(&mut server, &mut buf, &wire, show_inbound);
    let l1 = line(&d, buf.len());
    let l2 = if d.dead || d.items.is_empty() {
        "SKIP".to_string()
    } else {
        let r = catch(|| {
            let mut dst = BytesMut::new();
            server.encode(sh::OutboundIn::Tcp(BytesMut::from(&down[..])), &mut dst).map(|_| dst)
        });
        match r {
            Ok(Ok(back)) => {
                let mut buf = BytesMut::new();
                let d = drain(&mut client, &mut buf, &back, |b: BytesMut| hex(&b));
                line(&d, buf.len())
            }
            Ok(Err(e)) => format!("ENC ERR {}", classify(&e)),
            Err(_) => "ENC PANIC".into(),
        }
    };
    octo_squirrel::verif_clock::set(None);
    format!("{} | {}", l1, l2)
}

/// KNOWN FINDING F-12b probe: with AuthenticatedLength the size field of the first chunk of BOTH directions is sealed
/// under the same key and nonce: for equal chunk sizes the two 18-byte size fields are byte-identical
fn run_authlen(f: &[&str]) -> String {
    let opt: u8 = f[1].parse().unwrap();
    let sec: u8 = f[2].parse().unwrap();
    let sess = unhex(f[3]);
    let payload = unhex(f[4]);
    let hd = header(opt, sec, 1, parse_addr("4:7f000001:1"), [0; 16]);
    let mut cs = ClientSession::from(&sess[..]);
    let mut ss: ServerSession = cs.clone().into();
    let mut ce = AEADBodyCodec::new_encoder(&hd, &mut cs).unwrap();
    let mut se = AEADBodyCodec::new_encoder(&hd, &mut ss).unwrap();
    let (mut c, mut s) = (BytesMut::new(), BytesMut::new());
    ce.encode_payload(BytesMut::from(&payload[..]), &mut c, &mut cs).unwrap();
    se.encode_payload(BytesMut::from(&payload[..]), &mut s, &mut ss).unwrap();
    if c.len() >= 18 && c[..18] == s[..18] { format!("SAME {}", hex(&c[..18])) } else { "DIFF".into() }
}

pub fn exec(f: &[&str]) -> Vec<String> {
    let r = catch(|| match f[0] {
        "vmauthlen" => run_authlen(f),
        "vmbody" => run_body(f),
        "vmsrv" => run_srv(f),
        "vmcli" => run_cli(f),
        "vmrt" => run_rt(f),
        _ => "UNKNOWN".into(),
    });
    vec![r.unwrap_or_else(|_| "PANIC".into())]
}

fn cuts(rng: &mut Rng, w: &[u8], focus: usize, count: usize) -> Vec<Vec<Vec<u8>>> {
    let mut v = vec![vec![w.to_vec()]];
    let lim = (focus + 12).min(w.len().saturating_sub(1));
    let mut cs: Vec<usize> = (1..=lim).collect();
    while cs.len() > count {
        let i = rng.below(cs.len() as u64) as usize;
        cs.remove(i);
    }
    for c in cs {
        v.push(vec![w[..c].to_vec(), w[c..].to_vec()]);
    }
    for _ in 0..count / 2 {
        let mut ps: Vec<usize> = (0..rng.range(2, 6)).map(|_| rng.range(1, w.len().max(2) as u64 - 1) as usize).collect();
        ps.sort();
        ps.dedup();
        let mut segs = Vec::new();
        let mut last = 0;
        for p in ps {
            if p > last && p < w.len() {
                segs.push(w[last..p].to_vec());
                last = p;
            }
        }
        segs.push(w[last..].to_vec());
        v.push(segs);
    }
    if w.len() <= 150 {
        v.push(w.iter().map(|b| vec![*b]).collect());
    }
    v
}

fn ops(prefix: &str, segs: &[Vec<u8>]) -> String {
    segs.iter().map(|s| format!("{}{}", prefix, hex(s))).collect::<Vec<_>>().join(";")
}

fn outputs(res: &str) -> Vec<Vec<u8>> {
    res.split(" | ").filter_map(|x| x.strip_prefix("OK ")).map(unhex).collect()
}

pub fn generate(w: &mut dyn Write, seed: u64, thorough: bool) {
    let mut rng = Rng::new(seed);
    let now: i64 = 1_790_000_000;
    // option masks (S=1 chunk stream, R=2 reuse, M=4 masking, P=8 padding, A=16 authenticated length): thorough = all 32;
    // quick = the ten usual ones + four more chosen by the seed
    let mut masks: Vec<u8> = vec![1, 5, 9, 13, 17, 25, 29, 21, 0, 4];
    if thorough {
        masks.extend((0u8..32).filter(|m| ![1u8, 5, 9, 13, 17, 25, 29, 21, 0, 4].contains(m)));
    } else {
        // none of the ten usual masks has the ConnectionReuse bit (2): two of the four extra masks always carry it
        while masks.len() < 14 {
            let m = if masks.len() < 12 { rng.below(32) as u8 | 2 } else { rng.below(32) as u8 };
            if !masks.contains(&m) {
                masks.push(m);
            }
        }
    }
    // the cases of the dimension audit are generated first (own generator state) and dealt evenly into the stream of the
    // others: the case file is evaluated in contiguous shards, a block of expensive cases at one place would make one shard slow
    let mut aud_rng = rng.fork();
    let mut abuf: Vec<u8> = Vec::new();
    generate_audit(&mut abuf, &mut aud_rng, &masks, thorough, now);
    let mut iw = Interleave::new(w, &abuf, 6);
    generate_main(&mut iw, &mut rng, &masks, thorough, seed, now);
    iw.finish();
}

/// forwards everything to `inner` and puts one held-back line behind every `every`-th complete line
struct Interleave<'a> {
    inner: &'a mut dyn Write,
    extra: Vec<Vec<u8>>,
    next: usize,
    lines: usize,
    every: usize,
}

impl<'a> Interleave<'a> {
    fn new(inner: &'a mut dyn Write, held: &[u8], every: usize) -> Self {
        let all: Vec<&[u8]> = held.split(|b| *b == b'\n').filter(|l| !l.is_empty()).collect();
        // stride permutation (stride ~ 0.38 n, coprime to n): neighbours of the generator end up far apart
        let n = all.len();
        let gcd = |mut a: usize, mut b: usize| {
            while b != 0 {
                (a, b) = (b, a % b);
            }
            a
        };
        let mut stride = (n * 38 / 100).max(1);
        while n > 1 && gcd(stride, n) != 1 {
            stride += 1;
        }
        let extra = (0..n).map(|i| all[(i * stride) % n].to_vec()).collect();
        Interleave { inner, extra, next: 0, lines: 0, every }
    }
    fn finish(&mut self) {
        while self.next < self.extra.len() {
            self.inner.write_all(&self.extra[self.next]).unwrap();
            self.inner.write_all(b"\n").unwrap();
            self.next += 1;
        }
    }
}

impl Write for Interleave<'_> {
    fn write(&mut self, buf: &[u8]) -> std::io::Result<usize> {
        self.inner.write_all(buf)?;
        // case lines contain no line feed: one only ever arrives as the last byte of a line
        if buf.last() == Some(&b'\n') {
            self.lines += 1;
            if self.lines % self.every == 0 && self.next < self.extra.len() {
                self.inner.write_all(&self.extra[self.next])?;
                self.inner.write_all(b"\n")?;
                self.next += 1;
            }
        }
        Ok(buf.len())
    }
    fn flush(&mut self) -> std::io::Result<()> {
        self.inner.flush()
    }
}

fn generate_main(w: &mut dyn Write, rng: &mut Rng, masks: &[u8], thorough: bool, seed: u64, now: i64) {
    let per = if thorough { 24 } else { 6 };
    // ---- body level: all masks x securities x directions, stream and packet mode ----
    for (mi, &opt) in masks.iter().enumerate() {
        for sec in [3u8, 4] {
            let sess = rng.bytes(33);
            let padded = opt & 8 != 0;
            for (ri, role) in ["client", "server"].into_iter().enumerate() {
                let peer = if role == "client" { "server" } else { "client" };
                // stream mode
                let writes = [rng.bytes(1), rng.bytes(300), rng.bytes(2048), rng.bytes(5000), vec![]];
                let eops: Vec<String> = writes.iter().map(|x| format!("E{}", hex(x))).collect();
                let a = vec!["vmbody".to_string(), opt.to_string(), sec.to_string(), role.to_string(), hex(&sess), eops.join(";")];
                let fa: Vec<&str> = a.iter().map(|s| s.as_str()).collect();
                let wire: Vec<u8> = outputs(&exec(&fa)[0]).concat();
                let mut a2 = a.clone();
                if padded {
                    a2[5] = a2[5].replace('E', "e");
                }
                crate::emit_case(w, &a2, exec);
                for segs in cuts(rng, &wire, 40, per) {
                    crate::emit_case(w, &["vmbody".to_string(), opt.to_string(), sec.to_string(), peer.to_string(), hex(&sess), ops("D", &segs), format!("@x={}", hex(&writes.concat()))], exec);
                }
                // tiny writes: chunks shorter than a size field / tag; every two-cut and byte-by-byte
                let tiny: Vec<Vec<u8>> = [1usize, 1, 2, 15, 16, 17, 18, 1].iter().map(|&l| rng.bytes(l)).collect();
                let tops: Vec<String> = tiny.iter().map(|x| format!("E{}", hex(x))).collect();
                let ta = vec!["vmbody".to_string(), opt.to_string(), sec.to_string(), role.to_string(), hex(&sess), tops.join(";")];
                let tfa: Vec<&str> = ta.iter().map(|s| s.as_str()).collect();
                let twire: Vec<u8> = outputs(&exec(&tfa)[0]).concat();
                // quick: every second cut point; which parity is taken alternates with mask, security, role and seed, so that the
                // two roles of one (mask, security) pair cover both parities (field boundaries fall on odd and on even offsets)
                let first_cut = if thorough { 1 } else { 1 + (mi + sec as usize + ri + seed as usize) % 2 };
                let mut tcuts: Vec<Vec<Vec<u8>>> = (first_cut..twire.len()).step_by(if thorough { 1 } else { 2 }).map(|c| vec![twire[..c].to_vec(), twire[c..].to_vec()]).collect();
                tcuts.push(twire.iter().map(|b| vec![*b]).collect());
                tcuts.push(vec![twire.clone()]); // all eight chunks in one read
                for segs in tcuts {
                    crate::emit_case(w, &["vmbody".to_string(), opt.to_string(), sec.to_string(), peer.to_string(), hex(&sess), ops("D", &segs), format!("@x={}", hex(&tiny.concat()))], exec);
                }
                // single-bit flips anywhere in the coalesced tiny chunks: a bad chunk decoded in the same call as good ones, and followed by more
                for _ in 0..(if thorough { 60 } else { 10 }) {
                    let mut m = twire.clone();
                    let bit = rng.below((m.len() * 8) as u64) as usize;
                    m[bit / 8] ^= 1 << (bit % 8);
                    crate::emit_case(w, &["vmbody".to_string(), opt.to_string(), sec.to_string(), peer.to_string(), hex(&sess), format!("D{}", hex(&m)), format!("@p={}", hex(&tiny.concat()))], exec);
                }
                // packet mode: sizes around every limit; each packet one chunk
                let sizes: &[usize] = if thorough { &[0, 1, 100, 1400, 1993, 2047, 2048, 2049, 8192, 65456, 65457, 65507] } else { &[0, 1, 1400, 2049, 65456, 65457] };
                let pk: Vec<Vec<u8>> = sizes.iter().map(|&n| rng.bytes(n)).collect();
                let pops: Vec<String> = pk.iter().map(|x| format!("P{}", hex(x))).collect();
                // each packet on a fresh codec pair would hide counter effects: keep one codec, stop at the refused size
                let a = vec!["vmbody".to_string(), opt.to_string(), sec.to_string(), role.to_string(), hex(&sess), pops[..pops.len().min(4)].join(";")];
                let fa: Vec<&str> = a.iter().map(|s| s.as_str()).collect();
                let pw: Vec<u8> = outputs(&exec(&fa)[0]).concat();
                let mut a2 = a.clone();
                if padded {
                    a2[5] = a2[5].replace('P', "p");
                }
                crate::emit_case(w, &a2, exec);
                for segs in cuts(rng, &pw, 30, per / 2 + 1) {
                    crate::emit_case(w, &["vmbody".to_string(), opt.to_string(), sec.to_string(), peer.to_string(), hex(&sess), ops("U", &segs), format!("@x={}", hex(&pk[..pk.len().min(4)].concat()))], exec);
                }
                for big in &pops[4.min(pops.len())..] {
                    let mut a3 = vec!["vmbody".to_string(), opt.to_string(), sec.to_string(), role.to_string(), hex(&sess), big.clone()];
                    if padded {
                        a3[5] = a3[5].replace('P', "p");
                    }
                    crate::emit_case(w, &a3, exec);
                }
                // mutations of the stream: bit flips near the first chunks (masked/plain lengths are unauthenticated)
                let flips = if thorough { 400 } else { 40 };
                for fi in 0..flips {
                    // three of four flips near the first chunks; every fourth one anywhere in the first 3000 bytes (quick) / the whole
                    // stream (thorough): later chunks, their size fields, tags and - unauthenticated - padding
                    let mut m = if fi % 4 == 3 { wire[..wire.len().min(if thorough { usize::MAX } else { 3000 })].to_vec() } else { wire[..wire.len().min(700)].to_vec() };
                    let bit = if fi % 4 == 3 { rng.below((m.len() * 8) as u64) as usize } else { rng.below((m.len().min(120) * 8) as u64) as usize };
                    m[bit / 8] ^= 1 << (bit % 8);
                    crate::emit_case(w, &["vmbody".to_string(), opt.to_string(), sec.to_string(), peer.to_string(), hex(&sess), format!("D{}", hex(&m)), format!("@p={}", hex(&writes.concat()))], exec);
                    let mut m = pw[..pw.len().min(700)].to_vec();
                    if !m.is_empty() {
                        let bit = rng.below((m.len().min(120) * 8) as u64) as usize;
                        m[bit / 8] ^= 1 << (bit % 8);
                        crate::emit_case(w, &["vmbody".to_string(), opt.to_string(), sec.to_string(), peer.to_string(), hex(&sess), format!("U{}", hex(&m)), format!("@p={}", hex(&pk[..pk.len().min(4)].concat()))], exec);
                    }
                }
                // reflection: this role's own output comes back to it
                crate::emit_case(w, &["vmbody".to_string(), opt.to_string(), sec.to_string(), role.to_string(), hex(&sess), format!("D{}", hex(&wire[..wire.len().min(3000)])), "@n".to_string()], exec);
            }
        }
    }
    // every forced size value of the first (plain) length field, with padding on/off: length < padding + tag must be an error
    for opt in [1u8, 9] {
        for v in (0..100u16).chain([0x7fff, 0xffff]) {
            let mut m = v.to_be_bytes().to_vec();
            m.extend_from_slice(&rng.bytes(v.min(200) as usize));
            crate::emit_case(w, &["vmbody".to_string(), opt.to_string(), "3".into(), "server".into(), hex(&[7u8; 33]), format!("D{}", hex(&m))], exec);
            crate::emit_case(w, &["vmbody".to_string(), opt.to_string(), "3".into(), "server".into(), hex(&[7u8; 33]), format!("U{}", hex(&m))], exec);
        }
    }
    // ---- codec level: client request -> server, server response -> client ----
    let uuids = ["b831381d-6324-4d53-ad4f-8cda48b30811".to_string(), "11111111-2222-3333-4444-555555555555".into(), "00000000-0000-0000-0000-000000000001".into()];
    let addrs = ["4:7f000001:80".to_string(), "D:6578616d706c652e636f6d:443".into(), format!("6:{}:8080", "20010db8".repeat(4)), format!("D:{}:1", "61".repeat(255))];
    for (ci, &opt) in masks.iter().enumerate() {
        for sec in [3u8, 4] {
            for cmd in [1u8, 2] {
                if !thorough && (ci + sec as usize + cmd as usize) % 2 == 1 && ci > 3 {
                    continue;
                }
                let addr = rng.pick(&addrs).clone();
                let uuid = uuids[ci % 2].clone();
                let sess = rng.bytes(33);
                let writes = if cmd == 1 { vec![rng.bytes(1), rng.bytes(700), rng.bytes(3000)] } else { vec![rng.bytes(10), rng.bytes(1400), vec![]] };
                let wops: Vec<String> = writes.iter().map(|x| format!("w{}", hex(x))).collect();
                let a = vec!["vmcli".to_string(), uuid.clone(), opt.to_string(), sec.to_string(), cmd.to_string(), addr.clone(), hex(&sess), now.to_string(), wops.join(";")];
                let fa: Vec<&str> = a.iter().map(|s| s.as_str()).collect();
                let req_parts = outputs(&exec(&fa)[0]);
                if req_parts.len() != writes.len() {
                    let mut a2 = a.clone();
                    a2[8] = a2[8].replace('w', "e");
                    crate::emit_case(w, &a2, exec);
                    continue;
                }
                let req: Vec<u8> = req_parts.concat();
                let head_len = req_parts[0].len();
                let users = format!("{},{}", uuids[2], uuid);
                // server decodes the request (segmentations), then answers; the answer goes to the client
                let resp_writes = [rng.bytes(3), rng.bytes(900)];
                let mut resp: Vec<u8> = Vec::new();
                for (si, segs) in cuts(rng, &req, head_len.min(130), per).iter().enumerate() {
                    let mut o = ops("D", segs);
                    for x in &resp_writes {
                        o.push_str(&format!(";{}{}", if opt & 8 != 0 { "e" } else { "E" }, hex(x)));
                    }
                    let sa = vec!["vmsrv".to_string(), now.to_string(), users.clone(), o.clone(), format!("@x={}", hex(&writes.concat()))];
                    if si == 0 {
                        let o2 = o.replace(";e", ";E");
                        let sa2 = vec!["vmsrv".to_string(), now.to_string(), users.clone(), o2];
                        let f2: Vec<&str> = sa2.iter().map(|s| s.as_str()).collect();
                        resp = outputs(&exec(&f2)[0]).concat();
                    }
                    crate::emit_case(w, &sa, exec);
                }
                if !resp.is_empty() {
                    for segs in cuts(rng, &resp, 60, per) {
                        let o = format!("e{};{}", hex(&writes[0]), ops("D", &segs));
                        let xp = resp_writes.concat();
                        crate::emit_case(w, &["vmcli".to_string(), uuid.clone(), opt.to_string(), sec.to_string(), cmd.to_string(), addr.clone(), hex(&sess), now.to_string(), o, format!("@x={}", hex(&xp))], exec);
                    }
                    // the same response presented to a client with another session: must be refused
                    let other = rng.bytes(33);
                    let o = format!("e{};D{}", hex(&writes[0]), hex(&resp));
                    crate::emit_case(w, &["vmcli".to_string(), uuid.clone(), opt.to_string(), sec.to_string(), cmd.to_string(), addr.clone(), hex(&other), now.to_string(), o, "@n".to_string()], exec);
                    // reflection of the request to the client
                    let o = format!("e{};D{}", hex(&writes[0]), hex(&req));
                    crate::emit_case(w, &["vmcli".to_string(), uuid.clone(), opt.to_string(), sec.to_string(), cmd.to_string(), addr.clone(), hex(&sess), now.to_string(), o, "@n".to_string()], exec);
                }
                // truncations and flips of the request head; unknown user; stale auth id (clock +-120/121 and far)
                if ci < 3 || thorough {
                    let first_cut = if thorough { 0 } else { (ci + sec as usize + cmd as usize + seed as usize) % 2 };
                    for cut in (first_cut..(head_len + 30).min(req.len())).step_by(if thorough { 1 } else { 2 }) {
                        crate::emit_case(w, &["vmsrv".to_string(), now.to_string(), users.clone(), format!("D{}", hex(&req[..cut])), format!("@p={}", hex(&writes.concat()))], exec);
                    }
                    for _ in 0..(if thorough { 300 } else { 30 }) {
                        let mut m = req.clone();
                        let bit = rng.below((head_len * 8) as u64) as usize;
                        m[bit / 8] ^= 1 << (bit % 8);
                        crate::emit_case(w, &["vmsrv".to_string(), now.to_string(), users.clone(), format!("D{}", hex(&m)), format!("@p={}", hex(&writes.concat()))], exec);
                    }
                    crate::emit_case(w, &["vmsrv".to_string(), now.to_string(), uuids[2].clone(), format!("D{}", hex(&req)), "@n".to_string()], exec);
                    for dt in [-151i64, -150, -149, -91, -90, -89, 0, 89, 90, 91, 149, 150, 151, 100000] {
                        crate::emit_case(w, &["vmsrv".to_string(), (now + dt).to_string(), users.clone(), format!("D{}", hex(&req))], exec);
                    }
                }
            }
        }
    }
    // well-authenticated response heads whose decrypted content is malformed (empty, short, wrong authentication byte,
    // a length field that promises more than follows): the client must refuse or wait, never crash, never release
    {
        use octo_squirrel::protocol::vmess::aead::kdf;
        use sha2::Digest;
        let seal = |key: &[u8], iv: &[u8], pt: &[u8]| crate::prims::aead("aes128gcm", true, key, &iv[..12], &[], pt).unwrap();
        for ci in 0..(if thorough { 12 } else { 4 }) {
            let sess = rng.bytes(33);
            let (riv, rkey, rh) = (&sess[0..16], &sess[16..32], sess[32]);
            let resp_key = sha2::Sha256::digest(rkey)[..16].to_vec();
            let resp_iv = sha2::Sha256::digest(riv)[..16].to_vec();
            let len_key = kdf::kdf16(&resp_key, vec![kdf::SALT_AEAD_RESP_HEADER_LEN_KEY]);
            let len_iv = kdf::kdf(&resp_iv, vec![kdf::SALT_AEAD_RESP_HEADER_LEN_IV]);
            let hdr_key = kdf::kdf16(&resp_key, vec![kdf::SALT_AEAD_RESP_HEADER_PAYLOAD_KEY]);
            let hdr_iv = kdf::kdf(&resp_iv, vec![kdf::SALT_AEAD_RESP_HEADER_PAYLOAD_IV]);
            let heads: Vec<Vec<u8>> = vec![vec![], vec![rh], vec![rh, 0], vec![rh, 0, 0], vec![rh, 0, 0, 0], vec![rh ^ 1, 0, 0, 0], vec![rh, 0, 1, 4, 1, 2, 3, 4],
                                           vec![rh, 0, 1, 200, 1, 2], rng.bytes(ci + 1)];
            for h in &heads {
                for claimed in [h.len(), h.len() + 1, 0usize, 65535] {
                    let mut wire = seal(&len_key, &len_iv, &(claimed as u16).to_be_bytes());
                    wire.extend(seal(&hdr_key, &hdr_iv, h));
                    wire.extend(rng.bytes(ci * 7 % 40));
                    let opt = masks[ci % masks.len()];
                    let o = format!("eaa;D{}", hex(&wire));
                    crate::emit_case(w, &["vmcli".to_string(), uuids[0].clone(), opt.to_string(), "3".into(), "1".into(), addrs[0].clone(), hex(&sess), now.to_string(), o.clone()], exec);
                    // byte by byte
                    let segs: Vec<Vec<u8>> = wire.iter().map(|b| vec![*b]).collect();
                    let o = format!("eaa;{}", ops("D", &segs));
                    crate::emit_case(w, &["vmcli".to_string(), uuids[0].clone(), opt.to_string(), "3".into(), "1".into(), addrs[0].clone(), hex(&sess), now.to_string(), o], exec);
                }
            }
        }
    }
    // random bytes to server and client
    for l in (0..120).step_by(if thorough { 1 } else { 3 }) {
        crate::emit_case(w, &["vmsrv".to_string(), now.to_string(), uuids[0].clone(), format!("D{}", hex(&rng.bytes(l))), "@n".to_string()], exec);
        crate::emit_case(w, &["vmcli".to_string(), uuids[0].clone(), "13".into(), "3".into(), "1".into(), addrs[0].clone(), hex(&rng.bytes(33)), now.to_string(), format!("eaa;D{}", hex(&rng.bytes(l))), "@n".to_string()], exec);
    }
}

// =================================================================================================
// Dimension audit (seeded/audit/aud-vm.md).  Everything below varies a dimension the generator above left at one value.
// Requests and response heads are written by an INDEPENDENT SENDER kept here (field by field, sealed with the primitive
// server's AEAD), so that every header field, the auth id's timestamp and the checksum can take any value: ciphertext
// tampering never gets past the AEAD, the field checks behind it are only reachable with well-authenticated input.
// =================================================================================================
mod craft {
    use octo_squirrel::protocol::vmess::aead::kdf;

    pub fn fnv1a32(data: &[u8]) -> u32 {
        let mut h: u32 = 2166136261;
        for b in data {
            h ^= *b as u32;
            h = h.wrapping_mul(16777619);
        }
        h
    }
    pub fn kdf16(key: &[u8], path: &[&[u8]]) -> Vec<u8> {
        kdf::kdf16(key, path.to_vec()).to_vec()
    }
    pub fn kdf12(key: &[u8], path: &[&[u8]]) -> Vec<u8> {
        kdf::kdf(key, path.to_vec())[..12].to_vec()
    }
    pub fn seal(cipher: &str, key: &[u8], iv12: &[u8], aad: &[u8], pt: &[u8]) -> Vec<u8> {
        crate::prims::aead(cipher, true, key, iv12, aad, pt).expect("seal")
    }
    /// AES-128-ECB(kdf16(cmd key, "AES Auth ID Encryption"), time(8) || random(4) || crc32(first 12) ^ crc_xor)
    pub fn auth_id(cmdkey: &[u8], ts: i64, rnd4: &[u8], crc_xor: u32) -> Vec<u8> {
        let mut b = ts.to_be_bytes().to_vec();
        b.extend_from_slice(&rnd4[..4]);
        let crc = crc::Crc::<u32>::new(&crc::CRC_32_ISO_HDLC).checksum(&b) ^ crc_xor;
        b.extend_from_slice(&crc.to_be_bytes());
        crate::prims::aes_block(true, &kdf16(cmdkey, &[b"AES Auth ID Encryption"]), &b).expect("aes")
    }
    /// auth id || sealed length || connection nonce || sealed header; `claimed` = the length written into the length field
    pub fn seal_header(cmdkey: &[u8], authid: &[u8], cnonce: &[u8], header: &[u8], claimed: Option<u16>) -> Vec<u8> {
        let len = claimed.unwrap_or(header.len() as u16).to_be_bytes();
        let mut out = authid.to_vec();
        out.extend(seal("aes128gcm", &kdf16(cmdkey, &[kdf::SALT_LENGTH_KEY, authid, cnonce]), &kdf12(cmdkey, &[kdf::SALT_LENGTH_IV, authid, cnonce]), authid, &len));
        out.extend_from_slice(cnonce);
        out.extend(seal("aes128gcm", &kdf16(cmdkey, &[kdf::SALT_PAYLOAD_KEY, authid, cnonce]), &kdf12(cmdkey, &[kdf::SALT_PAYLOAD_IV, authid, cnonce]), authid, header));
        out
    }
    /// VMess-style address: port, type (1 IPv4 / 2 domain / 3 IPv6), [length,] bytes
    pub fn addr_wire(kind: u8, host: &[u8], port: u16) -> Vec<u8> {
        let mut v = port.to_be_bytes().to_vec();
        v.push(kind);
        if kind == 2 {
            v.push(host.len() as u8);
        }
        v.extend_from_slice(host);
        v
    }
    /// sealed response head: length block (2 + 16) and header block under the response key / iv of the session
    pub fn resp_head(sess: &[u8], hdr: &[u8], claimed: Option<u16>) -> Vec<u8> {
        use sha2::Digest;
        let resp_key = sha2::Sha256::digest(&sess[16..32])[..16].to_vec();
        let resp_iv = sha2::Sha256::digest(&sess[0..16])[..16].to_vec();
        let len = claimed.unwrap_or(hdr.len() as u16).to_be_bytes();
        let mut out = seal("aes128gcm", &kdf16(&resp_key, &[kdf::SALT_AEAD_RESP_HEADER_LEN_KEY]), &kdf12(&resp_iv, &[kdf::SALT_AEAD_RESP_HEADER_LEN_IV]), &[], &len);
        out.extend(seal("aes128gcm", &kdf16(&resp_key, &[kdf::SALT_AEAD_RESP_HEADER_PAYLOAD_KEY]), &kdf12(&resp_iv, &[kdf::SALT_AEAD_RESP_HEADER_PAYLOAD_IV]), &[], hdr));
        out
    }
}

/// the request of the independent sender; `new` gives a well-formed one, the generators then change single fields
#[derive(Clone)]
struct Req {
    uuid: String,
    ts: i64,
    rnd4: Vec<u8>,
    crc_xor: u32,
    cnonce: Vec<u8>,
    version: u8,
    sess: Vec<u8>,
    opt: u8,
    padnib: u8,
    sec: u8,
    reserved: u8,
    cmd: u8,
    addr: Vec<u8>,
    padding: Vec<u8>,
}

impl Req {
    fn new(rng: &mut Rng, uuid: &str, now: i64) -> Self {
        Req { uuid: uuid.to_string(), ts: now, rnd4: rng.bytes(4), crc_xor: 0, cnonce: rng.bytes(8), version: 1, sess: rng.bytes(33), opt: 1, padnib: 0, sec: 3, reserved: 0, cmd: 1,
              addr: craft::addr_wire(1, &[127, 0, 0, 1], 80), padding: Vec::new() }
    }
    fn cmdkey(&self) -> [u8; 16] {
        octo_squirrel::protocol::vmess::id::from_password(&self.uuid).unwrap()
    }
    /// everything the checksum covers
    fn plain(&self) -> Vec<u8> {
        let mut h = vec![self.version];
        h.extend_from_slice(&self.sess[..33]);
        h.extend_from_slice(&[self.opt, (self.padnib << 4) | (self.sec & 15), self.reserved, self.cmd]);
        h.extend_from_slice(&self.addr);
        h.extend_from_slice(&self.padding);
        h
    }
    fn plain_ck(&self, ck_xor: u32) -> Vec<u8> {
        let mut h = self.plain();
        let ck = craft::fnv1a32(&h) ^ ck_xor;
        h.extend_from_slice(&ck.to_be_bytes());
        h
    }
    fn auth_id(&self) -> Vec<u8> {
        craft::auth_id(&self.cmdkey(), self.ts, &self.rnd4, self.crc_xor)
    }
    fn head_of(&self, plain: &[u8], claimed: Option<u16>) -> Vec<u8> {
        craft::seal_header(&self.cmdkey(), &self.auth_id(), &self.cnonce, plain, claimed)
    }
    fn head(&self) -> Vec<u8> {
        self.head_of(&self.plain_ck(0), None)
    }
    /// the body as the client's body encoder writes it for this header's options (stream for TCP, one chunk per write for UDP)
    fn body(&self, writes: &[Vec<u8>]) -> Vec<u8> {
        let ws: Vec<(bool, Vec<u8>)> = writes.iter().map(|x| (self.cmd == 2, x.clone())).collect();
        body_encode(self.opt, self.sec, true, &self.sess, &ws).concat()
    }
}

/// what one end's body encoder puts on the wire: one output per write; (true, x) = encode_packet, (false, x) = encode_payload
fn body_encode(opt: u8, sec: u8, client: bool, sess: &[u8], writes: &[(bool, Vec<u8>)]) -> Vec<Vec<u8>> {
    let hd = header(opt, sec, 1, parse_addr("4:7f000001:1"), [0; 16]);
    let cs = ClientSession::from(&sess[..]);
    let ss: ServerSession = cs.clone().into();
    let mut s: Box<dyn Session> = if client { Box::new(cs) } else { Box::new(ss) };
    let mut enc = AEADBodyCodec::new_encoder(&hd, &mut *s).unwrap();
    writes.iter()
        .map(|(packet, x)| {
            let mut dst = BytesMut::new();
            if *packet { enc.encode_packet(BytesMut::from(&x[..]), &mut dst, &mut *s).expect("encode_packet") } else { enc.encode_payload(BytesMut::from(&x[..]), &mut dst, &mut *s).expect("encode_payload") }
            dst.to_vec()
        })
        .collect()
}

fn flip_uuid_bit(uuid: &str, bit: usize) -> String {
    let mut b = unhex(&uuid.replace('-', ""));
    b[bit / 8] ^= 1 << (bit % 8);
    let h = hex(&b);
    format!("{}-{}-{}-{}-{}", &h[0..8], &h[8..12], &h[12..16], &h[16..20], &h[20..32])
}

fn xof_u16s(seed: &[u8], n: usize) -> Vec<u16> {
    let out = crate::prims::answer(&format!("shake128 {} {}", hex(seed), 2 * n)).expect("shake128");
    (0..n).map(|i| u16::from_be_bytes([out[2 * i], out[2 * i + 1]])).collect()
}

fn generate_audit(w: &mut dyn Write, rng: &mut Rng, masks: &[u8], thorough: bool, now: i64) {
    let (ua, ub, uc) = ("b831381d-6324-4d53-ad4f-8cda48b30811", "11111111-2222-3333-4444-555555555555", "00000000-0000-0000-0000-000000000001");
    let mapped: Vec<u8> = [vec![0u8; 10], vec![0xff, 0xff, 192, 0, 2, 1]].concat();
    let addr_wires: Vec<Vec<u8>> = vec![
        craft::addr_wire(1, &[127, 0, 0, 1], 80),
        craft::addr_wire(2, b"example.com", 443),
        craft::addr_wire(3, &unhex(&"20010db8".repeat(4)), 8080),
        craft::addr_wire(2, &[b'a'; 255], 1),
        craft::addr_wire(2, b"x", 0),
        craft::addr_wire(3, &mapped, 65535),
        craft::addr_wire(1, &[0, 0, 0, 0], 0),
        craft::addr_wire(2, "日本.example".as_bytes(), 65535),
    ];
    let srv = |w: &mut dyn Write, now: i64, users: &str, ops: String, meta: String| crate::emit_case(w, &["vmsrv".to_string(), now.to_string(), users.to_string(), ops, meta], exec);
    let d = |x: &[u8]| format!("D{}", hex(x));
    let two = format!("{},{}", uc, ua);
    let xmeta = |ws: &[Vec<u8>]| format!("@x={}", hex(&ws.concat()));
    let writes_for = |rng: &mut Rng, cmd: u8| if cmd == 1 { vec![rng.bytes(1), rng.bytes(50)] } else { vec![rng.bytes(7), vec![], rng.bytes(30)] };

    // ---- A. header padding length 0..15 (the client draws it at random), both commands, every address shape ----
    for padnib in 0..16u8 {
        for cmd in [1u8, 2] {
            let mut r = Req::new(rng, ua, now);
            r.padnib = padnib;
            r.padding = rng.bytes(padnib as usize);
            r.cmd = cmd;
            r.sec = if (padnib + cmd) % 2 == 0 { 3 } else { 4 };
            r.opt = masks[(padnib as usize * 2 + cmd as usize) % masks.len()];
            r.addr = addr_wires[(padnib as usize + cmd as usize) % addr_wires.len()].clone();
            let ws = writes_for(rng, cmd);
            let (head, body) = (r.head(), r.body(&ws));
            srv(w, now, &two, d(&[head.clone(), body.clone()].concat()), xmeta(&ws));
            srv(w, now, &two, format!("{};{}", d(&head), d(&body)), xmeta(&ws));
        }
    }
    // ---- B. every security nibble 0..15: 3 and 4 select the cipher, all others are decoded like 3 (recorded in the audit) ----
    for sec in 0..16u8 {
        for opt in [1u8, 29] {
            let mut r = Req::new(rng, ua, now);
            r.sec = sec;
            r.opt = opt;
            r.cmd = 1 + (sec + opt) % 2;
            let ws = writes_for(rng, r.cmd);
            let wire = [r.head(), r.body(&ws)].concat();
            srv(w, now, &two, d(&wire), if sec == 3 || sec == 4 { xmeta(&ws) } else { "@-".into() });
        }
    }
    // ---- C. command bytes other than TCP / UDP: refused, nothing released ----
    let cmds: Vec<u8> = if thorough { (0..=255u8).filter(|c| *c != 1 && *c != 2).collect() } else { vec![0, 3, 4, 5, 0x11, 0x7f, 0x80, 0x81, 0x82, 0xff] };
    for c in cmds {
        let mut r = Req::new(rng, ua, now);
        r.cmd = c;
        r.opt = *rng.pick(masks);
        let ws = vec![rng.bytes(20)];
        let wire = [r.head(), r.body(&ws)].concat();
        srv(w, now, &two, d(&wire), "@n".into());
    }
    // ---- D. version and reserved byte (neither is looked at) ----
    for (v, res) in [(0u8, 0u8), (2, 0), (255, 0), (1, 1), (1, 255), (0, 255)] {
        let mut r = Req::new(rng, ua, now);
        r.version = v;
        r.reserved = res;
        let ws = vec![rng.bytes(9)];
        srv(w, now, &two, d(&[r.head(), r.body(&ws)].concat()), "@-".into());
    }
    // ---- E. option byte over all 256 values (quick: the reuse bit, the three unknown bits, a seeded sample) ----
    let mut opts: Vec<u8> = if thorough { (0..=255u8).collect() } else { vec![2, 3, 6, 7, 19, 31, 32, 33, 64, 128, 0xe1, 0xed, 0xfd, 0xff] };
    if !thorough {
        for _ in 0..10 {
            opts.push(rng.below(256) as u8);
        }
    }
    for (i, opt) in opts.into_iter().enumerate() {
        let mut r = Req::new(rng, ua, now);
        r.opt = opt;
        r.cmd = 1 + (i % 2) as u8;
        r.sec = 3 + ((i / 2) % 2) as u8;
        let ws = writes_for(rng, r.cmd);
        srv(w, now, &two, d(&[r.head(), r.body(&ws)].concat()), xmeta(&ws));
    }
    // ---- F. address field of an authenticated header: type bytes, empty / non-UTF-8 names, lengths that run into the checksum ----
    let types: Vec<u8> = if thorough { (0..=255u8).filter(|t| !(1..=3).contains(t)).collect() } else { vec![0, 4, 5, 0x7f, 0x80, 0x81, 0x83, 0xff] };
    for t in types {
        let mut r = Req::new(rng, ua, now);
        r.addr = [vec![0, 80, t], rng.bytes(8)].concat();
        srv(w, now, &two, d(&[r.head(), r.body(&[rng.bytes(5)])].concat()), "@n".into());
    }
    let bad_names: Vec<Vec<u8>> = vec![vec![0xff, 0xfe], vec![b'a', 0xc3], vec![0xed, 0xa0, 0x80], vec![0xc0, 0xaf], vec![0xf4, 0x90, 0x80, 0x80], vec![0x80], [vec![b'a'; 254], vec![0xc3]].concat()];
    for n in bad_names {
        let mut r = Req::new(rng, ua, now);
        r.addr = craft::addr_wire(2, &n, 443);
        srv(w, now, &two, d(&[r.head(), r.body(&[rng.bytes(5)])].concat()), "@n".into());
    }
    for n in [&b""[..], "é".as_bytes(), "\u{1F600}.example".as_bytes(), &[0u8][..], &[b'.'; 255][..]] {
        let mut r = Req::new(rng, ua, now);
        r.addr = craft::addr_wire(2, n, 443);
        let ws = vec![rng.bytes(5)];
        srv(w, now, &two, d(&[r.head(), r.body(&ws)].concat()), "@-".into());
    }
    for a in [vec![0, 80, 2, 200, b'a', b'b', b'c'], vec![0, 80, 2, 7, b'a', b'b', b'c'], vec![0, 80, 2], vec![0, 80, 1, 127, 0], vec![0, 80, 1], [vec![0, 80, 3], vec![1; 15]].concat(), vec![0, 80], vec![0], vec![]] {
        let mut r = Req::new(rng, ua, now);
        r.addr = a;
        srv(w, now, &two, d(&[r.head(), r.body(&[rng.bytes(5)])].concat()), "@n".into());
    }
    // ---- G. declared padding length differs from the padding present ----
    for (nib, actual) in [(5u8, 0usize), (5, 4), (5, 6), (0, 3), (15, 14), (15, 16), (1, 0), (0, 1), (15, 0)] {
        let mut r = Req::new(rng, ua, now);
        r.padnib = nib;
        r.padding = rng.bytes(actual);
        srv(w, now, &two, d(&[r.head(), r.body(&[rng.bytes(5)])].concat()), "@n".into());
    }
    // ---- H. FNV-1a checksum: every checksum bit, and header bits changed under the old checksum (both well-sealed) ----
    {
        let mut r = Req::new(rng, ua, now);
        r.padnib = 3;
        r.padding = rng.bytes(3);
        r.addr = addr_wires[1].clone();
        let body = r.body(&[rng.bytes(12)]);
        let bits: Vec<u32> = if thorough { (0..32).collect() } else { (0..8).map(|i| (i * 4 + rng.below(4) as u32) % 32).collect() };
        for b in bits {
            srv(w, now, &two, d(&[r.head_of(&r.plain_ck(1 << b), None), body.clone()].concat()), "@n".into());
        }
        let good = r.plain_ck(0);
        for _ in 0..(if thorough { 200 } else { 24 }) {
            let mut p = good.clone();
            let bit = rng.below(((p.len() - 4) * 8) as u64) as usize;
            p[bit / 8] ^= 1 << (bit % 8);
            srv(w, now, &two, d(&[r.head_of(&p, None), body.clone()].concat()), "@n".into());
        }
        // the checksum of the whole header placed correctly but bytes appended behind it / the checksum not at the end
        let mut p = good.clone();
        p.extend_from_slice(&rng.bytes(4));
        srv(w, now, &two, d(&[r.head_of(&p, None), body.clone()].concat()), "@n".into());
    }
    // ---- I. header length: shorter than the fixed fields, the fixed fields alone (address parsed out of the checksum), and a
    //         length field that disagrees with the sealed header ----
    {
        let r = Req::new(rng, ua, now);
        let body = r.body(&[rng.bytes(12)]);
        for l in [0usize, 1, 3, 4, 5, 20, 37, 38, 41] {
            let p = rng.bytes(l);
            srv(w, now, &two, d(&[r.head_of(&p, None), body.clone()].concat()), "@n".into());
        }
        let full = r.plain();
        for keep in 38..full.len() {
            let mut p = full[..keep].to_vec();
            let ck = craft::fnv1a32(&p);
            p.extend_from_slice(&ck.to_be_bytes());
            srv(w, now, &two, d(&[r.head_of(&p, None), body.clone()].concat()), "@n".into());
        }
        let good = r.plain_ck(0);
        for claimed in [0u16, 1, good.len() as u16 - 1, good.len() as u16 + 1, good.len() as u16 + 16, 65535] {
            srv(w, now, &two, d(&[r.head_of(&good, Some(claimed)), body.clone()].concat()), "@n".into());
            srv(w, now, &two, d(&r.head_of(&good, Some(claimed))), "@n".into());
        }
    }
    // ---- J. auth id timestamp exactly at the window edge (the client's own ids carry +-30 s of jitter), extreme values, a
    //         server clock near the ends of its range, a wrong CRC ----
    for dt in [-100000i64, -122, -121, -120, -119, -1, 0, 1, 119, 120, 121, 122, 100000] {
        for (ui, uuid) in [ua, uc].into_iter().enumerate() {
            let mut r = Req::new(rng, uuid, now);
            r.ts = now + dt;
            r.cmd = 1 + ui as u8;
            let ws = writes_for(rng, r.cmd);
            srv(w, now, &two, d(&[r.head(), r.body(&ws)].concat()), if dt.abs() <= 120 { xmeta(&ws) } else { "@n".into() });
        }
    }
    for ts in [0i64, -1, 1, i64::MIN, i64::MIN + 1, i64::MAX, i64::MAX - 1, now + (1 << 32), now - (1 << 32), now + (1 << 31), -now, now << 8, 120, 121] {
        let mut r = Req::new(rng, ua, now);
        r.ts = ts;
        srv(w, now, &two, d(&[r.head(), r.body(&[rng.bytes(5)])].concat()), "@n".into());
    }
    for (clock, dt) in [(0i64, 120i64), (0, 121), (0, -120), (0, -121), (1, -121), (1, -122), ((1 << 62) - 1, 120), ((1 << 62) - 1, 121), ((1 << 62) - 1, -120), (1 << 40, -121)] {
        let mut r = Req::new(rng, ua, clock);
        r.ts = clock + dt;
        let ws = vec![rng.bytes(5)];
        srv(w, clock, &two, d(&[r.head(), r.body(&ws)].concat()), if dt.abs() <= 120 { xmeta(&ws) } else { "@n".into() });
    }
    for x in [1u32, 0x8000_0000, 0xffff_ffff] {
        let mut r = Req::new(rng, ua, now);
        r.crc_xor = x;
        srv(w, now, &two, d(&[r.head(), r.body(&[rng.bytes(5)])].concat()), "@n".into());
    }
    // ---- K. user tables: none, one, many; the sender first / in the middle / last; duplicates; absent ----
    {
        let others: Vec<String> = (0..(if thorough { 200 } else { 40 })).map(|_| flip_uuid_bit(&flip_uuid_bit(ub, rng.below(128) as usize), rng.below(128) as usize)).collect();
        let many = others.join(",");
        let tables: Vec<(String, bool)> = vec![
            ("-".to_string(), false),
            (ua.to_string(), true),
            (ub.to_string(), false),
            (format!("{},{},{}", ua, ub, uc), true),
            (format!("{},{},{}", ub, ua, uc), true),
            (format!("{},{},{}", ub, uc, ua), true),
            (format!("{},{}", ua, ua), true),
            (format!("{},{},{},{}", ub, ua, ua, uc), true),
            (format!("{},{},{}", ub, ub, uc), false),
            (format!("{},{}", many, ua), true),
            (format!("{},{}", ua, many), true),
            (many.clone(), false),
        ];
        for (ti, (table, known)) in tables.iter().enumerate() {
            let mut r = Req::new(rng, ua, now);
            r.cmd = 1 + (ti % 2) as u8;
            r.opt = masks[ti % masks.len()];
            let ws = writes_for(rng, r.cmd);
            srv(w, now, table, d(&[r.head(), r.body(&ws)].concat()), if *known { xmeta(&ws) } else { "@n".into() });
        }
        // a registered user whose id differs from the sender's in ONE bit (all 128 positions): refused; next to the right one: served
        let mut r = Req::new(rng, ua, now);
        r.opt = 29;
        let ws = writes_for(rng, 1);
        let wire = [r.head(), r.body(&ws)].concat();
        for bit in 0..128 {
            let near = flip_uuid_bit(ua, bit);
            srv(w, now, &near, d(&wire), "@n".into());
            if bit % 16 == (rng.below(16) as usize) || thorough {
                srv(w, now, &format!("{},{},{}", near, ua, uc), d(&wire), xmeta(&ws));
            }
        }
    }
    // ---- L. splices between users and between connections (all parts well-formed on their own) ----
    {
        let users = format!("{},{}", ua, ub);
        let ra = Req::new(rng, ua, now);
        let mut rb = ra.clone();
        rb.uuid = ub.to_string();
        let body = ra.body(&[rng.bytes(12)]);
        let (ha, hb) = (ra.head(), rb.head());
        // auth id of A, everything else sealed under B's key (and the reverse)
        srv(w, now, &users, d(&[ha[..16].to_vec(), hb[16..].to_vec(), body.clone()].concat()), "@n".into());
        srv(w, now, &users, d(&[hb[..16].to_vec(), ha[16..].to_vec(), body.clone()].concat()), "@n".into());
        // two connections of the same user: auth id / length block / nonce / header block taken from different ones
        let mut r2 = ra.clone();
        r2.rnd4 = rng.bytes(4);
        r2.cnonce = rng.bytes(8);
        let h2 = r2.head();
        for cut in [16usize, 34, 42] {
            srv(w, now, &users, d(&[ha[..cut].to_vec(), h2[cut..].to_vec(), body.clone()].concat()), "@n".into());
        }
        // the same sealed header behind a fresh auth id of the same user and second
        let mut r3 = ra.clone();
        r3.rnd4 = rng.bytes(4);
        srv(w, now, &users, d(&[r3.auth_id(), ha[16..].to_vec(), body.clone()].concat()), "@n".into());
        // a well-formed request followed by a second well-formed request on the same connection: the second is body data, and refused
        let ws = vec![rng.bytes(12)];
        let first = [ra.head(), ra.body(&ws)].concat();
        srv(w, now, &users, format!("{};{}", d(&first), d(&[rb.head(), rb.body(&ws)].concat())), format!("@p={}", hex(&ws.concat())));
    }
    // ---- M. operation order and the server's own writes: answer before any request; datagram answers at the size limit ----
    srv(w, now, &two, "E00".into(), "@n".into());
    srv(w, now, &two, format!("e{};{}", hex(&rng.bytes(3)), d(&rng.bytes(10))), "@n".into());
    for (i, opt) in [1u8, 17, 29, 13].into_iter().enumerate() {
        let mut r = Req::new(rng, ua, now);
        r.cmd = 2;
        r.opt = opt;
        r.sec = 3 + (i % 2) as u8;
        let ws = vec![rng.bytes(3)];
        let wire = [r.head(), r.body(&ws)].concat();
        let e = if opt & 8 != 0 { "e" } else { "E" };
        srv(w, now, &two, format!("{};{}{};{}{};{}-", d(&wire), e, hex(&rng.bytes(65456)), e, hex(&rng.bytes(1)), e), "@-".into());
        srv(w, now, &two, format!("{};{}{};{}{}", d(&wire), e, hex(&rng.bytes(65457)), e, hex(&rng.bytes(1))), "@-".into());
    }

    // ---- N. client: well-sealed response heads of every shape (command byte, command length, 1..259 bytes) FOLLOWED BY A VALID BODY ----
    {
        let cli = |w: &mut dyn Write, opt: u8, sec: u8, cmd: u8, sess: &[u8], ops: String, meta: String| {
            crate::emit_case(w, &["vmcli".to_string(), ua.to_string(), opt.to_string(), sec.to_string(), cmd.to_string(), "4:7f000001:80".to_string(), hex(sess), now.to_string(), ops, meta], exec)
        };
        let mut k = 0usize;
        for sec in [3u8, 4] {
            for cmd in [1u8, 2] {
                for &opt in &[1u8, 29, masks[(sec as usize + cmd as usize) % masks.len()]] {
                    let sess = rng.bytes(33);
                    let rh = sess[32];
                    let heads: Vec<Vec<u8>> = vec![vec![rh, opt, 0, 0], vec![rh], vec![rh, 0], vec![rh, 0, 0], vec![rh, 0, 1, 0], vec![rh, 0xff, 1, 4, 1, 2, 3, 4], [vec![rh, 0, 255, 255], rng.bytes(255)].concat(),
                                                vec![rh, 0, 0, 9], vec![rh, 0, 1, 0, 7, 7, 7]];
                    for h in &heads {
                        k += 1;
                        if !thorough && k % 3 != 0 && h.len() != 4 {
                            continue;
                        }
                        let ws = writes_for(rng, cmd);
                        let wsf: Vec<(bool, Vec<u8>)> = ws.iter().map(|x| (cmd == 2, x.clone())).collect();
                        let wire = [craft::resp_head(&sess, h, None), body_encode(opt, sec, false, &sess, &wsf).concat()].concat();
                        cli(w, opt, sec, cmd, &sess, format!("eaa;{}", d(&wire)), xmeta(&ws));
                        let cutp = 18 + h.len() + 16;
                        cli(w, opt, sec, cmd, &sess, format!("eaa;{};{}", d(&wire[..cutp]), d(&wire[cutp..])), xmeta(&ws));
                        // the answer is decoded before the client has written anything (order of operations)
                        cli(w, opt, sec, cmd, &sess, d(&wire), xmeta(&ws));
                    }
                    // the right head of ANOTHER session's byte / a head whose first byte is off by one bit
                    let ws = vec![rng.bytes(4)];
                    let wsf: Vec<(bool, Vec<u8>)> = ws.iter().map(|x| (cmd == 2, x.clone())).collect();
                    let body = body_encode(opt, sec, false, &sess, &wsf).concat();
                    for bit in 0..8 {
                        cli(w, opt, sec, cmd, &sess, format!("eaa;{}", d(&[craft::resp_head(&sess, &[rh ^ (1 << bit), opt, 0, 0], None), body.clone()].concat())), "@n".into());
                    }
                }
            }
        }
        // ---- O. client encoder: addresses that cannot be written (nothing is sent), datagrams at the size limit ----
        for cmd in [1u8, 2] {
            for a in ["D:-:80".to_string(), format!("D:{}:80", "61".repeat(256)), format!("D:{}:80", "61".repeat(300)), format!("D:{}:80", "c3a9".repeat(128))] {
                crate::emit_case(w, &["vmcli".to_string(), ua.to_string(), "29".into(), "3".into(), cmd.to_string(), a, hex(&rng.bytes(33)), now.to_string(), format!("e{};e{}", hex(&rng.bytes(5)), hex(&rng.bytes(5))), "@n".into()], exec);
            }
        }
        for (opt, sec) in [(1u8, 3u8), (29, 4)] {
            let sess = rng.bytes(33);
            for n in [65456usize, 65457] {
                crate::emit_case(w, &["vmcli".to_string(), ua.to_string(), opt.to_string(), sec.to_string(), "2".into(), "4:7f000001:53".into(), hex(&sess), now.to_string(), format!("e{};e{};e{}", hex(&rng.bytes(3)), hex(&rng.bytes(n)), hex(&rng.bytes(2))), "@-".into()], exec);
            }
        }
    }
    // ---- P. whole exchanges on the real client and server codecs against the model's own exchange: special addresses, every
    //         security value the header type can carry, both commands, payload sizes 0 / 1 / a chunk limit ----
    {
        let v6 = |h: &str, p: u16| format!("6:{}:{}", h, p);
        let mut targets: Vec<String> = vec![
            "4:00000000:0".into(), "4:ffffffff:65535".into(), "4:7f000001:80".into(),
            v6("00000000000000000000000000000000", 0), v6("00000000000000000000000000000001", 443), v6("00000000000000000000ffffc0000201", 80), v6("00000000000000000000ffff00000000", 1),
            v6("000000000000000000000000c0000201", 8080), v6("0064ff9b0000000000000000c0000201", 53), v6(&"ff".repeat(16), 65535), v6("fe800000000000000000000000000001", 123),
            "D:78:1".into(), format!("D:{}:65535", "61".repeat(255)), format!("D:{}:443", "62".repeat(254)), format!("D:{}:443", hex("日本語.example".as_bytes())),
            "D:3132372e302e302e31:80".into(), "D:3a3a31:80".into(), format!("D:{}:0", hex(b"a.b.")), "D:-:80".into(), format!("D:{}:80", "61".repeat(256)),
        ];
        for _ in 0..(if thorough { 40 } else { 6 }) {
            targets.push(format!("6:00000000000000000000ffff{}:{}", hex(&rng.bytes(4)), rng.below(65536)));
            targets.push(format!("4:{}:{}", hex(&rng.bytes(4)), rng.below(65536)));
        }
        for (i, t) in targets.iter().enumerate() {
            let cmd = 1 + (i % 2) as u8;
            let opt = masks[i % masks.len()];
            let sec = 3 + ((i / 2) % 2) as u8;
            let (up, down) = (rng.bytes([0usize, 1, 33, 2030][i % 4]), rng.bytes([5usize, 0, 1, 700][i % 4]));
            let host_len = t.split(':').nth(1).map(|h| unhex(h).len()).unwrap_or(0);
            let meta = if t.starts_with("D:") && !(1..=255).contains(&host_len) { "@n".to_string() } else { format!("@x={}", hex(&[up.clone(), down.clone()].concat())) };
            crate::emit_case(w, &["vmrt".to_string(), ua.to_string(), opt.to_string(), sec.to_string(), cmd.to_string(), t.clone(), hex(&rng.bytes(33)), now.to_string(), hex(&up), hex(&down), meta], exec);
        }
        for sec in 0..16u8 {
            for cmd in [1u8, 2] {
                let opt = if cmd == 1 { 29 } else { 1 };
                let (up, down) = (rng.bytes(40), rng.bytes(40));
                let meta = if sec == 3 || sec == 4 { format!("@x={}", hex(&[up.clone(), down.clone()].concat())) } else { "@-".to_string() };
                crate::emit_case(w, &["vmrt".to_string(), ua.to_string(), opt.to_string(), sec.to_string(), cmd.to_string(), "D:6578616d706c652e636f6d:443".into(), hex(&rng.bytes(33)), now.to_string(), hex(&up), hex(&down), meta], exec);
            }
        }
    }

    // ---- Q. body codec: security values other than 3 / 4, option bytes with unknown bits ----
    let body = |w: &mut dyn Write, opt: u8, sec: u8, role: &str, sess: &[u8], ops: String, meta: String| crate::emit_case(w, &["vmbody".to_string(), opt.to_string(), sec.to_string(), role.to_string(), hex(sess), ops, meta], exec);
    for (i, sec) in [0u8, 1, 2, 5, 6, 7, 15, 255].into_iter().enumerate() {
        for opt in [1u8, 29, 0xed, 0xe2] {
            let sess = rng.bytes(33);
            let client = (i + opt as usize) % 2 == 0;
            let (role, peer) = if client { ("client", "server") } else { ("server", "client") };
            let ws = vec![rng.bytes(1), rng.bytes(100), rng.bytes(2100)];
            let e = if opt & 8 != 0 { "e" } else { "E" };
            body(w, opt, sec, role, &sess, ws.iter().map(|x| format!("{}{}", e, hex(x))).collect::<Vec<_>>().join(";"), "@-".into());
            let wire = body_encode(opt, sec, client, &sess, &ws.iter().map(|x| (false, x.clone())).collect::<Vec<_>>()).concat();
            let c = 1 + rng.below(wire.len() as u64 - 1) as usize;
            body(w, opt, sec, peer, &sess, format!("{};{}", d(&wire[..c]), d(&wire[c..])), xmeta(&ws));
            let pw = body_encode(opt, sec, client, &sess, &ws.iter().map(|x| (true, x.clone())).collect::<Vec<_>>()).concat();
            body(w, opt, sec, peer, &sess, format!("U{}", hex(&pw)), xmeta(&ws));
        }
    }
    // ---- R. write sizes at and around the largest chunk payload (2048 - tag - size field [- padding]) and at 2^14 / 2^16 ----
    let big_combo = (rng.below(4) as usize, 3 + rng.below(2) as u8);
    for (i, opt) in [1u8, 5, 17, 29, 9, 21].into_iter().enumerate() {
        for sec in [3u8, 4] {
            if !thorough && i >= 4 && sec == 4 {
                continue;
            }
            let sess = rng.bytes(33);
            let client = (i + sec as usize) % 2 == 0;
            let (role, peer) = if client { ("client", "server") } else { ("server", "client") };
            let sizes: Vec<usize> = vec![2029, 2030, 2031, 2013, 2014, 2015, 1951, 1952, 1967, 4028, 4060, 4061];
            let ws: Vec<Vec<u8>> = sizes.iter().map(|&n| rng.bytes(n)).collect();
            let e = if opt & 8 != 0 { "e" } else { "E" };
            body(w, opt, sec, role, &sess, ws.iter().map(|x| format!("{}{}", e, hex(x))).collect::<Vec<_>>().join(";"), "@-".into());
            let outs = body_encode(opt, sec, client, &sess, &ws.iter().map(|x| (false, x.clone())).collect::<Vec<_>>());
            body(w, opt, sec, peer, &sess, outs.iter().map(|x| d(x)).collect::<Vec<_>>().join(";"), xmeta(&ws));
            body(w, opt, sec, peer, &sess, d(&outs.concat()), xmeta(&ws));
            let big: Vec<usize> = if thorough || (i, sec) == big_combo { vec![16383, 16384, 16385, 65535, 65536, 65537] } else { vec![16384, 16385] };
            let ws: Vec<Vec<u8>> = big.iter().map(|&n| rng.bytes(n)).collect();
            body(w, opt, sec, role, &sess, ws.iter().map(|x| format!("{}{}", e, hex(x))).collect::<Vec<_>>().join(";"), "@-".into());
            let outs = body_encode(opt, sec, client, &sess, &ws.iter().map(|x| (false, x.clone())).collect::<Vec<_>>());
            body(w, opt, sec, peer, &sess, outs.iter().map(|x| d(x)).collect::<Vec<_>>().join(";"), xmeta(&ws));
        }
    }
    // ---- S. chunk-level edits of a stream of single-chunk writes: delete / duplicate / swap / replay, a chunk of the opposite
    //         direction or of another session spliced in at the same position.  Only a prefix may come out. ----
    for (mi, &opt) in masks.iter().enumerate() {
        for sec in [3u8, 4] {
            let sess = rng.bytes(33);
            let other = rng.bytes(33);
            let client = (mi + sec as usize) % 2 == 0;
            let peer = if client { "server" } else { "client" };
            let ws: Vec<Vec<u8>> = [1usize, 2, 17, 40, 3, 25].iter().map(|&n| rng.bytes(n)).collect();
            let n = ws.len();
            for packet in [false, true] {
                let wsf: Vec<(bool, Vec<u8>)> = ws.iter().map(|x| (packet, x.clone())).collect();
                let chunks = body_encode(opt, sec, client, &sess, &wsf);
                let opposite = body_encode(opt, sec, !client, &sess, &wsf);
                let foreign = body_encode(opt, sec, client, &other, &wsf);
                let mut edits: Vec<Vec<Vec<u8>>> = Vec::new();
                let ks: Vec<usize> = if packet && !thorough { vec![0, 3] } else { (0..n).collect() };
                for &k in &ks {
                    let mut v = chunks.clone();
                    v.remove(k);
                    edits.push(v);
                    let mut v = chunks.clone();
                    v.insert(k, chunks[k].clone());
                    edits.push(v);
                    if k + 1 < n {
                        let mut v = chunks.clone();
                        v.swap(k, k + 1);
                        edits.push(v);
                    }
                    let mut v = chunks.clone();
                    v[k] = opposite[k].clone();
                    edits.push(v);
                    let mut v = chunks.clone();
                    v[k] = foreign[k].clone();
                    edits.push(v);
                }
                let mut v = chunks.clone();
                v.push(chunks[0].clone());
                edits.push(v);
                let op = if packet { "U" } else { "D" };
                for (ei, e) in edits.iter().enumerate() {
                    // alternately in one read and chunk by chunk
                    let o = if ei % 2 == 0 { format!("{}{}", op, hex(&e.concat())) } else { ops(op, e) };
                    body(w, opt, sec, peer, &sess, o, format!("@p={}", hex(&ws.concat())));
                }
            }
        }
    }
    // ---- T. stream and datagram framing mixed on one connection: an EMPTY chunk inside a stream, chunks written as packets read
    //         as a stream and the reverse (one chunk = one datagram) ----
    for (i, opt) in [1u8, 13, 17, 29].into_iter().enumerate() {
        for sec in [3u8, 4] {
            let sess = rng.bytes(33);
            let client = (i + sec as usize) % 2 == 1;
            let peer = if client { "server" } else { "client" };
            let (a, b, c) = (rng.bytes(30), rng.bytes(5000), rng.bytes(7));
            let mixed = body_encode(opt, sec, client, &sess, &[(false, a.clone()), (true, vec![]), (false, b.clone()), (true, vec![]), (true, c.clone())]);
            let all = [a.clone(), b.clone(), c.clone()];
            body(w, opt, sec, peer, &sess, d(&mixed.concat()), xmeta(&all));
            body(w, opt, sec, peer, &sess, ops("D", &mixed), xmeta(&all));
            body(w, opt, sec, peer, &sess, ops("U", &mixed), xmeta(&all));
            let bytewise: Vec<Vec<u8>> = mixed[..2].concat().iter().map(|x| vec![*x]).collect();
            body(w, opt, sec, peer, &sess, ops("D", &bytewise), xmeta(&[a.clone()]));
        }
    }
    // ---- T2. chunks LARGER than this implementation ever writes in a stream (other senders use 8 / 16 KiB chunks; the datagram
    //         encoder is used to produce them): 2049, around 2^14, and the largest chunk there is (65456 + padding + tag), read
    //         as a stream and as datagrams, whole and cut inside.  The generator above only ever ENCODED the largest datagram. ----
    let big_t = (rng.below(4) as usize, 3 + rng.below(2) as u8);
    for (i, opt) in [1u8, 13, 17, 29].into_iter().enumerate() {
        for sec in [3u8, 4] {
            let sess = rng.bytes(33);
            let client = (i + sec as usize) % 2 == 0;
            let peer = if client { "server" } else { "client" };
            let sizes: Vec<usize> = if thorough || (i, sec) == big_t { vec![2049, 16383, 16384, 16385, 65456, 0, 65455] } else { vec![2049, 16366, 16384, 16385] };
            let ws: Vec<Vec<u8>> = sizes.iter().map(|&n| rng.bytes(n)).collect();
            let chunks = body_encode(opt, sec, client, &sess, &ws.iter().map(|x| (true, x.clone())).collect::<Vec<_>>());
            let wire = chunks.concat();
            body(w, opt, sec, peer, &sess, d(&wire), xmeta(&ws));
            body(w, opt, sec, peer, &sess, ops("U", &chunks), xmeta(&ws));
            let c = chunks[0].len() + chunks[1].len() + 1 + rng.below(chunks[2].len() as u64 - 1) as usize;
            body(w, opt, sec, peer, &sess, format!("U{};U{}", hex(&wire[..c]), hex(&wire[c..])), xmeta(&ws));
            body(w, opt, sec, peer, &sess, format!("{};{}", d(&wire[..c]), d(&wire[c..])), xmeta(&ws));
        }
    }
    // ---- X. encoder and decoder of ONE end used alternately (they share the session object: the request iv doubles as the
    //         nonce of the payload counter of one direction and of the sealed-length counter of BOTH): body level with the
    //         encoder's bytes compared, and the server codec answering between the reads ----
    for (mi, &opt) in masks.iter().enumerate() {
        for sec in [3u8, 4] {
            if !thorough && (mi + sec as usize) % 2 == 1 && mi >= 4 {
                continue;
            }
            let sess = rng.bytes(33);
            let client = (mi + sec as usize) % 2 == 0;
            let role = if client { "client" } else { "server" };
            let packet = mi % 3 == 2;
            let inbound: Vec<Vec<u8>> = [3usize, 0, 40, 1, 2100, 17].iter().map(|&n| rng.bytes(n)).filter(|x| packet || !x.is_empty()).collect();
            let chunks = body_encode(opt, sec, !client, &sess, &inbound.iter().map(|x| (packet, x.clone())).collect::<Vec<_>>());
            let e = match (packet, opt & 8 != 0) {
                (false, false) => "E",
                (false, true) => "e",
                (true, false) => "P",
                (true, true) => "p",
            };
            let mut o: Vec<String> = Vec::new();
            for (k, c) in chunks.iter().enumerate() {
                o.push(format!("{}{}", e, hex(&rng.bytes([1usize, 30, 2500, 2, 0, 9][k % 6]))));
                if k % 2 == 0 {
                    o.push(format!("{}{}", if packet { "U" } else { "D" }, hex(c)));
                } else {
                    let cut = 1 + rng.below(c.len() as u64 - 1) as usize;
                    o.push(format!("{}{}", if packet { "U" } else { "D" }, hex(&c[..cut])));
                    o.push(format!("{}{}", e, hex(&rng.bytes(5))));
                    o.push(format!("{}{}", if packet { "U" } else { "D" }, hex(&c[cut..])));
                }
            }
            body(w, opt, sec, role, &sess, o.join(";"), xmeta(&inbound));
            // the server codec: request head + first chunk, answer, next chunk, answer, ...
            let mut r = Req::new(rng, ua, now);
            r.opt = opt;
            r.sec = sec;
            r.cmd = if packet { 2 } else { 1 };
            let up: Vec<Vec<u8>> = [5usize, 300, 1, 2200].iter().map(|&n| rng.bytes(n)).collect();
            let cs = body_encode(opt, sec, true, &r.sess, &up.iter().map(|x| (packet, x.clone())).collect::<Vec<_>>());
            let ee = if opt & 8 != 0 { "e" } else { "E" };
            let mut o = vec![d(&[r.head(), cs[0].clone()].concat())];
            for (k, c) in cs.iter().enumerate().skip(1) {
                o.push(format!("{}{}", ee, hex(&rng.bytes([7usize, 2100, 1][k % 3]))));
                o.push(d(c));
            }
            o.push(format!("{}{}", ee, hex(&rng.bytes(3))));
            srv(w, now, &two, o.join(";"), xmeta(&up));
        }
    }
    // ---- U. the FIRST size field forced to chosen values under masking (known mask) and under AuthenticatedLength (well-sealed):
    //         0, below / at / above tag + padding, 0xffff, and for the sealed form the values beyond 16 bits ----
    {
        use sha2::Digest;
        for (i, opt) in [5u8, 13, 17, 29, 25].into_iter().enumerate() {
            for sec in [3u8, 4] {
                let sess = rng.bytes(33);
                let server = (i + sec as usize) % 2 == 0;
                let role = if server { "server" } else { "client" };
                // this role's decoder: the server reads with the request iv, the client with the response iv
                let seed = if server { sess[0..16].to_vec() } else { sha2::Sha256::digest(&sess[0..16])[..16].to_vec() };
                let x = xof_u16s(&seed, 2);
                let (pad, mask) = if opt & 8 != 0 { ((x[0] % 64) as usize, x[1]) } else { (0usize, x[0]) };
                let mut lens: Vec<usize> = vec![0, 1, 15, 16, 17, pad + 15, pad + 16, pad + 17, 200, 0xffff, 0xffff + 16];
                lens.sort();
                lens.dedup();
                for l in lens {
                    let field = if opt & 16 != 0 {
                        if l < 16 {
                            continue;
                        }
                        let k = craft::kdf16(&sess[16..32], &[b"auth_len"]);
                        let nonce = [vec![0u8, 0], sess[2..12].to_vec()].concat();
                        let v = ((l - 16) as u16).to_be_bytes();
                        if sec == 4 { craft::seal("chacha20", &octo_squirrel::protocol::vmess::auth::generate_chacha20_poly1305_key(&k), &nonce, &[], &v) } else { craft::seal("aes128gcm", &k, &nonce, &[], &v) }
                    } else {
                        if l > 0xffff {
                            continue;
                        }
                        (mask ^ l as u16).to_be_bytes().to_vec()
                    };
                    let wire = [field, rng.bytes(l.min(300) + 5)].concat();
                    body(w, opt, sec, role, &sess, d(&wire), "@n".into());
                    body(w, opt, sec, role, &sess, format!("U{}", hex(&wire)), "@n".into());
                }
            }
        }
    }
    // ---- W. the 16-bit chunk counters (payload nonce, sealed-length nonce) up to and across 65535 -> 0: 65534 chunks are written
    //         (R) / written by the peer and read (L, M), then the next ones are compared byte for byte.  Without masking and
    //         padding only (the model's SHAKE stream costs quadratic time; each such case costs the model minutes, so thorough has four of them). ----
    {
        let combos: Vec<(u8, u8, &str)> = if thorough { vec![(1, 3, "client"), (17, 4, "server"), (16, 3, "client")] } else { vec![(17, 3 + (rng.below(2) as u8), if rng.chance(1, 2) { "client" } else { "server" })] };
        for (opt, sec, role) in combos {
            let sess = rng.bytes(33);
            body(w, opt, sec, role, &sess, format!("R65533,{};E{};E{};E{};E{}", hex(&rng.bytes(1)), hex(&rng.bytes(2)), hex(&rng.bytes(1)), hex(&rng.bytes(3)), hex(&rng.bytes(2))), "@-".into());
            if thorough && opt == 1 {
                body(w, opt, sec, role, &sess, format!("L65533,{};L5,{};M3,{}", hex(&rng.bytes(1)), hex(&rng.bytes(2)), hex(&rng.bytes(4))), "@-".into());
            }
        }
    }
}
