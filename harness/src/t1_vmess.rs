//! T1 for VMess AEAD: body codec (public lib API), server codec and client codec (hooks).
//!
//! vmbody \t opt \t sec(3|4) \t role(client|server) \t sess(iv16‖key16‖v hex) \t ops
//!     ops: E<hex> encode_payload (bytes compared) | e<hex> same, status only (random padding bytes)
//!          P<hex> / p<hex> encode_packet | D<hex> bytes arrive, decode_payload drain | U<hex> bytes arrive, decode_packet drain
//! vmsrv \t now \t uuids(csv) \t ops       ops: D<hex> | E<hex> | e<hex>   (ServerAeadCodec)
//! vmcli \t uuid \t opt \t sec \t cmd(1|2) \t addr \t sess \t now \t ops   ops: e<hex> | D<hex>   (ClientAEADCodec with chosen session)
use std::io::Write;

use bytes::BytesMut;
use octo_squirrel::codec::vmess::aead::AEADBodyCodec;
use octo_squirrel::protocol::address::Address;
use octo_squirrel::protocol::vmess::header::{RequestCommand, RequestHeader, RequestOption, SecurityType};
use octo_squirrel::protocol::vmess::session::{ClientSession, ServerSession, Session};
use octo_squirrel_client::client::verif_hooks as ch;
use octo_squirrel_server::server::verif_hooks as sh;
use tokio_util::codec::{Decoder, Encoder};

use crate::canon::{classify, parse_addr};
use crate::framed::{drain, line};
use crate::rng::Rng;
use crate::t1_misc::{server_config, show_inbound};
use crate::util::{catch, hex, unhex};

fn header(opt: u8, sec: u8, cmd: u8, addr: Address, id: [u8; 16]) -> RequestHeader {
    RequestHeader::new(1, if cmd == 1 { RequestCommand::TCP } else { RequestCommand::UDP }, RequestOption::from_mask(opt), SecurityType::from(sec), addr, id)
}

fn aead_res(r: Result<Result<BytesMut, aead::Error>, String>, show_bytes: bool, dead: &mut bool) -> String {
    match r {
        Ok(Ok(d)) => {
            if show_bytes { format!("OK {}", hex(&d)) } else { "OK".into() }
        }
        Ok(Err(_)) => {
            *dead = true;
            "ERR Aead".into()
        }
        Err(_) => {
            *dead = true;
            "PANIC".into()
        }
    }
}

fn run_body(f: &[&str]) -> String {
    let opt: u8 = f[1].parse().unwrap();
    let sec: u8 = f[2].parse().unwrap();
    let sess = unhex(f[4]);
    let hd = header(opt, sec, 1, parse_addr("4:7f000001:1"), [0; 16]);
    let mut cs = ClientSession::from(&sess[..]);
    let mut ss: ServerSession = cs.clone().into();
    let session: &mut dyn Session = if f[3] == "client" { &mut cs } else { &mut ss };
    let mut enc = AEADBodyCodec::new_encoder(&hd, session).unwrap();
    let mut dec = AEADBodyCodec::new_decoder(&hd, session).unwrap();
    let mut buf = BytesMut::new();
    let mut out = Vec::new();
    let mut dead = false;
    for op in f[5].split(';') {
        if op.is_empty() {
            continue;
        }
        if dead {
            out.push("SKIP".to_string());
            continue;
        }
        let (c, arg) = op.split_at(1);
        let data = unhex(arg);
        match c {
            "E" | "e" => {
                let r = catch(|| {
                    let mut dst = BytesMut::new();
                    enc.encode_payload(BytesMut::from(&data[..]), &mut dst, session).map(|_| dst)
                });
                out.push(aead_res(r, c == "E", &mut dead));
            }
            "P" | "p" => {
                let r = catch(|| {
                    let mut dst = BytesMut::new();
                    enc.encode_packet(BytesMut::from(&data[..]), &mut dst, session).map(|_| dst)
                });
                out.push(aead_res(r, c == "P", &mut dead));
            }
            _ => {
                buf.extend_from_slice(&data);
                let mut items = Vec::new();
                let mut status = "WAIT".to_string();
                for _ in 0..(buf.len() + 3) {
                    let r = catch(|| if c == "D" { dec.decode_payload(&mut buf, session) } else { dec.decode_packet(&mut buf, session) });
                    match r {
                        Ok(Ok(Some(it))) => {
                            items.push(hex(&it));
                            if buf.is_empty() {
                                break;
                            }
                        }
                        Ok(Ok(None)) => break,
                        Ok(Err(_)) => {
                            status = "ERR Aead".into();
                            dead = true;
                            break;
                        }
                        Err(_) => {
                            status = "PANIC".into();
                            dead = true;
                            break;
                        }
                    }
                }
                out.push(if dead { format!("{} [{}]", status, items.join(",")) } else { format!("{} [{}] rest={}", status, items.join(","), buf.len()) });
            }
        }
    }
    out.join(" | ")
}

fn run_srv(f: &[&str]) -> String {
    let now: i64 = f[1].parse().unwrap();
    octo_squirrel::verif_clock::set(Some(now));
    let users: Vec<String> = f[2].split(',').map(|s| s.to_string()).collect();
    let mut codec = sh::vmess::new_codec(&server_config("vmess", "aes-128-gcm", "unused", &users)).unwrap();
    let mut buf = BytesMut::new();
    let mut out = Vec::new();
    let mut dead = false;
    for op in f[3].split(';') {
        if op.is_empty() {
            continue;
        }
        if dead {
            out.push("SKIP".to_string());
            continue;
        }
        let (c, arg) = op.split_at(1);
        let data = unhex(arg);
        match c {
            "E" | "e" => {
                let r = catch(|| {
                    let mut dst = BytesMut::new();
                    codec.encode(sh::OutboundIn::Tcp(BytesMut::from(&data[..])), &mut dst).map(|_| dst)
                });
                out.push(match r {
                    Ok(Ok(d)) => {
                        if c == "E" { format!("OK {}", hex(&d)) } else { "OK".into() }
                    }
                    Ok(Err(e)) => {
                        dead = true;
                        format!("ERR {}", classify(&e))
                    }
                    Err(_) => {
                        dead = true;
                        "PANIC".into()
                    }
                });
            }
            _ => {
                let d = drain(&mut codec, &mut buf, &data, show_inbound);
                dead = d.dead;
                out.push(line(&d, buf.len()));
            }
        }
    }
    octo_squirrel::verif_clock::set(None);
    out.join(" | ")
}

fn run_cli(f: &[&str]) -> String {
    let id = octo_squirrel::protocol::vmess::id::from_password(f[1]).unwrap();
    let opt: u8 = f[2].parse().unwrap();
    let sec: u8 = f[3].parse().unwrap();
    let cmd: u8 = f[4].parse().unwrap();
    let sess = unhex(f[6]);
    let now: i64 = f[7].parse().unwrap();
    octo_squirrel::verif_clock::set(Some(now));
    let mut codec = ch::vmess::ClientAEADCodec::verif_with_session(header(opt, sec, cmd, parse_addr(f[5]), id), ClientSession::from(&sess[..]));
    let mut buf = BytesMut::new();
    let mut out = Vec::new();
    let mut dead = false;
    for op in f[8].split(';') {
        if op.is_empty() {
            continue;
        }
        if dead {
            out.push("SKIP".to_string());
            continue;
        }
        let (c, arg) = op.split_at(1);
        let data = unhex(arg);
        match c {
            "e" | "w" => {
                let r = catch(|| {
                    let mut dst = BytesMut::new();
                    codec.encode(BytesMut::from(&data[..]), &mut dst).map(|_| dst)
                });
                out.push(match r {
                    Ok(Ok(d)) => {
                        if c == "w" { format!("OK {}", hex(&d)) } else { "OK".into() }
                    }
                    Ok(Err(e)) => {
                        dead = true;
                        format!("ERR {}", classify(&e))
                    }
                    Err(_) => {
                        dead = true;
                        "PANIC".into()
                    }
                });
            }
            _ => {
                let d = drain(&mut codec, &mut buf, &data, |b: BytesMut| hex(&b));
                dead = d.dead;
                out.push(line(&d, buf.len()));
            }
        }
    }
    octo_squirrel::verif_clock::set(None);
    out.join(" | ")
}

/// KNOWN FINDING F-12b probe: with AuthenticatedLength the size field of the first chunk of BOTH directions is sealed
/// under the same key and nonce: for equal chunk sizes the two 18-byte size fields are byte-identical
fn run_authlen(f: &[&str]) -> String {
    let opt: u8 = f[1].parse().unwrap();
    let sec: u8 = f[2].parse().unwrap();
    let sess = unhex(f[3]);
    let payload = unhex(f[4]);
    let hd = header(opt, sec, 1, parse_addr("4:7f000001:1"), [0; 16]);
    let mut cs = ClientSession::from(&sess[..]);
    let mut ss: ServerSession = cs.clone().into();
    let mut ce = AEADBodyCodec::new_encoder(&hd, &mut cs).unwrap();
    let mut se = AEADBodyCodec::new_encoder(&hd, &mut ss).unwrap();
    let (mut c, mut s) = (BytesMut::new(), BytesMut::new());
    ce.encode_payload(BytesMut::from(&payload[..]), &mut c, &mut cs).unwrap();
    se.encode_payload(BytesMut::from(&payload[..]), &mut s, &mut ss).unwrap();
    if c.len() >= 18 && c[..18] == s[..18] { format!("SAME {}", hex(&c[..18])) } else { "DIFF".into() }
}

pub fn exec(f: &[&str]) -> Vec<String> {
    let r = catch(|| match f[0] {
        "vmauthlen" => run_authlen(f),
        "vmbody" => run_body(f),
        "vmsrv" => run_srv(f),
        "vmcli" => run_cli(f),
        _ => "UNKNOWN".into(),
    });
    vec![r.unwrap_or_else(|_| "PANIC".into())]
}

fn cuts(rng: &mut Rng, w: &[u8], focus: usize, count: usize) -> Vec<Vec<Vec<u8>>> {
    let mut v = vec![vec![w.to_vec()]];
    let lim = (focus + 12).min(w.len().saturating_sub(1));
    let mut cs: Vec<usize> = (1..=lim).collect();
    while cs.len() > count {
        let i = rng.below(cs.len() as u64) as usize;
        cs.remove(i);
    }
    for c in cs {
        v.push(vec![w[..c].to_vec(), w[c..].to_vec()]);
    }
    for _ in 0..count / 2 {
        let mut ps: Vec<usize> = (0..rng.range(2, 6)).map(|_| rng.range(1, w.len().max(2) as u64 - 1) as usize).collect();
        ps.sort();
        ps.dedup();
        let mut segs = Vec::new();
        let mut last = 0;
        for p in ps {
            if p > last && p < w.len() {
                segs.push(w[last..p].to_vec());
                last = p;
            }
        }
        segs.push(w[last..].to_vec());
        v.push(segs);
    }
    if w.len() <= 150 {
        v.push(w.iter().map(|b| vec![*b]).collect());
    }
    v
}

fn ops(prefix: &str, segs: &[Vec<u8>]) -> String {
    segs.iter().map(|s| format!("{}{}", prefix, hex(s))).collect::<Vec<_>>().join(";")
}

fn outputs(res: &str) -> Vec<Vec<u8>> {
    res.split(" | ").filter_map(|x| x.strip_prefix("OK ")).map(unhex).collect()
}

pub fn generate(w: &mut dyn Write, seed: u64, thorough: bool) {
    let mut rng = Rng::new(seed);
    let now: i64 = 1_790_000_000;
    // option masks (S=1 chunk stream, R=2 reuse, M=4 masking, P=8 padding, A=16 authenticated length): thorough = all 32;
    // quick = the ten usual ones + four more chosen by the seed
    let mut masks: Vec<u8> = vec![1, 5, 9, 13, 17, 25, 29, 21, 0, 4];
    if thorough {
        masks.extend((0u8..32).filter(|m| ![1u8, 5, 9, 13, 17, 25, 29, 21, 0, 4].contains(m)));
    } else {
        while masks.len() < 14 {
            let m = rng.below(32) as u8;
            if !masks.contains(&m) {
                masks.push(m);
            }
        }
    }
    let per = if thorough { 24 } else { 6 };
    // ---- body level: all masks x securities x directions, stream and packet mode ----
    for &opt in &masks {
        for sec in [3u8, 4] {
            let sess = rng.bytes(33);
            let padded = opt & 8 != 0;
            for role in ["client", "server"] {
                let peer = if role == "client" { "server" } else { "client" };
                // stream mode
                let writes = [rng.bytes(1), rng.bytes(300), rng.bytes(2048), rng.bytes(5000), vec![]];
                let eops: Vec<String> = writes.iter().map(|x| format!("E{}", hex(x))).collect();
                let a = vec!["vmbody".to_string(), opt.to_string(), sec.to_string(), role.to_string(), hex(&sess), eops.join(";")];
                let fa: Vec<&str> = a.iter().map(|s| s.as_str()).collect();
                let wire: Vec<u8> = outputs(&exec(&fa)[0]).concat();
                let mut a2 = a.clone();
                if padded {
                    a2[5] = a2[5].replace('E', "e");
                }
                crate::emit_case(w, &a2, exec);
                for segs in cuts(&mut rng, &wire, 40, per) {
                    crate::emit_case(w, &["vmbody".to_string(), opt.to_string(), sec.to_string(), peer.to_string(), hex(&sess), ops("D", &segs), format!("@x={}", hex(&writes.concat()))], exec);
                }
                // tiny writes: chunks shorter than a size field / tag; every two-cut and byte-by-byte
                let tiny: Vec<Vec<u8>> = [1usize, 1, 2, 15, 16, 17, 18, 1].iter().map(|&l| rng.bytes(l)).collect();
                let tops: Vec<String> = tiny.iter().map(|x| format!("E{}", hex(x))).collect();
                let ta = vec!["vmbody".to_string(), opt.to_string(), sec.to_string(), role.to_string(), hex(&sess), tops.join(";")];
                let tfa: Vec<&str> = ta.iter().map(|s| s.as_str()).collect();
                let twire: Vec<u8> = outputs(&exec(&tfa)[0]).concat();
                let mut tcuts: Vec<Vec<Vec<u8>>> = (1..twire.len()).step_by(if thorough { 1 } else { 2 }).map(|c| vec![twire[..c].to_vec(), twire[c..].to_vec()]).collect();
                tcuts.push(twire.iter().map(|b| vec![*b]).collect());
                for segs in tcuts {
                    crate::emit_case(w, &["vmbody".to_string(), opt.to_string(), sec.to_string(), peer.to_string(), hex(&sess), ops("D", &segs), format!("@x={}", hex(&tiny.concat()))], exec);
                }
                // packet mode: sizes around every limit; each packet one chunk
                let sizes: &[usize] = if thorough { &[0, 1, 100, 1400, 1993, 2047, 2048, 2049, 8192, 65456, 65457, 65507] } else { &[0, 1, 1400, 2049, 65456, 65457] };
                let pk: Vec<Vec<u8>> = sizes.iter().map(|&n| rng.bytes(n)).collect();
                let pops: Vec<String> = pk.iter().map(|x| format!("P{}", hex(x))).collect();
                // each packet on a fresh codec pair would hide counter effects: keep one codec, stop at the refused size
                let a = vec!["vmbody".to_string(), opt.to_string(), sec.to_string(), role.to_string(), hex(&sess), pops[..pops.len().min(4)].join(";")];
                let fa: Vec<&str> = a.iter().map(|s| s.as_str()).collect();
                let pw: Vec<u8> = outputs(&exec(&fa)[0]).concat();
                let mut a2 = a.clone();
                if padded {
                    a2[5] = a2[5].replace('P', "p");
                }
                crate::emit_case(w, &a2, exec);
                for segs in cuts(&mut rng, &pw, 30, per / 2 + 1) {
                    crate::emit_case(w, &["vmbody".to_string(), opt.to_string(), sec.to_string(), peer.to_string(), hex(&sess), ops("U", &segs), format!("@x={}", hex(&pk[..pk.len().min(4)].concat()))], exec);
                }
                for big in &pops[4.min(pops.len())..] {
                    let mut a3 = vec!["vmbody".to_string(), opt.to_string(), sec.to_string(), role.to_string(), hex(&sess), big.clone()];
                    if padded {
                        a3[5] = a3[5].replace('P', "p");
                    }
                    crate::emit_case(w, &a3, exec);
                }
                // mutations of the stream: bit flips near the first chunks (masked/plain lengths are unauthenticated)
                let flips = if thorough { 400 } else { 40 };
                for _ in 0..flips {
                    let mut m = wire[..wire.len().min(700)].to_vec();
                    let bit = rng.below((m.len().min(120) * 8) as u64) as usize;
                    m[bit / 8] ^= 1 << (bit % 8);
                    crate::emit_case(w, &["vmbody".to_string(), opt.to_string(), sec.to_string(), peer.to_string(), hex(&sess), format!("D{}", hex(&m)), format!("@p={}", hex(&writes.concat()))], exec);
                    let mut m = pw[..pw.len().min(700)].to_vec();
                    if !m.is_empty() {
                        let bit = rng.below((m.len().min(120) * 8) as u64) as usize;
                        m[bit / 8] ^= 1 << (bit % 8);
                        crate::emit_case(w, &["vmbody".to_string(), opt.to_string(), sec.to_string(), peer.to_string(), hex(&sess), format!("U{}", hex(&m)), format!("@p={}", hex(&pk[..pk.len().min(4)].concat()))], exec);
                    }
                }
                // reflection: this role's own output comes back to it
                crate::emit_case(w, &["vmbody".to_string(), opt.to_string(), sec.to_string(), role.to_string(), hex(&sess), format!("D{}", hex(&wire[..wire.len().min(3000)])), "@n".to_string()], exec);
            }
        }
    }
    // every forced size value of the first (plain) length field, with padding on/off: length < padding + tag must be an error
    for opt in [1u8, 9] {
        for v in (0..100u16).chain([0x7fff, 0xffff]) {
            let mut m = v.to_be_bytes().to_vec();
            m.extend_from_slice(&rng.bytes(v.min(200) as usize));
            crate::emit_case(w, &["vmbody".to_string(), opt.to_string(), "3".into(), "server".into(), hex(&[7u8; 33]), format!("D{}", hex(&m))], exec);
            crate::emit_case(w, &["vmbody".to_string(), opt.to_string(), "3".into(), "server".into(), hex(&[7u8; 33]), format!("U{}", hex(&m))], exec);
        }
    }
    // ---- codec level: client request -> server, server response -> client ----
    let uuids = ["b831381d-6324-4d53-ad4f-8cda48b30811".to_string(), "11111111-2222-3333-4444-555555555555".into(), "00000000-0000-0000-0000-000000000001".into()];
    let addrs = ["4:7f000001:80".to_string(), "D:6578616d706c652e636f6d:443".into(), format!("6:{}:8080", "20010db8".repeat(4)), format!("D:{}:1", "61".repeat(255))];
    for (ci, &opt) in masks.iter().enumerate() {
        for sec in [3u8, 4] {
            for cmd in [1u8, 2] {
                if !thorough && (ci + sec as usize + cmd as usize) % 2 == 1 && ci > 3 {
                    continue;
                }
                let addr = rng.pick(&addrs).clone();
                let uuid = uuids[ci % 2].clone();
                let sess = rng.bytes(33);
                let writes = if cmd == 1 { vec![rng.bytes(1), rng.bytes(700), rng.bytes(3000)] } else { vec![rng.bytes(10), rng.bytes(1400), vec![]] };
                let wops: Vec<String> = writes.iter().map(|x| format!("w{}", hex(x))).collect();
                let a = vec!["vmcli".to_string(), uuid.clone(), opt.to_string(), sec.to_string(), cmd.to_string(), addr.clone(), hex(&sess), now.to_string(), wops.join(";")];
                let fa: Vec<&str> = a.iter().map(|s| s.as_str()).collect();
                let req_parts = outputs(&exec(&fa)[0]);
                if req_parts.len() != writes.len() {
                    let mut a2 = a.clone();
                    a2[8] = a2[8].replace('w', "e");
                    crate::emit_case(w, &a2, exec);
                    continue;
                }
                let req: Vec<u8> = req_parts.concat();
                let head_len = req_parts[0].len();
                let users = format!("{},{}", uuids[2], uuid);
                // server decodes the request (segmentations), then answers; the answer goes to the client
                let resp_writes = [rng.bytes(3), rng.bytes(900)];
                let mut resp: Vec<u8> = Vec::new();
                for (si, segs) in cuts(&mut rng, &req, head_len.min(130), per).iter().enumerate() {
                    let mut o = ops("D", segs);
                    for x in &resp_writes {
                        o.push_str(&format!(";{}{}", if opt & 8 != 0 { "e" } else { "E" }, hex(x)));
                    }
                    let sa = vec!["vmsrv".to_string(), now.to_string(), users.clone(), o.clone(), format!("@x={}", hex(&writes.concat()))];
                    if si == 0 {
                        let o2 = o.replace(";e", ";E");
                        let sa2 = vec!["vmsrv".to_string(), now.to_string(), users.clone(), o2];
                        let f2: Vec<&str> = sa2.iter().map(|s| s.as_str()).collect();
                        resp = outputs(&exec(&f2)[0]).concat();
                    }
                    crate::emit_case(w, &sa, exec);
                }
                if !resp.is_empty() {
                    for segs in cuts(&mut rng, &resp, 60, per) {
                        let o = format!("e{};{}", hex(&writes[0]), ops("D", &segs));
                        let xp = resp_writes.concat();
                        crate::emit_case(w, &["vmcli".to_string(), uuid.clone(), opt.to_string(), sec.to_string(), cmd.to_string(), addr.clone(), hex(&sess), now.to_string(), o, format!("@x={}", hex(&xp))], exec);
                    }
                    // the same response presented to a client with another session: must be refused
                    let other = rng.bytes(33);
                    let o = format!("e{};D{}", hex(&writes[0]), hex(&resp));
                    crate::emit_case(w, &["vmcli".to_string(), uuid.clone(), opt.to_string(), sec.to_string(), cmd.to_string(), addr.clone(), hex(&other), now.to_string(), o, "@n".to_string()], exec);
                    // reflection of the request to the client
                    let o = format!("e{};D{}", hex(&writes[0]), hex(&req));
                    crate::emit_case(w, &["vmcli".to_string(), uuid.clone(), opt.to_string(), sec.to_string(), cmd.to_string(), addr.clone(), hex(&sess), now.to_string(), o, "@n".to_string()], exec);
                }
                // truncations and flips of the request head; unknown user; stale auth id (clock +-120/121 and far)
                if ci < 3 || thorough {
                    for cut in (0..(head_len + 30).min(req.len())).step_by(if thorough { 1 } else { 2 }) {
                        crate::emit_case(w, &["vmsrv".to_string(), now.to_string(), users.clone(), format!("D{}", hex(&req[..cut])), format!("@p={}", hex(&writes.concat()))], exec);
                    }
                    for _ in 0..(if thorough { 300 } else { 30 }) {
                        let mut m = req.clone();
                        let bit = rng.below((head_len * 8) as u64) as usize;
                        m[bit / 8] ^= 1 << (bit % 8);
                        crate::emit_case(w, &["vmsrv".to_string(), now.to_string(), users.clone(), format!("D{}", hex(&m)), format!("@p={}", hex(&writes.concat()))], exec);
                    }
                    crate::emit_case(w, &["vmsrv".to_string(), now.to_string(), uuids[2].clone(), format!("D{}", hex(&req)), "@n".to_string()], exec);
                    for dt in [-151i64, -150, -149, -91, -90, -89, 0, 89, 90, 91, 149, 150, 151, 100000] {
                        crate::emit_case(w, &["vmsrv".to_string(), (now + dt).to_string(), users.clone(), format!("D{}", hex(&req))], exec);
                    }
                }
            }
        }
    }
    // well-authenticated response heads whose decrypted content is malformed (empty, short, wrong authentication byte,
    // a length field that promises more than follows): the client must refuse or wait, never crash, never release
    {
        use octo_squirrel::protocol::vmess::aead::kdf;
        use sha2::Digest;
        let seal = |key: &[u8], iv: &[u8], pt: &[u8]| crate::prims::aead("aes128gcm", true, key, &iv[..12], &[], pt).unwrap();
        for ci in 0..(if thorough { 12 } else { 4 }) {
            let sess = rng.bytes(33);
            let (riv, rkey, rh) = (&sess[0..16], &sess[16..32], sess[32]);
            let resp_key = sha2::Sha256::digest(rkey)[..16].to_vec();
            let resp_iv = sha2::Sha256::digest(riv)[..16].to_vec();
            let len_key = kdf::kdf16(&resp_key, vec![kdf::SALT_AEAD_RESP_HEADER_LEN_KEY]);
            let len_iv = kdf::kdf(&resp_iv, vec![kdf::SALT_AEAD_RESP_HEADER_LEN_IV]);
            let hdr_key = kdf::kdf16(&resp_key, vec![kdf::SALT_AEAD_RESP_HEADER_PAYLOAD_KEY]);
            let hdr_iv = kdf::kdf(&resp_iv, vec![kdf::SALT_AEAD_RESP_HEADER_PAYLOAD_IV]);
            let heads: Vec<Vec<u8>> = vec![vec![], vec![rh], vec![rh, 0], vec![rh, 0, 0], vec![rh, 0, 0, 0], vec![rh ^ 1, 0, 0, 0], vec![rh, 0, 1, 4, 1, 2, 3, 4],
                                           vec![rh, 0, 1, 200, 1, 2], rng.bytes(ci + 1)];
            for h in &heads {
                for claimed in [h.len(), h.len() + 1, 0usize, 65535] {
                    let mut wire = seal(&len_key, &len_iv, &(claimed as u16).to_be_bytes());
                    wire.extend(seal(&hdr_key, &hdr_iv, h));
                    wire.extend(rng.bytes(ci * 7 % 40));
                    let opt = masks[ci % masks.len()];
                    let o = format!("eaa;D{}", hex(&wire));
                    crate::emit_case(w, &["vmcli".to_string(), uuids[0].clone(), opt.to_string(), "3".into(), "1".into(), addrs[0].clone(), hex(&sess), now.to_string(), o.clone()], exec);
                    // byte by byte
                    let segs: Vec<Vec<u8>> = wire.iter().map(|b| vec![*b]).collect();
                    let o = format!("eaa;{}", ops("D", &segs));
                    crate::emit_case(w, &["vmcli".to_string(), uuids[0].clone(), opt.to_string(), "3".into(), "1".into(), addrs[0].clone(), hex(&sess), now.to_string(), o], exec);
                }
            }
        }
    }
    // random bytes to server and client
    for l in (0..120).step_by(if thorough { 1 } else { 3 }) {
        crate::emit_case(w, &["vmsrv".to_string(), now.to_string(), uuids[0].clone(), format!("D{}", hex(&rng.bytes(l))), "@n".to_string()], exec);
        crate::emit_case(w, &["vmcli".to_string(), uuids[0].clone(), "13".into(), "3".into(), "1".into(), addrs[0].clone(), hex(&rng.bytes(33)), now.to_string(), format!("eaa;D{}", hex(&rng.bytes(l))), "@n".to_string()], exec);
    }
}
