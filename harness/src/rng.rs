//! Deterministic PRNG (splitmix64): every random choice of the harness derives from VERIF_SEED.
#[derive(Clone)]
pub struct Rng(pub u64);
impl Rng {
    pub fn new(seed: u64) -> Self {
        Rng(seed ^ 0x9E37_79B9_7F4A_7C15)
    }
    pub fn next(&mut self) -> u64 {
        self.0 = self.0.wrapping_add(0x9E37_79B9_7F4A_7C15);
        let mut z = self.0;
        z = (z ^ (z >> 30)).wrapping_mul(0xBF58_476D_1CE4_E5B9);
        z = (z ^ (z >> 27)).wrapping_mul(0x94D0_49BB_1331_11EB);
        z ^ (z >> 31)
    }
    pub fn below(&mut self, n: u64) -> u64 {
        if n == 0 { 0 } else { self.next() % n }
    }
    pub fn range(&mut self, lo: u64, hi_incl: u64) -> u64 {
        lo + self.below(hi_incl - lo + 1)
    }
    pub fn chance(&mut self, num: u64, den: u64) -> bool {
        self.below(den) < num
    }
    pub fn pick<'a, T>(&mut self, v: &'a [T]) -> &'a T {
        &v[self.below(v.len() as u64) as usize]
    }
    pub fn bytes(&mut self, n: usize) -> Vec<u8> {
        let mut v = Vec::with_capacity(n);
        while v.len() < n {
            let x = self.next().to_le_bytes();
            let take = (n - v.len()).min(8);
            v.extend_from_slice(&x[..take]);
        }
        v
    }
    pub fn bytes_of(&mut self, lens: &[usize]) -> Vec<u8> {
        let n = *self.pick(lens);
        self.bytes(n)
    }
    pub fn fork(&mut self) -> Rng {
        Rng::new(self.next())
    }
}
