//! T1 for Trojan codecs (via hooks), the SOCKS5 handshake decoders / UDP codec, and recognize_http (hook).
//!
//! trojsrv \t password_hex \t ops          ops: D<hex> segments through the FramedRead-style drain
//! trojcu  \t ops                          client udp decoder
//! trojenc \t password_hex \t cmd \t addr \t payload_hex \t [pkt_addr]     first client write (tcp: cmd=1, udp: cmd=3)
//! trojsenc \t addr \t payload                                        server udp packet encode
//! s5ir | s5cr | s5irs | s5crs \t ops     the four socks5 handshake decoders
//! s5udp \t datagram_hex                   Socks5UdpCodec::decode, one call
//! s5udpo \t datagram_hex \t meta           the same call, result in item-list form "OK [addr:payload] rest=n" (direct oracles apply)
//! s5udpenc \t addr \t payload
//! http \t method_hex \t target_hex        recognize_http
use std::io::Write;

use bytes::BytesMut;
use octo_squirrel::config::ServerConfig;
use octo_squirrel::protocol::socks5::codec::*;
use octo_squirrel::protocol::socks5::message::Socks5Message;
use octo_squirrel_client::client::verif_hooks as ch;
use octo_squirrel_server::server::verif_hooks as sh;
use tokio_util::codec::{Decoder, Encoder};

use crate::canon::{addr_str, parse_addr};
use crate::framed::{drain, line};
use crate::rng::Rng;
use crate::util::{catch, hex, unhex};

pub fn server_config(protocol: &str, cipher: &str, password: &str, users: &[String]) -> ServerConfig<sh::SslConfig> {
    let us: Vec<serde_json::Value> = users.iter().map(|u| serde_json::json!({"name": "u", "password": u})).collect();
    serde_json::from_value(serde_json::json!({"host": "127.0.0.1", "port": 1, "password": password, "protocol": protocol, "cipher": cipher, "user": us})).expect("server config")
}

pub fn show_inbound(i: sh::InboundIn) -> String {
    match i {
        sh::InboundIn::ConnectTcp(p, a) => format!("C:{}:{}", addr_str(&a), hex(&p)),
        sh::InboundIn::RelayTcp(p) => format!("T:{}", hex(&p)),
        sh::InboundIn::RelayUdp(p, a) => format!("U:{}:{}", addr_str(&a), hex(&p)),
    }
}

fn run_ops<D: Decoder<Error = anyhow::Error>>(codec: &mut D, ops: &str, show: impl Fn(D::Item) -> String + Copy) -> String {
    let mut buf = BytesMut::new();
    let mut out = Vec::new();
    let mut dead = false;
    for op in ops.split(';') {
        if op.is_empty() {
            continue;
        }
        if dead {
            out.push("SKIP".to_string());
            continue;
        }
        let d = drain(codec, &mut buf, &unhex(&op[1..]), show);
        dead = d.dead;
        out.push(line(&d, buf.len()));
    }
    out.join(" | ")
}

fn reenc<M: Socks5Message>(mut m: M) -> String {
    let mut b = BytesMut::new();
    m.encode(&mut b);
    hex(&b)
}

pub fn exec(f: &[&str]) -> Vec<String> {
    let r = catch(|| match f[0] {
        "trojsrv" => {
            let pw = String::from_utf8(unhex(f[1])).unwrap();
            let mut c = sh::trojan::new_codec(&server_config("trojan", "aes-128-gcm", &pw, &[])).unwrap();
            run_ops(&mut c, f[2], show_inbound)
        }
        "trojcu" => {
            let mut c = ch::trojan::UdpClientCodec::new(b"x", 3, parse_addr("4:7f000001:1"));
            run_ops(&mut c, f[1], |(p, a): (BytesMut, _)| format!("{}:{}", addr_str(&a), hex(&p)))
        }
        "trojenc" => {
            let pw = unhex(f[1]);
            let cmd: u8 = f[2].parse().unwrap();
            let mut dst = BytesMut::new();
            if cmd == 1 {
                let mut c = ch::trojan::TcpClientCodec::new(&pw, cmd, parse_addr(f[3]));
                c.encode(BytesMut::from(&unhex(f[4])[..]), &mut dst).unwrap();
                c.encode(BytesMut::from(&unhex(f[4])[..]), &mut dst).unwrap();
            } else {
                let mut c = ch::trojan::UdpClientCodec::new(&pw, cmd, parse_addr(f[3]));
                c.encode((BytesMut::from(&unhex(f[4])[..]), parse_addr(f[5])), &mut dst).unwrap();
                c.encode((BytesMut::from(&unhex(f[4])[..]), parse_addr(f[5])), &mut dst).unwrap();
            }
            format!("OK {}", hex(&dst))
        }
        "trojsenc" => {
            let mut c = sh::trojan::new_codec(&server_config("trojan", "aes-128-gcm", "x", &[])).unwrap();
            let mut dst = BytesMut::new();
            let a = match parse_addr(f[1]) {
                octo_squirrel::protocol::address::Address::Socket(s) => s,
                _ => panic!("socket address expected"),
            };
            c.encode(sh::OutboundIn::Udp((BytesMut::from(&unhex(f[2])[..]), a)), &mut dst).unwrap();
            c.encode(sh::OutboundIn::Tcp(BytesMut::from(&unhex(f[2])[..])), &mut dst).unwrap();
            format!("OK {}", hex(&dst))
        }
        "s5ir" => run_ops(&mut Socks5InitialRequestDecoder, f[1], reenc),
        "s5cr" => run_ops(&mut Socks5CommandRequestDecoder, f[1], |m| format!("{}:{}", m.command_type as u8, addr_str(&m.dst_addr))),
        "s5irs" => run_ops(&mut Socks5InitialResponseDecoder, f[1], |m| format!("{}", m.auth_method as u8)),
        "s5crs" => run_ops(&mut Socks5CommandResponseDecoder, f[1], |m| format!("{}:{}", m.command_status as u8, addr_str(&m.bnd_addr))),
        "s5udp" => {
            let mut b = BytesMut::from(&unhex(f[1])[..]);
            match Socks5UdpCodec.decode(&mut b) {
                Ok(Some((p, a))) => format!("OK rest={} {}:{}", b.len(), addr_str(&a), hex(&p)),
                Ok(None) => format!("OK rest={} none", b.len()),
                Err(e) => format!("ERR {}", crate::canon::classify(&e)),
            }
        }
        "s5udpo" => {
            // same call as s5udp; the result is printed in the item-list form of the scripted components so that the
            // direct oracles (@x / @n) of ./check apply to it
            let mut b = BytesMut::from(&unhex(f[1])[..]);
            match Socks5UdpCodec.decode(&mut b) {
                Ok(Some((p, a))) => format!("OK [{}:{}] rest={}", addr_str(&a), hex(&p), b.len()),
                Ok(None) => format!("OK [] rest={}", b.len()),
                Err(e) => format!("ERR {} []", crate::canon::classify(&e)),
            }
        }
        "s5udpenc" => {
            let mut dst = BytesMut::new();
            Socks5UdpCodec.encode((BytesMut::from(&unhex(f[2])[..]), parse_addr(f[1])), &mut dst).unwrap();
            format!("OK {}", hex(&dst))
        }
        "http" => {
            let m = String::from_utf8(unhex(f[1])).unwrap();
            let p = String::from_utf8(unhex(f[2])).unwrap();
            match ch::recognize_http(&m, &p) {
                Ok(ch::Proxy::Http(a)) => format!("OK H {}", addr_str(&a)),
                Ok(ch::Proxy::Https(a)) => format!("OK S {}", addr_str(&a)),
                Ok(_) => "OK other".into(),
                Err(_) => "ERR".into(),
            }
        }
        _ => "UNKNOWN".into(),
    });
    vec![r.unwrap_or_else(|_| "PANIC".into())]
}

fn segs_all(w: &[u8]) -> Vec<Vec<Vec<u8>>> {
    // all 2^(n-1) segmentations of a short stream
    let n = w.len();
    let mut v = Vec::new();
    if n == 0 {
        return vec![vec![]];
    }
    for mask in 0..(1u32 << (n - 1)) {
        let mut segs = Vec::new();
        let mut cur = vec![w[0]];
        for i in 1..n {
            if mask & (1 << (i - 1)) != 0 {
                segs.push(std::mem::take(&mut cur));
            }
            cur.push(w[i]);
        }
        segs.push(cur);
        v.push(segs);
    }
    v
}

fn two_cuts(rng: &mut Rng, w: &[u8], count: usize) -> Vec<Vec<Vec<u8>>> {
    let mut v = vec![vec![w.to_vec()]];
    for c in 1..w.len() {
        v.push(vec![w[..c].to_vec(), w[c..].to_vec()]);
    }
    for _ in 0..count {
        let mut ps: Vec<usize> = (0..rng.range(2, 5)).map(|_| rng.range(1, w.len().max(2) as u64 - 1) as usize).collect();
        ps.sort();
        ps.dedup();
        let mut segs = Vec::new();
        let mut last = 0;
        for p in ps {
            if p > last && p < w.len() {
                segs.push(w[last..p].to_vec());
                last = p;
            }
        }
        segs.push(w[last..].to_vec());
        v.push(segs);
    }
    if w.len() <= 300 {
        v.push(w.iter().map(|b| vec![*b]).collect());
    }
    v
}

fn dops(segs: &[Vec<u8>]) -> String {
    segs.iter().map(|s| format!("D{}", hex(s))).collect::<Vec<_>>().join(";")
}

fn s5_addr_bytes(a: &str) -> Vec<u8> {
    let mut b = BytesMut::new();
    octo_squirrel::protocol::socks5::address::encode(&parse_addr(a), &mut b);
    b.to_vec()
}

pub fn generate_trojan(w: &mut dyn Write, seed: u64, thorough: bool) {
    let mut rng = Rng::new(seed);
    let pw = b"password1".to_vec();
    let addrs = ["4:7f000001:80".to_string(), "D:6578616d706c652e636f6d:443".into(), format!("6:{}:8080", "20010db8".repeat(4)), format!("D:{}:1", "61".repeat(255)), "D:61:9".into()];
    for (ai, a) in addrs.iter().enumerate() {
        for cmd in [1u8, 3] {
            let payload = rng.bytes_of(&[0, 1, 20, 300]);
            let pkt_addr = rng.pick(&addrs).clone();
            let args = vec!["trojenc".to_string(), hex(&pw), cmd.to_string(), a.clone(), hex(&payload), pkt_addr];
            let f: Vec<&str> = args.iter().map(|s| s.as_str()).collect();
            let r = exec(&f);
            crate::emit_case(w, &args, exec);
            let Some(wire) = r[0].strip_prefix("OK ").map(unhex) else { continue };
            let segs = if ai == 0 || thorough { two_cuts(&mut rng, &wire, 12) } else { two_cuts(&mut rng, &wire, 6).into_iter().step_by(4).collect() };
            let mut expect = payload.clone();
            expect.extend_from_slice(&payload);
            for s in segs {
                crate::emit_case(w, &["trojsrv".to_string(), hex(&pw), dops(&s), format!("@x={}", hex(&expect))], exec);
            }
            // every truncation, selected mutations (wrong key char incl. non-ASCII, '+' sign, bad CR, bad cmd, bad atyp)
            for cut in 0..wire.len().min(90) {
                crate::emit_case(w, &["trojsrv".to_string(), hex(&pw), format!("D{}", hex(&wire[..cut])), format!("@p={}", hex(&expect))], exec);
            }
            for (pos, val) in [(0usize, 0xc3u8), (1, 0xa9), (0, b'+'), (55, 0xff), (0, b'G'), (10, b'A'), (56, b'\n'), (57, 0), (58, 0), (58, 2), (58, 4), (59, 0), (59, 2), (59, 9)] {
                if pos < wire.len() {
                    let mut m = wire.clone();
                    m[pos] = val;
                    crate::emit_case(w, &["trojsrv".to_string(), hex(&pw), format!("D{}", hex(&m))], exec);
                }
            }
            crate::emit_case(w, &["trojsrv".to_string(), hex(b"other"), format!("D{}", hex(&wire)), "@n".to_string()], exec);
            // a credential that differs from the configured one in a single bit is not the credential: every bit of the 56 key
            // characters (first address; thorough: all)
            if (ai == 0 || thorough) && wire.len() >= 56 {
                for bit in 0..56 * 8 {
                    let mut m = wire.clone();
                    m[bit / 8] ^= 1 << (bit % 8);
                    // the case of a hex letter is not part of the credential (the key is compared as the 28 bytes it encodes):
                    // that one flip yields the same credential, every other one a different one
                    let same = bit % 8 == 5 && wire[bit / 8].is_ascii_alphabetic();
                    crate::emit_case(w, &["trojsrv".to_string(), hex(&pw), format!("D{}", hex(&m)), if same { "@-".to_string() } else { "@n".to_string() }], exec);
                }
            }
        }
        // the request alone, nothing after it (an application that does not speak first): the connect item must come out at once
        {
            let args = vec!["trojenc".to_string(), hex(&pw), "1".to_string(), a.clone(), "-".to_string(), a.clone()];
            let f: Vec<&str> = args.iter().map(|s| s.as_str()).collect();
            if let Some(wire) = exec(&f)[0].strip_prefix("OK ").map(unhex) {
                crate::emit_case(w, &["trojsrv".to_string(), hex(&pw), format!("D{}", hex(&wire))], exec);
                crate::emit_case(w, &["trojsrv".to_string(), hex(&pw), dops(&wire.iter().map(|b| vec![*b]).collect::<Vec<_>>())], exec);
            }
        }
        // server -> client udp packets and their segmentations
        if !a.starts_with("D") {
            let mut stream = Vec::new();
            for _ in 0..3 {
                let payload = rng.bytes_of(&[0, 1, 50, 700]);
                let args = vec!["trojsenc".to_string(), a.clone(), hex(&payload)];
                let f: Vec<&str> = args.iter().map(|s| s.as_str()).collect();
                let r = exec(&f);
                crate::emit_case(w, &args, exec);
                if let Some(x) = r[0].strip_prefix("OK ").map(unhex) {
                    stream.extend_from_slice(&x[..x.len() - payload.len()]); // only the udp packet (the tcp part follows it)
                }
            }
            for s in two_cuts(&mut rng, &stream, 10) {
                crate::emit_case(w, &["trojcu".to_string(), dops(&s)], exec);
            }
        }
    }
    for l in 0..(if thorough { 200 } else { 70 }) {
        crate::emit_case(w, &["trojsrv".to_string(), hex(&pw), format!("D{}", hex(&rng.bytes(l)))], exec);
        crate::emit_case(w, &["trojcu".to_string(), format!("D{}", hex(&rng.bytes(l % 40)))], exec);
    }
    trojan_audit(w, &mut Rng::new(seed ^ 0x7472_6f6a_6175_6431), thorough);
}

pub fn generate_socks5(w: &mut dyn Write, seed: u64, thorough: bool) {
    let mut rng = Rng::new(seed);
    let addrs = ["4:7f000001:80".to_string(), "D:6578616d706c652e636f6d:443".into(), format!("6:{}:8080", "20010db8".repeat(4)), "D:61:9".into(), "D:-:9".into()];
    // greetings: all segmentations of short ones
    for methods in [vec![0u8], vec![0, 2], vec![0, 1, 2, 255], vec![], vec![7], vec![0, 9]] {
        let mut g = vec![5u8, methods.len() as u8];
        g.extend_from_slice(&methods);
        g.extend_from_slice(&rng.bytes_of(&[0, 0, 3]));
        for s in segs_all(&g) {
            crate::emit_case(w, &["s5ir".to_string(), dops(&s)], exec);
        }
    }
    for v in [0u8, 4, 6, 255] {
        crate::emit_case(w, &["s5ir".to_string(), format!("D{:02x}0100", v)], exec);
        crate::emit_case(w, &["s5cr".to_string(), format!("D{:02x}0100017f0000010050", v)], exec);
        crate::emit_case(w, &["s5irs".to_string(), format!("D{:02x}00", v)], exec);
        crate::emit_case(w, &["s5crs".to_string(), format!("D{:02x}0000017f0000010050", v)], exec);
    }
    for a in &addrs {
        for c in [1u8, 2, 3, 0, 4] {
            let mut m = vec![5u8, c, 0];
            m.extend_from_slice(&s5_addr_bytes(a));
            m.extend_from_slice(&rng.bytes_of(&[0, 0, 5]));
            let segs = if m.len() <= 13 { segs_all(&m) } else { two_cuts(&mut rng, &m, 8) };
            for s in segs {
                crate::emit_case(w, &["s5cr".to_string(), dops(&s)], exec);
            }
            if c <= 1 || c == 4 {
                for s in two_cuts(&mut rng, &m, 3) {
                    crate::emit_case(w, &["s5crs".to_string(), dops(&s)], exec);
                }
            }
        }
        // udp datagrams: good, fragmented, every truncation, bad address type
        let payload = rng.bytes_of(&[0, 1, 100]);
        let mut d = vec![0u8, 0, 0];
        d.extend_from_slice(&s5_addr_bytes(a));
        d.extend_from_slice(&payload);
        crate::emit_case(w, &["s5udp".to_string(), hex(&d)], exec);
        crate::emit_case(w, &["s5udpenc".to_string(), a.clone(), hex(&payload)], exec);
        for cut in 0..d.len().min(40) {
            crate::emit_case(w, &["s5udp".to_string(), hex(&d[..cut])], exec);
        }
        let mut fr = d.clone();
        fr[2] = 1;
        crate::emit_case(w, &["s5udp".to_string(), hex(&fr)], exec);
        let mut bt = d.clone();
        bt[3] = 9;
        crate::emit_case(w, &["s5udp".to_string(), hex(&bt)], exec);
    }
    for m in [vec![5u8, 0], vec![5, 2], vec![5, 255], vec![5, 3], vec![5], vec![]] {
        for s in segs_all(&m) {
            crate::emit_case(w, &["s5irs".to_string(), dops(&s)], exec);
        }
    }
    for _ in 0..(if thorough { 2000 } else { 200 }) {
        let n = rng.below(24) as usize;
        let mut x = rng.bytes(n);
        if !x.is_empty() && rng.chance(3, 4) {
            x[0] = 5;
        }
        for c in ["s5ir", "s5cr", "s5irs", "s5crs"] {
            crate::emit_case(w, &[c.to_string(), format!("D{}", hex(&x))], exec);
        }
        let mut y = rng.bytes(n);
        if y.len() > 3 && rng.chance(3, 4) {
            y[0] = 0;
            y[1] = 0;
            y[2] = 0;
            y[3] = *rng.pick(&[1u8, 3, 4]);
        }
        crate::emit_case(w, &["s5udp".to_string(), hex(&y)], exec);
    }
    socks5_audit(w, &mut Rng::new(seed ^ 0x7335_6175_6431), thorough);
}

pub fn generate_http(w: &mut dyn Write, seed: u64, thorough: bool) {
    let mut rng = Rng::new(seed);
    let methods = ["GET", "POST", "CONNECT", "OPTIONS", "connect"];
    let schemes = ["http", "https", "ws", "h", ""];
    let hosts = ["h", "www.example.com", "127.0.0.1", "[::1]", "[0:0:0:0:0:0:0:1]", "[fe80::1%25eth0]", "a-b.c", "xn--bcher-kva.example", "h\u{e9}", "", &"a".repeat(255), &"a".repeat(256), &"b".repeat(300)];
    let ports = ["", ":80", ":8080", ":0", ":65535", ":65536", ":+80", ":", ":x", ":080", ":99999999999999999999"];
    let paths = ["", "/", "/a/b/c", "/a:b", "/a://b", "/a/", "//", "/x/y.z:9/"];
    let queries = ["", "?", "?a=b&c=d", "?a=1?b=2", "?u=http://x/y", "?:", "?/", "?a/b:c?d://e"];
    let mut emit = |m: &str, t: &str| crate::emit_case(w, &["http".to_string(), hex(m.as_bytes()), hex(t.as_bytes())], exec);
    for m in methods {
        for sc in schemes {
            for h in hosts {
                for p in ports {
                    let full = thorough || (rng.chance(1, 3));
                    for pa in paths {
                        for q in queries {
                            if !full && !rng.chance(1, 12) {
                                continue;
                            }
                            let t = if sc.is_empty() { format!("{}{}{}{}", h, p, pa, q) } else { format!("{}://{}{}{}{}", sc, h, p, pa, q) };
                            emit(m, &t);
                        }
                    }
                }
            }
        }
    }
    // CONNECT authority form and origin form
    for h in hosts {
        for p in ports {
            emit("CONNECT", &format!("{}{}", h, p));
        }
    }
    for t in ["/", "/index.html", "*", "/?a=b", "http://", "http:///", "http://?", "://h", "http://h?a=1?b=2", "http://h:80?a:1", "http://[::1]?x", "http://h/?://"] {
        emit("GET", t);
        emit("CONNECT", t);
    }
    // random printable targets
    let alpha = b"ah:/?[]@#.+-019%";
    for _ in 0..(if thorough { 20000 } else { 1500 }) {
        let n = rng.range(0, 24) as usize;
        let t: Vec<u8> = (0..n).map(|_| *rng.pick(alpha)).collect();
        let m = *rng.pick(&["GET", "CONNECT"]);
        emit(m, std::str::from_utf8(&t).unwrap());
    }
    http_audit(w, &mut Rng::new(seed ^ 0x6874_7470_6175_6431), thorough);
}

// =========================================================================================================
// dimension audit (seeded/audit/aud-misc.md): generators for the dimensions the ones above kept at one value.
// Every wire is built HERE from the published layouts (never through the implementation's encoders), so that
// the direct oracles do not depend on the code under test.
// =========================================================================================================
fn aw_v4(ip: [u8; 4], port: u16) -> Vec<u8> {
    let mut v = vec![1u8];
    v.extend_from_slice(&ip);
    v.extend_from_slice(&port.to_be_bytes());
    v
}
fn aw_v6(ip: [u8; 16], port: u16) -> Vec<u8> {
    let mut v = vec![4u8];
    v.extend_from_slice(&ip);
    v.extend_from_slice(&port.to_be_bytes());
    v
}
fn aw_dom(h: &[u8], port: u16) -> Vec<u8> {
    assert!(h.len() <= 255);
    let mut v = vec![3u8, h.len() as u8];
    v.extend_from_slice(h);
    v.extend_from_slice(&port.to_be_bytes());
    v
}
/// case-argument form ("D:hex:port" ..) of a SOCKS5-style address wire
fn aw_str(w: &[u8]) -> String {
    let p = u16::from_be_bytes([w[w.len() - 2], w[w.len() - 1]]);
    match w[0] {
        1 => format!("4:{}:{}", hex(&w[1..5]), p),
        4 => format!("6:{}:{}", hex(&w[1..17]), p),
        _ => format!("D:{}:{}", hex(&w[2..w.len() - 2]), p),
    }
}
fn mapped_v6(ip: [u8; 4]) -> [u8; 16] {
    let mut o = [0u8; 16];
    o[10] = 0xff;
    o[11] = 0xff;
    o[12..].copy_from_slice(&ip);
    o
}
/// addresses at the edges of every field: empty / 1-byte / 255-byte names, names that are not text (NUL, invalid
/// UTF-8, truncated multi-byte), a name that looks like an IP literal, all-zero / all-one / IPv4-mapped IPs, ports 0 / 65535
fn edge_addrs() -> Vec<Vec<u8>> {
    vec![
        aw_dom(b"", 9),
        aw_dom(b"a", 0),
        aw_dom(&[b'x'; 255], 65535),
        aw_dom(b"a\0b", 80),
        aw_dom(&[0xff, 0xfe, 0x80], 80),
        aw_dom(&[b'h', 0xc3], 443),
        aw_dom("h\u{e9}.\u{4e2d}".as_bytes(), 443),
        aw_dom(b"127.0.0.1", 80),
        aw_dom(b"[::1]", 80),
        aw_v4([0, 0, 0, 0], 0),
        aw_v4([255, 255, 255, 255], 65535),
        aw_v6([0; 16], 0),
        aw_v6(mapped_v6([1, 2, 3, 4]), 53),
        aw_v6([0xff; 16], 65535),
    ]
}
fn troj_key_hex(pw: &[u8]) -> Vec<u8> {
    use sha2::{Digest, Sha224};
    let h = Sha224::digest(pw);
    h.iter().flat_map(|b| format!("{:02x}", b).into_bytes()).collect()
}
fn troj_head(pw: &[u8], cmd: u8, addr: &[u8]) -> Vec<u8> {
    let mut v = troj_key_hex(pw);
    v.extend_from_slice(b"\r\n");
    v.push(cmd);
    v.extend_from_slice(addr);
    v.extend_from_slice(b"\r\n");
    v
}
fn troj_packet(addr: &[u8], payload: &[u8]) -> Vec<u8> {
    assert!(payload.len() <= 65535);
    let mut v = addr.to_vec();
    v.extend_from_slice(&(payload.len() as u16).to_be_bytes());
    v.extend_from_slice(b"\r\n");
    v.extend_from_slice(payload);
    v
}
fn segs_at(w: &[u8], cuts: &[usize]) -> Vec<Vec<u8>> {
    let mut ps: Vec<usize> = cuts.iter().copied().filter(|&c| c > 0 && c < w.len()).collect();
    ps.sort();
    ps.dedup();
    let mut segs = Vec::new();
    let mut last = 0;
    for p in ps {
        segs.push(w[last..p].to_vec());
        last = p;
    }
    segs.push(w[last..].to_vec());
    segs
}
fn random_segs(rng: &mut Rng, w: &[u8], max_cuts: u64) -> Vec<Vec<u8>> {
    let k = rng.range(1, max_cuts) as usize;
    let cuts: Vec<usize> = (0..k).map(|_| rng.range(1, w.len().max(2) as u64 - 1) as usize).collect();
    segs_at(w, &cuts)
}
fn bytewise(w: &[u8]) -> Vec<Vec<u8>> {
    w.iter().map(|b| vec![*b]).collect()
}

fn trojan_audit(w: &mut dyn Write, rng: &mut Rng, thorough: bool) {
    let pw = b"password1".to_vec();
    let a4 = aw_v4([127, 0, 0, 1], 80);
    let srv = |w: &mut dyn Write, pw: &[u8], segs: &[Vec<u8>], meta: String| crate::emit_case(w, &["trojsrv".to_string(), hex(pw), dops(segs), meta], exec);
    let cu = |w: &mut dyn Write, segs: &[Vec<u8>], meta: String| crate::emit_case(w, &["trojcu".to_string(), dops(segs), meta], exec);
    let edge = edge_addrs();

    // (1) the PASSWORD: empty, one byte, 300 bytes, non-ASCII, control bytes, one that looks like a key, random ones.
    //     The implementation's client encoder against the model; the wire built here through the server decoder;
    //     the same wire under every OTHER password of the list must release nothing.
    let mut pws: Vec<Vec<u8>> = vec![
        Vec::new(),
        b"a".to_vec(),
        vec![b'p'; 300],
        "p\u{e4}ssw\u{f6}rd \u{4e2d}\u{6587}".as_bytes().to_vec(),
        b"p\r\nq\0r\t".to_vec(),
        troj_key_hex(b"password1"),
        b"password1 ".to_vec(),
        b"Password1".to_vec(),
    ];
    for _ in 0..(if thorough { 24 } else { 4 }) {
        let n = rng.range(1, 64) as usize;
        pws.push((0..n).map(|_| rng.range(0x20, 0x7e) as u8).collect());
    }
    for (i, p) in pws.iter().enumerate() {
        for cmd in [1u8, 3] {
            let a = &edge[(i * 2 + cmd as usize) % edge.len()];
            let pa = &edge[(i * 3 + 1) % edge.len()];
            let payload = rng.bytes_of(&[0, 1, 17, 300]);
            crate::emit_case(w, &["trojenc".to_string(), hex(p), cmd.to_string(), aw_str(a), hex(&payload), aw_str(pa)], exec);
            let mut wire = troj_head(p, cmd, a);
            let body = if cmd == 1 { payload.clone() } else { troj_packet(pa, &payload) };
            wire.extend_from_slice(&body);
            wire.extend_from_slice(&body);
            let expect = [payload.clone(), payload.clone()].concat();
            srv(w, p, &[wire.clone()], format!("@x={}", hex(&expect)));
            let cut = rng.range(1, wire.len() as u64 - 1) as usize;
            srv(w, p, &segs_at(&wire, &[56, cut]), format!("@x={}", hex(&expect)));
            srv(w, &pws[(i + 1) % pws.len()], &[wire.clone()], "@n".to_string());
            srv(w, &pw, &[wire.clone()], "@n".to_string());
        }
    }

    // (2) the COMMAND byte: all 256 values behind a genuine credential; only 1 and 3 open anything
    for cmd in 0..=255u8 {
        let pkt = troj_packet(&edge[(cmd as usize) % edge.len()], b"hello");
        let mut wire = troj_head(&pw, cmd, &a4);
        wire.extend_from_slice(&pkt);
        let meta = match cmd {
            1 => format!("@x={}", hex(&pkt)),
            3 => format!("@x={}", hex(b"hello")),
            _ => "@n".to_string(),
        };
        srv(w, &pw, &[wire.clone()], meta.clone());
        if cmd < 8 || cmd % 32 == 0 || thorough {
            srv(w, &pw, &segs_at(&wire, &[58, 59, 60]), meta);
        }
    }

    // (3) the ADDRESS of the request at the edges of every field, tcp and udp, cut around every field boundary
    for (ai, a) in edge.iter().enumerate() {
        for cmd in [1u8, 3] {
            let head = troj_head(&pw, cmd, a);
            let hl = head.len();
            let p1 = rng.bytes_of(&[1, 9, 40]);
            let (wire, expect) = if cmd == 1 {
                ([head.clone(), p1.clone()].concat(), p1.clone())
            } else {
                let pa = &edge[(ai + 5) % edge.len()];
                ([head.clone(), troj_packet(pa, &p1), troj_packet(a, b"")].concat(), p1.clone())
            };
            let meta = format!("@x={}", hex(&expect));
            srv(w, &pw, &[wire.clone()], meta.clone());
            let mut cuts: Vec<usize> = (54..=64).chain(hl.saturating_sub(5)..=hl + 5).collect();
            if thorough {
                cuts = (1..wire.len()).collect();
            }
            cuts.sort();
            cuts.dedup();
            for c in cuts {
                if c < wire.len() {
                    srv(w, &pw, &segs_at(&wire, &[c]), meta.clone());
                }
            }
            if wire.len() <= 420 {
                srv(w, &pw, &bytewise(&wire), meta.clone());
            }
            // the request alone (an application that does not speak first)
            srv(w, &pw, &[head.clone()], "@x=".to_string());
        }
    }

    // (4) the SIZE of a udp packet: 0, 1, 2, around 255 / 256, 16 KiB, the largest UDP payload, the largest the
    //     16-bit length can name; encoders against the model, decoders with cuts at every field boundary
    let mut sizes: Vec<usize> = vec![0, 1, 2, 255, 256, 257, 1472, 16383, 16384, 65507, 65535];
    if thorough {
        sizes.extend_from_slice(&[16385, 32768, 65506, 65508, 65534]);
    }
    for (si, &n) in sizes.iter().enumerate() {
        let payload = rng.bytes(n);
        let pa = if n >= 16383 { aw_v4([10, 0, 0, 1], 53) } else { edge[si % edge.len()].clone() };
        let big = n > 2000;
        crate::emit_case(w, &["trojenc".to_string(), hex(&pw), "3".to_string(), aw_str(&a4), hex(&payload), aw_str(&pa)], exec);
        if pa[0] != 3 {
            crate::emit_case(w, &["trojsenc".to_string(), aw_str(&pa), hex(&payload)], exec);
        }
        let head = troj_head(&pw, 3, &a4);
        let pkt = troj_packet(&pa, &payload);
        let al = pa.len();
        let meta = format!("@x={}", hex(&payload));
        // server side: head + packet (+ a second, empty packet so that the end of the first one is a boundary inside the stream)
        let wire = [head.clone(), pkt.clone(), troj_packet(&a4, b"")].concat();
        let h = head.len();
        let mut cutsets: Vec<Vec<usize>> = vec![vec![], vec![h], vec![h + al + 1], vec![h + al + 4, h + pkt.len() - 1], vec![h + 1, h + al, h + al + 2, h + al + 3, h + pkt.len()]];
        if !big || thorough {
            cutsets.push(vec![h + al + 4 + n / 2]);
            cutsets.push(vec![h + al + 3]);
            cutsets.push(vec![h + pkt.len() + 1]);
        }
        for cs in &cutsets {
            srv(w, &pw, &segs_at(&wire, cs), meta.clone());
        }
        // client side: the same packet as a server reply
        let wire = [pkt.clone(), troj_packet(&a4, b"")].concat();
        for cs in &cutsets {
            let cs: Vec<usize> = cs.iter().filter(|&&c| c > h).map(|c| c - h).collect();
            cu(w, &segs_at(&wire, &cs), meta.clone());
        }
    }

    // (5) SEVERAL packets per read: streams of 1..40 packets of mixed address kinds and lengths (zero-length ones
    //     included) in one segment, one packet per segment, two per segment, cut at every field boundary, byte by
    //     byte, random cuts; towards the server (behind the request) and towards the client
    let counts: &[usize] = if thorough { &[1, 2, 3, 4, 5, 8, 17, 40, 100] } else { &[1, 2, 3, 5, 17, 40] };
    for &k in counts {
        for round in 0..(if thorough { 4 } else { 2 }) {
            let mut pkts: Vec<Vec<u8>> = Vec::new();
            let mut expect = Vec::new();
            let mut bounds: Vec<usize> = Vec::new();
            let mut off = 0usize;
            for j in 0..k {
                let a = if round == 0 && j % 3 == 0 { a4.clone() } else { rng.pick(&edge).clone() };
                let n = *rng.pick(&[0usize, 0, 1, 2, 3, 17, 300, 1400]);
                let n = if k >= 17 { n.min(300) } else { n };
                let p = rng.bytes(n);
                let pk = troj_packet(&a, &p);
                bounds.extend_from_slice(&[off + 1, off + a.len(), off + a.len() + 1, off + a.len() + 2, off + a.len() + 3, off + a.len() + 4, off + pk.len()]);
                off += pk.len();
                expect.extend_from_slice(&p);
                pkts.push(pk);
            }
            let stream = pkts.concat();
            let meta = format!("@x={}", hex(&expect));
            let head = troj_head(&pw, 3, &a4);
            let h = head.len();
            let full = [head.clone(), stream.clone()].concat();
            let starts: Vec<usize> = pkts.iter().scan(0usize, |s, p| { let r = *s; *s += p.len(); Some(r) }).collect();
            let mut segsets: Vec<Vec<usize>> = vec![vec![], starts.clone(), starts.iter().copied().step_by(2).collect(), bounds.clone()];
            for _ in 0..3 {
                let c = rng.range(1, 6) as usize;
                segsets.push((0..c).map(|_| rng.range(1, stream.len().max(2) as u64 - 1) as usize).collect());
            }
            for cs in &segsets {
                cu(w, &segs_at(&stream, cs), meta.clone());
                let mut cs2: Vec<usize> = cs.iter().map(|c| c + h).collect();
                srv(w, &pw, &segs_at(&full, &cs2), meta.clone());
                cs2.push(h);
                srv(w, &pw, &segs_at(&full, &cs2), meta.clone());
            }
            if stream.len() <= 600 {
                cu(w, &bytewise(&stream), meta.clone());
                srv(w, &pw, &bytewise(&full), meta.clone());
            }
            // end of stream inside the last packet: what came out before it is a prefix
            if stream.len() > 1 {
                let c = rng.range(1, stream.len() as u64 - 1) as usize;
                cu(w, &[stream[..c].to_vec()], format!("@p={}", hex(&expect)));
                srv(w, &pw, &[full[..h + c].to_vec()], format!("@p={}", hex(&expect)));
            }
        }
    }

    // (6) the CR LF pairs: each of them (after the key, after the request address, inside a packet) replaced by other
    //     two-byte values, and by a single byte (everything behind it shifts).  Model comparison; no property
    //     says what a receiver does with them
    let variants: [&[u8]; 9] = [b"\n\r", b"\r\r", b"\n\n", b"\0\0", b"\r\0", b"  ", b"\xff\xff", b"\n", b"\r"];
    for cmd in [1u8, 3] {
        let head = troj_head(&pw, cmd, &a4);
        let pa = aw_dom(b"a.b", 53);
        let body = if cmd == 1 { b"payload\r\n\r\n".to_vec() } else { [troj_packet(&pa, b"one"), troj_packet(&a4, b"two")].concat() };
        let wire = [head.clone(), body].concat();
        let mut spots = vec![56usize, head.len() - 2];
        if cmd == 3 {
            spots.push(head.len() + pa.len() + 2);
            spots.push(head.len() + pa.len() + 4 + 3 + a4.len() + 2);
        }
        for &s in &spots {
            assert_eq!(&wire[s..s + 2], b"\r\n");
            for v in variants {
                let m = [&wire[..s], v, &wire[s + 2..]].concat();
                srv(w, &pw, &[m.clone()], "@-".to_string());
                srv(w, &pw, &segs_at(&m, &[s, s + 1]), "@-".to_string());
                if cmd == 3 && s > head.len() {
                    cu(w, &[m[head.len()..].to_vec()], "@-".to_string());
                }
            }
        }
    }

    // (7) empty segments between the pieces; the client's own request reflected into its reply decoder; a server
    //     reply stream presented to the server's request decoder; longer random input behind a plausible type byte
    {
        let wire = [troj_head(&pw, 3, &a4), troj_packet(&a4, b"abc"), troj_packet(&aw_dom(b"x", 1), b"")].concat();
        let segs = vec![Vec::new(), wire[..30].to_vec(), Vec::new(), Vec::new(), wire[30..70].to_vec(), Vec::new(), wire[70..].to_vec(), Vec::new()];
        srv(w, &pw, &segs, format!("@x={}", hex(b"abc")));
        cu(w, &[wire.clone()], "@n".to_string());
        cu(w, &bytewise(&wire), "@n".to_string());
        let reply = [troj_packet(&a4, b"abc"), troj_packet(&a4, b"defg")].concat();
        srv(w, &pw, &[reply.clone()], "@n".to_string());
        srv(w, &pw, &[[reply.clone(), vec![b'0'; 80]].concat()], "@n".to_string());
    }
    for _ in 0..(if thorough { 1500 } else { 150 }) {
        let n = rng.range(1, 300) as usize;
        let mut x = rng.bytes(n);
        x[0] = *rng.pick(&[1u8, 3, 4]);
        if x[0] == 3 && n > 1 && rng.chance(1, 2) {
            x[1] = rng.range(0, 12) as u8;
        }
        cu(w, &[x.clone()], "@-".to_string());
        // behind a genuine request for udp: the packet decoder in the server's Udp state
        srv(w, &pw, &[[troj_head(&pw, 3, &a4), x].concat()], "@-".to_string());
    }
}

fn socks5_audit(w: &mut dyn Write, rng: &mut Rng, thorough: bool) {
    let edge = edge_addrs();
    let one = |w: &mut dyn Write, c: &str, segs: &[Vec<u8>], meta: Option<String>| {
        let mut a = vec![c.to_string(), dops(segs)];
        if let Some(m) = meta {
            a.push(m);
        }
        crate::emit_case(w, &a, exec)
    };
    // (1) METHODS lists: 254 / 255 methods, none of them NO_AUTH, an unknown method at the very end, lists that offer
    //     only methods this proxy does not implement.  A decoded greeting re-encodes to exactly the bytes received (@x)
    let mut lists: Vec<Vec<u8>> = vec![
        vec![0; 255],
        vec![2; 255],
        (0..255).map(|i| [0u8, 1, 2, 255][i % 4]).collect(),
        vec![0; 254],
        vec![1; 128],
        vec![2],
        vec![1],
        vec![255],
        vec![1, 2],
        vec![2, 0],
        vec![255, 255, 0],
    ];
    for _ in 0..(if thorough { 20 } else { 3 }) {
        let n = rng.range(3, 255) as usize;
        lists.push((0..n).map(|_| *rng.pick(&[0u8, 1, 2, 255])).collect());
    }
    for ms in &lists {
        let mut g = vec![5u8, ms.len() as u8];
        g.extend_from_slice(ms);
        let meta = Some(format!("@x={}", hex(&g)));
        one(w, "s5ir", &[g.clone()], meta.clone());
        for c in [1usize, 2, 3, g.len() / 2, g.len() - 1] {
            one(w, "s5ir", &segs_at(&g, &[c]), meta.clone());
        }
        one(w, "s5ir", &bytewise(&g), meta.clone());
        one(w, "s5ir", &random_segs(rng, &g, 5), meta.clone());
        // (greeting and request in one segment: component hshake -- this drain loop would hand the request to the greeting decoder again)
        // an unknown method in the last / first / middle position: refused, nothing comes out
        if ms.len() >= 2 {
            for pos in [0usize, ms.len() / 2, ms.len() - 1] {
                let mut bad = g.clone();
                bad[2 + pos] = *rng.pick(&[3u8, 4, 0x7f, 0x80, 254]);
                one(w, "s5ir", &[bad.clone()], Some("@n".to_string()));
                one(w, "s5ir", &segs_at(&bad, &[2 + pos]), Some("@n".to_string()));
            }
        }
        // the count byte promises one more method than ever arrives
        let mut short = g.clone();
        short[1] = short[1].wrapping_add(1);
        if short[1] != 0 {
            one(w, "s5ir", &[short], Some("@n".to_string()));
        }
    }
    // (2) every value of every one-byte field: version, method, command, status, reserved, address type
    let req = |c: u8, rsv: u8, a: &[u8]| [&[5u8, c, rsv][..], a].concat();
    let a4 = aw_v4([127, 0, 0, 1], 80);
    for v in 0..=255u8 {
        one(w, "s5ir", &[vec![5, 1, v]], None); // method
        one(w, "s5irs", &[vec![5, v]], None);
        one(w, "s5ir", &[vec![v, 1, 0]], None); // version
        one(w, "s5irs", &[vec![v, 0]], None);
        let mut m = req(1, 0, &a4);
        m[0] = v;
        one(w, "s5cr", &[m.clone()], None);
        one(w, "s5crs", &[{ let mut x = m.clone(); x[1] = 0; x }], None);
        one(w, "s5cr", &[req(v, 0, &edge[v as usize % edge.len()])], None); // command
        one(w, "s5crs", &[req(v, 0, &edge[v as usize % edge.len()])], None); // status
        one(w, "s5cr", &[req(1, v, &edge[v as usize % edge.len()])], None); // reserved
        one(w, "s5crs", &[req(0, v, &edge[v as usize % edge.len()])], None);
        let mut t = req(1, 0, &aw_dom(b"abcdefghijklmnopq", 80)); // 17 + 4 bytes: long enough for every real type
        t[3] = v;
        one(w, "s5cr", &[t.clone()], None); // address type
        one(w, "s5cr", &segs_at(&t, &[4, 5]), None);
        t[1] = 0;
        one(w, "s5crs", &[t], None);
    }
    // (3) requests / replies for the edge addresses, cut at every field boundary and byte by byte
    for a in &edge {
        for (c, cmd) in [("s5cr", 1u8), ("s5cr", 3), ("s5crs", 0), ("s5crs", 1)] {
            let mut m = req(cmd, 0, a);
            let extra = rng.bytes_of(&[0, 0, 4]);
            m.extend_from_slice(&extra);
            one(w, c, &[m.clone()], None);
            let l = 3 + a.len();
            let cuts: Vec<usize> = if thorough { (1..m.len()).collect() } else { vec![1, 2, 3, 4, 5, 6, l - 3, l - 2, l - 1, l] };
            for cu in cuts {
                if cu < m.len() {
                    one(w, c, &segs_at(&m, &[cu]), None);
                }
            }
            one(w, c, &bytewise(&m), None);
        }
    }
    // (4) local udp datagrams: every value of RSV (2 bytes), FRAG, ATYP; payload sizes 0 .. the largest a datagram
    //     can carry; truncation inside the address.  A fragment or a datagram without a whole address is never
    //     delivered (@n); a whole unfragmented one is delivered with exactly its payload (@x)
    let dgram = |rsv0: u8, rsv1: u8, frag: u8, a: &[u8], p: &[u8]| [&[rsv0, rsv1, frag][..], a, p].concat();
    let udp = |w: &mut dyn Write, d: &[u8], meta: String| crate::emit_case(w, &["s5udpo".to_string(), hex(d), meta], exec);
    for v in 0..=255u8 {
        let a = &edge[v as usize % edge.len()];
        let p = rng.bytes_of(&[0, 1, 30]);
        udp(w, &dgram(0, 0, v, a, &p), if v == 0 { format!("@x={}", hex(&p)) } else { "@n".to_string() });
        udp(w, &dgram(v, 0, 0, a, &p), format!("@x={}", hex(&p)));
        udp(w, &dgram(0, v, 0, a, &p), format!("@x={}", hex(&p)));
        let mut t = dgram(0, 0, 0, &aw_dom(b"abcdefghijklmnopq", 80), &p);
        t[3] = v;
        udp(w, &t, if [1u8, 3, 4].contains(&v) { "@-".to_string() } else { "@n".to_string() });
    }
    for (i, a) in edge.iter().enumerate() {
        let sizes: &[usize] = if thorough || i < 3 { &[0, 1, 2, 1472, 9000, 65497, 65507, 65535] } else { &[0, 1, 1472] };
        for &n in sizes {
            let p = rng.bytes(n);
            udp(w, &dgram(0, 0, 0, a, &p), format!("@x={}", hex(&p)));
            if n <= 1472 {
                crate::emit_case(w, &["s5udpenc".to_string(), aw_str(a), hex(&p)], exec);
            }
        }
        let d = dgram(0, 0, 0, a, b"payload");
        for cut in 0..3 + a.len() {
            udp(w, &d[..cut], "@n".to_string());
        }
    }
}

fn http_audit(w: &mut dyn Write, rng: &mut Rng, thorough: bool) {
    let mut emit = |m: &str, t: &str| crate::emit_case(w, &["http".to_string(), hex(m.as_bytes()), hex(t.as_bytes())], exec);
    let methods = ["GET", "CONNECT", "Connect", "CONNECTX", "XCONNECT", "PROPFIND", "connect"];
    // scheme spellings (case, other characters, missing / extra slashes), userinfo, host forms, port spellings
    let schemes = ["http://", "HTTP://", "Http://", "hTtP://", "https://", "HTTPS://", "ht+tp://", "h.t-p://", "1://", "http:", "http:/", "http:///", "http:\\\\", "//", "://", "", "http://http://"];
    let userinfo = ["", "user@", "user:pw@", "user:80@", ":@", "@", "a@b@", "user%40x@", "u:p:q@"];
    let hosts = ["h", "H.Example.COM", "example.com.", "[::1]", "[::1", "::1]", "::1", "[2001:db8::1]", "[fe80::1%25eth0]", "[fe80::1%eth0]", "[v1.x]", "[]", "[[::1]]", "h]", "1.2.3.4", "0x7f.1", "h%41", "h#f", "a b", "\u{ff48}", "h\u{e9}"];
    let ports = ["", ":80", ":0", ":00", ":080", ":00080", ":0000000000000000000080", ":65535", ":065535", ":65536", ":99999", ":+80", ":+0", ":+65535", ":+65536", ":+", ":++80", ":-1", ":-0", ": 80", ":80 ", ":8 0", ":0x50", ":\u{ff18}\u{ff10}", ":\u{0668}\u{0660}", ":1e3", ":80:81", "::80", ":80#f", ":80%20"];
    let tails = ["", "/", "/p?q", "?q", "/a:b@c", "#f", "/?x=http://y:1/"];
    for m in methods {
        for sc in schemes {
            for u in userinfo {
                for h in hosts {
                    for p in ports {
                        // the full product is ~5 million: every pair of dimensions is covered by the systematic part below, the rest is sampled
                        if !rng.chance(1, if thorough { 60 } else { 1200 }) {
                            continue;
                        }
                        emit(m, &format!("{}{}{}{}{}", sc, u, h, p, rng.pick(&tails)));
                    }
                }
            }
        }
    }
    // systematic: one dimension at a time against a plain base, for GET (absolute form) and CONNECT (authority form and absolute form)
    for m in ["GET", "CONNECT", "POST"] {
        for sc in schemes {
            for t in tails {
                emit(m, &format!("{}example.com:8080{}", sc, t));
                emit(m, &format!("{}example.com{}", sc, t));
                emit(m, &format!("{}[::1]:8080{}", sc, t));
            }
        }
        for u in userinfo {
            for p in ["", ":80", ":+80", ":x"] {
                for t in ["", "/", "/p@q"] {
                    emit(m, &format!("http://{}example.com{}{}", u, p, t));
                    emit(m, &format!("{}example.com{}{}", u, p, t));
                    emit(m, &format!("http://{}[::1]{}{}", u, p, t));
                }
            }
        }
        for h in hosts {
            for p in ports {
                emit(m, &format!("http://{}{}/", h, p));
                emit(m, &format!("{}{}", h, p));
                if thorough {
                    emit(m, &format!("HTTPS://u@{}{}?q", h, p));
                }
            }
        }
    }
}
