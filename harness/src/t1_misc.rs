//! T1 for Trojan codecs (via hooks), the SOCKS5 handshake decoders / UDP codec, and recognize_http (hook).
//!
//! trojsrv \t password_hex \t ops          ops: D<hex> segments through the FramedRead-style drain
//! trojcu  \t ops                          client udp decoder
//! trojenc \t password_hex \t cmd \t addr \t payload_hex \t [pkt_addr]     first client write (tcp: cmd=1, udp: cmd=3)
//! trojsenc \t addr \t payload                                        server udp packet encode
//! s5ir | s5cr | s5irs | s5crs \t ops     the four socks5 handshake decoders
//! s5udp \t datagram_hex                   Socks5UdpCodec::decode, one call
//! s5udpenc \t addr \t payload
//! http \t method_hex \t target_hex        recognize_http
use std::io::Write;

use bytes::BytesMut;
use octo_squirrel::config::ServerConfig;
use octo_squirrel::protocol::socks5::codec::*;
use octo_squirrel::protocol::socks5::message::Socks5Message;
use octo_squirrel_client::client::verif_hooks as ch;
use octo_squirrel_server::server::verif_hooks as sh;
use tokio_util::codec::{Decoder, Encoder};

use crate::canon::{addr_str, parse_addr};
use crate::framed::{drain, line};
use crate::rng::Rng;
use crate::util::{catch, hex, unhex};

pub fn server_config(protocol: &str, cipher: &str, password: &str, users: &[String]) -> ServerConfig<sh::SslConfig> {
    let us: Vec<serde_json::Value> = users.iter().map(|u| serde_json::json!({"name": "u", "password": u})).collect();
    serde_json::from_value(serde_json::json!({"host": "127.0.0.1", "port": 1, "password": password, "protocol": protocol, "cipher": cipher, "user": us})).expect("server config")
}

pub fn show_inbound(i: sh::InboundIn) -> String {
    match i {
        sh::InboundIn::ConnectTcp(p, a) => format!("C:{}:{}", addr_str(&a), hex(&p)),
        sh::InboundIn::RelayTcp(p) => format!("T:{}", hex(&p)),
        sh::InboundIn::RelayUdp(p, a) => format!("U:{}:{}", addr_str(&a), hex(&p)),
    }
}

fn run_ops<D: Decoder<Error = anyhow::Error>>(codec: &mut D, ops: &str, show: impl Fn(D::Item) -> String + Copy) -> String {
    let mut buf = BytesMut::new();
    let mut out = Vec::new();
    let mut dead = false;
    for op in ops.split(';') {
        if op.is_empty() {
            continue;
        }
        if dead {
            out.push("SKIP".to_string());
            continue;
        }
        let d = drain(codec, &mut buf, &unhex(&op[1..]), show);
        dead = d.dead;
        out.push(line(&d, buf.len()));
    }
    out.join(" | ")
}

fn reenc<M: Socks5Message>(mut m: M) -> String {
    let mut b = BytesMut::new();
    m.encode(&mut b);
    hex(&b)
}

pub fn exec(f: &[&str]) -> Vec<String> {
    let r = catch(|| match f[0] {
        "trojsrv" => {
            let pw = String::from_utf8(unhex(f[1])).unwrap();
            let mut c = sh::trojan::new_codec(&server_config("trojan", "aes-128-gcm", &pw, &[])).unwrap();
            run_ops(&mut c, f[2], show_inbound)
        }
        "trojcu" => {
            let mut c = ch::trojan::UdpClientCodec::new(b"x", 3, parse_addr("4:7f000001:1"));
            run_ops(&mut c, f[1], |(p, a): (BytesMut, _)| format!("{}:{}", addr_str(&a), hex(&p)))
        }
        "trojenc" => {
            let pw = unhex(f[1]);
            let cmd: u8 = f[2].parse().unwrap();
            let mut dst = BytesMut::new();
            if cmd == 1 {
                let mut c = ch::trojan::TcpClientCodec::new(&pw, cmd, parse_addr(f[3]));
                c.encode(BytesMut::from(&unhex(f[4])[..]), &mut dst).unwrap();
                c.encode(BytesMut::from(&unhex(f[4])[..]), &mut dst).unwrap();
            } else {
                let mut c = ch::trojan::UdpClientCodec::new(&pw, cmd, parse_addr(f[3]));
                c.encode((BytesMut::from(&unhex(f[4])[..]), parse_addr(f[5])), &mut dst).unwrap();
                c.encode((BytesMut::from(&unhex(f[4])[..]), parse_addr(f[5])), &mut dst).unwrap();
            }
            format!("OK {}", hex(&dst))
        }
        "trojsenc" => {
            let mut c = sh::trojan::new_codec(&server_config("trojan", "aes-128-gcm", "x", &[])).unwrap();
            let mut dst = BytesMut::new();
            let a = match parse_addr(f[1]) {
                octo_squirrel::protocol::address::Address::Socket(s) => s,
                _ => panic!("socket address expected"),
            };
            c.encode(sh::OutboundIn::Udp((BytesMut::from(&unhex(f[2])[..]), a)), &mut dst).unwrap();
            c.encode(sh::OutboundIn::Tcp(BytesMut::from(&unhex(f[2])[..])), &mut dst).unwrap();
            format!("OK {}", hex(&dst))
        }
        "s5ir" => run_ops(&mut Socks5InitialRequestDecoder, f[1], reenc),
        "s5cr" => run_ops(&mut Socks5CommandRequestDecoder, f[1], |m| format!("{}:{}", m.command_type as u8, addr_str(&m.dst_addr))),
        "s5irs" => run_ops(&mut Socks5InitialResponseDecoder, f[1], |m| format!("{}", m.auth_method as u8)),
        "s5crs" => run_ops(&mut Socks5CommandResponseDecoder, f[1], |m| format!("{}:{}", m.command_status as u8, addr_str(&m.bnd_addr))),
        "s5udp" => {
            let mut b = BytesMut::from(&unhex(f[1])[..]);
            match Socks5UdpCodec.decode(&mut b) {
                Ok(Some((p, a))) => format!("OK rest={} {}:{}", b.len(), addr_str(&a), hex(&p)),
                Ok(None) => format!("OK rest={} none", b.len()),
                Err(e) => format!("ERR {}", crate::canon::classify(&e)),
            }
        }
        "s5udpenc" => {
            let mut dst = BytesMut::new();
            Socks5UdpCodec.encode((BytesMut::from(&unhex(f[2])[..]), parse_addr(f[1])), &mut dst).unwrap();
            format!("OK {}", hex(&dst))
        }
        "http" => {
            let m = String::from_utf8(unhex(f[1])).unwrap();
            let p = String::from_utf8(unhex(f[2])).unwrap();
            match ch::recognize_http(&m, &p) {
                Ok(ch::Proxy::Http(a)) => format!("OK H {}", addr_str(&a)),
                Ok(ch::Proxy::Https(a)) => format!("OK S {}", addr_str(&a)),
                Ok(_) => "OK other".into(),
                Err(_) => "ERR".into(),
            }
        }
        _ => "UNKNOWN".into(),
    });
    vec![r.unwrap_or_else(|_| "PANIC".into())]
}

fn segs_all(w: &[u8]) -> Vec<Vec<Vec<u8>>> {
    // all 2^(n-1) segmentations of a short stream
    let n = w.len();
    let mut v = Vec::new();
    if n == 0 {
        return vec![vec![]];
    }
    for mask in 0..(1u32 << (n - 1)) {
        let mut segs = Vec::new();
        let mut cur = vec![w[0]];
        for i in 1..n {
            if mask & (1 << (i - 1)) != 0 {
                segs.push(std::mem::take(&mut cur));
            }
            cur.push(w[i]);
        }
        segs.push(cur);
        v.push(segs);
    }
    v
}

fn two_cuts(rng: &mut Rng, w: &[u8], count: usize) -> Vec<Vec<Vec<u8>>> {
    let mut v = vec![vec![w.to_vec()]];
    for c in 1..w.len() {
        v.push(vec![w[..c].to_vec(), w[c..].to_vec()]);
    }
    for _ in 0..count {
        let mut ps: Vec<usize> = (0..rng.range(2, 5)).map(|_| rng.range(1, w.len().max(2) as u64 - 1) as usize).collect();
        ps.sort();
        ps.dedup();
        let mut segs = Vec::new();
        let mut last = 0;
        for p in ps {
            if p > last && p < w.len() {
                segs.push(w[last..p].to_vec());
                last = p;
            }
        }
        segs.push(w[last..].to_vec());
        v.push(segs);
    }
    if w.len() <= 300 {
        v.push(w.iter().map(|b| vec![*b]).collect());
    }
    v
}

fn dops(segs: &[Vec<u8>]) -> String {
    segs.iter().map(|s| format!("D{}", hex(s))).collect::<Vec<_>>().join(";")
}

fn s5_addr_bytes(a: &str) -> Vec<u8> {
    let mut b = BytesMut::new();
    octo_squirrel::protocol::socks5::address::encode(&parse_addr(a), &mut b);
    b.to_vec()
}

pub fn generate_trojan(w: &mut dyn Write, seed: u64, thorough: bool) {
    let mut rng = Rng::new(seed);
    let pw = b"password1".to_vec();
    let addrs = ["4:7f000001:80".to_string(), "D:6578616d706c652e636f6d:443".into(), format!("6:{}:8080", "20010db8".repeat(4)), format!("D:{}:1", "61".repeat(255)), "D:61:9".into()];
    for (ai, a) in addrs.iter().enumerate() {
        for cmd in [1u8, 3] {
            let payload = rng.bytes_of(&[0, 1, 20, 300]);
            let pkt_addr = rng.pick(&addrs).clone();
            let args = vec!["trojenc".to_string(), hex(&pw), cmd.to_string(), a.clone(), hex(&payload), pkt_addr];
            let f: Vec<&str> = args.iter().map(|s| s.as_str()).collect();
            let r = exec(&f);
            crate::emit_case(w, &args, exec);
            let Some(wire) = r[0].strip_prefix("OK ").map(unhex) else { continue };
            let segs = if ai == 0 || thorough { two_cuts(&mut rng, &wire, 12) } else { two_cuts(&mut rng, &wire, 6).into_iter().step_by(4).collect() };
            let mut expect = payload.clone();
            expect.extend_from_slice(&payload);
            for s in segs {
                crate::emit_case(w, &["trojsrv".to_string(), hex(&pw), dops(&s), format!("@x={}", hex(&expect))], exec);
            }
            // every truncation, selected mutations (wrong key char incl. non-ASCII, '+' sign, bad CR, bad cmd, bad atyp)
            for cut in 0..wire.len().min(90) {
                crate::emit_case(w, &["trojsrv".to_string(), hex(&pw), format!("D{}", hex(&wire[..cut])), format!("@p={}", hex(&expect))], exec);
            }
            for (pos, val) in [(0usize, 0xc3u8), (1, 0xa9), (0, b'+'), (55, 0xff), (0, b'G'), (10, b'A'), (56, b'\n'), (57, 0), (58, 0), (58, 2), (58, 4), (59, 0), (59, 2), (59, 9)] {
                if pos < wire.len() {
                    let mut m = wire.clone();
                    m[pos] = val;
                    crate::emit_case(w, &["trojsrv".to_string(), hex(&pw), format!("D{}", hex(&m))], exec);
                }
            }
            crate::emit_case(w, &["trojsrv".to_string(), hex(b"other"), format!("D{}", hex(&wire)), "@n".to_string()], exec);
            // a credential that differs from the configured one in a single bit is not the credential: every bit of the 56 key
            // characters (first address; thorough: all)
            if (ai == 0 || thorough) && wire.len() >= 56 {
                for bit in 0..56 * 8 {
                    let mut m = wire.clone();
                    m[bit / 8] ^= 1 << (bit % 8);
                    // the case of a hex letter is not part of the credential (the key is compared as the 28 bytes it encodes):
                    // that one flip yields the same credential, every other one a different one
                    let same = bit % 8 == 5 && wire[bit / 8].is_ascii_alphabetic();
                    crate::emit_case(w, &["trojsrv".to_string(), hex(&pw), format!("D{}", hex(&m)), if same { "@-".to_string() } else { "@n".to_string() }], exec);
                }
            }
        }
        // the request alone, nothing after it (an application that does not speak first): the connect item must come out at once
        {
            let args = vec!["trojenc".to_string(), hex(&pw), "1".to_string(), a.clone(), "-".to_string(), a.clone()];
            let f: Vec<&str> = args.iter().map(|s| s.as_str()).collect();
            if let Some(wire) = exec(&f)[0].strip_prefix("OK ").map(unhex) {
                crate::emit_case(w, &["trojsrv".to_string(), hex(&pw), format!("D{}", hex(&wire))], exec);
                crate::emit_case(w, &["trojsrv".to_string(), hex(&pw), dops(&wire.iter().map(|b| vec![*b]).collect::<Vec<_>>())], exec);
            }
        }
        // server -> client udp packets and their segmentations
        if !a.starts_with("D") {
            let mut stream = Vec::new();
            for _ in 0..3 {
                let payload = rng.bytes_of(&[0, 1, 50, 700]);
                let args = vec!["trojsenc".to_string(), a.clone(), hex(&payload)];
                let f: Vec<&str> = args.iter().map(|s| s.as_str()).collect();
                let r = exec(&f);
                crate::emit_case(w, &args, exec);
                if let Some(x) = r[0].strip_prefix("OK ").map(unhex) {
                    stream.extend_from_slice(&x[..x.len() - payload.len()]); // only the udp packet (the tcp part follows it)
                }
            }
            for s in two_cuts(&mut rng, &stream, 10) {
                crate::emit_case(w, &["trojcu".to_string(), dops(&s)], exec);
            }
        }
    }
    for l in 0..(if thorough { 200 } else { 70 }) {
        crate::emit_case(w, &["trojsrv".to_string(), hex(&pw), format!("D{}", hex(&rng.bytes(l)))], exec);
        crate::emit_case(w, &["trojcu".to_string(), format!("D{}", hex(&rng.bytes(l % 40)))], exec);
    }
}

pub fn generate_socks5(w: &mut dyn Write, seed: u64, thorough: bool) {
    let mut rng = Rng::new(seed);
    let addrs = ["4:7f000001:80".to_string(), "D:6578616d706c652e636f6d:443".into(), format!("6:{}:8080", "20010db8".repeat(4)), "D:61:9".into(), "D:-:9".into()];
    // greetings: all segmentations of short ones
    for methods in [vec![0u8], vec![0, 2], vec![0, 1, 2, 255], vec![], vec![7], vec![0, 9]] {
        let mut g = vec![5u8, methods.len() as u8];
        g.extend_from_slice(&methods);
        g.extend_from_slice(&rng.bytes_of(&[0, 0, 3]));
        for s in segs_all(&g) {
            crate::emit_case(w, &["s5ir".to_string(), dops(&s)], exec);
        }
    }
    for v in [0u8, 4, 6, 255] {
        crate::emit_case(w, &["s5ir".to_string(), format!("D{:02x}0100", v)], exec);
        crate::emit_case(w, &["s5cr".to_string(), format!("D{:02x}0100017f0000010050", v)], exec);
        crate::emit_case(w, &["s5irs".to_string(), format!("D{:02x}00", v)], exec);
        crate::emit_case(w, &["s5crs".to_string(), format!("D{:02x}0000017f0000010050", v)], exec);
    }
    for a in &addrs {
        for c in [1u8, 2, 3, 0, 4] {
            let mut m = vec![5u8, c, 0];
            m.extend_from_slice(&s5_addr_bytes(a));
            m.extend_from_slice(&rng.bytes_of(&[0, 0, 5]));
            let segs = if m.len() <= 13 { segs_all(&m) } else { two_cuts(&mut rng, &m, 8) };
            for s in segs {
                crate::emit_case(w, &["s5cr".to_string(), dops(&s)], exec);
            }
            if c <= 1 || c == 4 {
                for s in two_cuts(&mut rng, &m, 3) {
                    crate::emit_case(w, &["s5crs".to_string(), dops(&s)], exec);
                }
            }
        }
        // udp datagrams: good, fragmented, every truncation, bad address type
        let payload = rng.bytes_of(&[0, 1, 100]);
        let mut d = vec![0u8, 0, 0];
        d.extend_from_slice(&s5_addr_bytes(a));
        d.extend_from_slice(&payload);
        crate::emit_case(w, &["s5udp".to_string(), hex(&d)], exec);
        crate::emit_case(w, &["s5udpenc".to_string(), a.clone(), hex(&payload)], exec);
        for cut in 0..d.len().min(40) {
            crate::emit_case(w, &["s5udp".to_string(), hex(&d[..cut])], exec);
        }
        let mut fr = d.clone();
        fr[2] = 1;
        crate::emit_case(w, &["s5udp".to_string(), hex(&fr)], exec);
        let mut bt = d.clone();
        bt[3] = 9;
        crate::emit_case(w, &["s5udp".to_string(), hex(&bt)], exec);
    }
    for m in [vec![5u8, 0], vec![5, 2], vec![5, 255], vec![5, 3], vec![5], vec![]] {
        for s in segs_all(&m) {
            crate::emit_case(w, &["s5irs".to_string(), dops(&s)], exec);
        }
    }
    for _ in 0..(if thorough { 2000 } else { 200 }) {
        let n = rng.below(24) as usize;
        let mut x = rng.bytes(n);
        if !x.is_empty() && rng.chance(3, 4) {
            x[0] = 5;
        }
        for c in ["s5ir", "s5cr", "s5irs", "s5crs"] {
            crate::emit_case(w, &[c.to_string(), format!("D{}", hex(&x))], exec);
        }
        let mut y = rng.bytes(n);
        if y.len() > 3 && rng.chance(3, 4) {
            y[0] = 0;
            y[1] = 0;
            y[2] = 0;
            y[3] = *rng.pick(&[1u8, 3, 4]);
        }
        crate::emit_case(w, &["s5udp".to_string(), hex(&y)], exec);
    }
}

pub fn generate_http(w: &mut dyn Write, seed: u64, thorough: bool) {
    let mut rng = Rng::new(seed);
    let methods = ["GET", "POST", "CONNECT", "OPTIONS", "connect"];
    let schemes = ["http", "https", "ws", "h", ""];
    let hosts = ["h", "www.example.com", "127.0.0.1", "[::1]", "[0:0:0:0:0:0:0:1]", "[fe80::1%25eth0]", "a-b.c", "xn--bcher-kva.example", "h\u{e9}", "", &"a".repeat(255), &"a".repeat(256), &"b".repeat(300)];
    let ports = ["", ":80", ":8080", ":0", ":65535", ":65536", ":+80", ":", ":x", ":080", ":99999999999999999999"];
    let paths = ["", "/", "/a/b/c", "/a:b", "/a://b", "/a/", "//", "/x/y.z:9/"];
    let queries = ["", "?", "?a=b&c=d", "?a=1?b=2", "?u=http://x/y", "?:", "?/", "?a/b:c?d://e"];
    let mut emit = |m: &str, t: &str| crate::emit_case(w, &["http".to_string(), hex(m.as_bytes()), hex(t.as_bytes())], exec);
    for m in methods {
        for sc in schemes {
            for h in hosts {
                for p in ports {
                    let full = thorough || (rng.chance(1, 3));
                    for pa in paths {
                        for q in queries {
                            if !full && !rng.chance(1, 12) {
                                continue;
                            }
                            let t = if sc.is_empty() { format!("{}{}{}{}", h, p, pa, q) } else { format!("{}://{}{}{}{}", sc, h, p, pa, q) };
                            emit(m, &t);
                        }
                    }
                }
            }
        }
    }
    // CONNECT authority form and origin form
    for h in hosts {
        for p in ports {
            emit("CONNECT", &format!("{}{}", h, p));
        }
    }
    for t in ["/", "/index.html", "*", "/?a=b", "http://", "http:///", "http://?", "://h", "http://h?a=1?b=2", "http://h:80?a:1", "http://[::1]?x", "http://h/?://"] {
        emit("GET", t);
        emit("CONNECT", t);
    }
    // random printable targets
    let alpha = b"ah:/?[]@#.+-019%";
    for _ in 0..(if thorough { 20000 } else { 1500 }) {
        let n = rng.range(0, 24) as usize;
        let t: Vec<u8> = (0..n).map(|_| *rng.pick(alpha)).collect();
        let m = *rng.pick(&["GET", "CONNECT"]);
        emit(m, std::str::from_utf8(&t).unwrap());
    }
}
