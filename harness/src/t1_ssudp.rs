//! T1 for the Shadowsocks UDP datagram codec (legacy AEAD and 2022): the real `SessionCodec<N>` (+ Context, Session,
//! AEADCipherCodec) and the client's `DatagramPacketCodec`, mirrored by Model/SsUdp.v.
//!
//! Every case line starts with `ssudp \t <op>`; ids are hexadecimal u64; byte strings are hex ("-" = empty);
//! users = "none" (no user manager) | csv of hash:key ("-" = a manager without users); user = hash:key | "-".
//!
//! dec  kind mode key ikeys users now datagram
//!        one datagram through SessionCodec::decode.
//!        result: NONE | OK <payload> <addr> c=<csid> s=<ssid> p=<pid> u=<user hash|-> | ERR <class> | PANIC
//! rt   kind encmode ekey eikeys euser dkey dusers xuser now csid ssid pid addr payload   =>  <wire> \t <result>
//!        the implementation encodes (encmode, ekey, eikeys, session = csid/ssid/pid/euser); the opposite side
//!        (dkey, dusers) decodes the wire.  Implementation column: the string EXPECTED from the arguments
//!        (payload, addr, ids, xuser) when its decoder returned exactly that, "RT-BAD ..." otherwise.
//!        Model: decodes <wire> (taken from the implementation's column) and prints what it got, so agreement
//!        means model decode = implementation decode = what was sent.
//! enc  kind mode key ikeys user now csid ssid pid addr payload   =>  OK <wire>
//!        payload is non-empty (padding length 0).  Model: ssu_encode with the random part (legacy salt /
//!        XChaCha nonce) cut out of <wire>; must reproduce the wire byte for byte.
//! dg   kind key ikeys replay_protected(0|1) now ops
//!        ops (';' separated) on one client DatagramPacketCodec:
//!        D<hex>            a datagram from the server: ITEM <payload> <addr> | NONE | ERR <class> | PANIC
//!        E<addr>,<payload> encode: OK p=<packet id found on the wire by a server-side decode> (2022) | OK (legacy)
//!        P<hex id>         place the session's packet counter (hook)
//!        R<ssid>,<pid>,<tag>,<x>  a well-formed server datagram (payload tag tag, from 10.0.0.<tag>:53) whose client session id is
//!                          THIS session's id xor <x> (hex): x = 0 is addressed to this session, anything else to another one;
//!                          an optional fifth field damages it in transit: `t` = last byte lost, `f<n>` = bit n (mod length) flipped,
//!                          or states what must happen to it: `=i` it is delivered, `=n` it is dropped (ORACLE-BAD otherwise).
//!                          When a script has R ops the result has a leading oracle field (ORACLE-OK | ORACLE-BAD ...): a datagram
//!                          addressed to another client session must not be delivered (2022 kinds).
//! a trailing `@n` argument of a `dec` case adds the same leading oracle field: the datagram must not be accepted.
use std::io::Write;
use std::sync::Arc;

use bytes::BytesMut;
use octo_squirrel::codec::aead::CipherKind;
use octo_squirrel::codec::shadowsocks::udp::{AEADCipherCodec, Context, Session, SessionCodec, SessionPacket};
use octo_squirrel::manager::shadowsocks::{ServerUser, ServerUserManager};
use octo_squirrel::protocol::address::Address;
use octo_squirrel::protocol::shadowsocks::Mode;
use octo_squirrel_client::client::verif_hooks::shadowsocks::DatagramPacketCodec;
use tokio_util::codec::{Decoder, Encoder};

use crate::canon::{addr_str, classify, parse_addr};
use crate::prims;
use crate::rng::Rng;
use crate::t1_sstcp::{KINDS, kind_of};
use crate::util::{catch, hex, unhex};

fn arr<const N: usize>(b: &[u8]) -> [u8; N] {
    let mut a = [0u8; N];
    let l = b.len().min(N);
    a[..l].copy_from_slice(&b[..l]);
    a
}
fn csv(s: &str) -> Vec<&str> {
    if s == "-" || s.is_empty() { vec![] } else { s.split(',').collect() }
}
fn u64x(s: &str) -> u64 {
    u64::from_str_radix(s, 16).expect("u64 hex")
}
fn mk_user<const N: usize>(s: &str) -> Option<Arc<ServerUser<N>>> {
    let (h, k) = s.split_once(':')?;
    Some(Arc::new(ServerUser { name: "u".into(), key: arr(&unhex(k)), identity_hash: arr(&unhex(h)) }))
}
fn mk_um<const N: usize>(s: &str) -> Option<Arc<ServerUserManager<N>>> {
    if s == "none" {
        return None;
    }
    let mut m: ServerUserManager<N> = ServerUserManager::new();
    for u in csv(s) {
        let (h, k) = u.split_once(':').unwrap();
        m.add_user(ServerUser { name: "u".into(), key: arr(&unhex(k)), identity_hash: arr(&unhex(h)) });
    }
    Some(Arc::new(m))
}
fn mode_of(s: &str) -> Mode {
    if s == "client" { Mode::Client } else { Mode::Server }
}
fn sess_str<const N: usize>(s: &Session<N>) -> String {
    format!("c={:x} s={:x} p={:x} u={}", s.client_session_id, s.server_session_id, s.packet_id, s.user.as_ref().map(|u| hex(&u.identity_hash)).unwrap_or("-".into()))
}
fn dec_str<const N: usize>(r: Result<anyhow::Result<Option<SessionPacket<N>>>, String>) -> String {
    match r {
        Ok(Ok(None)) => "NONE".into(),
        Ok(Ok(Some((p, a, s)))) => format!("OK {} {} {}", hex(&p), addr_str(&a), sess_str(&s)),
        Ok(Err(e)) => format!("ERR {}", classify(&e)),
        Err(_) => "PANIC".into(),
    }
}

fn decode_one<const N: usize>(kind: CipherKind, mode: Mode, key: &[u8], ikeys: &[[u8; N]], um: Option<Arc<ServerUserManager<N>>>, dgram: &[u8]) -> String {
    let codec: SessionCodec<N> = SessionCodec::new(Context::new(mode, um, key, ikeys), AEADCipherCodec::new(kind));
    let mut src = BytesMut::from(dgram);
    dec_str(catch(|| codec.decode(&mut src)))
}
fn encode_one<const N: usize>(kind: CipherKind, mode: Mode, key: &[u8], ikeys: &[[u8; N]], sess: Session<N>, addr: Address, payload: &[u8]) -> Result<Vec<u8>, String> {
    let codec: SessionCodec<N> = SessionCodec::new(Context::new(mode, None, key, ikeys), AEADCipherCodec::new(kind));
    let item = BytesMut::from(payload);
    match catch(|| {
        let mut dst = BytesMut::new();
        codec.encode((item, addr, sess), &mut dst).map(|_| dst)
    }) {
        Ok(Ok(d)) => Ok(d.to_vec()),
        Ok(Err(e)) => Err(format!("ERR {}", classify(&e))),
        Err(_) => Err("PANIC".into()),
    }
}

fn run<const N: usize>(kind: CipherKind, is22: bool, f: &[&str]) -> Vec<String> {
    match f[1] {
        "dec" => {
            let key = unhex(f[4]);
            let ikeys: Vec<[u8; N]> = csv(f[5]).iter().map(|h| arr(&unhex(h))).collect();
            octo_squirrel::verif_clock::set(Some(f[7].parse().unwrap()));
            let r = decode_one::<N>(kind, mode_of(f[3]), &key, &ikeys, mk_um(f[6]), &unhex(f[8]));
            octo_squirrel::verif_clock::set(None);
            if f.get(9) == Some(&"@n") {
                vec![if r.starts_with("OK ") { "ORACLE-BAD accepted what must be refused".into() } else { "ORACLE-OK".into() }, r]
            } else {
                vec![r]
            }
        }
        "rt" => {
            // rt kind encmode ekey eikeys euser dkey dusers xuser now csid ssid pid addr payload
            let ekey = unhex(f[4]);
            let eikeys: Vec<[u8; N]> = csv(f[5]).iter().map(|h| arr(&unhex(h))).collect();
            let dkey = unhex(f[7]);
            octo_squirrel::verif_clock::set(Some(f[10].parse().unwrap()));
            let (csid, ssid, pid) = (u64x(f[11]), u64x(f[12]), u64x(f[13]));
            let payload = unhex(f[15]);
            let emode = mode_of(f[3]);
            let out = match encode_one::<N>(kind, emode, &ekey, &eikeys, Session::new(csid, ssid, pid, mk_user(f[6])), parse_addr(f[14]), &payload) {
                Err(e) => vec![e.clone(), e],
                Ok(w) => {
                    let dmode = if f[3] == "client" { Mode::Server } else { Mode::Client };
                    let got = decode_one::<N>(kind, dmode, &dkey, &[], mk_um(f[8]), &w);
                    let expected = if !is22 {
                        format!("OK {} {} c=0 s=0 p=0 u=-", hex(&payload), f[14])
                    } else if f[3] == "client" {
                        format!("OK {} {} c={:x} s=0 p={:x} u={}", hex(&payload), f[14], csid, pid, f[9])
                    } else {
                        format!("OK {} {} c={:x} s={:x} p={:x} u=-", hex(&payload), f[14], csid, ssid, pid)
                    };
                    vec![hex(&w), if got == expected { expected } else { format!("RT-BAD got={} expected={}", got, expected) }]
                }
            };
            octo_squirrel::verif_clock::set(None);
            out
        }
        "enc" => {
            // enc kind mode key ikeys user now csid ssid pid addr payload
            let key = unhex(f[4]);
            let ikeys: Vec<[u8; N]> = csv(f[5]).iter().map(|h| arr(&unhex(h))).collect();
            octo_squirrel::verif_clock::set(Some(f[7].parse().unwrap()));
            let r = encode_one::<N>(kind, mode_of(f[3]), &key, &ikeys, Session::new(u64x(f[8]), u64x(f[9]), u64x(f[10]), mk_user(f[6])), parse_addr(f[11]), &unhex(f[12]));
            octo_squirrel::verif_clock::set(None);
            vec![match r {
                Ok(w) => format!("OK {}", hex(&w)),
                Err(e) => e,
            }]
        }
        "dg" => {
            // dg kind key ikeys rp now ops
            let key = unhex(f[3]);
            let ikeys: Vec<[u8; N]> = csv(f[4]).iter().map(|h| arr(&unhex(h))).collect();
            let rp = f[5] == "1";
            octo_squirrel::verif_clock::set(Some(f[6].parse().unwrap()));
            let mut codec = DatagramPacketCodec::new(SessionCodec::<N>::new(Context::new(Mode::Client, None, &key, &ikeys), AEADCipherCodec::new(kind)), rp);
            // the server side that reads back what the client codec emitted
            let (skey, sum): (Vec<u8>, Option<Arc<ServerUserManager<N>>>) = match ikeys.first() {
                Some(ik) => (ik.to_vec(), mk_um(&format!("{}:{}", hex(&blake3::hash(&key).as_bytes()[..16]), hex(&key)))),
                None => (key.clone(), None),
            };
            let mut out = Vec::new();
            let mut dead = false;
            // scripts with R ops: learn this session's (random) client session id from a probe datagram, then put the counter back
            let has_r = f[7].split(';').any(|op| op.starts_with('R'));
            let mut own_csid: u64 = 0;
            let mut oracle: Option<String> = None;
            if has_r && is22 {
                let mut dst = BytesMut::new();
                let _ = codec.encode((BytesMut::from(&b"probe"[..]), parse_addr("4:7f000001:9")), &mut dst);
                let sc: SessionCodec<N> = SessionCodec::new(Context::new(Mode::Server, sum.clone(), &skey, &[]), AEADCipherCodec::new(kind));
                match catch(|| sc.decode(&mut dst)) {
                    Ok(Ok(Some((_, _, s)))) => own_csid = s.client_session_id,
                    _ => oracle = Some("ORACLE-BAD probe datagram unreadable".into()),
                }
                codec.verif_set_packet_id(0);
            }
            for op in f[7].split(';') {
                if op.is_empty() {
                    continue;
                }
                if dead {
                    out.push("SKIP".to_string());
                    continue;
                }
                let (c, arg) = op.split_at(1);
                if c == "R" {
                    let a: Vec<&str> = arg.split(',').collect();
                    let (ssid, pid, tag, x) = (u64x(a[0]), u64x(a[1]), u8::from_str_radix(a[2], 16).unwrap(), u64x(a[3]));
                    let (_, _, _, cipher) = kind_of(f[2]);
                    let tail = [&[1u8, 10, 0, 0, tag, 0, 53][..], &[tag, tag][..]].concat();
                    let pkt = if is22 {
                        UCraft { kname: f[2], cipher }.packet(&key, &key, &[], ssid, pid, &UCraft::body(1, f[6].parse::<i64>().unwrap() as u64, Some(own_csid ^ x), 0, &[], &tail), &[0u8; 24])
                    } else {
                        legacy_packet(cipher, &key, &[0u8; N], &tail)
                    };
                    let mut pkt = pkt;
                    match a.get(4).copied() {
                        // damaged in transit: the last byte lost / one bit flipped
                        Some("t") => {
                            pkt.pop();
                        }
                        Some(d) if d.starts_with('f') => {
                            let bit = d[1..].parse::<usize>().unwrap() % (pkt.len() * 8);
                            pkt[bit / 8] ^= 1 << (bit % 8);
                        }
                        _ => {}
                    }
                    let mut src = BytesMut::from(&pkt[..]);
                    let r = match catch(|| codec.decode(&mut src)) {
                        Ok(Ok(None)) => "NONE".to_string(),
                        Ok(Ok(Some((p, a)))) => format!("ITEM {} {}", hex(&p), addr_str(&a)),
                        Ok(Err(e)) => format!("ERR {}", classify(&e)),
                        Err(_) => {
                            dead = true;
                            "PANIC".into()
                        }
                    };
                    if is22 && x != 0 && r.starts_with("ITEM") && oracle.is_none() {
                        oracle = Some(format!("ORACLE-BAD delivered a datagram addressed to client session {:x} (own {:x})", own_csid ^ x, own_csid));
                    }
                    // direct expectation of the script's author (set-based reference, see `WinRef`): `=i` delivered, `=n` dropped
                    match a.get(4).copied() {
                        Some("=i") if !r.starts_with("ITEM") && oracle.is_none() => oracle = Some(format!("ORACLE-BAD server session {:x} packet {:x}: expected to be delivered, got {}", ssid, pid, r)),
                        Some("=n") if r != "NONE" && oracle.is_none() => oracle = Some(format!("ORACLE-BAD server session {:x} packet {:x}: expected to be dropped, got {}", ssid, pid, r)),
                        _ => {}
                    }
                    out.push(r);
                } else if c == "P" {
                    // place the session's packet counter (hook): reaches the end of the 64-bit id space
                    codec.verif_set_packet_id(u64::from_str_radix(arg, 16).unwrap());
                    out.push("SET".into());
                } else if c == "D" {
                    let mut src = BytesMut::from(&unhex(arg)[..]);
                    out.push(match catch(|| codec.decode(&mut src)) {
                        Ok(Ok(None)) => "NONE".into(),
                        Ok(Ok(Some((p, a)))) => format!("ITEM {} {}", hex(&p), addr_str(&a)),
                        Ok(Err(e)) => format!("ERR {}", classify(&e)),
                        Err(_) => {
                            dead = true;
                            "PANIC".into()
                        }
                    });
                } else {
                    let (a, p) = arg.split_once(',').unwrap();
                    let item = (BytesMut::from(&unhex(p)[..]), parse_addr(a));
                    let r = catch(|| {
                        let mut dst = BytesMut::new();
                        codec.encode(item, &mut dst).map(|_| dst)
                    });
                    out.push(match r {
                        Ok(Ok(w)) => {
                            if is22 {
                                let sc: SessionCodec<N> = SessionCodec::new(Context::new(Mode::Server, sum.clone(), &skey, &[]), AEADCipherCodec::new(kind));
                                let mut src = BytesMut::from(&w[..]);
                                match catch(|| sc.decode(&mut src)) {
                                    Ok(Ok(Some((_, _, s)))) => format!("OK p={:x}", s.packet_id),
                                    other => format!("UNREADABLE {}", dec_str(other)),
                                }
                            } else {
                                "OK".into()
                            }
                        }
                        Ok(Err(e)) => format!("ERR {}", classify(&e)),
                        Err(_) => {
                            dead = true;
                            "PANIC".into()
                        }
                    });
                }
            }
            octo_squirrel::verif_clock::set(None);
            if has_r { vec![oracle.unwrap_or("ORACLE-OK".into()), out.join(" | ")] } else { vec![out.join(" | ")] }
        }
        _ => vec!["BAD-SSUDP-CASE".into()],
    }
}

pub fn exec(f: &[&str]) -> Vec<String> {
    let (kind, n, is22, _) = kind_of(f[2]);
    if n == 16 { run::<16>(kind, is22, f) } else { run::<32>(kind, is22, f) }
}

// ------------------------------------------------------------------------------------------------
// an independent reference builder for datagrams (crafted authenticated-but-unusual packets)
pub struct UCraft<'a> {
    pub kname: &'a str,
    pub cipher: &'a str, // AEAD of the TCP flavour ("aes128gcm", "aes256gcm", "chacha20", "chacha8")
}
impl UCraft<'_> {
    fn is_aes(&self) -> bool {
        self.kname == "22a128" || self.kname == "22a256"
    }
    fn subkey(&self, key: &[u8], sid: u64) -> Vec<u8> {
        let mut m = key.to_vec();
        m.extend_from_slice(&sid.to_be_bytes());
        let k = blake3::derive_key("shadowsocks 2022 session subkey", &m).to_vec();
        k[..if self.cipher == "aes128gcm" { 16 } else { 32 }].to_vec()
    }
    pub fn eih(ikey: &[u8], next: &[u8], sidpid: &[u8]) -> Vec<u8> {
        let h = blake3::hash(next);
        let x: Vec<u8> = h.as_bytes()[..16].iter().zip(sidpid).map(|(a, b)| a ^ b).collect();
        prims::aes_block(true, ikey, &x).unwrap()
    }
    /// AES: AES(hdr_key, sid‖pid) ‖ eih ‖ seal(subkey(body_key, sid), nonce = (sid‖pid)[4..], body)
    /// XChaCha: nonce ‖ seal(body_key, nonce, sid‖pid‖body)
    pub fn packet(&self, hdr_key: &[u8], body_key: &[u8], eih: &[u8], sid: u64, pid: u64, body: &[u8], nonce24: &[u8]) -> Vec<u8> {
        let mut sidpid = sid.to_be_bytes().to_vec();
        sidpid.extend_from_slice(&pid.to_be_bytes());
        if self.is_aes() {
            let mut out = prims::aes_block(true, hdr_key, &sidpid).unwrap();
            out.extend_from_slice(eih);
            out.extend_from_slice(&prims::aead(self.cipher, true, &self.subkey(body_key, sid), &sidpid[4..16], &[], body).unwrap());
            out
        } else {
            let x = if self.kname == "22cc8" { "xchacha8" } else { "xchacha20" };
            let mut pt = sidpid.clone();
            pt.extend_from_slice(body);
            let mut out = nonce24.to_vec();
            out.extend_from_slice(&prims::aead(x, true, body_key, nonce24, &[], &pt).unwrap());
            out
        }
    }
    /// type ‖ ts ‖ [csid] ‖ padlen ‖ pad ‖ tail
    pub fn body(ty: u8, ts: u64, csid: Option<u64>, padlen_field: u16, pad: &[u8], tail: &[u8]) -> Vec<u8> {
        let mut b = vec![ty];
        b.extend_from_slice(&ts.to_be_bytes());
        if let Some(c) = csid {
            b.extend_from_slice(&c.to_be_bytes());
        }
        b.extend_from_slice(&padlen_field.to_be_bytes());
        b.extend_from_slice(pad);
        b.extend_from_slice(tail);
        b
    }
}
/// legacy: salt ‖ seal(hkdf_sha1(key, salt, "ss-subkey"), nonce 0, plaintext)
pub fn legacy_packet(cipher: &str, key: &[u8], salt: &[u8], pt: &[u8]) -> Vec<u8> {
    let sk = prims::hkdf_sha1(key, salt, b"ss-subkey", salt.len()).unwrap();
    let mut out = salt.to_vec();
    out.extend_from_slice(&prims::aead(cipher, true, &sk[..if cipher == "aes128gcm" { 16 } else { 32 }], &[0u8; 12], &[], pt).unwrap());
    out
}

struct Cfg {
    ckey: Vec<u8>,    // the client's own key (context.key of the client)
    cikeys: String,   // the client's identity keys
    skey: Vec<u8>,    // the server's key
    users: String,    // the server's user table
    suser: String,    // session.user on the server side for this client
    xuser: String,    // user hash the server must find
}

/// one `dec` case without a direct expectation (the model decides)
fn dec_case(w: &mut dyn Write, kname: &str, mode: &str, key: &[u8], ikeys: &str, users: &str, now: i64, dgram: &[u8]) {
    dec_case_m(w, kname, mode, key, ikeys, users, now, dgram, false)
}
/// `refuse`: the datagram must not be accepted (tampered, foreign key, stale, reflected ...): direct oracle `@n`
#[allow(clippy::too_many_arguments)]
pub fn dec_case_m(w: &mut dyn Write, kname: &str, mode: &str, key: &[u8], ikeys: &str, users: &str, now: i64, dgram: &[u8], refuse: bool) {
    let mut a: Vec<String> = vec!["ssudp".into(), "dec".into(), kname.into(), mode.into(), hex(key), ikeys.into(), users.into(), now.to_string(), hex(dgram)];
    if refuse {
        a.push("@n".into());
    }
    crate::emit_case(w, &a, exec);
}
fn dec_refuse(w: &mut dyn Write, kname: &str, mode: &str, key: &[u8], ikeys: &str, users: &str, now: i64, dgram: &[u8]) {
    dec_case_m(w, kname, mode, key, ikeys, users, now, dgram, true)
}

/// Independent reference for the client's replay protection: per server session the SET of accepted packet ids, at most four
/// sessions kept, the one that appeared first makes room.  An id is accepted iff it is below u64::MAX, not in the set and not more
/// than 8128 behind the highest id of the set.
#[derive(Default)]
pub struct WinRef {
    sessions: Vec<(u64, Vec<u64>)>,
}
impl WinRef {
    pub fn accept(&mut self, ssid: u64, pid: u64) -> bool {
        if !self.sessions.iter().any(|(s, _)| *s == ssid) {
            if self.sessions.len() == 4 {
                self.sessions.remove(0);
            }
            self.sessions.push((ssid, Vec::new()));
        }
        let set = &mut self.sessions.iter_mut().find(|(s, _)| *s == ssid).unwrap().1;
        let ok = pid < u64::MAX && !set.contains(&pid) && set.iter().all(|&j| j <= pid.saturating_add(8128));
        if ok {
            set.push(pid);
        }
        ok
    }
}

pub fn generate(w: &mut dyn Write, seed: u64, thorough: bool) {
    let mut rng = Rng::new(seed);
    let now: i64 = 1_790_000_000;
    let addrs = ["D:6578616d706c652e636f6d:443".to_string(), "4:7f000001:80".into(), format!("6:{}:8080", "20010db8".repeat(4))];
    let sizes = [0usize, 1, 100, 1400, 65000];
    let uh = |k: &[u8]| hex(&blake3::hash(k).as_bytes()[..16]);
    for kname in KINDS {
        let (_, n, is22, cipher) = kind_of(kname);
        let aes22 = kname == "22a128" || kname == "22a256";
        let skey = rng.bytes(n);
        let mut cfgs = vec![Cfg { ckey: skey.clone(), cikeys: "-".into(), skey: skey.clone(), users: "none".into(), suser: "-".into(), xuser: "-".into() }];
        let (u1, u2, u3) = (rng.bytes(n), rng.bytes(n), rng.bytes(n));
        let table = format!("{}:{},{}:{},{}:{}", uh(&u1), hex(&u1), uh(&u2), hex(&u2), uh(&u3), hex(&u3));
        if aes22 {
            cfgs.push(Cfg { ckey: u2.clone(), cikeys: hex(&skey), skey: skey.clone(), users: table.clone(), suser: format!("{}:{}", uh(&u2), hex(&u2)), xuser: uh(&u2) });
            // a user manager without users: no identity header is expected
            cfgs.push(Cfg { ckey: skey.clone(), cikeys: "-".into(), skey: skey.clone(), users: "-".into(), suser: "-".into(), xuser: "-".into() });
        }
        for (ci, cfg) in cfgs.iter().enumerate() {
            // samples kept for the mutation stage: (client packet, server packet, csid, ssid, pid)
            let mut samples: Vec<(Vec<u8>, Vec<u8>)> = Vec::new();
            for (ai, addr) in addrs.iter().enumerate() {
                for (zi, &size) in sizes.iter().enumerate() {
                    if ci == 2 && (ai != 0 || size > 100) {
                        continue;
                    }
                    if !thorough && size == 65000 && ai != zi % 3 {
                        continue;
                    }
                    let payload = rng.bytes(size);
                    let csid = rng.next();
                    let ssid = rng.next();
                    let pid = match (ai + zi) % 5 {
                        0 => 0,
                        1 => u64::MAX,
                        2 => 1,
                        _ => rng.next(),
                    };
                    let (cs, ss, ps) = (format!("{:x}", csid), format!("{:x}", ssid), format!("{:x}", pid));
                    // client -> server
                    let a: Vec<String> = vec!["ssudp".into(), "rt".into(), kname.into(), "client".into(), hex(&cfg.ckey), cfg.cikeys.clone(), "-".into(), hex(&cfg.skey), cfg.users.clone(), cfg.xuser.clone(), now.to_string(), cs.clone(), ss.clone(), ps.clone(), addr.clone(), hex(&payload)];
                    let af: Vec<&str> = a.iter().map(|s| s.as_str()).collect();
                    let wc = unhex(&exec(&af)[0]);
                    crate::emit_case(w, &a, exec);
                    // server -> client
                    let b: Vec<String> = vec!["ssudp".into(), "rt".into(), kname.into(), "server".into(), hex(&cfg.skey), "-".into(), cfg.suser.clone(), hex(&cfg.ckey), "none".into(), "-".into(), now.to_string(), cs.clone(), ss.clone(), ps.clone(), addr.clone(), hex(&payload)];
                    let bf: Vec<&str> = b.iter().map(|s| s.as_str()).collect();
                    let ws = unhex(&exec(&bf)[0]);
                    crate::emit_case(w, &b, exec);
                    if size > 0 {
                        let e: Vec<String> = vec!["ssudp".into(), "enc".into(), kname.into(), "client".into(), hex(&cfg.ckey), cfg.cikeys.clone(), "-".into(), now.to_string(), cs.clone(), ss.clone(), ps.clone(), addr.clone(), hex(&payload)];
                        crate::emit_case(w, &e, exec);
                        let e: Vec<String> = vec!["ssudp".into(), "enc".into(), kname.into(), "server".into(), hex(&cfg.skey), "-".into(), cfg.suser.clone(), now.to_string(), cs, ss, ps, addr.clone(), hex(&payload)];
                        crate::emit_case(w, &e, exec);
                    }
                    if size <= 100 && ai == zi % 3 {
                        samples.push((wc, ws));
                    }
                }
            }
            // ---- mutations of implementation-encoded datagrams ----
            for (si, (wc, ws)) in samples.iter().enumerate() {
                for (mode, key, users, wire) in [("server", &cfg.skey, cfg.users.as_str(), wc), ("client", &cfg.ckey, "none", ws)] {
                    // every truncation
                    let step = if thorough { 1 } else { 7 };
                    for cut in (0..wire.len()).step_by(step) {
                        dec_refuse(w, kname, mode, key, "-", users, now, &wire[..cut]);
                    }
                    // the last few truncations always (tag boundary)
                    for cut in wire.len().saturating_sub(3)..wire.len() {
                        dec_refuse(w, kname, mode, key, "-", users, now, &wire[..cut]);
                    }
                    // one byte appended
                    let mut longer = wire.clone();
                    longer.push(0);
                    dec_refuse(w, kname, mode, key, "-", users, now, &longer);
                    // single-bit flips (sampled)
                    let flips = if thorough { 200 } else { 30 };
                    for _ in 0..flips {
                        let bit = rng.below((wire.len() * 8) as u64) as usize;
                        let mut m = wire.clone();
                        m[bit / 8] ^= 1 << (bit % 8);
                        dec_refuse(w, kname, mode, key, "-", users, now, &m);
                    }
                    // every bit of the first 80 bytes (headers) in thorough mode
                    if thorough && si == 0 {
                        for bit in 0..(wire.len().min(80) * 8) {
                            let mut m = wire.clone();
                            m[bit / 8] ^= 1 << (bit % 8);
                            dec_refuse(w, kname, mode, key, "-", users, now, &m);
                        }
                    }
                    // a wrong key
                    dec_refuse(w, kname, mode, &rng.bytes(n), "-", users, now, wire);
                    // a clock 31 s / 30 s away from the packet's timestamp (legacy packets carry no time)
                    for dt in [-31i64, -30, 30, 31] {
                        dec_case_m(w, kname, mode, key, "-", users, now + dt, wire, is22 && dt.abs() > 30);
                    }
                }
                // reflection: a client packet fed to a client, a server packet fed to a server (legacy packets have no direction)
                dec_case_m(w, kname, "client", &cfg.ckey, "-", "none", now, wc, is22);
                dec_case_m(w, kname, "server", &cfg.skey, "-", &cfg.users, now, ws, is22);
                // cross-session splices: head of one datagram, tail of another
                if let Some((wc2, ws2)) = samples.get((si + 1) % samples.len()) {
                    let cutc = if aes22 { 16 } else if is22 { 24 } else { n };
                    let distinct = samples.len() > 1; // with a single sample the "splice" is the datagram itself
                    for (mode, key, users, x, y) in [("server", &cfg.skey, cfg.users.as_str(), wc, wc2), ("client", &cfg.ckey, "none", ws, ws2)] {
                        let mut m = x[..cutc.min(x.len())].to_vec();
                        m.extend_from_slice(&y[cutc.min(y.len())..]);
                        dec_case_m(w, kname, mode, key, "-", users, now, &m, distinct);
                        if aes22 && cfg.xuser != "-" && mode == "server" {
                            // header + identity header of one packet, body of the other
                            let mut m = x[..32].to_vec();
                            m.extend_from_slice(&y[32..]);
                            dec_case_m(w, kname, mode, key, "-", users, now, &m, distinct);
                            // identity header swapped alone
                            let mut m = x.to_vec();
                            m[16..32].copy_from_slice(&y[16..32]);
                            dec_case_m(w, kname, mode, key, "-", users, now, &m, distinct);
                        }
                    }
                }
            }
            // ---- crafted 2022 packets ----
            if is22 {
                let cr = UCraft { kname, cipher };
                let good_tail = {
                    let mut v = vec![1u8, 127, 0, 0, 1, 0, 80];
                    v.extend_from_slice(b"hello");
                    v
                };
                // direction client -> server: header under the server key, body under the client's key
                let mk_c = |rng: &mut Rng, cfg: &Cfg, body: &[u8], sid: u64, pid: u64| -> Vec<u8> {
                    let mut sidpid = sid.to_be_bytes().to_vec();
                    sidpid.extend_from_slice(&pid.to_be_bytes());
                    let eih = if cfg.xuser != "-" { UCraft::eih(&cfg.skey, &cfg.ckey, &sidpid) } else { vec![] };
                    cr.packet(&cfg.skey, &cfg.ckey, &eih, sid, pid, body, &rng.bytes(24))
                };
                let mk_s = |rng: &mut Rng, cfg: &Cfg, body: &[u8], sid: u64, pid: u64| -> Vec<u8> { cr.packet(&cfg.ckey, &cfg.ckey, &[], sid, pid, body, &rng.bytes(24)) };
                for (ty, dt) in [(0u8, 0i64), (1, 0), (2, 0), (255, 0), (0, 29), (0, 30), (0, 31), (0, -29), (0, -30), (0, -31), (0, 3600), (0, -3600), (1, 29), (1, 30), (1, 31), (1, -29), (1, -30), (1, -31)] {
                    let ts = (now + dt) as u64;
                    let (sid, pid) = (rng.next(), rng.next());
                    let pc = mk_c(&mut rng, cfg, &UCraft::body(ty, ts, None, 0, &[], &good_tail), sid, pid);
                    dec_case_m(w, kname, "server", &cfg.skey, "-", &cfg.users, now, &pc, ty != 0 || dt.abs() > 30);
                    let c = rng.next();
                    let ps = mk_s(&mut rng, cfg, &UCraft::body(ty, ts, Some(c), 0, &[], &good_tail), sid, pid);
                    dec_case_m(w, kname, "client", &cfg.ckey, "-", "none", now, &ps, ty != 1 || dt.abs() > 30);
                }
                // padding: (declared length, actual padding bytes)
                for (field, actual) in [(0u16, 0usize), (5, 5), (900, 900), (901, 901), (1, 0), (65535, 3), (4, 5), (12, 12), (13, 12), (11, 12)] {
                    let pad = rng.bytes(actual);
                    let (sid, pid) = (rng.next(), rng.next());
                    let pc = mk_c(&mut rng, cfg, &UCraft::body(0, now as u64, None, field, &pad, &good_tail), sid, pid);
                    dec_case(w, kname, "server", &cfg.skey, "-", &cfg.users, now, &pc);
                    let ps = mk_s(&mut rng, cfg, &UCraft::body(1, now as u64, Some(7), field, &pad, &good_tail), sid, pid);
                    dec_case(w, kname, "client", &cfg.ckey, "-", "none", now, &ps);
                }
                // authenticated but malformed tail: nothing, garbage of every length 0..=24, bad address types
                for l in 0..=24usize {
                    let mut tail = rng.bytes(l);
                    if l > 0 {
                        tail[0] = *rng.pick(&[1u8, 3, 4, 1, 3, 4, 0, 9]);
                    }
                    let (sid, pid) = (rng.next(), rng.next());
                    let pc = mk_c(&mut rng, cfg, &UCraft::body(0, now as u64, None, 0, &[], &tail), sid, pid);
                    dec_case(w, kname, "server", &cfg.skey, "-", &cfg.users, now, &pc);
                    let ps = mk_s(&mut rng, cfg, &UCraft::body(1, now as u64, Some(7), 0, &[], &tail), sid, pid);
                    dec_case(w, kname, "client", &cfg.ckey, "-", "none", now, &ps);
                }
                // authenticated bodies shorter than the fixed fields (the decoder's length check must cover them)
                for l in 0..=20usize {
                    let full_c = UCraft::body(0, now as u64, None, 0, &[], &good_tail);
                    let full_s = UCraft::body(1, now as u64, Some(7), 0, &[], &good_tail);
                    let (sid, pid) = (rng.next(), rng.next());
                    let pc = mk_c(&mut rng, cfg, &full_c[..l.min(full_c.len())], sid, pid);
                    dec_case(w, kname, "server", &cfg.skey, "-", &cfg.users, now, &pc);
                    let ps = mk_s(&mut rng, cfg, &full_s[..l.min(full_s.len())], sid, pid);
                    dec_case(w, kname, "client", &cfg.ckey, "-", "none", now, &ps);
                }
                if aes22 && cfg.xuser != "-" {
                    let (sid, pid) = (rng.next(), rng.next());
                    let mut sidpid = sid.to_be_bytes().to_vec();
                    sidpid.extend_from_slice(&pid.to_be_bytes());
                    let body = UCraft::body(0, now as u64, None, 0, &[], &good_tail);
                    // unknown user
                    let stranger = rng.bytes(n);
                    let p = cr.packet(&cfg.skey, &stranger, &UCraft::eih(&cfg.skey, &stranger, &sidpid), sid, pid, &body, &[]);
                    dec_refuse(w, kname, "server", &cfg.skey, "-", &cfg.users, now, &p);
                    // identity of user 2, body under the server key / under user 3's key
                    let p = cr.packet(&cfg.skey, &cfg.skey, &UCraft::eih(&cfg.skey, &cfg.ckey, &sidpid), sid, pid, &body, &[]);
                    dec_refuse(w, kname, "server", &cfg.skey, "-", &cfg.users, now, &p);
                    let p = cr.packet(&cfg.skey, &u3, &UCraft::eih(&cfg.skey, &cfg.ckey, &sidpid), sid, pid, &body, &[]);
                    dec_refuse(w, kname, "server", &cfg.skey, "-", &cfg.users, now, &p);
                    // each user of the table is found
                    for u in [&u1, &u2, &u3] {
                        let p = cr.packet(&cfg.skey, u, &UCraft::eih(&cfg.skey, u, &sidpid), sid, pid, &body, &[]);
                        dec_case(w, kname, "server", &cfg.skey, "-", &cfg.users, now, &p);
                    }
                    // identity header computed for another packet id
                    let mut other = sidpid.clone();
                    other[15] ^= 1;
                    let p = cr.packet(&cfg.skey, &cfg.ckey, &UCraft::eih(&cfg.skey, &cfg.ckey, &other), sid, pid, &body, &[]);
                    dec_refuse(w, kname, "server", &cfg.skey, "-", &cfg.users, now, &p);
                    // no identity header although the server expects one / an identity header the server does not expect
                    let p = cr.packet(&cfg.skey, &cfg.skey, &[], sid, pid, &body, &[]);
                    dec_refuse(w, kname, "server", &cfg.skey, "-", &cfg.users, now, &p);
                    let p = cr.packet(&cfg.skey, &cfg.ckey, &UCraft::eih(&cfg.skey, &cfg.ckey, &sidpid), sid, pid, &body, &[]);
                    dec_refuse(w, kname, "server", &cfg.skey, "-", "none", now, &p);
                    // a server packet for user 2 read by user 3
                    let ps = cr.packet(&cfg.ckey, &cfg.ckey, &[], sid, pid, &UCraft::body(1, now as u64, Some(7), 0, &[], &good_tail), &[]);
                    dec_refuse(w, kname, "client", &u3, "-", "none", now, &ps);
                    dec_case(w, kname, "client", &cfg.ckey, "-", "none", now, &ps);
                }
            } else if ci == 0 {
                // legacy crafted plaintexts
                for l in 0..=24usize {
                    let mut tail = rng.bytes(l);
                    if l > 0 {
                        tail[0] = *rng.pick(&[1u8, 3, 4, 1, 3, 4, 0, 9]);
                    }
                    let p = legacy_packet(cipher, &skey, &rng.bytes(n), &tail);
                    dec_case(w, kname, "server", &skey, "-", "none", now, &p);
                    dec_case(w, kname, "client", &skey, "-", "none", now, &p);
                }
            }
            // ---- random bytes of every length 0..=120 ----
            for l in (0..=120usize).step_by(if thorough || ci == 0 { 1 } else { 3 }) {
                dec_refuse(w, kname, "server", &cfg.skey, "-", &cfg.users, now, &rng.bytes(l));
                dec_refuse(w, kname, "client", &cfg.ckey, "-", "none", now, &rng.bytes(l));
            }
        }
        // ---- a context key of the wrong length (2022 AES kinds: an error return, never a panic) ----
        if aes22 {
            for klen in [0usize, 1, 15, 16, 17, 31, 32, 33, 64] {
                let k = rng.bytes(klen);
                for l in [0usize, 42, 43, 51, 80] {
                    dec_refuse(w, kname, "server", &k, "-", "none", now, &rng.bytes(l));
                    dec_refuse(w, kname, "server", &k, "-", &table, now, &rng.bytes(l + 16));
                    dec_refuse(w, kname, "client", &k, "-", "none", now, &rng.bytes(l));
                }
            }
        }
        // ---- session level: the client's DatagramPacketCodec ----
        let cr = UCraft { kname, cipher };
        let mk = |rng: &mut Rng, ssid: u64, pid: u64, tag: u8| -> Vec<u8> {
            if is22 {
                let tail = [&[1u8, 10, 0, 0, tag, 0, 53][..], &[tag, tag][..]].concat();
                cr.packet(&skey, &skey, &[], ssid, pid, &UCraft::body(1, now as u64, Some(9), 0, &[], &tail), &rng.bytes(24))
            } else {
                legacy_packet(cipher, &skey, &rng.bytes(n), &[&[1u8, 10, 0, 0, tag, 0, 53][..], &[tag, tag][..]].concat())
            }
        };
        const W: u64 = 8128;
        let scripts: Vec<Vec<u64>> = vec![
            vec![1, 2, 2, 3, 1, 4],                                  // duplicates
            vec![0, 0, 1],                                           // id 0
            vec![10000, 10000 - W, 10000 - W - 1, 9999, 10001],      // stale ones around the window edge
            vec![5, 5 + 8192 * 3, 5, 6 + 8192 * 3, 5 + 8192 * 3],    // jumps
            vec![u64::MAX - 1, u64::MAX, u64::MAX - 1, u64::MAX - 2], // the limit
            vec![1 << 40, 1, (1 << 40) - 8128, (1 << 40) - 8129, (1 << 40) + 1],
        ];
        let nrand = if thorough { 40 } else { 8 };
        let mut all = scripts.clone();
        for _ in 0..nrand {
            let mut base = *rng.pick(&[0u64, 1 << 20, u64::MAX - 40000]);
            let len = rng.range(3, 25) as usize;
            let mut ids = Vec::new();
            for _ in 0..len {
                match rng.below(6) {
                    0 | 1 => {
                        base = base.saturating_add(rng.range(1, 3));
                        ids.push(base)
                    }
                    2 => {
                        if let Some(&d) = ids.get(rng.below(ids.len().max(1) as u64) as usize) {
                            ids.push(d)
                        } else {
                            ids.push(base)
                        }
                    }
                    3 => {
                        base = base.saturating_add(*rng.pick(&[63u64, 64, W - 1, W, W + 1, 8192, 20000]));
                        ids.push(base)
                    }
                    4 => ids.push(base.saturating_sub(*rng.pick(&[W - 1, W, W + 1, 8192]))),
                    _ => ids.push(base.saturating_sub(rng.below(W + 100))),
                }
            }
            all.push(ids);
        }
        for (i, ids) in all.iter().enumerate() {
            for rp in ["1", "0"] {
                if rp == "0" && i >= scripts.len() {
                    continue;
                }
                // only the 2022 edition is replay-protected (the constructors never pair a legacy kind with it): a legacy datagram
                // carries no session id, so the client-session check of a replay-protected codec would drop every one of them
                if rp == "1" && !is22 {
                    continue;
                }
                let ssid = rng.next();
                let mut ops: Vec<String> = Vec::new();
                for (j, &id) in ids.iter().enumerate() {
                    // replay-protected scripts address the datagram to the session's OWN client session id (op R); the others present
                    // an independently crafted datagram (client session id 9, random nonce)
                    if rp == "1" {
                        ops.push(format!("R{:x},{:x},{:02x},0", ssid, id, j as u8));
                    } else {
                        ops.push(format!("D{}", hex(&mk(&mut rng, ssid, id, j as u8))));
                    }
                    if j == 1 {
                        ops.push("E4:7f000001:80,aabb".into());
                        ops.push("D-".into());
                        ops.push(format!("D{}", hex(&rng.bytes(70)))); // garbage: an error, the codec lives on
                    }
                }
                ops.push("ED:6578616d706c652e636f6d:443,01".into());
                ops.push("E4:7f000001:80,-".into());
                let a: Vec<String> = vec!["ssudp".into(), "dg".into(), kname.into(), hex(&skey), "-".into(), rp.into(), now.to_string(), ops.join(";")];
                crate::emit_case(w, &a, exec);
            }
        }
        // chains of identity keys on the client (iPSK0:iPSK1:...:uPSK): bytes compared with the model of the specification
        if kname == "22a128" || kname == "22a256" {
            for levels in [2usize, 3] {
                let iks = (0..levels).map(|_| hex(&rng.bytes(n))).collect::<Vec<_>>().join(",");
                let e: Vec<String> = vec!["ssudp".into(), "enc".into(), kname.into(), "client".into(), hex(&rng.bytes(n)), iks, "-".into(), now.to_string(), format!("{:x}", rng.next()), "0".into(), "7".into(), "4:7f000001:53".into(), hex(&rng.bytes(33))];
                crate::emit_case(w, &e, exec);
            }
        }
        // replies of several server sessions on one client session (a restarted server, an association that expired after 300 s idle,
        // late packets of the old one): the client keeps ONE WINDOW PER SERVER SESSION, the 4 newest (FIFO by first appearance).
        // Every R op carries the verdict of an independent set-based reference (`WinRef`): `=i` delivered / `=n` dropped.
        if is22 {
            let emit_seq = |w: &mut dyn Write, seq: &[(u64, u64)], extra: bool| {
                let mut wr = WinRef::default();
                let mut ops: Vec<String> = Vec::new();
                for (j, &(ss, id)) in seq.iter().enumerate() {
                    ops.push(format!("R{:x},{:x},{:02x},0,{}", ss, id, j as u8, if wr.accept(ss, id) { "=i" } else { "=n" }));
                    if extra && j == 2 {
                        ops.push("E4:7f000001:80,aabb".into());
                        ops.push("D-".into());
                    }
                }
                let a: Vec<String> = vec!["ssudp".into(), "dg".into(), kname.into(), hex(&skey), "-".into(), "1".into(), now.to_string(), ops.join(";")];
                crate::emit_case(w, &a, exec);
            };
            let s: Vec<u64> = (0..8).map(|_| rng.next()).collect();
            let fixed: Vec<Vec<(u64, u64)>> = vec![
                // two sessions interleaved, duplicates in each
                vec![(s[0], 5), (s[1], 1), (s[0], 5), (s[0], 6), (s[1], 1), (s[1], 7), (s[0], 6)],
                vec![(s[0], 100), (s[0], 101), (s[1], 1), (s[0], 100), (s[1], 2), (s[0], 101), (s[1], 1)],
                // ids 1..5 of a session, then the server starts a new session and numbers from 1 again; late packets of the old session
                // after the new one started are judged by the OLD session's window
                vec![(s[0], 1), (s[0], 2), (s[0], 3), (s[0], 4), (s[0], 5), (s[1], 1), (s[1], 2), (s[0], 5), (s[0], 6), (s[1], 1), (s[0], 3), (s[0], 7), (s[1], 3)],
                vec![(s[0], 1), (s[0], 2), (s[0], 4), (s[0], 5), (s[1], 1), (s[0], 3), (s[1], 1), (s[0], 3), (s[1], 5), (s[0], 8), (s[1], 4)],
                // window edges of two sessions, interleaved
                vec![(s[0], 10000), (s[1], 1), (s[0], 10000 - W), (s[0], 10000 - W - 1), (s[1], W + 2), (s[1], 1), (s[1], 2), (s[0], 9999), (s[1], 3)],
                // four sessions: all held
                vec![(s[0], 1), (s[1], 1), (s[2], 1), (s[3], 1), (s[0], 1), (s[1], 1), (s[2], 1), (s[3], 1), (s[0], 2), (s[3], 2)],
                // five sessions: the fifth displaces the first, whose id is then accepted again (and displaces the second) ...
                vec![(s[0], 1), (s[1], 1), (s[2], 1), (s[3], 1), (s[0], 1), (s[4], 1), (s[0], 1), (s[1], 1), (s[3], 1), (s[4], 1), (s[2], 1), (s[0], 1)],
                // six sessions, two ids each, then replays in first-seen order and in reverse
                vec![(s[0], 1), (s[0], 2), (s[1], 1), (s[1], 2), (s[2], 1), (s[2], 2), (s[3], 1), (s[3], 2), (s[4], 1), (s[4], 2), (s[5], 1), (s[5], 2),
                     (s[2], 1), (s[3], 2), (s[4], 1), (s[5], 2), (s[0], 1), (s[1], 2), (s[5], 1), (s[4], 2), (s[3], 1), (s[2], 2)],
                // a session that is seen again while held keeps its place in the queue (first appearance counts, not last use)
                vec![(s[0], 1), (s[1], 1), (s[2], 1), (s[3], 1), (s[0], 2), (s[0], 3), (s[4], 1), (s[0], 2), (s[1], 1)],
                // a refused first packet (id u64::MAX) still opens a window and displaces the oldest
                vec![(s[0], 1), (s[1], 1), (s[2], 1), (s[3], 1), (s[4], u64::MAX), (s[0], 1), (s[4], 1), (s[4], u64::MAX - 1), (s[1], 1)],
                // server session id 0 and u64::MAX are ids like any other
                vec![(0, 1), (u64::MAX, 1), (0, 1), (u64::MAX, 1), (0, 2), (1, 1), (2, 1), (3, 1), (0, 1), (u64::MAX, 1)],
            ];
            for (k, seq) in fixed.iter().enumerate() {
                emit_seq(w, seq, k % 2 == 0);
            }
            for k in 0..(if thorough { 40 } else { 10 }) {
                let nsess = 2 + (k % 6) as u64; // 2..=7 server sessions
                let len = rng.range(14, if thorough { 60 } else { 36 }) as usize;
                let mut seen: u64 = 1; // sessions appear gradually: a new one with probability 1/4
                let seq: Vec<(u64, u64)> = (0..len)
                    .map(|_| {
                        if seen < nsess && rng.below(4) == 0 {
                            seen += 1;
                        }
                        let which = if rng.below(3) == 0 { seen - 1 } else { rng.below(seen) };
                        (s[which as usize], 1 + rng.below(6))
                    })
                    .collect();
                emit_seq(w, &seq, k % 3 == 0);
            }
        }
        // the end of the packet id space: the last ids are used once each, then the session refuses to send (no wrap-around to ids already used)
        for start in [u64::MAX - 3, u64::MAX - 1, u64::MAX] {
            let mut ops: Vec<String> = vec!["E4:7f000001:80,aa".into(), format!("P{:x}", start)];
            for _ in 0..6 {
                ops.push("E4:7f000001:80,bbcc".into());
            }
            let a: Vec<String> = vec!["ssudp".into(), "dg".into(), kname.into(), hex(&skey), "-".into(), "1".into(), now.to_string(), ops.join(";")];
            crate::emit_case(w, &a, exec);
        }
    }
    // dimensions added by the audit of seeded/audit/aud-sst.md (own Rng stream)
    crate::aud_ssudp::generate(w, seed, thorough);
}
