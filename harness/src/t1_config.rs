//! T1 for C16: configuration names through the REAL serde types and the real key-derivation functions.
//!
//! cfgcipher \t name_hex                     serde_json::from_str::<CipherKind>(json string)     -> OK <Variant> | ERR
//! cfgproto  \t name_hex                     ... ::<Protocol>
//! cfgmode   \t name_hex                     ... ::<config::Mode>  + enable_tcp/udp/quic          -> OK <Variant> tcp=b udp=b quic=b | ERR
//! cfgkind   \t Variant                      is_aead_2022, support_eih, tag_size(), CipherMethod::new -> 2022=b eih=b tag=16|PANIC algo=id|PANIC
//! cfgobj    \t side \t cipher_hex|ABSENT \t protocol_hex \t mode_hex|ABSENT \t ssl \t ws \t quic
//!                                           whole ServerConfig<SslConfig> JSON object (side = client | server SslConfig)
//!                                           -> OK <Cipher> <Protocol> <Mode> ssl=b ws=b quic=b | ERR
//! cfgkdf    \t N \t password_hex            aead::openssl_bytes_to_key::<N>                      -> OK key_hex | PANIC
//! cfgb64    \t text_hex                     base64ct::Base64::decode_vec                         -> OK hex | ERR
//! cfgkeys   \t N \t password_hex            aead_2022::config_password_to_keys::<N>              -> OK key ik,ik.. | ERR
//! cfguser   \t N \t password_hex            ServerUser::<N>::try_from(&User)                     -> OK key | ERR
//! cfgpath   \t side \t net \t Variant \t password_hex
//!                                           client tcp: ClientContext::<N>::try_from, client udp: udp::Client::<N>::new_static,
//!                                           server tcp: ServerContext::<N>::init (N by the kind, as the callers' `match cipher` does)
//!                                           -> N=<n> OK | N=<n> ERR | N=- NOKEY
//! cfgvmess  \t net \t Variant                 vmess client codec constructor of one flow (tcp: tcp::new_codec, udp: udp::new_codec)
//!                                           with that configured kind -> OK | ERR (cipher refused)
//! cfgvmid   \t password_hex              protocol::vmess::id::from_password (the VMess credential: a UUID in text form) -> OK cmdkey_hex | ERR
//! cfgfield  \t side \t field \t key_hex     the full documented ServerConfig object with ONE key spelled as given (field = host | port |
//!                                           password | protocol | cipher | mode | ssl | ws | quic | user | ssl.certificateFile | ssl.keyFile |
//!                                           ssl.serverName | quic.certificateFile | ws.path | ws.header)
//!                                           -> OK <Cipher> <Protocol> <Mode> ssl=b ws=b quic=b user=n | ERR
//! cfgraw    \t side \t field \t shape       the same object with the VALUE of one top-level field replaced by a JSON value of the given
//!                                           shape (see shape_json: null | true | num | float | arr | obj | str:<hex> | tag:<hex> | tagv:<hex> |
//!                                           arrs:<hex> | int:<text> | sec:<key>=<t>,.. | usr:<n>:<t>:<t>) -> as cfgfield
use std::io::Write;
use std::sync::Arc;

use base64ct::{Base64, Encoding};
use octo_squirrel::codec::aead::{CipherKind, CipherMethod};
use octo_squirrel::config::{Mode, ServerConfig, User};
use octo_squirrel::manager::shadowsocks::{ServerUser, ServerUserManager};
use octo_squirrel::protocol::Protocol;
use octo_squirrel::protocol::shadowsocks::{aead, aead_2022};
use octo_squirrel_client::client::verif_hooks as ch;
use octo_squirrel_server::server::verif_hooks as sh;

use crate::rng::Rng;
use crate::util::{catch, hex, unhex};

fn b(x: bool) -> char {
    if x { '1' } else { '0' }
}

fn text(h: &str) -> String {
    String::from_utf8(unhex(h)).expect("utf8 argument")
}

fn json_str(s: &str) -> String {
    serde_json::to_string(s).unwrap()
}

const KINDS: [(&str, CipherKind); 8] = [
    ("Aes128Gcm", CipherKind::Aes128Gcm),
    ("Aes256Gcm", CipherKind::Aes256Gcm),
    ("ChaCha20Poly1305", CipherKind::ChaCha20Poly1305),
    ("Aead2022Blake3Aes128Gcm", CipherKind::Aead2022Blake3Aes128Gcm),
    ("Aead2022Blake3Aes256Gcm", CipherKind::Aead2022Blake3Aes256Gcm),
    ("Aead2022Blake3ChaCha8Poly1305", CipherKind::Aead2022Blake3ChaCha8Poly1305),
    ("Aead2022Blake3ChaCha20Poly1305", CipherKind::Aead2022Blake3ChaCha20Poly1305),
    ("Unknown", CipherKind::Unknown),
];

fn kind_of(v: &str) -> CipherKind {
    KINDS.iter().find(|(n, _)| *n == v).map(|(_, k)| *k).expect("variant name")
}

/// instantiate a const-generic call at the run-time value `$n`
macro_rules! with_n {
    ($n:expr, $N:ident, $body:expr) => {
        match $n {
            0 => { const $N: usize = 0; $body }
            1 => { const $N: usize = 1; $body }
            8 => { const $N: usize = 8; $body }
            15 => { const $N: usize = 15; $body }
            16 => { const $N: usize = 16; $body }
            17 => { const $N: usize = 17; $body }
            20 => { const $N: usize = 20; $body }
            24 => { const $N: usize = 24; $body }
            31 => { const $N: usize = 31; $body }
            32 => { const $N: usize = 32; $body }
            33 => { const $N: usize = 33; $body }
            48 => { const $N: usize = 48; $body }
            64 => { const $N: usize = 64; $body }
            _ => panic!("harness: unsupported N"),
        }
    };
}
const KDF_NS: [usize; 13] = [0, 1, 8, 15, 16, 17, 20, 24, 31, 32, 33, 48, 64];

fn object_json(side: &str, cipher: Option<&str>, protocol: &str, mode: Option<&str>, ssl: bool, ws: bool, quic: bool, password: &str) -> String {
    let mut fields = vec![
        "\"host\": \"127.0.0.1\"".to_string(),
        "\"port\": 1".to_string(),
        format!("\"password\": {}", json_str(password)),
        format!("\"protocol\": {}", json_str(protocol)),
    ];
    if let Some(c) = cipher {
        fields.push(format!("\"cipher\": {}", json_str(c)));
    }
    if let Some(m) = mode {
        fields.push(format!("\"mode\": {}", json_str(m)));
    }
    // the section bodies are those of the README examples
    let section = if side == "server" {
        "{\"certificateFile\": \"/path/to/certificate.crt\", \"keyFile\": \"/path/to/key.crt\", \"serverName\": \"\"}"
    } else {
        "{\"certificateFile\": \"/path/to/certificate.crt\", \"serverName\": \"\"}"
    };
    if ssl {
        fields.push(format!("\"ssl\": {}", section));
    }
    if ws {
        fields.push(if side == "server" { "\"ws\": {\"path\": \"/ws\"}".to_string() } else { "\"ws\": {\"header\": {\"Host\": \"example.com\"}, \"path\": \"/ws\"}".to_string() });
    }
    if quic {
        fields.push(format!("\"quic\": {}", section));
    }
    format!("{{{}}}", fields.join(", "))
}

fn show_object<S: Clone + Default>(c: &ServerConfig<S>) -> String {
    format!("OK {:?} {:?} {:?} ssl={} ws={} quic={}", c.cipher, c.protocol, c.mode, b(c.ssl.is_some()), b(c.ws.is_some()), b(c.quic.is_some()))
}

/// the `match cipher { .. => <16>, .. => <32>, Unknown => .. }` of the three callers (identical arms; tie A checks the arms)
fn dispatch(kind: CipherKind) -> Option<usize> {
    match kind {
        CipherKind::Aes128Gcm | CipherKind::Aead2022Blake3Aes128Gcm => Some(16),
        CipherKind::Aes256Gcm
        | CipherKind::Aead2022Blake3Aes256Gcm
        | CipherKind::ChaCha20Poly1305
        | CipherKind::Aead2022Blake3ChaCha8Poly1305
        | CipherKind::Aead2022Blake3ChaCha20Poly1305 => Some(32),
        CipherKind::Unknown => None,
    }
}

pub fn exec(f: &[&str]) -> Vec<String> {
    let r = catch(|| match f[0] {
        "cfgcipher" => match serde_json::from_str::<CipherKind>(&json_str(&text(f[1]))) {
            Ok(k) => format!("OK {:?}", k),
            Err(_) => "ERR".into(),
        },
        "cfgproto" => match serde_json::from_str::<Protocol>(&json_str(&text(f[1]))) {
            Ok(p) => format!("OK {:?}", p),
            Err(_) => "ERR".into(),
        },
        "cfgmode" => match serde_json::from_str::<Mode>(&json_str(&text(f[1]))) {
            Ok(m) => format!("OK {:?} tcp={} udp={} quic={}", m, b(m.enable_tcp()), b(m.enable_udp()), b(m.enable_quic())),
            Err(_) => "ERR".into(),
        },
        "cfgkind" => {
            let k = kind_of(f[1]);
            let tag = catch(|| k.tag_size()).map(|t| t.to_string()).unwrap_or_else(|_| "PANIC".into());
            let algo = catch(|| match CipherMethod::new(k, &[0u8; 32]) {
                CipherMethod::Aes128Gcm(_) => 0,
                CipherMethod::Aes256Gcm(_) => 1,
                CipherMethod::ChaCha20Poly1305(_) => 2,
                CipherMethod::ChaCha8Poly1305(_) => 3,
                CipherMethod::XChaCha20Poly1305(_) => 4,
                CipherMethod::XChaCha8Poly1305(_) => 5,
            })
            .map(|a| a.to_string())
            .unwrap_or_else(|_| "PANIC".into());
            format!("2022={} eih={} tag={} algo={}", b(k.is_aead_2022()), b(k.support_eih()), tag, algo)
        }
        "cfgobj" => {
            let cipher = if f[2] == "ABSENT" { None } else { Some(text(f[2])) };
            let mode = if f[4] == "ABSENT" { None } else { Some(text(f[4])) };
            let json = object_json(f[1], cipher.as_deref(), &text(f[3]), mode.as_deref(), f[5] == "1", f[6] == "1", f[7] == "1", "pw");
            if f[1] == "server" {
                serde_json::from_str::<ServerConfig<sh::SslConfig>>(&json).map(|c| show_object(&c)).unwrap_or_else(|_| "ERR".into())
            } else {
                serde_json::from_str::<ServerConfig<ch::SslConfig>>(&json).map(|c| show_object(&c)).unwrap_or_else(|_| "ERR".into())
            }
        }
        "cfgkdf" => {
            let n: usize = f[1].parse().unwrap();
            let pw = unhex(f[2]);
            with_n!(n, N, format!("OK {}", hex(&aead::openssl_bytes_to_key::<N>(&pw))))
        }
        "cfgb64" => match Base64::decode_vec(&text(f[1])) {
            Ok(v) => format!("OK {}", hex(&v)),
            Err(_) => "ERR".into(),
        },
        "cfgkeys" => {
            let n: usize = f[1].parse().unwrap();
            let pw = text(f[2]);
            with_n!(n, N, match aead_2022::config_password_to_keys::<N>(&pw) {
                Ok((k, ik)) => format!("OK {} {}", hex(&k), if ik.is_empty() { "-".to_string() } else { ik.iter().map(|x| hex(x)).collect::<Vec<_>>().join(",") }),
                Err(_) => "ERR".into(),
            })
        }
        "cfguser" => {
            let n: usize = f[1].parse().unwrap();
            let user = User { name: "u".into(), password: text(f[2]) };
            with_n!(n, N, match ServerUser::<N>::try_from(&user) {
                Ok(u) => format!("OK {}", hex(&u.key)),
                Err(_) => "ERR".into(),
            })
        }
        "cfgpath" => {
            let kind = kind_of(f[3]);
            let pw = text(f[4]);
            let display = kind.to_string();
            // `cipher` goes through serde by its documented name; the default variant by leaving the field out
            let cipher = if kind == CipherKind::Unknown { None } else { Some(display.as_str()) };
            let json = object_json(f[1], cipher, "shadowsocks", None, false, false, false, &pw);
            match dispatch(kind) {
                None => "N=- NOKEY".to_string(),
                Some(n) => {
                    let ok = match (f[1], f[2]) {
                        ("client", "tcp") => {
                            let c: ServerConfig<ch::SslConfig> = serde_json::from_str(&json).unwrap();
                            with_n!(n, N, ch::shadowsocks::ClientContext::<N>::try_from(&c).is_ok())
                        }
                        ("client", "udp") => {
                            let c: ServerConfig<ch::SslConfig> = serde_json::from_str(&json).unwrap();
                            with_n!(n, N, ch::shadowsocks::UdpClient::<N>::new_static(c).is_ok())
                        }
                        ("server", "tcp") => {
                            let c: ServerConfig<sh::SslConfig> = serde_json::from_str(&json).unwrap();
                            with_n!(n, N, sh::shadowsocks::ServerContext::<N>::init(&c, Arc::new(ServerUserManager::<N>::new())).is_ok())
                        }
                        _ => panic!("harness: path not callable"),
                    };
                    format!("N={} {}", n, if ok { "OK" } else { "ERR" })
                }
            }
        }
        "cfgvmess" => {
            let kind = kind_of(f[2]);
            let uuid = "b831381d-6324-4d53-ad4f-8cda48b30811";
            let addr = crate::canon::parse_addr("4:7f000001:80");
            let ok = if f[1] == "tcp" {
                ch::vmess::new_tcp_codec(&addr, (kind, uuid.to_string())).is_ok()
            } else {
                let display = kind.to_string();
                let cipher = if kind == CipherKind::Unknown { None } else { Some(display.as_str()) };
                let c: ServerConfig<ch::SslConfig> = serde_json::from_str(&object_json("client", cipher, "vmess", None, false, false, false, uuid)).unwrap();
                ch::vmess::new_udp_codec(&addr, &c).is_ok()
            };
            if ok { "OK".to_string() } else { "ERR".to_string() }
        }
        "cfgvmid" => match octo_squirrel::protocol::vmess::id::from_password(&text(f[1])) {
            Ok(k) => format!("OK {}", hex(&k)),
            Err(_) => "ERR".into(),
        },
        "cfgfield" | "cfgraw" => {
            let json = if f[0] == "cfgfield" { full_object_json(f[1], true, f[2], &text(f[3])) } else { full_object_json(f[1], false, f[2], &shape_json(f[3])) };
            fn show<S: Clone + Default>(c: &ServerConfig<S>) -> String {
                format!("{} user={}", show_object(c), c.user.len())
            }
            if f[1] == "server" {
                serde_json::from_str::<ServerConfig<sh::SslConfig>>(&json).map(|c| show(&c)).unwrap_or_else(|_| "ERR".into())
            } else {
                serde_json::from_str::<ServerConfig<ch::SslConfig>>(&json).map(|c| show(&c)).unwrap_or_else(|_| "ERR".into())
            }
        }
        _ => "UNKNOWN".into(),
    });
    vec![r.unwrap_or_else(|_| "PANIC".into())]
}

/// JSON text of a value shape.  t = s string | n null | i number | o {} | a [] | m {"A": 1} | h {"A": "b"} | - absent
fn shape_json(code: &str) -> String {
    let ty = |t: &str| match t {
        "s" => "\"x\"".to_string(),
        "n" => "null".into(),
        "i" => "1".into(),
        "o" => "{}".into(),
        "a" => "[]".into(),
        "m" => "{\"A\": 1}".into(),
        "h" => "{\"A\": \"b\"}".into(),
        _ => panic!("harness: value type"),
    };
    let (head, arg) = code.split_once(':').unwrap_or((code, ""));
    match head {
        "null" => "null".into(),
        "true" => "true".into(),
        "num" => "0".into(),
        "float" => "1.5".into(),
        "arr" => "[]".into(),
        "obj" => "{}".into(),
        "str" => json_str(&text(arg)),
        "tag" => format!("{{{}: null}}", json_str(&text(arg))),
        "tagv" => format!("{{{}: {{}}}}", json_str(&text(arg))),
        "arrs" => format!("[{}]", json_str(&text(arg))),
        "int" => arg.to_string(),
        "sec" => {
            let fs: Vec<String> = arg.split(',').filter(|x| !x.is_empty()).map(|kv| {
                let (k, t) = kv.split_once('=').expect("sec key=type");
                format!("{}: {}", json_str(k), ty(t))
            }).collect();
            format!("{{{}}}", fs.join(", "))
        }
        "usr" => {
            let p: Vec<&str> = arg.split(':').collect();
            let n: usize = p[0].parse().unwrap();
            let mut fs = Vec::new();
            if p[1] != "-" {
                fs.push(format!("\"name\": {}", ty(p[1])));
            }
            if p[2] != "-" {
                fs.push(format!("\"password\": {}", ty(p[2])));
            }
            format!("[{}]", vec![format!("{{{}}}", fs.join(", ")); n].join(", "))
        }
        _ => panic!("harness: shape code"),
    }
}

/// the documented object with every optional field and section present; `field` names the key (rename = true) or the value
/// (rename = false) that is replaced by `with` (a key is JSON-quoted here, a value is inserted as the JSON text it is)
fn full_object_json(side: &str, rename: bool, field: &str, with: &str) -> String {
    let k = |name: &str| if rename && field == name { json_str(with) } else { json_str(name.rsplit('.').next().unwrap()) };
    let v = |name: &str, doc: String| if !rename && field == name { with.to_string() } else { doc };
    let sect = |pre: &str| {
        let mut fs = vec![format!("{}: \"/path/to/certificate.crt\"", k(&format!("{}.certificateFile", pre)))];
        if side == "server" || pre == "quic" {
            fs.push(format!("{}: \"/path/to/key.crt\"", k(&format!("{}.keyFile", pre))));
        }
        fs.push(format!("{}: \"\"", k(&format!("{}.serverName", pre))));
        format!("{{{}}}", fs.join(", "))
    };
    let ws = format!("{{{}: {{\"Host\": \"example.com\"}}, {}: \"/ws\"}}", k("ws.header"), k("ws.path"));
    let fields = vec![
        format!("{}: {}", k("host"), v("host", "\"127.0.0.1\"".into())),
        format!("{}: {}", k("port"), v("port", "1".into())),
        format!("{}: {}", k("password"), v("password", "\"pw\"".into())),
        format!("{}: {}", k("protocol"), v("protocol", "\"vmess\"".into())),
        format!("{}: {}", k("cipher"), v("cipher", "\"aes-128-gcm\"".into())),
        format!("{}: {}", k("mode"), v("mode", "\"tcp_and_udp\"".into())),
        format!("{}: {}", k("ssl"), v("ssl", sect("ssl"))),
        format!("{}: {}", k("ws"), v("ws", ws)),
        format!("{}: {}", k("quic"), v("quic", sect("quic"))),
        format!("{}: {}", k("user"), v("user", "[{\"name\": \"u\", \"password\": \"p\"}]".into())),
    ];
    format!("{{{}}}", fields.join(", "))
}

// ------------------------------------------------------------------------------------------------
/// near misses of one name
fn mutations(name: &str, rng: &mut Rng, thorough: bool) -> Vec<String> {
    let cs: Vec<char> = name.chars().collect();
    let mut out: Vec<String> = Vec::new();
    let from = |v: &[char]| v.iter().collect::<String>();
    out.push(name.to_uppercase());
    out.push(name.to_lowercase());
    if let Some(c0) = cs.first() {
        out.push(format!("{}{}", c0.to_uppercase(), from(&cs[1..])));
    }
    for ws in [" ", "\t", "\n", "\r\n", "\u{a0}", "\u{0}", "\u{feff}", "\u{200b}"] {
        out.push(format!("{}{}", name, ws));
        out.push(format!("{}{}", ws, name));
    }
    out.push(format!("{}{}", name, name));
    out.push(format!("\"{}\"", name));
    out.push(name.replace('-', "_"));
    out.push(name.replace('_', "-"));
    out.push(name.replace('-', ""));
    out.push(name.replace('_', ""));
    out.push(name.replace('-', "\u{2010}"));
    out.push(name.replace('a', "\u{430}")); // Cyrillic a
    out.push(name.replace('c', "\u{441}")); // Cyrillic es
    out.push(name.replace('o', "0"));
    out.push(name.replace('0', "o"));
    out.push(name.replace('1', "l"));
    out.push(name.chars().map(|c| if c.is_ascii_graphic() { char::from_u32(c as u32 + 0xfee0).unwrap() } else { c }).collect()); // full width
    out.push(name.chars().rev().collect());
    for i in 0..cs.len() {
        out.push(from(&cs[..i])); // proper prefixes (incl. the empty string)
        out.push(from(&cs[i + 1..])); // proper suffixes
        let mut d = cs.clone();
        d.remove(i);
        out.push(from(&d));
        let mut dup = cs.clone();
        dup.insert(i, cs[i]);
        out.push(from(&dup));
        let mut sw = cs.clone();
        sw[i] = if cs[i].is_ascii_lowercase() { cs[i].to_ascii_uppercase() } else { cs[i].to_ascii_lowercase() };
        out.push(from(&sw));
        if i + 1 < cs.len() {
            let mut t = cs.clone();
            t.swap(i, i + 1);
            out.push(from(&t));
        }
    }
    let extra = if thorough { 40 } else { 8 };
    for _ in 0..extra {
        let mut m = cs.clone();
        let edits = rng.range(1, 3);
        for _ in 0..edits {
            let alphabet: Vec<char> = "abcdefghijklmnopqrstuvwxyzABCDEFGHIJKLMNOPQRSTUVWXYZ0123456789-_ .:/\\\u{e9}\u{4e2d}\u{1f600}".chars().collect();
            let c = *rng.pick(&alphabet);
            match rng.below(3) {
                0 if !m.is_empty() => {
                    let i = rng.below(m.len() as u64) as usize;
                    m[i] = c;
                }
                1 => {
                    let i = rng.below(m.len() as u64 + 1) as usize;
                    m.insert(i, c);
                }
                _ if !m.is_empty() => {
                    let i = rng.below(m.len() as u64) as usize;
                    m.remove(i);
                }
                _ => {}
            }
        }
        out.push(from(&m));
    }
    out
}

pub const DOC_CIPHERS: [&str; 8] = [
    "aes-128-gcm",
    "aes-256-gcm",
    "chacha20-poly1305",
    "chacha20-ietf-poly1305",
    "2022-blake3-aes-128-gcm",
    "2022-blake3-aes-256-gcm",
    "2022-blake3-chacha8-poly1305",
    "2022-blake3-chacha20-poly1305",
];
pub const DOC_PROTOCOLS: [&str; 3] = ["shadowsocks", "vmess", "trojan"];
pub const DOC_MODES: [&str; 5] = ["tcp", "udp", "tcp_and_udp", "quic", "tcp_and_quic"];

pub fn generate(w: &mut dyn Write, seed: u64, thorough: bool) {
    let mut rng = Rng::new(seed ^ 0xC16);
    let mut emit = |args: Vec<String>| crate::emit_case(w, &args, exec);
    let h = |s: &str| hex(s.as_bytes());

    // 1. names: every documented name, every Rust variant / Display name, and their near misses, through all three parsers
    let mut names: Vec<String> = Vec::new();
    for n in DOC_CIPHERS.iter().chain(DOC_PROTOCOLS.iter()).chain(DOC_MODES.iter()) {
        names.push(n.to_string());
    }
    let others = [
        "Unknown", "unknown", "?", "Aes128Gcm", "Aes256Gcm", "ChaCha20Poly1305", "Aead2022Blake3Aes128Gcm", "Aead2022Blake3Aes256Gcm",
        "Aead2022Blake3ChaCha8Poly1305", "Aead2022Blake3ChaCha20Poly1305", "Shadowsocks", "VMess", "Trojan", "Tcp", "Udp", "TcpAndUdp", "Quic", "TcpAndQuic",
        "tcp-and-udp", "tcp_and_udp_and_quic", "udp_and_tcp", "tcp+udp", "tcp,udp", "all", "none", "default", "null", "true", "0", "",
        "aes-192-gcm", "aes-128-cfb", "aes-256-cfb", "rc4-md5", "chacha20", "chacha20-ietf", "xchacha20-ietf-poly1305", "xchacha20-poly1305", "chacha8-poly1305",
        "2022-blake3-xchacha20-poly1305", "2022-blake3-aes-192-gcm", "blake3-aes-128-gcm", "2022-aes-128-gcm", "aead_aes_128_gcm", "AEAD_AES_128_GCM",
        "AEAD_CHACHA20_POLY1305", "plain", "auto", "zero", "socks5", "http", "https", "vless", "ss", "ws", "wss", "tls", "ssl",
    ];
    let base: Vec<String> = names.iter().cloned().chain(others.iter().map(|s| s.to_string())).collect();
    let mut all: Vec<String> = base.clone();
    for n in base.iter() {
        all.extend(mutations(n, &mut rng, thorough));
    }
    // random strings
    let nrand = if thorough { 4000 } else { 600 };
    for _ in 0..nrand {
        let len = rng.range(0, 12) as usize;
        let alphabet: Vec<char> = "abcdeghmnoprstuvy0128-_ \u{e9}".chars().collect();
        all.push((0..len).map(|_| *rng.pick(&alphabet)).collect());
    }
    let mut seen = std::collections::HashSet::new();
    for s in all.iter() {
        if !seen.insert(s.clone()) {
            continue;
        }
        emit(vec!["cfgcipher".into(), h(s)]);
        emit(vec!["cfgproto".into(), h(s)]);
        emit(vec!["cfgmode".into(), h(s)]);
    }

    // 2. kinds
    for (v, _) in KINDS.iter() {
        emit(vec!["cfgkind".into(), v.to_string()]);
    }

    // 2b. vmess client: which configured kinds a flow's codec constructor accepts
    for net in ["tcp", "udp"] {
        for (v, _) in KINDS.iter() {
            emit(vec!["cfgvmess".into(), net.into(), v.to_string()]);
        }
    }

    // 3. whole objects with / without the optional fields and sections
    let mut ciphers: Vec<String> = vec!["ABSENT".into()];
    ciphers.extend(DOC_CIPHERS.iter().map(|s| h(s)));
    ciphers.extend(["Unknown", "AES-128-GCM", "aes-128-gcm ", "", "aes-192-gcm"].iter().map(|s| h(s)));
    let mut protocols: Vec<String> = DOC_PROTOCOLS.iter().map(|s| h(s)).collect();
    protocols.extend(["VMess", "Shadowsocks", "ss", ""].iter().map(|s| h(s)));
    let mut modes: Vec<String> = vec!["ABSENT".into()];
    modes.extend(DOC_MODES.iter().map(|s| h(s)));
    modes.extend(["TCP", "tcp_and_udp_and_quic", ""].iter().map(|s| h(s)));
    for side in ["client", "server"] {
        for c in ciphers.iter() {
            for p in protocols.iter() {
                for m in modes.iter() {
                    for bits in 0..8u8 {
                        // quick tier: all section combinations for the documented names, one for the near misses
                        let documented = (c == "ABSENT" || DOC_CIPHERS.iter().any(|d| h(d) == *c)) && DOC_PROTOCOLS.iter().any(|d| h(d) == *p) && (m == "ABSENT" || DOC_MODES.iter().any(|d| h(d) == *m));
                        if !thorough && !documented && bits != 5 {
                            continue;
                        }
                        emit(vec!["cfgobj".into(), side.into(), c.clone(), p.clone(), m.clone(), b(bits & 1 != 0).to_string(), b(bits & 2 != 0).to_string(), b(bits & 4 != 0).to_string()]);
                    }
                }
            }
        }
    }

    // 4. EVP_BytesToKey: the repository's unit-test password (expected values known), and others; N beyond the two used values too
    let unit_test_pw = "Personal search-enabled assistant for programmers";
    let mut pws: Vec<Vec<u8>> = vec![
        unit_test_pw.as_bytes().to_vec(),
        Vec::new(),
        b"a".to_vec(),
        b"password".to_vec(),
        b"hunter2".to_vec(),
        "p\u{e4}ssw\u{f6}rd \u{4e2d}\u{6587}".as_bytes().to_vec(),
        b"MDEyMzQ1Njc4OWFiY2RlZg==".to_vec(),
        vec![0u8; 64],
        vec![0xff; 55],
        vec![0x80; 56],
    ];
    for _ in 0..(if thorough { 200 } else { 30 }) {
        let n = rng.range(0, 130) as usize;
        pws.push(rng.bytes(n));
    }
    for pw in pws.iter() {
        for n in KDF_NS {
            emit(vec!["cfgkdf".into(), n.to_string(), hex(pw)]);
        }
    }

    // 5. base64 keys of every length 0..=48, single and as identity-key lists; malformed base64
    let mut keys_by_len: Vec<String> = Vec::new();
    for len in 0..=48usize {
        keys_by_len.push(Base64::encode_string(&rng.bytes(len)));
    }
    let malformed: Vec<String> = {
        let k16 = keys_by_len[16].clone();
        let k32 = keys_by_len[32].clone();
        let mut v = vec![
            "=".to_string(), "==".into(), "====".into(), "A".into(), "AA".into(), "AAA".into(), "AAAA".into(), "AA==".into(), "AB==".into(), "AAA=".into(), "AAB=".into(),
            "A===".into(), "AA=A".into(), "=AAA".into(), "AA==AAAA".into(), "AAAA====".into(), " ".into(), "!!!!".into(), "\u{e9}\u{e9}".into(),
            k16.trim_end_matches('=').to_string(),
            k32.trim_end_matches('=').to_string(),
            format!("{}=", k16),
            format!("{}==", k32),
            format!(" {}", k16),
            format!("{} ", k16),
            format!("{}\n", k32),
            k16.replace('+', "-").replace('/', "_"),
            k32.replace('+', "-").replace('/', "_"),
            format!("{}{}", &k16[..8], "-_-_"),
            k16.to_lowercase(),
            format!("{}{}", k16, k16),
            k32[..k32.len() - 4].to_string(),
            unit_test_pw.to_string(),
            "password".into(),
            "hunter2".into(),
            "".into(),
        ];
        // a key whose last sextet carries non-zero unused bits
        let mut nc: Vec<char> = k16.chars().collect();
        let i = nc.len() - 3;
        nc[i] = if nc[i] == 'B' { 'C' } else { 'B' };
        v.push(nc.iter().collect());
        v
    };
    let mut texts: Vec<String> = keys_by_len.clone();
    texts.extend(malformed.iter().cloned());
    for _ in 0..(if thorough { 3000 } else { 500 }) {
        let len = *rng.pick(&[0usize, 1, 2, 3, 4, 4, 4, 5, 7, 8, 8, 8, 12, 24, 44]);
        let alphabet: Vec<char> = "ABCDEFGHIJKLMNOPQRSTUVWXYZabcdefghijklmnopqrstuvwxyz0123456789+/".chars().collect();
        let mut s: Vec<char> = (0..len).map(|_| *rng.pick(&alphabet)).collect();
        if len > 0 && rng.chance(1, 2) {
            let l = s.len();
            s[l - 1] = '=';
            if l > 1 && rng.chance(1, 2) {
                s[l - 2] = '=';
            }
        }
        if len > 0 && rng.chance(1, 10) {
            let i = rng.below(len as u64) as usize;
            s[i] = *rng.pick(&['=', '-', '_', ' ', '\n', '.', '\u{e9}']);
        }
        texts.push(s.iter().collect());
    }
    for t in texts.iter() {
        emit(vec!["cfgb64".into(), h(t)]);
    }
    let mut passwords: Vec<String> = keys_by_len.clone();
    passwords.extend(malformed.iter().cloned());
    for a in [0usize, 15, 16, 17, 31, 32, 33, 48] {
        for c in [0usize, 15, 16, 17, 31, 32, 33] {
            passwords.push(format!("{}:{}", keys_by_len[a], keys_by_len[c]));
        }
    }
    for k in [16usize, 32] {
        let key = &keys_by_len[k];
        passwords.push(format!("{}:", key));
        passwords.push(format!(":{}", key));
        passwords.push(format!("{}::{}", key, key));
        passwords.push(format!("{}:{}:{}", key, key, key));
        passwords.push(format!("{}:{}:{}", key, keys_by_len[k - 1], key));
        passwords.push(format!("{}:{}:{}", key, key, keys_by_len[k + 1]));
        passwords.push(format!("{};{}", key, key));
        passwords.push(format!("{}:{}", key, malformed[7]));
        passwords.push(format!("{}:{}", malformed[8], key));
    }
    passwords.push(":".into());
    passwords.push("::".into());
    for pw in passwords.iter() {
        for n in [16usize, 32] {
            emit(vec!["cfgkeys".into(), n.to_string(), h(pw)]);
            emit(vec!["cfguser".into(), n.to_string(), h(pw)]);
        }
    }

    // 6. the key-derivation path each caller takes, for every kind
    let path_pws: Vec<String> = vec![
        "hunter2".into(),
        unit_test_pw.into(),
        "".into(),
        keys_by_len[15].clone(),
        keys_by_len[16].clone(),
        keys_by_len[17].clone(),
        keys_by_len[31].clone(),
        keys_by_len[32].clone(),
        keys_by_len[33].clone(),
        format!("{}:{}", keys_by_len[16], keys_by_len[16]),
        format!("{}:{}", keys_by_len[32], keys_by_len[32]),
        format!("{}:{}", keys_by_len[16], keys_by_len[32]),
        keys_by_len[16].trim_end_matches('=').to_string(),
        "p\u{e4}ssw\u{f6}rd".into(),
    ];
    for (side, net) in [("client", "tcp"), ("client", "udp"), ("server", "tcp")] {
        for (v, _) in KINDS.iter() {
            for pw in path_pws.iter() {
                emit(vec!["cfgpath".into(), side.into(), net.into(), v.to_string(), h(pw)]);
            }
        }
    }

    // ------------------------------------------------------------------------------------------------
    // dimension audit (seeded/audit/aud-misc.md)
    let mut rng = Rng::new(seed ^ 0x6366_6761_7564_3031);
    // 7. the VMess credential: a UUID in text form.  Accepted spellings (hyphenated, 32 hex digits, braced, urn:uuid:, either
    //    case) and near misses of each: length, one character, hyphen positions, wrappers, white space, other digits
    let uuid = "b831381d-6324-4d53-ad4f-8cda48b30811";
    let simple = uuid.replace('-', "");
    let mut ids: Vec<String> = vec![
        uuid.into(), uuid.to_uppercase(), "B831381d-6324-4D53-aD4f-8cda48B30811".into(), simple.clone(), simple.to_uppercase(),
        format!("{{{}}}", uuid), format!("urn:uuid:{}", uuid), format!("URN:UUID:{}", uuid), format!("Urn:uuid:{}", uuid), format!("urn:uuid:{}", uuid.to_uppercase()),
        format!("{{{}}}", simple), format!("urn:uuid:{}", simple), format!("{{{}", uuid), format!("{}}}", uuid), format!("({})", uuid), format!("[{}]", uuid), format!("\"{}\"", uuid),
        format!("{{urn:uuid:{}}}", uuid), format!("urn:uuid:{{{}}}", uuid), format!("uuid:{}", uuid), format!("urn:{}", uuid),
        format!("{} ", uuid), format!(" {}", uuid), format!("{}\n", uuid), format!("{}\r\n", uuid), format!("\t{}", uuid), format!("{}\u{0}", uuid),
        uuid[..35].into(), uuid[1..].into(), format!("{}0", uuid), format!("0{}", uuid), simple[..31].into(), format!("{}0", simple), format!("{}{}", simple, simple),
        uuid.replace('-', "_"), uuid.replace('-', " "), uuid.replace('-', ":"), uuid.replace('-', "\u{2010}"), uuid.replace('-', "--"),
        "b831381d6-324-4d53-ad4f-8cda48b30811".into(), "b831381-d6324-4d53-ad4f-8cda48b30811".into(), "b831381d-63244d53-ad4f-8cda48b30811-".into(), "-b831381d-6324-4d53-ad4f8cda48b30811".into(),
        "b831381d-6324-4d53-ad4f-8cda48b3081g".into(), "g831381d-6324-4d53-ad4f-8cda48b30811".into(), "+831381d-6324-4d53-ad4f-8cda48b30811".into(), "0x31381d-6324-4d53-ad4f-8cda48b30811".into(),
        "\u{ff42}831381d-6324-4d53-ad4f-8cda48b308".into(), "\u{0668}831381d-6324-4d53-ad4f-8cda48b3081".into(),
        "00000000-0000-0000-0000-000000000000".into(), "ffffffff-ffff-ffff-ffff-ffffffffffff".into(), "FFFFFFFFFFFFFFFFFFFFFFFFFFFFFFFF".into(), "00000000000000000000000000000000".into(),
        "".into(), "-".into(), "----".into(), "{}".into(), "urn:uuid:".into(), "password".into(), "pw".into(), unit_test_pw.into(), keys_by_len[16].clone(), keys_by_len[24].clone(),
        "0123456789abcdef".into(), "0123456789abcdef0123456789abcdef0123".into(),
    ];
    let uc: Vec<char> = uuid.chars().collect();
    for i in 0..uc.len() {
        for r in ['g', '-', '0', 'F', ' '] {
            if thorough || r == 'g' || (r == '-' && i % 3 == 0) || (r == 'F' && i % 5 == 0) {
                let mut m = uc.clone();
                m[i] = r;
                ids.push(m.iter().collect());
            }
        }
        let mut d = uc.clone();
        d.remove(i);
        ids.push(d.iter().collect());
        if thorough {
            let mut d = uc.clone();
            d.insert(i, uc[i]);
            ids.push(d.iter().collect());
        }
    }
    for _ in 0..(if thorough { 3000 } else { 250 }) {
        let len = *rng.pick(&[0usize, 1, 16, 31, 32, 32, 33, 35, 36, 36, 36, 37, 38, 38, 44, 45, 45, 46]);
        let alphabet: Vec<char> = "0123456789abcdefABCDEF".chars().collect();
        let mut v: Vec<char> = (0..len).map(|_| *rng.pick(&alphabet)).collect();
        let shape = rng.below(4);
        let base = match (shape, len) { (1, 38) => 1, (2, 45) => 9, _ => 0 };
        if shape == 1 && len == 38 {
            v[0] = '{';
            v[37] = '}';
        }
        if shape == 2 && len == 45 {
            for (i, c) in "urn:uuid:".chars().enumerate() {
                v[i] = c;
            }
        }
        if len >= base + 36 && rng.chance(4, 5) {
            for h in [8usize, 13, 18, 23] {
                v[base + h] = '-';
            }
        }
        if len > 0 && rng.chance(1, 6) {
            let i = rng.below(len as u64) as usize;
            v[i] = *rng.pick(&['g', '-', ' ', '{', '}', ':', 'G', '\u{e9}']);
        }
        ids.push(v.iter().collect());
    }
    let mut seen_ids = std::collections::HashSet::new();
    for id in ids.iter() {
        if seen_ids.insert(id.clone()) {
            emit(vec!["cfgvmid".into(), h(id)]);
        }
    }

    // 8. the NAMES OF THE KEYS of the configuration object (serde field names): the documented spelling, case variants,
    //    snake / kebab spellings, the names other tools use, a name that is another key of the same object (duplicate), the empty name
    let fields: [(&str, &[&str]); 16] = [
        ("host", &["Host", "HOST", "hostname", "server", "address", "addr"]),
        ("port", &["Port", "PORT", "server_port", "serverPort"]),
        ("password", &["Password", "PASSWORD", "passwd", "pass", "key", "psk", "id", "uuid"]),
        ("protocol", &["Protocol", "PROTOCOL", "type", "proto"]),
        ("cipher", &["Cipher", "CIPHER", "method", "encryption", "security", "ciphers"]),
        ("mode", &["Mode", "MODE", "network", "modes"]),
        ("ssl", &["SSL", "Ssl", "tls", "TLS", "sslConfig", "ssl_config"]),
        ("ws", &["WS", "Ws", "websocket", "webSocket", "wss"]),
        ("quic", &["QUIC", "Quic", "http3"]),
        ("user", &["User", "USER", "users", "clients"]),
        ("ssl.certificateFile", &["certificatefile", "CertificateFile", "certificate_file", "certificate-file", "certFile", "cert", "certificate"]),
        ("ssl.keyFile", &["keyfile", "KeyFile", "key_file", "key-file", "key"]),
        ("ssl.serverName", &["servername", "ServerName", "server_name", "server-name", "sni"]),
        ("quic.certificateFile", &["certificatefile", "certificate_file"]),
        ("ws.path", &["Path", "PATH", "uri"]),
        ("ws.header", &["Header", "headers", "HEADER"]),
    ];
    for side in ["client", "server"] {
        for (field, alts) in fields.iter() {
            if side == "client" && *field == "ssl.keyFile" {
                continue; // the documented client `ssl` section has no keyFile
            }
            let doc = field.rsplit('.').next().unwrap();
            let mut spell: Vec<String> = vec![doc.to_string(), format!("{} ", doc), format!(" {}", doc), String::new(), format!("{}\u{0}", doc), format!("{}s", doc), doc[..doc.len() - 1].to_string()];
            spell.extend(alts.iter().map(|x| x.to_string()));
            // another key of the same object
            spell.extend(match *field {
                f if f.starts_with("ssl.") || f.starts_with("quic.") => vec!["certificateFile".to_string(), "keyFile".into(), "serverName".into()],
                f if f.starts_with("ws.") => vec!["path".to_string(), "header".into()],
                _ => vec!["host".to_string(), "cipher".into(), "mode".into(), "ssl".into(), "user".into()],
            });
            let mut seen_spell = std::collections::HashSet::new();
            for sp in spell {
                if seen_spell.insert(sp.clone()) {
                    emit(vec!["cfgfield".into(), side.into(), field.to_string(), h(&sp)]);
                }
            }
        }
    }

    // 9. VALUES that are not what the field expects: JSON null / booleans / numbers / arrays / objects where a name is expected,
    //    a name where a section is expected, sections with missing / null / mistyped members, user tables of 0 / 1 / 3 entries with
    //    missing / mistyped members, port numbers at and beyond the edges of u16
    let mut name_shapes: Vec<String> = ["null", "true", "num", "float", "arr", "obj"].iter().map(|x| x.to_string()).collect();
    for n in ["", "tcp", "udp", "tcp_and_quic", "aes-128-gcm", "chacha20-ietf-poly1305", "vmess", "trojan", "Unknown", "TCP", "Tcp"] {
        for k in ["str", "tag", "tagv", "arrs"] {
            name_shapes.push(format!("{}:{}", k, h(n)));
        }
    }
    let tys = ["s", "n", "i", "o", "a"];
    let mut sect_shapes: Vec<String> = ["null", "true", "num", "float", "obj"].iter().map(|x| x.to_string()).collect();
    sect_shapes.push(format!("str:{}", h("/path")));
    sect_shapes.push(format!("str:{}", h("")));
    for t in tys {
        sect_shapes.push(format!("sec:certificateFile={},keyFile=s,serverName=s", t));
        sect_shapes.push(format!("sec:certificateFile=s,keyFile={},serverName=s", t));
        sect_shapes.push(format!("sec:certificateFile=s,keyFile=s,serverName={}", t));
        sect_shapes.push(format!("sec:certificateFile={}", t));
        sect_shapes.push(format!("sec:path={}", t));
        sect_shapes.push(format!("sec:header={}", t));
        sect_shapes.push(format!("sec:path=s,header={}", t));
        sect_shapes.push(format!("sec:other={}", t));
    }
    for x in ["sec:certificateFile=s,keyFile=s", "sec:keyFile=s,serverName=s", "sec:certificateFile=s,serverName=s", "sec:header=m", "sec:header=h", "sec:header=h,path=s,certificateFile=s,keyFile=s,serverName=s",
              "sec:certificateFile=n,keyFile=n,serverName=n", "sec:path=n,header=n"] {
        sect_shapes.push(x.to_string());
    }
    let mut user_shapes: Vec<String> = ["null", "true", "num", "arr", "obj"].iter().map(|x| x.to_string()).collect();
    user_shapes.push(format!("str:{}", h("u")));
    for n in [0usize, 1, 3] {
        for tn in ["s", "n", "i", "-"] {
            for tp in ["s", "n", "o", "-"] {
                user_shapes.push(format!("usr:{}:{}:{}", n, tn, tp));
            }
        }
    }
    let port_shapes: Vec<String> = ["0", "1", "80", "65535", "65536", "65537", "99999", "4294967296", "4294967297", "18446744073709551616", "-1", "-65535", "00", "01", "+1", "0x10", " 1 ", "1 "]
        .iter().map(|x| format!("int:{}", x)).chain(["null", "true", "float", "arr", "obj"].iter().map(|x| x.to_string())).chain([format!("str:{}", h("1")), format!("str:{}", h(""))]).collect();
    let text_shapes: Vec<String> = ["null", "true", "num", "float", "arr", "obj"].iter().map(|x| x.to_string())
        .chain(["", "x", "127.0.0.1", "\u{e9}\u{0}\n\"\\"].iter().flat_map(|t| [format!("str:{}", h(t)), format!("arrs:{}", h(t)), format!("tag:{}", h(t))])).collect();
    for side in ["client", "server"] {
        for (fields, shapes) in [(&["cipher", "protocol", "mode"][..], &name_shapes), (&["ssl", "ws", "quic"][..], &sect_shapes), (&["user"][..], &user_shapes), (&["port"][..], &port_shapes), (&["host", "password"][..], &text_shapes)] {
            for f in fields {
                for v in shapes.iter() {
                    emit(vec!["cfgraw".into(), side.into(), f.to_string(), v.clone()]);
                }
            }
        }
    }

    // 10. key texts with white space inside / around (line-wrapped base64, tabs, CR LF), url-safe and unpadded spellings of
    //     EVERY key length 15..=33, chains of 3 / 4 / 12 keys, a chain with one key too short / too long / malformed in each position;
    //     and the chains through every kind's own path (a cipher without identity headers is given identity keys all the same)
    let mut key_texts: Vec<String> = Vec::new();
    for len in [15usize, 16, 17, 31, 32, 33] {
        let k = &keys_by_len[len];
        let mid = k.len() / 2;
        key_texts.push(format!("{}\n{}", &k[..mid], &k[mid..]));
        key_texts.push(format!("{}\r\n{}", &k[..mid], &k[mid..]));
        key_texts.push(format!("{} {}", &k[..mid], &k[mid..]));
        key_texts.push(format!("{}\t", k));
        key_texts.push(format!("\r\n{}", k));
        key_texts.push(format!("{}\r", k));
        key_texts.push(k.trim_end_matches('=').to_string());
        key_texts.push(k.replace('+', "-").replace('/', "_"));
        key_texts.push(k.replace('+', "-").replace('/', "_").trim_end_matches('=').to_string());
        key_texts.push(k.replace('=', "%3D"));
        key_texts.push(k.replace('=', "."));
    }
    for n in [16usize, 32] {
        let k = &keys_by_len[n];
        for count in [3usize, 4, 12] {
            key_texts.push(vec![k.clone(); count].join(":"));
            for bad_pos in 0..count.min(4) {
                for bad in [keys_by_len[n - 1].clone(), keys_by_len[n + 1].clone(), "!".to_string(), String::new(), format!("{} ", k)] {
                    let mut parts = vec![k.clone(); count];
                    parts[bad_pos] = bad;
                    key_texts.push(parts.join(":"));
                }
            }
        }
        let distinct: Vec<String> = (0..4).map(|_| Base64::encode_string(&rng.bytes(n))).collect();
        key_texts.push(distinct.join(":"));
        key_texts.push(distinct[..2].join(":"));
        key_texts.push(format!("{}: {}", distinct[0], distinct[1]));
        key_texts.push(format!("{} :{}", distinct[0], distinct[1]));
        key_texts.push(format!("{},{}", distinct[0], distinct[1]));
        key_texts.push(format!("{}|{}", distinct[0], distinct[1]));
        key_texts.push(format!("{}\n{}", distinct[0], distinct[1]));
    }
    for t in key_texts.iter() {
        emit(vec!["cfgb64".into(), h(t)]);
        for n in [16usize, 32] {
            emit(vec!["cfgkeys".into(), n.to_string(), h(t)]);
            emit(vec!["cfguser".into(), n.to_string(), h(t)]);
        }
    }
    let mut path_extra: Vec<String> = Vec::new();
    for n in [16usize, 32] {
        let k = &keys_by_len[n];
        path_extra.push(vec![k.clone(); 3].join(":"));
        path_extra.push(vec![k.clone(); 12].join(":"));
        path_extra.push(format!("{}:{}:{}", k, keys_by_len[n - 1], k));
        path_extra.push(format!("{}:", k));
        path_extra.push(format!(":{}", k));
        path_extra.push(format!("{}\n", k));
        path_extra.push(k.replace('+', "-").replace('/', "_").trim_end_matches('=').to_string());
    }
    path_extra.push(":".into());
    path_extra.push(" ".into());
    path_extra.push("\u{0}".into());
    path_extra.push("a".repeat(1000));
    for (side, net) in [("client", "tcp"), ("client", "udp"), ("server", "tcp")] {
        for (v, _) in KINDS.iter() {
            for pw in path_extra.iter() {
                emit(vec!["cfgpath".into(), side.into(), net.into(), v.to_string(), h(pw)]);
            }
        }
    }
}
