//! T1 for the client's local handshake DRIVER: `client::handshake::get_request_addr` on a REAL tokio TcpStream.
//!
//! hshake \t stream_hex \t arrivals \t local_hex \t meta
//!   stream   = everything the application sends before it half-closes its sending side
//!   arrivals = comma-separated "bytes sent so far" lengths ("-" = everything at once): the stream is written in
//!              these pieces with a pause of 25 ms (the handshake polls every 10 ms) between them
//!   local    = the local socket address in SOCKS5 encoding that the MODEL is given (ATYP 1: the listener is bound
//!              on 127.0.0.1, ATYP 4: on ::1).  The real port is chosen by the kernel; the harness checks that the
//!              address inside the real SOCKS5 reply is the accepted socket's real local address and then prints
//!              the case's `local` in its place, so that a case does not depend on the port it ran on
//!   meta     = @t=<K>,<addr>,<consumed>  the generator's own expectation for a well-formed request (direct oracle)
//!              @r   must be refused (no tunnel)      @-   no expectation
//! result (same text as modelrun's `hshake`):
//!   OK <5|H|S> <target> <hex reply> <consumed>   |   ERR <class> <hex reply>   |   PANIC
//!   kind: what was answered (05 00 .. = 5, the 200 line = S, nothing = H); consumed = stream length minus what is
//!   still readable from the accepted socket after get_request_addr returned (read up to EOF: the peer half-closed);
//!   those left-over bytes must be exactly the tail of the stream (LEFTOVER-MISMATCH otherwise).
//!
//! Time: the runtime's clock is PAUSED (tokio test-util): sleeps and the 30 s timeout of get_request_addr elapse in
//! virtual time as soon as every task is idle, the sockets are real.  After every write the driver blocks for a
//! real 300 us so that the bytes have reached the accepted socket before anything may advance the clock; an
//! outcome that is a timeout is re-run once with a 5 ms settle and the second result is reported.
use std::io::Write;
use std::net::SocketAddr;
use std::time::Duration;

use octo_squirrel::protocol::address::Address;
use octo_squirrel_client::client::verif_hooks as ch;
use tokio::io::{AsyncReadExt, AsyncWriteExt};
use tokio::net::{TcpListener, TcpStream};

use crate::canon::addr_str;
use crate::rng::Rng;
use crate::util::{hex, unhex};

const REPLY_200: &[u8] = b"HTTP/1.1 200 Connection established\r\n\r\n";

fn s5_encode_sockaddr(a: &SocketAddr) -> Vec<u8> {
    let mut v = Vec::new();
    match a {
        SocketAddr::V4(x) => {
            v.push(1);
            v.extend_from_slice(&x.ip().octets());
        }
        SocketAddr::V6(x) => {
            v.push(4);
            v.extend_from_slice(&x.ip().octets());
        }
    }
    v.extend_from_slice(&a.port().to_be_bytes());
    v
}

enum Outcome {
    Done(Result<Address, (bool, String)>, Vec<u8>, Vec<u8>), // result (Err: is_timeout, text), reply bytes, left-over bytes
    Panic,
    Harness(String),
}

async fn drive(stream: &[u8], arrivals: &[usize], v6: bool, settle: Duration) -> (Outcome, Vec<u8>) {
    let bind = if v6 { "[::1]:0" } else { "127.0.0.1:0" };
    let listener = match TcpListener::bind(bind).await {
        Ok(l) => l,
        Err(e) => return (Outcome::Harness(format!("bind {}", e)), Vec::new()),
    };
    let addr = listener.local_addr().unwrap();
    let (client, accepted) = tokio::join!(TcpStream::connect(addr), listener.accept());
    let (client, (mut server, _)) = match (client, accepted) {
        (Ok(c), Ok(s)) => (c, s),
        _ => return (Outcome::Harness("connect/accept".into()), Vec::new()),
    };
    drop(listener);
    client.set_nodelay(true).ok();
    server.set_nodelay(true).ok();
    let local_enc = s5_encode_sockaddr(&server.local_addr().unwrap());
    let hs = tokio::spawn(async move {
        let r = ch::get_request_addr(&mut server).await;
        (r, server)
    });
    // the application: pieces, then half-close; replies are collected after the handshake has ended
    let (mut crd, mut cwr) = client.into_split();
    let mut sent = 0usize;
    for &a in arrivals.iter().chain(std::iter::once(&stream.len())) {
        let a = a.min(stream.len());
        if a > sent {
            if cwr.write_all(&stream[sent..a]).await.is_err() {
                break; // the handshake has already refused and closed
            }
            sent = a;
            std::thread::sleep(settle);
            tokio::time::sleep(Duration::from_millis(25)).await;
        }
    }
    let _ = cwr.shutdown().await;
    std::thread::sleep(settle);
    let (res, mut server) = match hs.await {
        Ok(x) => x,
        Err(e) => return (if e.is_panic() { Outcome::Panic } else { Outcome::Harness("join".into()) }, local_enc),
    };
    // what the handshake left in the stream (the peer has half-closed: read up to EOF)
    let mut left = Vec::new();
    let _ = server.read_to_end(&mut left).await;
    drop(server);
    let mut reply = Vec::new();
    let _ = crd.read_to_end(&mut reply).await;
    let res = res.map_err(|e| (e.downcast_ref::<tokio::time::error::Elapsed>().is_some(), format!("{:#}", e)));
    (Outcome::Done(res, reply, left), local_enc)
}

fn render(stream: &[u8], case_local: &[u8], out: Outcome, real_local: &[u8]) -> (String, bool) {
    match out {
        Outcome::Panic => ("PANIC".into(), false),
        Outcome::Harness(m) => (format!("HARNESS {}", m.replace(['\t', '\n'], " ")), false),
        Outcome::Done(res, mut reply, left) => {
            // the address inside a SOCKS5 command reply must be the accepted socket's own; print the case's
            if reply.len() == 5 + real_local.len() && reply[0] == 5 && reply[5..] == *real_local && case_local.first() == real_local.first() {
                reply.truncate(5);
                reply.extend_from_slice(case_local);
            }
            match res {
                Ok(a) => {
                    if left.len() > stream.len() || stream[stream.len() - left.len()..] != left[..] {
                        return (format!("LEFTOVER-MISMATCH {}", hex(&left)), false);
                    }
                    let k = if reply.is_empty() {
                        "H"
                    } else if reply == REPLY_200 {
                        "S"
                    } else if reply.starts_with(&[5, 0]) {
                        "5"
                    } else {
                        "?"
                    };
                    (format!("OK {} {} {} {}", k, addr_str(&a), hex(&reply), stream.len() - left.len()), false)
                }
                Err((timeout, _)) => (format!("ERR {} {}", if timeout { "timeout" } else { "refused" }, hex(&reply)), timeout),
            }
        }
    }
}

fn rt() -> tokio::runtime::Runtime {
    tokio::runtime::Builder::new_current_thread().enable_all().start_paused(true).build().unwrap()
}

fn parse_arrivals(s: &str) -> Vec<usize> {
    if s == "-" || s.is_empty() { Vec::new() } else { s.split(',').map(|x| x.parse().expect("arrival")).collect() }
}

fn run_one(stream: &[u8], arrivals: &[usize], local: &[u8]) -> String {
    let v6 = local.first() == Some(&4);
    let (o, real) = rt().block_on(drive(stream, arrivals, v6, Duration::from_micros(300)));
    let (r, timeout) = render(stream, local, o, &real);
    if !timeout {
        return r;
    }
    let (o, real) = rt().block_on(drive(stream, arrivals, v6, Duration::from_millis(5)));
    render(stream, local, o, &real).0
}

pub fn exec(f: &[&str]) -> Vec<String> {
    vec![run_one(&unhex(f[1]), &parse_arrivals(f[2]), &unhex(f[3]))]
}

// ---------------------------------------------------------------------------------------------------------
// generators
// ---------------------------------------------------------------------------------------------------------
struct Case {
    stream: Vec<u8>,
    arrivals: Vec<usize>,
    local: Vec<u8>,
    meta: String,
}

const LOCAL4: [u8; 7] = [1, 127, 0, 0, 1, 0x04, 0x38];
fn local6() -> Vec<u8> {
    let mut v = vec![4u8];
    v.extend_from_slice(&std::net::Ipv6Addr::LOCALHOST.octets());
    v.extend_from_slice(&[0x04, 0x38]);
    v
}

/// arrival histories for a stream of n bytes; `marks` are positions worth cutting at / around
fn histories(rng: &mut Rng, n: usize, marks: &[usize], want: usize) -> Vec<Vec<usize>> {
    let mut out: Vec<Vec<usize>> = vec![Vec::new()];
    fn push(out: &mut Vec<Vec<usize>>, n: usize, h: Vec<usize>) {
        let mut h: Vec<usize> = h.into_iter().filter(|&x| x > 0 && x < n).collect();
        h.sort();
        h.dedup();
        out.push(h);
    }
    macro_rules! add {
        ($h:expr) => {{
            let h = $h;
            push(&mut out, n, h)
        }};
    }
    if n <= 96 {
        add!((1..n).collect()); // byte by byte
    } else {
        let k = 48.min(n);
        let mut h: Vec<usize> = (1..k).collect(); // the first bytes one by one, then the rest
        h.push(n - 1);
        add!(h);
    }
    add!(marks.to_vec()); // exactly at the boundaries
    for &m in marks {
        for d in [-3i64, -2, -1, 1, 2] {
            let x = m as i64 + d;
            if x > 0 && (x as usize) < n {
                add!(vec![x as usize]);
            }
        }
    }
    add!(marks.iter().flat_map(|&m| [m.saturating_sub(2), m + 1]).collect());
    while out.len() < want + 6 {
        let k = rng.range(1, 6) as usize;
        add!((0..k).map(|_| rng.range(1, n.max(2) as u64 - 1) as usize).collect());
    }
    // keep the first two (at once, byte by byte) and a seeded sample of the others
    let mut keep: Vec<Vec<usize>> = out.drain(..2.min(out.len())).collect();
    while keep.len() < want && !out.is_empty() {
        let i = rng.below(out.len() as u64) as usize;
        keep.push(out.swap_remove(i));
    }
    keep
}

fn host_name(rng: &mut Rng) -> String {
    let fixed = ["example.com", "a.b", "h", "www.example.co.uk", "xn--bcher-kva.example", "127.0.0.1", "localhost"];
    if rng.chance(1, 2) {
        rng.pick(&fixed).to_string()
    } else {
        let n = if rng.chance(1, 12) { 255 } else { rng.range(1, 40) as usize };
        let alpha = b"abcdefghijklmnopqrstuvwxyz0123456789-.";
        (0..n).map(|_| *rng.pick(alpha) as char).collect()
    }
}

fn socks_addr(rng: &mut Rng) -> (Vec<u8>, String) {
    let port = *rng.pick(&[0u16, 1, 80, 443, 8080, 65535, 0x1234]);
    match rng.below(3) {
        0 => {
            let ip = rng.bytes(4);
            let mut v = vec![1u8];
            v.extend_from_slice(&ip);
            v.extend_from_slice(&port.to_be_bytes());
            (v, format!("4:{}:{}", hex(&ip), port))
        }
        1 => {
            let ip = rng.bytes(16);
            let mut v = vec![4u8];
            v.extend_from_slice(&ip);
            v.extend_from_slice(&port.to_be_bytes());
            (v, format!("6:{}:{}", hex(&ip), port))
        }
        _ => {
            let h = host_name(rng);
            let mut v = vec![3u8, h.len() as u8];
            v.extend_from_slice(h.as_bytes());
            v.extend_from_slice(&port.to_be_bytes());
            (v, format!("D:{}:{}", hex(h.as_bytes()), port))
        }
    }
}

fn greeting(rng: &mut Rng) -> Vec<u8> {
    let n = rng.range(1, 3) as usize;
    let mut g = vec![5u8, n as u8];
    for _ in 0..n {
        g.push(*rng.pick(&[0u8, 1, 2, 255]));
    }
    g
}

fn gen_socks5(rng: &mut Rng, cases: &mut Vec<Case>, count: usize, per: usize, v6_ok: bool) {
    for _ in 0..count {
        let g = greeting(rng);
        let (a, astr) = socks_addr(rng);
        let rsv = if rng.chance(1, 4) { rng.below(256) as u8 } else { 0 };
        let mut s = g.clone();
        s.extend_from_slice(&[5, 1, rsv]);
        s.extend_from_slice(&a);
        let hs = s.len();
        let early = if rng.chance(1, 3) { 0 } else { rng.range(1, 40) as usize };
        let mut e = rng.bytes(early);
        if early > 0 && rng.chance(1, 4) {
            e[0] = 5; // looks like another SOCKS5 message
        }
        s.extend_from_slice(&e);
        let local = if v6_ok && rng.chance(1, 8) { local6() } else { LOCAL4.to_vec() };
        for h in histories(rng, s.len(), &[g.len(), hs], per) {
            cases.push(Case { stream: s.clone(), arrivals: h, local: local.clone(), meta: format!("@t=5,{},{}", astr, hs) });
        }
    }
}

fn gen_socks5_bad(rng: &mut Rng, cases: &mut Vec<Case>, thorough: bool) {
    let base_g = vec![5u8, 2, 0, 2];
    let a = vec![3u8, 3, b'a', b'.', b'b', 0, 80];
    let mut mk = |rng: &mut Rng, s: Vec<u8>, meta: &str, marks: &[usize], per: usize| {
        for h in histories(rng, s.len(), marks, per) {
            cases.push(Case { stream: s.clone(), arrivals: h, local: LOCAL4.to_vec(), meta: meta.to_string() });
        }
    };
    let per = if thorough { 4 } else { 2 };
    // BIND, UDP ASSOCIATE, unknown commands
    for cmd in [2u8, 3, 0, 4, 9, 255] {
        let mut s = base_g.clone();
        s.extend_from_slice(&[5, cmd, 0]);
        s.extend_from_slice(&a);
        s.extend_from_slice(b"early");
        mk(rng, s, "@r", &[4, 14], per);
    }
    // unknown address types, bad version in the request, bad method, empty host name
    for atyp in [0u8, 2, 5, 6, 255] {
        let mut s = base_g.clone();
        s.extend_from_slice(&[5, 1, 0, atyp, 1, 2, 3, 4, 0, 80]);
        mk(rng, s, "@r", &[4, 8], per);
    }
    for ver in [0u8, 4, 6] {
        let mut s = base_g.clone();
        s.extend_from_slice(&[ver, 1, 0]);
        s.extend_from_slice(&a);
        mk(rng, s, "@r", &[4], per);
    }
    for m in [3u8, 0x80, 254] {
        let mut s = vec![5u8, 2, 0, m];
        s.extend_from_slice(&[5, 1, 0]);
        s.extend_from_slice(&a);
        mk(rng, s, "@r", &[4], per);
    }
    {
        let mut s = base_g.clone();
        s.extend_from_slice(&[5, 1, 0, 3, 0, 0, 80]); // CONNECT to the empty host name
        mk(rng, s, "@r", &[4], per);
        mk(rng, vec![5u8, 0, 5, 1, 0, 1, 10, 0, 0, 1, 0, 80], "@t=5,4:0a000001:80,12", &[2], per); // no method offered at all: still served
    }
    // EOF at every point of a well-formed exchange
    let mut full = base_g.clone();
    full.extend_from_slice(&[5, 1, 0]);
    full.extend_from_slice(&a);
    for cut in 0..full.len() {
        if !thorough && cut % 2 == 1 && cut > 6 {
            continue;
        }
        let s = full[..cut].to_vec();
        if s.is_empty() {
            continue;
        }
        cases.push(Case { stream: s.clone(), arrivals: Vec::new(), local: LOCAL4.to_vec(), meta: "@r".into() });
        if cut > 2 {
            cases.push(Case { stream: s, arrivals: vec![1, cut - 1], local: LOCAL4.to_vec(), meta: "@r".into() });
        }
    }
    // random bytes behind the version byte
    for _ in 0..(if thorough { 150 } else { 12 }) {
        let n = rng.range(1, 40) as usize;
        let mut s = rng.bytes(n);
        s[0] = 5;
        if rng.chance(1, 2) && n > 3 {
            s[1] = rng.range(0, 3) as u8;
        }
        let h = if rng.chance(1, 2) { Vec::new() } else { vec![rng.range(1, n as u64) as usize] };
        cases.push(Case { stream: s, arrivals: h, local: LOCAL4.to_vec(), meta: "@-".into() });
    }
}

fn blank_lines(rng: &mut Rng) -> Vec<u8> {
    let mut v = Vec::new();
    for _ in 0..rng.range(0, 3) {
        if rng.chance(1, 5) {
            v.push(b'\n');
        } else {
            v.extend_from_slice(b"\r\n");
        }
    }
    v
}

fn headers(rng: &mut Rng, host: &str, big: bool) -> Vec<u8> {
    let mut v = Vec::new();
    v.extend_from_slice(format!("Host: {}\r\n", host).as_bytes());
    if rng.chance(1, 2) {
        v.extend_from_slice(b"Proxy-Connection: keep-alive\r\n");
    }
    if rng.chance(1, 3) {
        v.extend_from_slice(b"User-Agent: verif/1.0 (x; y)\r\n");
    }
    if big {
        let target = rng.range(1500, 7000) as usize;
        let mut i = 0;
        while v.len() < target {
            let n = rng.range(10, 300) as usize;
            let val: String = (0..n).map(|_| *rng.pick(b"abcdefghijklmnopqrstuvwxyz0123456789 ;=/,") as char).collect();
            v.extend_from_slice(format!("X-Pad-{}: {}\r\n", i, val).as_bytes());
            i += 1;
        }
    }
    v
}

fn payload(rng: &mut Rng) -> Vec<u8> {
    match rng.below(5) {
        0 => Vec::new(),
        1 => b"\r\n\r\n".to_vec(),                             // looks like another end of head
        2 => [&[22u8, 3, 1, 2, 0][..], &rng.bytes(40)[..]].concat(), // a TLS ClientHello starts like this
        3 => b"GET / HTTP/1.1\r\nHost: x\r\n\r\n".to_vec(),
        _ => {
            let n = rng.range(1, 64) as usize;
            rng.bytes(n)
        }
    }
}

fn gen_connect(rng: &mut Rng, cases: &mut Vec<Case>, count: usize, per: usize) {
    for i in 0..count {
        let bl = blank_lines(rng);
        let host = host_name(rng);
        let port = *rng.pick(&[1u16, 80, 443, 8443, 65535]);
        let hostport = if rng.chance(1, 6) { format!("[{}]:{}", "2001:db8::1", port) } else { format!("{}:{}", host, port) };
        let (h, _p) = hostport.rsplit_once(':').unwrap();
        let version = if rng.chance(1, 5) { "HTTP/1.0" } else { "HTTP/1.1" };
        let mut s = bl.clone();
        s.extend_from_slice(format!("CONNECT {} {}\r\n", hostport, version).as_bytes());
        let line_end = s.len();
        if bl.len() + 8 + hostport.len() + 1 > 1024 {
            continue;
        }
        s.extend_from_slice(&headers(rng, &hostport, i % 4 == 3));
        s.extend_from_slice(b"\r\n");
        let head = s.len();
        if head > 8192 {
            continue;
        }
        s.extend_from_slice(&payload(rng));
        let marks = [bl.len(), bl.len() + 8, line_end, head - 3, head - 2, head - 1, head];
        for hist in histories(rng, s.len(), &marks, per) {
            cases.push(Case { stream: s.clone(), arrivals: hist, local: LOCAL4.to_vec(), meta: format!("@t=S,D:{}:{},{}", hex(h.as_bytes()), port, head) });
        }
    }
}

fn gen_plain(rng: &mut Rng, cases: &mut Vec<Case>, count: usize, per: usize) {
    let methods = ["GET", "POST", "PUT", "HEAD", "OPTIONS", "DELETE", "PATCH"];
    let hosts = ["example.com", "www.example.com", "127.0.0.1", "[::1]", "[0:0:0:0:0:0:0:1]", "a-b.c", "h"];
    let ports = [None, Some(80u16), Some(8080), Some(1), Some(65535)];
    let paths = ["", "/", "/a/b/c", "/a:b", "/x/y.z:9/", "/a//b"];
    let queries = ["", "?", "?a=b&c=d", "?u=http://x/y", "?a/b:c?d://e"];
    for _ in 0..count {
        let bl = blank_lines(rng);
        let m = *rng.pick(&methods);
        let h = *rng.pick(&hosts);
        let p = *rng.pick(&ports);
        let scheme = *rng.pick(&["http", "http", "ws", "ftp"]);
        let uri = format!("{}://{}{}{}{}", scheme, h, p.map(|x| format!(":{}", x)).unwrap_or_default(), rng.pick(&paths), rng.pick(&queries));
        let mut s = bl.clone();
        s.extend_from_slice(format!("{} {} HTTP/1.1\r\n", m, uri).as_bytes());
        let line_end = s.len();
        let big = rng.chance(1, 6);
        s.extend_from_slice(&headers(rng, h, big));
        s.extend_from_slice(b"\r\n");
        if m == "POST" || m == "PUT" {
            s.extend_from_slice(&payload(rng));
        }
        let sp2 = bl.len() + m.len() + 1 + uri.len(); // the space that ends the URI
        let marks = [bl.len(), bl.len() + m.len(), sp2, sp2 + 1, line_end];
        for hist in histories(rng, s.len(), &marks, per) {
            cases.push(Case { stream: s.clone(), arrivals: hist, local: LOCAL4.to_vec(), meta: format!("@t=H,D:{}:{},0", hex(h.as_bytes()), p.unwrap_or(80)) });
        }
    }
}

/// request lines from the URI grammar product of the `http` component (valid and invalid alike): model comparison only
fn gen_grammar(rng: &mut Rng, cases: &mut Vec<Case>, count: usize) {
    let methods = ["GET", "POST", "CONNECT", "OPTIONS", "connect"];
    let schemes = ["http", "https", "ws", "h", ""];
    let a255 = "a".repeat(255);
    let a256 = "a".repeat(256);
    let hosts = ["h", "www.example.com", "127.0.0.1", "[::1]", "[fe80::1%25eth0]", "a-b.c", "h\u{e9}", "", a255.as_str(), a256.as_str()];
    let ports = ["", ":80", ":8080", ":0", ":65535", ":65536", ":+80", ":", ":x", ":080", ":99999999999999999999"];
    let paths = ["", "/", "/a/b/c", "/a:b", "/a://b", "/a/", "//"];
    let queries = ["", "?", "?a=b&c=d", "?a=1?b=2", "?u=http://x/y", "?:", "?/"];
    for _ in 0..count {
        let m = *rng.pick(&methods);
        let sc = *rng.pick(&schemes);
        let t = if sc.is_empty() {
            format!("{}{}{}{}", rng.pick(&hosts), rng.pick(&ports), rng.pick(&paths), rng.pick(&queries))
        } else {
            format!("{}://{}{}{}{}", sc, rng.pick(&hosts), rng.pick(&ports), rng.pick(&paths), rng.pick(&queries))
        };
        let mut s = format!("{} {} HTTP/1.1\r\nHost: x\r\n\r\n", m, t).into_bytes();
        s.extend_from_slice(&payload(rng));
        let n = s.len();
        let hist = match rng.below(3) {
            0 => Vec::new(),
            1 => vec![rng.range(1, n as u64 - 1) as usize],
            _ => vec![m.len() + 1 + t.len(), n - 2],
        };
        cases.push(Case { stream: s, arrivals: hist, local: LOCAL4.to_vec(), meta: "@-".into() });
    }
}

fn gen_malformed(rng: &mut Rng, cases: &mut Vec<Case>, thorough: bool) {
    let mut one = |s: Vec<u8>, h: Vec<usize>, meta: &str| cases.push(Case { stream: s, arrivals: h, local: LOCAL4.to_vec(), meta: meta.into() });
    // request lines longer than the 1024-byte window (414 once the method is known), a 1100-byte method (Unknown)
    for (extra, cuts) in [(0usize, vec![]), (1, vec![500]), (300, vec![100, 1023, 1024, 1025]), (3000, vec![1024])] {
        let uri = format!("http://example.com/{}", "a".repeat(1024 - 4 - 19 - 1 + extra)); // "GET " + uri + " " = 1024 + extra
        let s = format!("GET {} HTTP/1.1\r\nHost: example.com\r\n\r\n", uri).into_bytes();
        one(s, cuts, if extra == 0 { "@t=H,D:6578616d706c652e636f6d:80,0" } else { "@r" });
    }
    one(format!("CONNECT {}:443 HTTP/1.1\r\n\r\n", "h".repeat(1100)).into_bytes(), vec![700], "@r");
    one("M".repeat(1100).into_bytes(), vec![1000], "@r");
    one([&b"\r\n".repeat(600)[..], b"GET http://a/ HTTP/1.1\r\n\r\n"].concat(), vec![], "@r");
    // CONNECT heads that do not end within 8192 bytes, and one that just does
    for total in [8192usize, 8193, 9000, 20000] {
        let mut s = b"CONNECT example.com:443 HTTP/1.1\r\n".to_vec();
        let pad = total - s.len() - 7 - 4;
        s.extend_from_slice(format!("X-Pad: {}\r\n", "p".repeat(pad)).as_bytes());
        s.extend_from_slice(b"\r\n");
        assert_eq!(s.len(), total);
        let head = s.len();
        s.extend_from_slice(b"tail");
        let meta = if head <= 8192 { format!("@t=S,D:6578616d706c652e636f6d:443,{}", head) } else { "@r".to_string() };
        one(s.clone(), vec![], &meta);
        one(s, vec![40, 4000, 8191, 8192], &meta);
    }
    // control bytes in the URI, double space, lone CR, bare LF line ends, bad versions, non-UTF-8 URI
    let lines: Vec<(Vec<u8>, &str)> = vec![
        (b"GET http://a\tb/ HTTP/1.1\r\n\r\n".to_vec(), "@r"),
        (b"GET http://a\x00b/ HTTP/1.1\r\n\r\n".to_vec(), "@r"),
        (b"GET http://a\x7fb/ HTTP/1.1\r\n\r\n".to_vec(), "@r"),
        (b"GET  http://a/ HTTP/1.1\r\n\r\n".to_vec(), "@r"),
        (b"GET http://a/\xff\xfe HTTP/1.1\r\n\r\n".to_vec(), "@r"),
        (b"GET http://h\xc3\xa9/ HTTP/1.1\r\n\r\n".to_vec(), "@t=H,D:68c3a9:80,0"),
        (b"\rGET http://a/ HTTP/1.1\r\n\r\n".to_vec(), "@r"),
        (b"\r\n\rGET http://a/ HTTP/1.1\r\n\r\n".to_vec(), "@r"),
        (b"G\rET http://a/ HTTP/1.1\r\n\r\n".to_vec(), "@r"),
        (b"GET http://a/ HTTP/1.1\n\n".to_vec(), "@t=H,D:61:80,0"),
        (b"GET http://a/ HTTP/2.0\r\n\r\n".to_vec(), "@t=H,D:61:80,0"), // the version is not looked at
        (b"GET http://a/ XYZ".to_vec(), "@t=H,D:61:80,0"),
        (b"GET /index.html HTTP/1.1\r\nHost: a\r\n\r\n".to_vec(), "@r"),
        (b"OPTIONS * HTTP/1.1\r\n\r\n".to_vec(), "@r"),
        (b"CONNECT example.com HTTP/1.1\r\n\r\n".to_vec(), "@r"),
        (b"CONNECT example.com:x HTTP/1.1\r\n\r\n".to_vec(), "@r"),
        (b"CONNECT example.com:443 HTTP/1.1\n\n".to_vec(), "@r"), // bare LF: consume_request_head never finds CRLFCRLF
        (b"get http://a/ HTTP/1.1\r\n\r\n".to_vec(), "@t=H,D:61:80,0"),
        (b"\x04\x01\x00\x50\x7f\x00\x00\x01\x00".to_vec(), "@r"), // SOCKS4
        (b"\x16\x03\x01\x02\x00\x01\x00\x01\xfc\x03\x03".to_vec(), "@r"), // TLS
        (b"\x00".to_vec(), "@r"),
        (b"\r\n".to_vec(), "@r"),
        (b"\n\n\n".to_vec(), "@r"),
        (b" GET http://a/ HTTP/1.1\r\n\r\n".to_vec(), "@r"),
        (Vec::new(), "@r"),
    ];
    for (s, meta) in lines {
        let n = s.len();
        one(s.clone(), vec![], meta);
        if n > 2 {
            one(s.clone(), vec![1, n / 2], meta);
            one(s, (1..n).collect(), meta);
        }
    }
    // EOF at every point of a CONNECT head and of a plain request
    for full in [&b"\r\nCONNECT a.b:443 HTTP/1.1\r\nHost: a.b\r\n\r\nxy"[..], &b"POST http://a.b:81/p?q HTTP/1.1\r\nHost: a.b\r\n\r\nbody"[..]] {
        for cut in 1..full.len() {
            if !thorough && cut % 3 != 0 {
                continue;
            }
            let s = full[..cut].to_vec();
            let h = if cut > 3 && rng.chance(1, 2) { vec![rng.range(1, cut as u64 - 1) as usize] } else { Vec::new() };
            one(s, h, "@-");
        }
    }
    // random printable / random bytes
    for _ in 0..(if thorough { 300 } else { 20 }) {
        let n = rng.range(1, 60) as usize;
        let s: Vec<u8> = if rng.chance(1, 2) { (0..n).map(|_| *rng.pick(b"GETCON :/.ab1\r\nHP")).collect() } else { rng.bytes(n) };
        let h = if rng.chance(1, 2) { Vec::new() } else { vec![rng.range(1, n as u64) as usize] };
        one(s, h, "@-");
    }
}


/// dimensions the generators above keep at one value or leave to chance (seeded/audit/aud-misc.md): 254/255 methods, greetings
/// without NO_AUTH, names of 1 / 255 bytes and names that are not text, special IPs, ports 0 / 65535, every RSV class, an IPv6
/// local address, 16 KiB behind the handshake; CONNECT to bracketed IPv6 literals (zone id, every port edge), port spellings
/// (leading zeros, 0, 65535, 65536, '+'), upper-case schemes and hosts, https:// with a plain method, userinfo, absolute-URI
/// with CONNECT, heads without headers, mixed line ends, tabs.  @t / @r where the request is inside / outside the property's
/// grammar beyond doubt, model comparison (@-) where the property does not say
fn gen_dimensions(rng: &mut Rng, cases: &mut Vec<Case>, thorough: bool, v6_ok: bool) {
    let per = if thorough { 6 } else { 3 };
    let mut add = |rng: &mut Rng, s: Vec<u8>, marks: &[usize], meta: String, local: Vec<u8>| {
        for h in histories(rng, s.len(), marks, per) {
            cases.push(Case { stream: s.clone(), arrivals: h, local: local.clone(), meta: meta.clone() });
        }
    };
    let l4 = LOCAL4.to_vec();
    // ---- SOCKS5 ----
    let dom = |h: &[u8], port: u16| -> (Vec<u8>, String) {
        let mut v = vec![3u8, h.len() as u8];
        v.extend_from_slice(h);
        v.extend_from_slice(&port.to_be_bytes());
        (v, format!("D:{}:{}", hex(h), port))
    };
    let ip4 = |ip: [u8; 4], port: u16| -> (Vec<u8>, String) { ([&[1u8][..], &ip[..], &port.to_be_bytes()[..]].concat(), format!("4:{}:{}", hex(&ip), port)) };
    let ip6 = |ip: [u8; 16], port: u16| -> (Vec<u8>, String) { ([&[4u8][..], &ip[..], &port.to_be_bytes()[..]].concat(), format!("6:{}:{}", hex(&ip), port)) };
    let mut mapped = [0u8; 16];
    mapped[10] = 0xff;
    mapped[11] = 0xff;
    mapped[12..].copy_from_slice(&[10, 1, 2, 3]);
    let targets: Vec<(Vec<u8>, String)> = vec![
        dom(b"a", 0),
        dom(&[b'x'; 255], 65535),
        dom(&[b'x'; 254], 1),
        dom("h\u{e9}.\u{4e2d}".as_bytes(), 443),
        dom(b"a\0b", 80),
        dom(&[0xff, 0xfe, 0x80], 80),
        dom(&[b'h', 0xc3], 80),
        dom(b"[::1]", 80),
        dom(b"1.2.3.4", 80),
        dom(b"a b\r\n", 80),
        ip4([0, 0, 0, 0], 0),
        ip4([255, 255, 255, 255], 65535),
        ip4([127, 0, 0, 1], 65535),
        ip6([0; 16], 0),
        ip6(mapped, 53),
        ip6([0xff; 16], 65535),
    ];
    let greetings: Vec<Vec<u8>> = vec![
        [&[5u8, 255][..], &[0u8; 255][..]].concat(),
        [&[5u8, 255][..], &(0..255).map(|i| [2u8, 1, 255, 0][i % 4]).collect::<Vec<u8>>()[..]].concat(),
        [&[5u8, 254][..], &[2u8; 253][..], &[0u8][..]].concat(),
        vec![5, 1, 0],
        vec![5, 3, 0, 1, 2],
    ];
    for (i, (a, astr)) in targets.iter().enumerate() {
        let g = greetings[i % greetings.len()].clone();
        let rsv = [0u8, 1, 0x7f, 0x80, 0xff][i % 5];
        let mut s = g.clone();
        s.extend_from_slice(&[5, 1, rsv]);
        s.extend_from_slice(a);
        let hs = s.len();
        s.extend_from_slice(&rng.bytes_of(&[0, 1, 33]));
        let local = if v6_ok && i % 4 == 1 { local6() } else { l4.clone() };
        add(rng, s, &[g.len(), g.len() + 3, g.len() + 4, g.len() + 5, hs - 2, hs], format!("@t=5,{},{}", astr, hs), local);
    }
    // a greeting that offers no NO_AUTH at all (the proxy answers 05 00 all the same: model comparison), an unknown method at
    // the end of a long list (refused), a count byte that promises more methods than arrive before the end of the stream (refused)
    for g in [vec![5u8, 1, 2], vec![5, 2, 1, 2], vec![5, 1, 255], [&[5u8, 255][..], &[2u8; 255][..]].concat()] {
        let mut s = g.clone();
        s.extend_from_slice(&[5, 1, 0, 1, 10, 0, 0, 1, 0, 80]);
        s.extend_from_slice(b"early");
        add(rng, s, &[g.len()], "@-".into(), l4.clone());
    }
    {
        let mut g = [&[5u8, 255][..], &[0u8; 255][..]].concat();
        g[256] = 0x80;
        let mut s = g.clone();
        s.extend_from_slice(&[5, 1, 0, 1, 10, 0, 0, 1, 0, 80]);
        add(rng, s, &[256, 257], "@r".into(), l4.clone());
        let short = [&[5u8, 255][..], &[0u8; 200][..]].concat();
        add(rng, short, &[2], "@r".into(), l4.clone());
    }
    // 16 KiB behind the handshake: not a byte of it is consumed
    {
        let mut s = vec![5u8, 1, 0, 5, 1, 0, 3, 3, b'a', b'.', b'b', 1, 187];
        let hs = s.len();
        s.extend_from_slice(&rng.bytes(16384));
        add(rng, s, &[3, hs], format!("@t=5,D:612e62:443,{}", hs), l4.clone());
    }
    // ---- HTTP CONNECT ----
    // (authority, expectation): Some((host, port)) = inside the grammar, None+refuse, None+open = the property does not say
    enum E { T(&'static str, u16), R, M }
    let connects: Vec<(&str, E)> = vec![
        ("[::1]:443", E::T("[::1]", 443)),
        ("[2001:db8::1]:65535", E::T("[2001:db8::1]", 65535)),
        ("[2001:DB8::1]:1", E::T("[2001:DB8::1]", 1)),
        ("[fe80::1%25eth0]:443", E::T("[fe80::1%25eth0]", 443)),
        ("[::ffff:1.2.3.4]:80", E::T("[::ffff:1.2.3.4]", 80)),
        ("[::1]", E::R),
        ("[::1]:", E::R),
        ("EXAMPLE.Com:443", E::T("EXAMPLE.Com", 443)),
        ("example.com:0443", E::T("example.com", 443)),
        ("example.com:00000000000000000443", E::T("example.com", 443)),
        ("example.com:0", E::T("example.com", 0)),
        ("example.com:65535", E::T("example.com", 65535)),
        ("example.com:65536", E::R),
        ("example.com:99999999999999999999", E::R),
        ("example.com:-1", E::R),
        ("example.com:4 43", E::M), // the target ends at the space; what follows is a bad version, which is not looked at (as `GET http://a/ XYZ` above)
        ("example.com:", E::R),
        ("example.com", E::R),
        (":443", E::R),
        ("example.com:+443", E::M),
        ("user@example.com:443", E::M),
        ("user:pw@example.com:443", E::M),
        ("http://example.com:81/", E::M),
        ("http://example.com/", E::M),
        ("HTTP://example.com:81", E::M),
        ("example.com:443/", E::M),
        ("example.com:443?x", E::M),
        ("example.com:443#f", E::M),
        ("::1:443", E::M),
        ("1.2.3.4:443", E::T("1.2.3.4", 443)),
        ("a.b.:443", E::T("a.b.", 443)),
    ];
    for (i, (auth, e)) in connects.iter().enumerate() {
        let headers: &[u8] = match i % 3 {
            0 => b"",
            1 => b"Host: x\r\n",
            _ => b"Host: x\r\nProxy-Connection: keep-alive\r\nUser-Agent: a/1 (b; c)\r\n",
        };
        let mut s = format!("CONNECT {} HTTP/1.1\r\n", auth).into_bytes();
        let line_end = s.len();
        s.extend_from_slice(headers);
        s.extend_from_slice(b"\r\n");
        let head = s.len();
        s.extend_from_slice(&payload(rng));
        let meta = match e {
            E::T(h, p) => format!("@t=S,D:{}:{},{}", hex(h.as_bytes()), p, head),
            E::R => "@r".to_string(),
            E::M => "@-".to_string(),
        };
        add(rng, s, &[8, 8 + auth.len(), line_end, head - 2, head], meta, l4.clone());
    }
    {
        // 16 KiB behind a CONNECT head
        let mut s = b"CONNECT a.b:443 HTTP/1.1\r\n\r\n".to_vec();
        let head = s.len();
        s.extend_from_slice(&rng.bytes(16384));
        add(rng, s, &[head - 1, head], format!("@t=S,D:612e62:443,{}", head), l4.clone());
    }
    // line ends and separators other than the specified ones: model comparison
    for t in [
        &b"CONNECT a.b:443 HTTP/1.1\r\nH: v\n\r\nrest"[..],
        b"CONNECT a.b:443 HTTP/1.1\n\r\nrest",
        b"CONNECT a.b:443 HTTP/1.1\r\n\nrest",
        b"CONNECT a.b:443 HTTP/1.1\nH: v\r\n\r\nrest",
        b"CONNECT a.b:443 HTTP/1.1\r\r\n\r\nrest",
        b"CONNECT\ta.b:443\tHTTP/1.1\r\n\r\nrest",
        b"CONNECT a.b:443\r\n\r\nrest",
        b"CONNECT a.b:443 \r\n\r\nrest",
        b"CONNECT a.b:443 HTTP/1.1 \r\n\r\nrest",
        b"CONNECT a.b:443 HTTP/1.1\r\n\r\n\r\n\r\n",
        b"\nCONNECT a.b:443 HTTP/1.1\r\n\r\nrest",
        b"\r\n\nCONNECT a.b:443 HTTP/1.1\r\nA: b\r\n\r\nrest",
    ] {
        add(rng, t.to_vec(), &[7, 8, 15, t.len() - 4], "@-".into(), l4.clone());
    }
    // ---- plain HTTP (absolute form) ----
    let plains: Vec<(&str, &str, E)> = vec![
        ("GET", "HTTP://Example.COM/x", E::T("Example.COM", 80)),
        ("GET", "hTtP://example.com:8080", E::T("example.com", 8080)),
        ("POST", "https://example.com/x?y", E::T("example.com", 80)),
        ("GET", "HTTPS://example.com:443/", E::T("example.com", 443)),
        ("GET", "ht+tp-x.1://example.com/", E::T("example.com", 80)),
        ("GET", "http://example.com:080/", E::T("example.com", 80)),
        ("GET", "http://example.com:0000000000000000000080/a:b", E::T("example.com", 80)),
        ("GET", "http://example.com:0/", E::T("example.com", 0)),
        ("GET", "http://example.com:65535?q", E::T("example.com", 65535)),
        ("GET", "http://example.com:65536/", E::R),
        ("GET", "http://example.com:-1/", E::R),
        ("GET", "http://example.com:8o/", E::R),
        ("GET", "http://example.com:+80/", E::M),
        ("GET", "http://example.com:/", E::M),
        ("PUT", "http://[fe80::1%25eth0]:8080/p?q=[::]:1", E::T("[fe80::1%25eth0]", 8080)),
        ("GET", "http://[fe80::1%25eth0]/p:1", E::T("[fe80::1%25eth0]", 80)),
        ("GET", "http://[::1]:0", E::T("[::1]", 0)),
        ("GET", "http://[::FFFF:1.2.3.4]:65535/", E::T("[::FFFF:1.2.3.4]", 65535)),
        ("GET", "http://[::1]:65536/", E::R),
        ("GET", "http://user@example.com/", E::M),
        ("GET", "http://user:pw@example.com:81/", E::M),
        ("GET", "http://user:pw@example.com/", E::M),
        ("GET", "http://example.com#f", E::M),
        ("GET", "http://example.com:81#f", E::M),
        ("GET", "http:example.com/", E::R),
        ("GET", "http:/example.com/", E::R),
        ("GET", "//example.com/", E::R),
        ("GET", "example.com:80", E::R),
        ("GET", "example.com", E::R),
        ("CONNECTX", "example.com:80", E::R),
        ("Connect", "example.com:80", E::R),
        ("OPTIONS", "http://example.com.:80/", E::T("example.com.", 80)),
        ("PROPFIND", "http://1.2.3.4:1/", E::T("1.2.3.4", 1)),
    ];
    for (m, uri, e) in plains.iter() {
        let mut s = format!("{} {} HTTP/1.1\r\n", m, uri).into_bytes();
        let line_end = s.len();
        s.extend_from_slice(b"Host: whatever\r\n\r\n");
        if rng.chance(1, 2) {
            s.extend_from_slice(b"body");
        }
        let meta = match e {
            E::T(h, p) => format!("@t=H,D:{}:{},0", hex(h.as_bytes()), p),
            E::R => "@r".to_string(),
            E::M => "@-".to_string(),
        };
        let sp2 = m.len() + 1 + uri.len();
        add(rng, s, &[m.len(), m.len() + 8, sp2, sp2 + 1, line_end], meta, l4.clone());
    }
}

pub fn generate(w: &mut dyn Write, seed: u64, thorough: bool) {
    let mut rng = Rng::new(seed ^ 0x6873_6861_6b65);
    let v6_ok = std::net::TcpListener::bind("[::1]:0").is_ok();
    let mut cases = Vec::new();
    if thorough {
        gen_socks5(&mut rng, &mut cases, 160, 8, v6_ok);
        gen_connect(&mut rng, &mut cases, 140, 8);
        gen_plain(&mut rng, &mut cases, 120, 6);
        gen_grammar(&mut rng, &mut cases, 700);
    } else {
        gen_socks5(&mut rng, &mut cases, 18, 4, v6_ok);
        gen_connect(&mut rng, &mut cases, 16, 4);
        gen_plain(&mut rng, &mut cases, 12, 3);
        gen_grammar(&mut rng, &mut cases, 40);
    }
    gen_socks5_bad(&mut rng, &mut cases, thorough);
    gen_malformed(&mut rng, &mut cases, thorough);
    gen_dimensions(&mut Rng::new(seed ^ 0x6873_6175_6431), &mut cases, thorough, v6_ok);
    // run the cases on a few OS threads (each with its own paused-clock runtime), print them in order
    let n = cases.len();
    let threads = std::thread::available_parallelism().map(|x| x.get()).unwrap_or(4).clamp(1, 8);
    let cases = std::sync::Arc::new(cases);
    let next = std::sync::Arc::new(std::sync::atomic::AtomicUsize::new(0));
    let results = std::sync::Arc::new(std::sync::Mutex::new(vec![String::new(); n]));
    let mut hs = Vec::new();
    for _ in 0..threads {
        let (cases, next, results) = (cases.clone(), next.clone(), results.clone());
        hs.push(std::thread::spawn(move || {
            loop {
                let i = next.fetch_add(1, std::sync::atomic::Ordering::SeqCst);
                if i >= cases.len() {
                    break;
                }
                let c = &cases[i];
                let r = run_one(&c.stream, &c.arrivals, &c.local);
                results.lock().unwrap()[i] = r;
            }
        }));
    }
    for h in hs {
        h.join().unwrap();
    }
    let results = results.lock().unwrap();
    for (c, r) in cases.iter().zip(results.iter()) {
        let arr = if c.arrivals.is_empty() { "-".to_string() } else { c.arrivals.iter().map(|x| x.to_string()).collect::<Vec<_>>().join(",") };
        writeln!(w, "hshake\t{}\t{}\t{}\t{}\t=>\t{}", hex(&c.stream), arr, hex(&c.local), c.meta, r).unwrap();
    }
}
