//! Dimension audit of the `ssudp` generator (table: seeded/audit/aud-sst.md): cases for the dimensions the original generator
//! of t1_ssudp.rs did not vary.  Same case formats; an Rng stream of its own derived from the seed.
use std::io::Write;

use crate::rng::Rng;
use crate::t1_sstcp::{KINDS, kind_of};
use crate::t1_ssudp::{UCraft, dec_case_m, exec, legacy_packet};
use crate::util::{hex, unhex};

fn uh(k: &[u8]) -> String {
    hex(&blake3::hash(k).as_bytes()[..16])
}
fn table(us: &[Vec<u8>]) -> String {
    us.iter().map(|k| format!("{}:{}", uh(k), hex(k))).collect::<Vec<_>>().join(",")
}
fn emit(w: &mut dyn Write, a: &[String]) -> Vec<String> {
    let f: Vec<&str> = a.iter().map(|s| s.as_str()).collect();
    let r = exec(&f);
    writeln!(w, "{}\t=>\t{}", a.join("\t"), r.join("\t")).unwrap();
    r
}
struct Ids {
    c: u64,
    s: u64,
    p: u64,
}
/// client -> server round trip (the implementation encodes, its server side decodes, the model decodes the same wire); returns the wire
#[allow(clippy::too_many_arguments)]
fn rt_c2s(w: &mut dyn Write, kname: &str, ckey: &[u8], cikeys: &str, skey: &[u8], users: &str, xuser: &str, now: i64, ids: &Ids, addr: &str, payload: &[u8]) -> Vec<u8> {
    let a: Vec<String> = vec!["ssudp".into(), "rt".into(), kname.into(), "client".into(), hex(ckey), cikeys.into(), "-".into(), hex(skey), users.into(), xuser.into(), now.to_string(), format!("{:x}", ids.c), format!("{:x}", ids.s), format!("{:x}", ids.p), addr.into(), hex(payload)];
    let r = emit(w, &a);
    if r[0].starts_with("ERR") || r[0] == "PANIC" { vec![] } else { unhex(&r[0]) }
}
#[allow(clippy::too_many_arguments)]
fn rt_s2c(w: &mut dyn Write, kname: &str, skey: &[u8], suser: &str, ckey: &[u8], now: i64, ids: &Ids, addr: &str, payload: &[u8]) -> Vec<u8> {
    let a: Vec<String> = vec!["ssudp".into(), "rt".into(), kname.into(), "server".into(), hex(skey), "-".into(), suser.into(), hex(ckey), "none".into(), "-".into(), now.to_string(), format!("{:x}", ids.c), format!("{:x}", ids.s), format!("{:x}", ids.p), addr.into(), hex(payload)];
    let r = emit(w, &a);
    if r[0].starts_with("ERR") || r[0] == "PANIC" { vec![] } else { unhex(&r[0]) }
}
fn enc_wire(kname: &str, mode: &str, key: &[u8], now: i64, ids: &Ids, addr: &str, payload: &[u8]) -> Vec<u8> {
    let a: Vec<String> = vec!["ssudp".into(), "enc".into(), kname.into(), mode.into(), hex(key), "-".into(), "-".into(), now.to_string(), format!("{:x}", ids.c), format!("{:x}", ids.s), format!("{:x}", ids.p), addr.into(), hex(payload)];
    let f: Vec<&str> = a.iter().map(|s| s.as_str()).collect();
    exec(&f)[0].strip_prefix("OK ").map(unhex).unwrap_or_default()
}

const V4S: &str = "4:7f000001:80";

pub fn generate(w: &mut dyn Write, seed: u64, thorough: bool) {
    let mut rng = Rng::new(seed ^ 0x5D0A_5D0A_17A0_D17B);
    let now: i64 = 1_790_000_000;
    for kname in KINDS {
        let (_, n, is22, cipher) = kind_of(kname);
        let aes22 = kname == "22a128" || kname == "22a256";
        let skey = rng.bytes(n);
        let rid = |rng: &mut Rng| Ids { c: rng.next(), s: rng.next(), p: rng.range(1, 1 << 40) };

        // ---- 1. user-table shapes (1 / 2 / 5 users; the client being the first, a middle, the last one); tables and identity keys
        //         where the kind has no identity header ----
        if aes22 {
            for size in [1usize, 2, 5] {
                let us: Vec<Vec<u8>> = (0..size).map(|_| rng.bytes(n)).collect();
                let tab = table(&us);
                let mut pos = vec![0usize, size / 2, size - 1];
                pos.dedup();
                for &p in &pos {
                    let ids = rid(&mut rng);
                    let pl = rng.bytes(9);
                    let wc = rt_c2s(w, kname, &us[p], &hex(&skey), &skey, &tab, &uh(&us[p]), now, &ids, V4S, &pl);
                    let ws = rt_s2c(w, kname, &skey, &format!("{}:{}", uh(&us[p]), hex(&us[p])), &us[p], now, &ids, V4S, &pl);
                    // no other user of the table, and not the server key, reads the answer made for user p; a server whose table lacks
                    // user p refuses p's datagram
                    for (q, other) in us.iter().enumerate() {
                        if q != p && !ws.is_empty() {
                            dec_case_m(w, kname, "client", other, "-", "none", now, &ws, true);
                        }
                    }
                    if !ws.is_empty() {
                        dec_case_m(w, kname, "client", &skey, "-", "none", now, &ws, true);
                    }
                    if !wc.is_empty() {
                        let without: Vec<Vec<u8>> = us.iter().enumerate().filter(|(q, _)| *q != p).map(|(_, k)| k.clone()).collect();
                        if !without.is_empty() {
                            dec_case_m(w, kname, "server", &skey, "-", &table(&without), now, &wc, true);
                        }
                        // one-bit-different credentials: the server key, the user's key as the server knows it
                        let nb = if thorough { n * 8 } else { 10 };
                        for j in 0..nb {
                            let bit = if thorough { j } else { rng.below((n * 8) as u64) as usize };
                            let mut k2 = skey.clone();
                            k2[bit / 8] ^= 1 << (bit % 8);
                            dec_case_m(w, kname, "server", &k2, "-", &tab, now, &wc, true);
                            let mut u2 = us[p].clone();
                            u2[bit / 8] ^= 1 << (bit % 8);
                            let mut t2: Vec<String> = us.iter().map(|k| format!("{}:{}", uh(k), hex(k))).collect();
                            t2[p] = format!("{}:{}", uh(&us[p]), hex(&u2));
                            dec_case_m(w, kname, "server", &skey, "-", &t2.join(","), now, &wc, true);
                            if !ws.is_empty() {
                                dec_case_m(w, kname, "client", &u2, "-", "none", now, &ws, true);
                            }
                        }
                    }
                }
            }
        } else {
            let us: Vec<Vec<u8>> = (0..2).map(|_| rng.bytes(n)).collect();
            let ids = rid(&mut rng);
            let pl = rng.bytes(9);
            // the server has a user table, the client identity keys: both are ignored by a kind without identity headers
            rt_c2s(w, kname, &skey, &format!("{},{}", hex(&us[0]), hex(&us[1])), &skey, &table(&us), "-", now, &ids, V4S, &pl);
            rt_s2c(w, kname, &skey, &format!("{}:{}", uh(&us[0]), hex(&us[0])), &skey, now, &ids, V4S, &pl);
            let e: Vec<String> = vec!["ssudp".into(), "enc".into(), kname.into(), "client".into(), hex(&skey), hex(&us[0]), "-".into(), now.to_string(), format!("{:x}", ids.c), "0".into(), "5".into(), V4S.into(), hex(&pl)];
            emit(w, &e);
            // a user's key alone does not open the server
            let wc = enc_wire(kname, "client", &us[0], now, &ids, V4S, &pl);
            dec_case_m(w, kname, "server", &skey, "-", &table(&us), now, &wc, true);
        }

        // ---- 2. address kinds and special values, both directions ----
        let dom254: Vec<u8> = rng.bytes(254).iter().map(|b| b'a' + b % 26).collect();
        let addrs: Vec<String> = vec![
            "D:61:0".into(),
            "D:2e:65535".into(),
            format!("D:{}:443", hex(&dom254)),
            format!("D:{}61:443", hex(&dom254)),
            "4:00000000:0".into(),
            "4:ffffffff:65535".into(),
            format!("6:{}:53", "00".repeat(16)),
            format!("6:{}ffff01020304:443", "00".repeat(10)),
            format!("6:{}:65535", "ff".repeat(16)),
        ];
        for a in &addrs {
            let ids = rid(&mut rng);
            let pl = rng.bytes(4);
            rt_c2s(w, kname, &skey, "-", &skey, "none", "-", now, &ids, a, &pl);
            rt_s2c(w, kname, &skey, "-", &skey, now, &ids, a, &pl);
        }

        // ---- 3. payload sizes around the largest datagram UDP can carry (65507) and the 64 KiB receive buffer ----
        let big: &[usize] = if thorough { &[65400, 65507, 65535, 65536] } else { &[65507, 65535] };
        for &sz in big {
            let ids = rid(&mut rng);
            let pl = rng.bytes(sz);
            rt_c2s(w, kname, &skey, "-", &skey, "none", "-", now, &ids, V4S, &pl);
            if thorough {
                rt_s2c(w, kname, &skey, "-", &skey, now, &ids, V4S, &pl);
            }
        }

        // ---- 4. session and packet ids at both ends of their range ----
        for c in [0u64, u64::MAX] {
            for s in [0u64, u64::MAX] {
                for p in [0u64, u64::MAX] {
                    let ids = Ids { c, s, p };
                    let pl = rng.bytes(3);
                    rt_c2s(w, kname, &skey, "-", &skey, "none", "-", now, &ids, V4S, &pl);
                    rt_s2c(w, kname, &skey, "-", &skey, now, &ids, V4S, &pl);
                }
            }
        }

        // ---- 5. tampering that changes the length in the middle; a datagram twice in one; junk in front ----
        let ids = rid(&mut rng);
        let pl = rng.bytes(40);
        let wc = rt_c2s(w, kname, &skey, "-", &skey, "none", "-", now, &ids, V4S, &pl);
        let ws = rt_s2c(w, kname, &skey, "-", &skey, now, &ids, V4S, &pl);
        for (mode, wire) in [("server", &wc), ("client", &ws)] {
            if wire.is_empty() {
                continue;
            }
            for _ in 0..(if thorough { 60 } else { 10 }) {
                let i = rng.below(wire.len() as u64) as usize;
                let mut m = wire.clone();
                m.remove(i);
                dec_case_m(w, kname, mode, &skey, "-", "none", now, &m, true);
                let mut m = wire.clone();
                m.insert(i, rng.bytes(1)[0]);
                dec_case_m(w, kname, mode, &skey, "-", "none", now, &m, true);
            }
            dec_case_m(w, kname, mode, &skey, "-", "none", now, &[&wire[..], &wire[..]].concat(), true);
            dec_case_m(w, kname, mode, &skey, "-", "none", now, &[&wire[..], &wire[..16]].concat(), true);
            dec_case_m(w, kname, mode, &skey, "-", "none", now, &[&[0u8][..], &wire[..]].concat(), true);
            // one-bit-different key
            let nb = if thorough { n * 8 } else { 16 };
            for j in 0..nb {
                let bit = if thorough { j } else { rng.below((n * 8) as u64) as usize };
                let mut k2 = skey.clone();
                k2[bit / 8] ^= 1 << (bit % 8);
                dec_case_m(w, kname, mode, &k2, "-", "none", now, wire, true);
            }
        }

        // ---- 6. crafted time stamps at the ends of the range (2022) ----
        if is22 {
            let cr = UCraft { kname, cipher };
            let tail = [&[1u8, 127, 0, 0, 1, 0, 80][..], b"hello"].concat();
            for ts in [0u64, 1, (now as u64) - (1 << 30), (now as u64) + (1 << 32), 1 << 63, u64::MAX - 1, u64::MAX] {
                let (sid, pid) = (rng.next(), rng.next());
                let pc = cr.packet(&skey, &skey, &[], sid, pid, &UCraft::body(0, ts, None, 0, &[], &tail), &rng.bytes(24));
                dec_case_m(w, kname, "server", &skey, "-", "none", now, &pc, true);
                let ps = cr.packet(&skey, &skey, &[], sid, pid, &UCraft::body(1, ts, Some(7), 0, &[], &tail), &rng.bytes(24));
                dec_case_m(w, kname, "client", &skey, "-", "none", now, &ps, true);
            }
        }

        // ---- 7. the client's DatagramPacketCodec: datagrams addressed to ANOTHER client session; an identity-key client;
        //         a damaged copy before the genuine datagram ----
        let cr = UCraft { kname, cipher };
        let rounds = if thorough { 6 } else { 2 };
        for round in 0..rounds {
            let ssid = rng.next();
            let xs = [1u64, 1 << 63, rng.next() | 2];
            let x = xs[round % 3];
            let mut ops: Vec<String> = vec!["E4:7f000001:80,aabb".into()];
            ops.push(format!("R{:x},1,01,0", ssid));
            ops.push(format!("R{:x},2,02,{:x}", ssid, x)); // addressed to another client session: not to be delivered
            ops.push(format!("R{:x},3,03,0", ssid));
            ops.push(format!("R{:x},1,01,0", ssid)); // duplicate
            ops.push(format!("R{:x},2,02,0", ssid)); // the genuine packet 2 of THIS session
            ops.push(format!("R{:x},9,09,{:x}", rng.next(), xs[(round + 1) % 3])); // another server session AND another client session
            ops.push("E4:7f000001:80,cc".into());
            let rp = if is22 { "1" } else { "0" };
            let a: Vec<String> = vec!["ssudp".into(), "dg".into(), kname.into(), hex(&skey), "-".into(), rp.into(), now.to_string(), ops.join(";")];
            emit(w, &a);
        }
        let mk = |rng: &mut Rng, key: &[u8], ssid: u64, pid: u64, tag: u8| -> Vec<u8> {
            let tail = [&[1u8, 10, 0, 0, tag, 0, 53][..], &[tag, tag][..]].concat();
            if is22 { cr.packet(key, key, &[], ssid, pid, &UCraft::body(1, now as u64, Some(9), 0, &[], &tail), &rng.bytes(24)) } else { legacy_packet(cipher, key, &rng.bytes(n), &tail) }
        };
        {
            // a damaged copy arrives first: it is an error, it does not use up the packet id, the genuine one is delivered once
            let ssid = rng.next();
            let mut ops: Vec<String> = Vec::new();
            for p in 1..=3u64 {
                let good = format!("R{:x},{:x},{:02x},0", ssid, p, p);
                ops.push(format!("{},f{}", good, rng.below(1 << 20)));
                ops.push(format!("{},t", good));
                ops.push(good.clone());
                ops.push(good);
            }
            let a: Vec<String> = vec!["ssudp".into(), "dg".into(), kname.into(), hex(&skey), "-".into(), if is22 { "1" } else { "0" }.into(), now.to_string(), ops.join(";")];
            emit(w, &a);
        }
        if aes22 {
            // the client holds an identity key (iPSK = the server's key) and its own user key: its datagrams carry an identity header,
            // the server's answers are sealed under the user's key
            let ukey = rng.bytes(n);
            for round in 0..2 {
                let ssid = rng.next();
                let mut ops: Vec<String> = vec!["E4:7f000001:80,aabb".into(), "ED:6578616d706c652e636f6d:443,01".into()];
                for (j, pid) in [1u64, 2, 2, 1, 3, 8200, 3, 70].iter().enumerate() {
                    ops.push(format!("R{:x},{:x},{:02x},0", ssid, pid, j as u8));
                }
                // an answer sealed under the SERVER key is not for this user
                ops.push(format!("D{}", hex(&mk(&mut rng, &skey, ssid, 50, 0x50))));
                ops.push(format!("R{:x},51,51,0", ssid));
                ops.push(format!("R{:x},52,52,{:x}", ssid, 4 + round));
                ops.push("E4:7f000001:80,cc".into());
                let a: Vec<String> = vec!["ssudp".into(), "dg".into(), kname.into(), hex(&ukey), hex(&skey), "1".into(), now.to_string(), ops.join(";")];
                emit(w, &a);
            }
        }
    }

    // ---- 8. across kinds: one key shared by every kind of the same key length -- a datagram of one kind presented to another
    //         kind's decoder; the same (key, session id) used by several kinds in one process (the cipher cache is keyed by kind too) ----
    for n in [16usize, 32] {
        let key = rng.bytes(n);
        let kinds: Vec<&str> = KINDS.iter().copied().filter(|k| kind_of(k).1 == n).collect();
        let ids = Ids { c: rng.next(), s: rng.next(), p: 7 };
        let pl = rng.bytes(12);
        for a in &kinds {
            for mode in ["client", "server"] {
                let wire = enc_wire(a, mode, &key, now, &ids, V4S, &pl);
                if wire.is_empty() {
                    continue;
                }
                for b in &kinds {
                    if a != b {
                        dec_case_m(w, b, if mode == "client" { "server" } else { "client" }, &key, "-", "none", now, &wire, true);
                    }
                }
            }
        }
        for _ in 0..2 {
            for k in &kinds {
                if kind_of(k).2 {
                    rt_c2s(w, k, &key, "-", &key, "none", "-", now, &ids, V4S, &pl);
                    rt_s2c(w, k, &key, "-", &key, now, &ids, V4S, &pl);
                }
            }
        }
    }
}
