//! FramedRead-style drain loop shared by the stream components: append the segment, call decode until None.
use bytes::BytesMut;
use tokio_util::codec::Decoder;

use crate::canon::classify;
use crate::util::catch;

pub struct Drained {
    pub items: Vec<String>,
    pub status: String, // WAIT | ERR cls | PANIC | LIVELOCK
    pub dead: bool,
}

pub fn drain<D: Decoder<Error = anyhow::Error>>(codec: &mut D, buf: &mut BytesMut, seg: &[u8], show: impl Fn(D::Item) -> String) -> Drained {
    buf.extend_from_slice(seg);
    let mut items = Vec::new();
    let limit = buf.len() + 3;
    for round in 0..limit {
        match catch(|| codec.decode(buf)) {
            Ok(Ok(Some(it))) => items.push(show(it)),
            Ok(Ok(None)) => return Drained { items, status: "WAIT".into(), dead: false },
            Ok(Err(e)) => return Drained { items, status: format!("ERR {}", classify(&e)), dead: true },
            Err(_) => return Drained { items, status: "PANIC".into(), dead: true },
        }
        if round + 1 == limit {
            break;
        }
    }
    Drained { items, status: "LIVELOCK".into(), dead: true }
}

pub fn line(d: &Drained, rest: usize) -> String {
    if d.dead { format!("{} [{}]", d.status, d.items.join(",")) } else { format!("{} [{}] rest={}", d.status, d.items.join(","), rest) }
}
