use std::panic::{self, AssertUnwindSafe};

pub fn hex(b: &[u8]) -> String {
    if b.is_empty() {
        return "-".to_string();
    }
    let mut s = String::with_capacity(b.len() * 2);
    for x in b {
        s.push_str(&format!("{:02x}", x));
    }
    s
}
pub fn unhex(s: &str) -> Vec<u8> {
    if s == "-" || s.is_empty() {
        return Vec::new();
    }
    (0..s.len() / 2).map(|i| u8::from_str_radix(&s[2 * i..2 * i + 2], 16).expect("hex")).collect()
}

/// Run `f`, turning a panic into `Err(message)`.  The default panic hook is silenced by `quiet_panics`.
pub fn catch<T>(f: impl FnOnce() -> T) -> Result<T, String> {
    match panic::catch_unwind(AssertUnwindSafe(f)) {
        Ok(v) => Ok(v),
        Err(e) => {
            let msg = if let Some(s) = e.downcast_ref::<&str>() {
                s.to_string()
            } else if let Some(s) = e.downcast_ref::<String>() {
                s.clone()
            } else {
                "panic".to_string()
            };
            Err(msg.replace(['\t', '\n'], " "))
        }
    }
}

pub fn quiet_panics() {
    panic::set_hook(Box::new(|_| {}));
}
