//! Primitive server: one request per line "<prim> <hex> <hex> ...", answer "= <hex>" or "!" (failed open).
use std::io::{BufRead, Write};

use aes::cipher::{BlockDecrypt, BlockEncrypt, KeyInit as _};
use aes_gcm::aead::{Aead, Payload};
use sha2::Digest;
use sha3::digest::{ExtendableOutput, Update, XofReader};

use crate::util::{hex, unhex};

pub fn aead(cipher: &str, seal: bool, key: &[u8], nonce: &[u8], aad: &[u8], data: &[u8]) -> Option<Vec<u8>> {
    use aes_gcm::{Aes128Gcm, Aes256Gcm};
    use chacha20poly1305::{ChaCha8Poly1305, ChaCha20Poly1305, XChaCha8Poly1305, XChaCha20Poly1305};
    macro_rules! go {
        ($t:ty) => {{
            let c = <$t>::new_from_slice(key).ok()?;
            let p = Payload { msg: data, aad };
            if seal { c.encrypt(nonce.into(), p).ok() } else { c.decrypt(nonce.into(), p).ok() }
        }};
    }
    match cipher {
        "aes128gcm" => {
            if nonce.len() != 12 { return None; }
            go!(Aes128Gcm)
        }
        "aes256gcm" => {
            if nonce.len() != 12 { return None; }
            go!(Aes256Gcm)
        }
        "chacha20" => {
            if nonce.len() != 12 { return None; }
            go!(ChaCha20Poly1305)
        }
        "chacha8" => {
            if nonce.len() != 12 { return None; }
            go!(ChaCha8Poly1305)
        }
        "xchacha20" => {
            if nonce.len() != 24 { return None; }
            go!(XChaCha20Poly1305)
        }
        "xchacha8" => {
            if nonce.len() != 24 { return None; }
            go!(XChaCha8Poly1305)
        }
        _ => None,
    }
}

pub fn hkdf_sha1(ikm: &[u8], salt: &[u8], info: &[u8], len: usize) -> Option<Vec<u8>> {
    let hk = hkdf::Hkdf::<sha1::Sha1>::new(Some(salt), ikm);
    let mut okm = vec![0; len];
    hk.expand(info, &mut okm).ok()?;
    Some(okm)
}

pub fn aes_block(enc: bool, key: &[u8], block: &[u8]) -> Option<Vec<u8>> {
    if block.len() != 16 {
        return None;
    }
    let mut b = aes::Block::clone_from_slice(block);
    match key.len() {
        16 => {
            let c = aes::Aes128::new_from_slice(key).ok()?;
            if enc { c.encrypt_block(&mut b) } else { c.decrypt_block(&mut b) }
        }
        32 => {
            let c = aes::Aes256::new_from_slice(key).ok()?;
            if enc { c.encrypt_block(&mut b) } else { c.decrypt_block(&mut b) }
        }
        _ => return None,
    }
    Some(b.to_vec())
}

pub fn answer(line: &str) -> Option<Vec<u8>> {
    let f: Vec<&str> = line.split_whitespace().collect();
    let a = |i: usize| unhex(f.get(i).copied().unwrap_or("-"));
    match f.first().copied()? {
        "seal" => aead(f[1], true, &a(2), &a(3), &a(4), &a(5)),
        "open" => aead(f[1], false, &a(2), &a(3), &a(4), &a(5)),
        "hkdf1" => hkdf_sha1(&a(1), &a(2), &a(3), f[4].parse().ok()?),
        "b3derive" => Some(blake3::derive_key(std::str::from_utf8(&a(1)).ok()?, &a(2)).to_vec()),
        "b3hash" => Some(blake3::hash(&a(1)).as_bytes().to_vec()),
        "aesenc" => aes_block(true, &a(1), &a(2)),
        "aesdec" => aes_block(false, &a(1), &a(2)),
        "md5" => Some(md5::Md5::digest(a(1)).to_vec()),
        "sha224" => Some(sha2::Sha224::digest(a(1)).to_vec()),
        "sha256" => Some(sha2::Sha256::digest(a(1)).to_vec()),
        "shake128" => {
            let mut h = sha3::Shake128::default();
            h.update(&a(1));
            let mut r = h.finalize_xof();
            let mut out = vec![0u8; f[2].parse().ok()?];
            r.read(&mut out);
            Some(out)
        }
        "crc32" => Some(crc::Crc::<u32>::new(&crc::CRC_32_ISO_HDLC).checksum(&a(1)).to_be_bytes().to_vec()),
        _ => None,
    }
}

pub fn serve() {
    let stdin = std::io::stdin();
    let mut out = std::io::stdout().lock();
    for line in stdin.lock().lines() {
        let line = match line {
            Ok(l) => l,
            Err(_) => break,
        };
        match answer(&line) {
            Some(v) => {
                if v.is_empty() { writeln!(out, "=").unwrap() } else { writeln!(out, "= {}", hex(&v)).unwrap() }
            }
            None => writeln!(out, "!").unwrap(),
        }
        out.flush().unwrap();
    }
}
