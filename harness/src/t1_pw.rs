//! T1 for the replay window: histories of packet ids through the real PacketWindowFilter.
use std::io::Write;

use octo_squirrel::manager::packet_window::PacketWindowFilter;

use crate::rng::Rng;

const W: u64 = 8128;

fn alphabet() -> Vec<u64> {
    let mut v = vec![0u64, 1, 2, 62, 63, 64, 65, 127, 128, W - 1, W, W + 1, W + 63, W + 64, 8191, 8192, 8193, 2 * 8192, 2 * 8192 + W, 2 * 8192 + W + 1];
    v.extend([1u64 << 32, (1 << 32) + W, (1 << 32) + W + 1, 1 << 63, (1 << 63) + 8192, u64::MAX - 8192, u64::MAX - W - 1, u64::MAX - W, u64::MAX - 64, u64::MAX - 2, u64::MAX - 1, u64::MAX]);
    v
}

fn run(ids: &[u64], limit: u64) -> String {
    let mut f = PacketWindowFilter::new();
    ids.iter().map(|&id| if f.validate_packet_id(id, limit) { '1' } else { '0' }).collect()
}

/// independent direct oracle: explicit set of accepted ids (no ring, no bit tricks)
pub fn oracle(ids: &[u64], limit: u64, window: u64) -> String {
    let mut acc: Vec<u64> = Vec::new();
    let mut out = String::new();
    for &id in ids {
        let hi = acc.iter().copied().max();
        let ok = id < limit && !acc.contains(&id) && hi.is_none_or(|h| (h as u128) <= id as u128 + window as u128);
        if ok {
            acc.push(id);
        }
        out.push(if ok { '1' } else { '0' });
    }
    out
}

/// re-execute one case: fields = ["pw", limit_hex, ids_hex_csv]; returns [impl verdicts, direct-oracle verdicts]
pub fn exec(f: &[&str]) -> Vec<String> {
    let limit = u64::from_str_radix(f[1], 16).expect("limit");
    let ids: Vec<u64> = f[2].split(',').filter(|s| !s.is_empty()).map(|s| u64::from_str_radix(s, 16).expect("id")).collect();
    vec![run(&ids, limit), oracle(&ids, limit, W)]
}

fn emit(w: &mut dyn Write, ids: &[u64], limit: u64) {
    let ids_s: Vec<String> = ids.iter().map(|x| format!("{:x}", x)).collect();
    let args = vec!["pw".to_string(), format!("{:x}", limit), ids_s.join(",")];
    crate::emit_case(w, &args, exec);
}

pub fn generate(w: &mut dyn Write, seed: u64, thorough: bool) {
    let mut rng = Rng::new(seed);
    let alpha = alphabet();
    let limits = [u64::MAX, u64::MAX - (1 << 13), 1 << 40];
    // 1. exhaustive short histories over the boundary alphabet
    let depth = if thorough { 3 } else { 2 };
    let n = alpha.len();
    let mut idx = vec![0usize; depth];
    'outer: loop {
        let ids: Vec<u64> = idx.iter().map(|&i| alpha[i]).collect();
        emit(w, &ids, u64::MAX);
        let mut k = depth;
        loop {
            if k == 0 {
                break 'outer;
            }
            k -= 1;
            idx[k] += 1;
            if idx[k] < n {
                break;
            }
            idx[k] = 0;
        }
    }
    // 2. random structured histories: sweeps, reverse sweeps, jumps, duplicates, around a moving base
    let count = if thorough { 20000 } else { 1500 };
    for _ in 0..count {
        let len = rng.range(1, if thorough { 400 } else { 120 }) as usize;
        let mut base: u64 = *rng.pick(&[0u64, 0, 0, 1 << 20, u64::MAX - 40000, 1 << 63]);
        let mut ids = Vec::with_capacity(len);
        let mut seen: Vec<u64> = Vec::new();
        while ids.len() < len {
            match rng.below(10) {
                0 | 1 => {
                    // forward sweep
                    let k = rng.range(1, 70);
                    for _ in 0..k {
                        base = base.saturating_add(rng.range(1, 3));
                        ids.push(base);
                    }
                }
                2 => {
                    // reverse sweep behind base
                    let k = rng.range(1, 70);
                    for j in 0..k {
                        ids.push(base.saturating_sub(j * rng.range(1, 130)));
                    }
                }
                3 => {
                    // jump: small, around the window, around the ring, beyond the ring
                    let j = *rng.pick(&[1u64, 63, 64, 65, W - 1, W, W + 1, 8191, 8192, 8193, 20000, 1 << 30]);
                    base = base.saturating_add(j);
                    ids.push(base);
                }
                4 | 5 => {
                    // near the trailing window edge
                    let off = *rng.pick(&[W - 2, W - 1, W, W + 1, W + 2, W + 64, 8191, 8192]);
                    ids.push(base.saturating_sub(off));
                }
                6 | 7 => {
                    if let Some(&d) = seen.get(rng.below(seen.len().max(1) as u64) as usize) {
                        ids.push(d); // duplicate
                    } else {
                        ids.push(base);
                    }
                }
                8 => ids.push(alpha[rng.below(n as u64) as usize]),
                _ => ids.push(base.saturating_sub(rng.below(W + 200))),
            }
            if let Some(&l) = ids.last() {
                seen.push(l);
            }
        }
        ids.truncate(len);
        emit(w, &ids, *rng.pick(&limits));
    }
}
