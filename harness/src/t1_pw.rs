//! T1 for the replay window: histories of packet ids through the real PacketWindowFilter.
use std::io::Write;

use octo_squirrel::manager::packet_window::PacketWindowFilter;

use crate::rng::Rng;

const W: u64 = 8128;

fn alphabet() -> Vec<u64> {
    let mut v = vec![0u64, 1, 2, 62, 63, 64, 65, 127, 128, W - 1, W, W + 1, W + 63, W + 64, 8191, 8192, 8193, 2 * 8192, 2 * 8192 + W, 2 * 8192 + W + 1];
    v.extend([1u64 << 32, (1 << 32) + W, (1 << 32) + W + 1, 1 << 63, (1 << 63) + 8192, u64::MAX - 8192, u64::MAX - W - 1, u64::MAX - W, u64::MAX - 64, u64::MAX - 2, u64::MAX - 1, u64::MAX]);
    v
}

fn run(ids: &[u64], limit: u64) -> String {
    let mut f = PacketWindowFilter::new();
    ids.iter().map(|&id| if f.validate_packet_id(id, limit) { '1' } else { '0' }).collect()
}

/// independent direct oracle: explicit set of accepted ids (no ring, no bit tricks)
pub fn oracle(ids: &[u64], limit: u64, window: u64) -> String {
    // the set of accepted ids and its maximum (kept beside the set only so that histories of 20000 ids stay cheap)
    let mut acc: std::collections::HashSet<u64> = std::collections::HashSet::new();
    let mut hi: Option<u64> = None;
    let mut out = String::new();
    for &id in ids {
        let ok = id < limit && !acc.contains(&id) && hi.is_none_or(|h| (h as u128) <= id as u128 + window as u128);
        if ok {
            acc.insert(id);
            hi = Some(hi.map_or(id, |h| h.max(id)));
        }
        out.push(if ok { '1' } else { '0' });
    }
    out
}

/// re-execute one case: fields = ["pw", limit_hex, ids_hex_csv]; returns [impl verdicts, direct-oracle verdicts]
pub fn exec(f: &[&str]) -> Vec<String> {
    let limit = u64::from_str_radix(f[1], 16).expect("limit");
    let ids: Vec<u64> = f[2].split(',').filter(|s| !s.is_empty()).map(|s| u64::from_str_radix(s, 16).expect("id")).collect();
    vec![run(&ids, limit), oracle(&ids, limit, W)]
}

fn emit(w: &mut dyn Write, ids: &[u64], limit: u64) {
    let ids_s: Vec<String> = ids.iter().map(|x| format!("{:x}", x)).collect();
    let args = vec!["pw".to_string(), format!("{:x}", limit), ids_s.join(",")];
    crate::emit_case(w, &args, exec);
}

pub fn generate(w: &mut dyn Write, seed: u64, thorough: bool) {
    let mut rng = Rng::new(seed);
    let alpha = alphabet();
    let limits = [u64::MAX, u64::MAX - (1 << 13), 1 << 40];
    // 1. exhaustive short histories over the boundary alphabet
    let depth = if thorough { 3 } else { 2 };
    let n = alpha.len();
    let mut idx = vec![0usize; depth];
    'outer: loop {
        let ids: Vec<u64> = idx.iter().map(|&i| alpha[i]).collect();
        emit(w, &ids, u64::MAX);
        let mut k = depth;
        loop {
            if k == 0 {
                break 'outer;
            }
            k -= 1;
            idx[k] += 1;
            if idx[k] < n {
                break;
            }
            idx[k] = 0;
        }
    }
    // 2. random structured histories: sweeps, reverse sweeps, jumps, duplicates, around a moving base
    let count = if thorough { 20000 } else { 1500 };
    for _ in 0..count {
        let len = rng.range(1, if thorough { 400 } else { 120 }) as usize;
        let mut base: u64 = *rng.pick(&[0u64, 0, 0, 1 << 20, u64::MAX - 40000, 1 << 63]);
        let mut ids = Vec::with_capacity(len);
        let mut seen: Vec<u64> = Vec::new();
        while ids.len() < len {
            match rng.below(10) {
                0 | 1 => {
                    // forward sweep
                    let k = rng.range(1, 70);
                    for _ in 0..k {
                        base = base.saturating_add(rng.range(1, 3));
                        ids.push(base);
                    }
                }
                2 => {
                    // reverse sweep behind base
                    let k = rng.range(1, 70);
                    for j in 0..k {
                        ids.push(base.saturating_sub(j * rng.range(1, 130)));
                    }
                }
                3 => {
                    // jump: small, around the window, around the ring, beyond the ring
                    let j = *rng.pick(&[1u64, 63, 64, 65, W - 1, W, W + 1, 8191, 8192, 8193, 20000, 1 << 30]);
                    base = base.saturating_add(j);
                    ids.push(base);
                }
                4 | 5 => {
                    // near the trailing window edge
                    let off = *rng.pick(&[W - 2, W - 1, W, W + 1, W + 2, W + 64, 8191, 8192]);
                    ids.push(base.saturating_sub(off));
                }
                6 | 7 => {
                    if let Some(&d) = seen.get(rng.below(seen.len().max(1) as u64) as usize) {
                        ids.push(d); // duplicate
                    } else {
                        ids.push(base);
                    }
                }
                8 => ids.push(alpha[rng.below(n as u64) as usize]),
                _ => ids.push(base.saturating_sub(rng.below(W + 200))),
            }
            if let Some(&l) = ids.last() {
                seen.push(l);
            }
        }
        ids.truncate(len);
        emit(w, &ids, *rng.pick(&limits));
    }
    audit(w, seed, thorough);
}

/// dimensions added by the audit of seeded/audit/aud-sst.md (own Rng stream): small and boundary LIMITS, dense histories longer than
/// the window (the ring is filled and wraps while densely populated), whole-window sweeps in both directions as in the crate's own
/// unit test, shuffled windows, long random walks
fn audit(w: &mut dyn Write, seed: u64, thorough: bool) {
    let mut rng = Rng::new(seed ^ 0x9A0D_17A0_D17A_0D17);
    // 1. limits 0, 1, 2, around a block, around the window, 2^63, u64::MAX - 1: ids on both sides of the limit, in and out of order
    for limit in [0u64, 1, 2, 63, 64, 65, W - 1, W, W + 1, 8192, 8193, 1 << 63, u64::MAX - 1, u64::MAX] {
        let around: Vec<u64> = [limit.saturating_sub(2), limit.saturating_sub(1), limit, limit.saturating_add(1), limit.saturating_add(2), 0, 1, limit / 2, u64::MAX]
            .iter()
            .copied()
            .collect();
        emit(w, &around, limit);
        let mut rev = around.clone();
        rev.reverse();
        emit(w, &rev, limit);
        for _ in 0..(if thorough { 20 } else { 4 }) {
            let ids: Vec<u64> = (0..rng.range(3, 30)).map(|_| if rng.chance(1, 3) { *rng.pick(&around) } else { limit.saturating_sub(rng.below(W + 300)).saturating_add(rng.below(4)) }).collect();
            emit(w, &ids, limit);
        }
    }
    // 2. whole-window sweeps (the bulk tests of packet_window.rs, from a fresh filter), at the bottom and at the top of the id space
    let top = u64::MAX - 3 * W;
    for base in [0u64, 1 << 33, top] {
        let up = |a: u64, b: u64| -> Vec<u64> { (a..=b).map(|i| base + i).collect() };
        let down = |a: u64, b: u64| -> Vec<u64> { (a..=b).rev().map(|i| base + i).collect() };
        let mut h: Vec<Vec<u64>> = Vec::new();
        h.push([up(1, W), vec![base, base]].concat());
        h.push([up(2, W + 1), vec![base + 1, base]].concat());
        h.push(down(1, W + 1));
        h.push([down(2, W + 2), vec![base]].concat());
        h.push([down(1, W), vec![base + W + 1, base]].concat());
        h.push([down(1, W), vec![base, base + W + 1]].concat());
        // forward over more than two rings, then every id once more backwards (all duplicates or stale)
        h.push([up(0, 2 * 8192 + 70), down(2 * 8192 + 70 - W - 3, 2 * 8192 + 70)].concat());
        // every second id forward, then the gaps backwards (accepted while within the window)
        h.push([(0..=W + 200).step_by(2).map(|i| base + i).collect::<Vec<u64>>(), (1..=W + 200).rev().step_by(2).map(|i| base + i).collect::<Vec<u64>>()].concat());
        if !thorough && base != 0 {
            h.truncate(4);
        }
        for ids in h {
            emit(w, &ids, u64::MAX);
        }
    }
    // 3. a window's worth of ids in random order, followed by a second pass (all duplicates), followed by a jump and stragglers
    for _ in 0..(if thorough { 30 } else { 4 }) {
        let base = *rng.pick(&[0u64, 1 << 20, u64::MAX - 40000]);
        let span = *rng.pick(&[W - 1, W, W + 1, 8192, 9000]);
        let mut ids: Vec<u64> = (0..span).map(|i| base + i).collect();
        for i in (1..ids.len()).rev() {
            let j = rng.below(i as u64 + 1) as usize;
            ids.swap(i, j);
        }
        let again: Vec<u64> = (0..200).map(|_| *rng.pick(&ids)).collect();
        ids.extend(again);
        let jump = base + span + *rng.pick(&[1u64, 63, 64, W, 8192, 8193, 20000]);
        ids.push(jump);
        for _ in 0..100 {
            ids.push(jump.saturating_sub(rng.below(W + 200)));
        }
        emit(w, &ids, u64::MAX);
    }
    // 4. long random walks (thousands of steps): slow drift with reordering, as a real flow produces
    for _ in 0..(if thorough { 40 } else { 6 }) {
        let mut base = *rng.pick(&[0u64, 1 << 40, u64::MAX - 200000]);
        let len = rng.range(2000, if thorough { 20000 } else { 6000 });
        let mut ids = Vec::with_capacity(len as usize);
        for _ in 0..len {
            base = base.saturating_add(rng.below(3));
            let id = match rng.below(20) {
                0 => base.saturating_sub(rng.below(W + 50)),
                1 => base.saturating_add(rng.below(64)),
                2 | 3 => base.saturating_sub(rng.below(64)),
                _ => base,
            };
            ids.push(id);
        }
        emit(w, &ids, *rng.pick(&[u64::MAX, u64::MAX - (1 << 13)]));
    }
}
