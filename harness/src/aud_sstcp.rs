//! Dimension audit of the `sstcp` generator (table: seeded/audit/aud-sst.md): cases for every dimension the original
//! generator of t1_sstcp.rs did not vary.  Same case format and ops as t1_sstcp.rs; every random choice comes from an Rng
//! derived from the seed (a stream of its own, so the original cases of a seed are unchanged).
//!
//! Streams are CRAFTED here from the published layouts with the primitive oracle (crate::prims), unit by unit
//! (salt [+identity header + fixed header], variable header, sealed length, sealed payload, ...), so that chunk boundaries
//! are known and chunkings the implementation's own encoder never produces can be presented to its decoder.
use std::io::Write;

use crate::prims;
use crate::rng::Rng;
use crate::t1_sstcp::{Craft, KINDS, exec, kind_of};
use crate::util::{hex, unhex};

fn nonce_le(k: u64) -> Vec<u8> {
    let mut n = vec![0u8; 12];
    n[..8].copy_from_slice(&k.to_le_bytes());
    n
}
fn klen(cipher: &str) -> usize {
    if cipher == "aes128gcm" { 16 } else { 32 }
}

/// the sending half of a chunk stream: AEAD under one sub key, nonce = little-endian counter from 0
pub struct Sealer {
    cipher: String,
    key: Vec<u8>,
    ctr: u64,
}
impl Sealer {
    pub fn new(cipher: &str, key: &[u8]) -> Self {
        Sealer { cipher: cipher.to_string(), key: key[..klen(cipher)].to_vec(), ctr: 0 }
    }
    pub fn seal(&mut self, pt: &[u8]) -> Vec<u8> {
        let r = prims::aead(&self.cipher, true, &self.key, &nonce_le(self.ctr), &[], pt).unwrap();
        self.ctr += 1;
        r
    }
    /// one chunk = two units: the sealed length field (as declared) and the sealed payload
    pub fn chunk(&mut self, declared: u16, pt: &[u8]) -> [Vec<u8>; 2] {
        let a = self.seal(&declared.to_be_bytes());
        let b = self.seal(pt);
        [a, b]
    }
}
fn legacy_subkey(cipher: &str, key: &[u8], salt: &[u8]) -> Vec<u8> {
    prims::hkdf_sha1(key, salt, b"ss-subkey", salt.len()).unwrap()[..klen(cipher)].to_vec()
}
fn subkey_2022(cipher: &str, key: &[u8], salt: &[u8]) -> Vec<u8> {
    Craft { cipher, key, n: key.len() }.subkey(salt)
}
/// aead_2022 stream identity header: AES(identity_subkey(server key, salt), blake3(user key)[..16])
fn tcp_eih(cipher: &str, server_key: &[u8], salt: &[u8], user_key: &[u8]) -> Vec<u8> {
    let isk = blake3::derive_key("shadowsocks 2022 identity subkey", &[server_key, salt].concat());
    prims::aes_block(true, &isk[..klen(cipher)], &blake3::hash(user_key).as_bytes()[..16]).unwrap()
}
fn uhash(k: &[u8]) -> String {
    hex(&blake3::hash(k).as_bytes()[..16])
}
fn table(us: &[Vec<u8>]) -> String {
    if us.is_empty() { "-".into() } else { us.iter().map(|k| format!("{}:{}", uhash(k), hex(k))).collect::<Vec<_>>().join(",") }
}

/// a crafted stream: units (delivery / tampering granularity) and the bytes the receiver must release
#[derive(Clone)]
pub struct Stream {
    pub units: Vec<Vec<u8>>,
    pub payload: Vec<u8>,
}
impl Stream {
    pub fn wire(&self) -> Vec<u8> {
        self.units.concat()
    }
}

pub struct Req<'a> {
    pub kname: &'a str,
    pub server_key: &'a [u8],        // key of the identity header (2022 multi-user) -- the server's own key
    pub body_key: &'a [u8],          // key of the session sub key: the user's key, or the server key
    pub eih_for: Option<&'a [u8]>,   // Some(user key): an identity header naming that key stands after the salt
    pub salt: &'a [u8],
    pub ts: u64,
    pub addr: &'a [u8],              // SOCKS5-style address bytes
}
impl Req<'_> {
    /// request stream: `first` travels with the address (2022: in the variable header, padding 0 unless `pad`), `more` = one chunk each;
    /// `split_addr` (legacy only): the address's first k bytes go into a chunk of their own
    pub fn build(&self, first: &[u8], pad: &[u8], more: &[Vec<u8>], split_addr: Option<usize>) -> Stream {
        let (_, _, is22, cipher) = kind_of(self.kname);
        let mut units = Vec::new();
        let mut payload = first.to_vec();
        if is22 {
            let mut s = Sealer::new(cipher, &subkey_2022(cipher, self.body_key, self.salt));
            let mut var = self.addr.to_vec();
            var.extend_from_slice(&(pad.len() as u16).to_be_bytes());
            var.extend_from_slice(pad);
            var.extend_from_slice(first);
            let mut fixed = vec![0u8];
            fixed.extend_from_slice(&self.ts.to_be_bytes());
            fixed.extend_from_slice(&(var.len() as u16).to_be_bytes());
            let mut u0 = self.salt.to_vec();
            if let Some(uk) = self.eih_for {
                u0.extend_from_slice(&tcp_eih(cipher, self.server_key, self.salt, uk));
            }
            u0.extend_from_slice(&s.seal(&fixed));
            units.push(u0);
            units.push(s.seal(&var));
            for m in more {
                units.extend(s.chunk(m.len() as u16, m));
                payload.extend_from_slice(m);
            }
        } else {
            let mut s = Sealer::new(cipher, &legacy_subkey(cipher, self.body_key, self.salt));
            units.push(self.salt.to_vec());
            let mut firstpt = self.addr.to_vec();
            if let Some(k) = split_addr {
                let head: Vec<u8> = firstpt.drain(..k).collect();
                units.extend(s.chunk(head.len() as u16, &head));
            }
            firstpt.extend_from_slice(first);
            units.extend(s.chunk(firstpt.len() as u16, &firstpt));
            for m in more {
                units.extend(s.chunk(m.len() as u16, m));
                payload.extend_from_slice(m);
            }
        }
        Stream { units, payload }
    }
}
/// response stream of a server with own salt `salt`, bound to `req_salt` (2022)
pub fn resp_stream(kname: &str, key: &[u8], salt: &[u8], ts: u64, req_salt: &[u8], first: &[u8], more: &[Vec<u8>]) -> Stream {
    let (_, _, is22, cipher) = kind_of(kname);
    let mut units = Vec::new();
    let mut payload = first.to_vec();
    let mut s;
    if is22 {
        s = Sealer::new(cipher, &subkey_2022(cipher, key, salt));
        let mut fixed = vec![1u8];
        fixed.extend_from_slice(&ts.to_be_bytes());
        fixed.extend_from_slice(req_salt);
        fixed.extend_from_slice(&(first.len() as u16).to_be_bytes());
        let mut u0 = salt.to_vec();
        u0.extend_from_slice(&s.seal(&fixed));
        units.push(u0);
        units.push(s.seal(first));
    } else {
        s = Sealer::new(cipher, &legacy_subkey(cipher, key, salt));
        units.push(salt.to_vec());
        units.extend(s.chunk(first.len() as u16, first));
    }
    for m in more {
        units.extend(s.chunk(m.len() as u16, m));
        payload.extend_from_slice(m);
    }
    Stream { units, payload }
}

const V4: [u8; 7] = [1, 127, 0, 0, 1, 0, 80];
const V4S: &str = "4:7f000001:80";

struct Gen<'a> {
    w: &'a mut dyn Write,
    rng: Rng,
    now: i64,
    thorough: bool,
    seed: u64,
}
impl Gen<'_> {
    fn srv(&mut self, kname: &str, key: &[u8], users: &str, ops: String, meta: &str) -> String {
        let (_, n, _, _) = kind_of(kname);
        let a: Vec<String> = vec!["sstcp".into(), kname.into(), hex(key), "-".into(), users.into(), "server".into(), hex(&self.rng.bytes(n)), "-".into(), self.now.to_string(), ops, meta.into()];
        let f: Vec<&str> = a.iter().map(|s| s.as_str()).collect();
        let r = exec(&f);
        writeln!(self.w, "{}\t=>\t{}", a.join("\t"), r.join("\t")).unwrap();
        r[0].clone()
    }
    fn cli(&mut self, kname: &str, key: &[u8], ikeys: &str, salt: &[u8], addr: &str, ops: String, meta: &str) -> String {
        let a: Vec<String> = vec!["sstcp".into(), kname.into(), hex(key), ikeys.into(), "none".into(), "client".into(), hex(salt), addr.into(), self.now.to_string(), ops, meta.into()];
        let f: Vec<&str> = a.iter().map(|s| s.as_str()).collect();
        let r = exec(&f);
        writeln!(self.w, "{}\t=>\t{}", a.join("\t"), r.join("\t")).unwrap();
        r[0].clone()
    }
}
fn d_units(units: &[Vec<u8>]) -> String {
    units.iter().filter(|u| !u.is_empty()).map(|u| format!("D{}", hex(u))).collect::<Vec<_>>().join(";")
}
fn oks(result: &str) -> Vec<Vec<u8>> {
    result.split(" | ").filter_map(|x| x.strip_prefix("OK ")).map(unhex).collect()
}
fn xmeta(b: &[u8]) -> String {
    format!("@x={}", hex(b))
}
fn pmeta(b: &[u8]) -> String {
    format!("@p={}", hex(b))
}

/// chunk-level edits of a unit list (unit 0 = salt [+ heads] stays in front unless stated): deletion, duplication, swap, replacement by the
/// same unit of another session, insertion of random bytes, splice of another session's tail, a unit moved to the front
fn unit_edits(rng: &mut Rng, units: &[Vec<u8>], other: &[Vec<u8>]) -> Vec<Vec<u8>> {
    let mut v = Vec::new();
    let k = units.len();
    for i in 0..k {
        let mut d = units.to_vec();
        d.remove(i);
        v.push(d.concat());
        let mut d = units.to_vec();
        d.insert(i, units[i].clone());
        v.push(d.concat());
        if i + 1 < k {
            let mut d = units.to_vec();
            d.swap(i, i + 1);
            v.push(d.concat());
        }
        if i < other.len() && other[i] != units[i] {
            let mut d = units.to_vec();
            d[i] = other[i].clone();
            v.push(d.concat());
            // this session up to unit i, the other session from unit i on (i = 0 would be the other session's own, valid, stream)
            if i > 0 {
                let mut d = units[..i].to_vec();
                d.extend_from_slice(&other[i..]);
                v.push(d.concat());
            }
        }
        let mut d = units.to_vec();
        d.insert(i, rng.bytes(units[i].len().max(1)));
        v.push(d.concat());
        if i >= 2 {
            let mut d = units.to_vec();
            let u = d.remove(i);
            d.insert(1, u);
            v.push(d.concat());
        }
    }
    v
}

pub fn generate(w: &mut dyn Write, seed: u64, thorough: bool) {
    let mut g = Gen { w, rng: Rng::new(seed ^ 0xA0D1_7A0D_17A0_D17A), now: 1_790_000_000, thorough, seed };
    for kname in KINDS {
        sizes(&mut g, kname);
        many_writes(&mut g, kname);
        chunkings(&mut g, kname);
        chunk_tamper(&mut g, kname);
        one_bit_keys(&mut g, kname);
        user_shapes(&mut g, kname);
        crafted_heads(&mut g, kname);
        replays(&mut g, kname);
        clock_moves(&mut g, kname);
        interleaved_distinct(&mut g, kname);
        addresses(&mut g, kname);
    }
}

// ---- 1. write sizes at and around every limit of the encoder; empty writes ----
fn sizes(g: &mut Gen, kname: &str) {
    let (_, n, is22, _) = kind_of(kname);
    let key = g.rng.bytes(n);
    let lim: i64 = if is22 { 0xffff - 16 - 18 } else { 0x3fff - 16 - 18 };
    // first write of a client: 2022 = address(7) + padding length(2) + payload fill the 0xffff variable header; legacy = address + payload fill one chunk
    let first_cap: i64 = if is22 { 0xffff - 7 - 2 } else { lim - 7 };
    let rfirst_cap: i64 = if is22 { 0xffff } else { lim };
    // the limits depend on the edition only (ChunkEncoder::new(0x3fff | 0xffff)), not on the cipher: the quick tier sweeps them for one
    // legacy and one 2022 kind, chosen by the seed (these are the only large cases of this file); thorough: every kind
    let idx = KINDS.iter().position(|k| *k == kname).unwrap();
    let chosen = if is22 { 3 + (g.seed % 4) as usize } else { (g.seed % 3) as usize };
    let deltas: &[i64] = if g.thorough || idx == chosen { &[-1, 0, 1] } else { &[] };
    for &d in deltas {
        let big = if d == 0 && (!is22 || g.thorough) { (2 * lim + 1) as usize } else { 2 };
        let writes: Vec<Vec<u8>> = vec![g.rng.bytes((first_cap + d) as usize), g.rng.bytes((lim + d) as usize), vec![], g.rng.bytes(1), g.rng.bytes(big)];
        let csalt = g.rng.bytes(n);
        let eops = writes.iter().map(|x| format!("E{}", hex(x))).collect::<Vec<_>>().join(";");
        let r = g.cli(kname, &key, "-", &csalt, V4S, eops, "@-");
        let wires = oks(&r);
        if wires.len() != writes.len() {
            continue;
        }
        let req = wires.concat();
        let all = writes.concat();
        let rwrites: Vec<Vec<u8>> = vec![g.rng.bytes((rfirst_cap + d) as usize), vec![], g.rng.bytes(1), g.rng.bytes((lim + d) as usize)];
        let mut ops = format!("D{}", hex(&req));
        for x in &rwrites {
            ops.push_str(&format!(";E{}", hex(x)));
        }
        let r = g.srv(kname, &key, "none", ops, &xmeta(&all));
        // the same request cut one byte before / at / after the end of the first write's bytes (a chunk boundary)
        for c in [wires[0].len() - 1, wires[0].len(), wires[0].len() + 1] {
            if d == 0 || c == wires[0].len() {
                g.srv(kname, &key, "none", format!("D{};D{}", hex(&req[..c]), hex(&req[c..])), &xmeta(&all));
            }
        }
        let resp = oks(&r).concat();
        if !resp.is_empty() {
            g.cli(kname, &key, "-", &csalt, V4S, format!("D{}", hex(&resp)), &xmeta(&rwrites.concat()));
        }
    }
    // a legacy client whose first write is empty: the address travels alone; then an empty write in the middle of a stream
    if !is22 {
        let csalt = g.rng.bytes(n);
        let r = g.cli(kname, &key, "-", &csalt, V4S, "E-;Eaabb;E-;Ecc".into(), "@-");
        let wires = oks(&r);
        if wires.len() == 4 {
            g.srv(kname, &key, "none", format!("D{};D{}", hex(&wires[0]), hex(&wires[1..].concat())), "@x=aabbcc");
            g.srv(kname, &key, "none", format!("D{}", hex(&wires.concat())), "@x=aabbcc");
        }
    }
    // a server that writes before it has read anything (no request salt to echo): status and bytes compared with the model
    g.srv(kname, &key, "none", "Eaabb;Ecc".into(), "@-");
}

// ---- 2. several hundred writes on one connection: the nonce counter carries into its second byte ----
fn many_writes(g: &mut Gen, kname: &str) {
    let (_, n, _, _) = kind_of(kname);
    let key = g.rng.bytes(n);
    let count = if g.thorough { 700 } else { 300 };
    let writes: Vec<Vec<u8>> = (0..count).map(|i| g.rng.bytes(if i % 97 == 5 { 3 } else { 1 })).collect();
    let csalt = g.rng.bytes(n);
    let eops = writes.iter().map(|x| format!("E{}", hex(x))).collect::<Vec<_>>().join(";");
    let r = g.cli(kname, &key, "-", &csalt, V4S, eops, "@-");
    let wires = oks(&r);
    if wires.len() != writes.len() {
        return;
    }
    let req = wires.concat();
    let all = writes.concat();
    g.srv(kname, &key, "none", format!("D{}", hex(&req)), &xmeta(&all));
    let (a, b) = (g.rng.range(100, req.len() as u64 / 2) as usize, g.rng.range(req.len() as u64 / 2 + 1, req.len() as u64 - 1) as usize);
    g.srv(kname, &key, "none", format!("D{};D{};D{}", hex(&req[..a]), hex(&req[a..b]), hex(&req[b..])), &xmeta(&all));
    // the server answers with as many writes; the client reads them
    let rw: Vec<Vec<u8>> = (0..count).map(|_| g.rng.bytes(1)).collect();
    let mut ops = format!("D{}", hex(&req));
    for x in &rw {
        ops.push_str(&format!(";E{}", hex(x)));
    }
    let r = g.srv(kname, &key, "none", ops, &xmeta(&all));
    let resp = oks(&r).concat();
    if !resp.is_empty() {
        g.cli(kname, &key, "-", &csalt, V4S, format!("Eaa;D{}", hex(&resp)), &xmeta(&rw.concat()));
        // a late bit flip (after the counter has carried): only a prefix may be released
        for _ in 0..4 {
            let mut m = resp.clone();
            let bit = g.rng.range((resp.len() * 8 * 3 / 4) as u64, (resp.len() * 8 - 1) as u64) as usize;
            m[bit / 8] ^= 1 << (bit % 8);
            g.cli(kname, &key, "-", &csalt, V4S, format!("Eaa;D{}", hex(&m)), &pmeta(&rw.concat()));
        }
    }
}

// ---- 3. chunkings only another implementation produces: the address spread over several chunks (legacy), empty chunks,
//         one-byte chunks, declared lengths at and beyond the sender limit of the specification ----
fn chunkings(g: &mut Gen, kname: &str) {
    let (_, n, is22, cipher) = kind_of(kname);
    let key = g.rng.bytes(n);
    let now = g.now as u64;
    let dom: Vec<u8> = [&[3u8, 11][..], b"example.com", &[1, 187]].concat();
    let v6: Vec<u8> = [&[4u8][..], &[0x20, 1, 0xd, 0xb8, 0, 0, 0, 0, 0, 0, 0, 0, 0, 0, 0, 1], &[0x1f, 0x90]].concat();
    if !is22 {
        for addr in [&V4[..], &dom[..], &v6[..]] {
            for k in 0..=addr.len() {
                if !g.thorough && addr.len() > 7 && k % 3 != 0 && k != 1 && k != 2 && k != addr.len() - 1 {
                    continue;
                }
                let salt = g.rng.bytes(n);
                let first = g.rng.bytes(5);
                let st = Req { kname, server_key: &key, body_key: &key, eih_for: None, salt: &salt, ts: now, addr }.build(&first, &[], &[g.rng.bytes(3)], Some(k));
                g.srv(kname, &key, "none", format!("D{}", hex(&st.wire())), &xmeta(&st.payload));
                g.srv(kname, &key, "none", d_units(&st.units), &xmeta(&st.payload));
            }
            // every address byte in a chunk of its own, then the payload byte by byte in chunks of one byte
            let salt = g.rng.bytes(n);
            let mut s = Sealer::new(cipher, &legacy_subkey(cipher, &key, &salt));
            let mut units = vec![salt.clone()];
            let pay = g.rng.bytes(4);
            for b in addr.iter().chain(pay.iter()) {
                units.extend(s.chunk(1, &[*b]));
            }
            g.srv(kname, &key, "none", format!("D{}", hex(&units.concat())), &xmeta(&pay));
            g.srv(kname, &key, "none", d_units(&units), &xmeta(&pay));
        }
    }
    if !is22 {
        // authenticated but malformed request plaintext (legacy: the stream starts with the address): garbage of every length 0..=24
        // behind each address type byte and behind unknown ones, alone and followed by a further chunk
        for l in 0..=24usize {
            let mut pt = g.rng.bytes(l);
            if l > 0 {
                pt[0] = *g.rng.pick(&[1u8, 3, 4, 1, 3, 4, 0, 9, 255]);
            }
            let salt = g.rng.bytes(n);
            let mut s = Sealer::new(cipher, &legacy_subkey(cipher, &key, &salt));
            let mut units = vec![salt.clone()];
            units.extend(s.chunk(l as u16, &pt));
            g.srv(kname, &key, "none", format!("D{}", hex(&units.concat())), "@-");
            units.extend(s.chunk(3, &g.rng.bytes(3)));
            g.srv(kname, &key, "none", format!("D{}", hex(&units.concat())), "@-");
        }
    }
    // empty chunks before, between and after payload chunks; request and response
    let salt = g.rng.bytes(n);
    let more = vec![vec![], g.rng.bytes(2), vec![], vec![], g.rng.bytes(1), vec![]];
    let st = Req { kname, server_key: &key, body_key: &key, eih_for: None, salt: &salt, ts: now, addr: &V4 }.build(&g.rng.bytes(3), &[], &more, if is22 { None } else { Some(0) });
    g.srv(kname, &key, "none", format!("D{}", hex(&st.wire())), &xmeta(&st.payload));
    g.srv(kname, &key, "none", d_units(&st.units), &xmeta(&st.payload));
    let csalt = g.rng.bytes(n);
    let rs = resp_stream(kname, &key, &g.rng.bytes(n), now, &csalt, &[], &more);
    g.cli(kname, &key, "-", &csalt, V4S, format!("Eaa;D{}", hex(&rs.wire())), &xmeta(&rs.payload));
    g.cli(kname, &key, "-", &csalt, V4S, format!("Eaa;{}", d_units(&rs.units)), &xmeta(&rs.payload));
    // target speaks first: the client has sent only its header (empty first write, random padding), then reads
    if is22 {
        let rs = resp_stream(kname, &key, &g.rng.bytes(n), now, &csalt, b"220 ready\r\n", &[g.rng.bytes(9)]);
        g.cli(kname, &key, "-", &csalt, V4S, format!("e-;D{}", hex(&rs.wire())), &xmeta(&rs.payload));
        g.cli(kname, &key, "-", &csalt, V4S, format!("D{};e-", hex(&rs.wire())), &xmeta(&rs.payload));
    }
    // declared chunk lengths: the largest a sender may use, one more, the largest the field can hold
    let lens: &[usize] = if is22 { &[0xffff] } else { &[0x3fff, 0x4000, 0xffff] };
    let idx = KINDS.iter().position(|k| *k == kname).unwrap();
    let chosen = g.thorough || idx == if is22 { 3 + (g.seed % 4) as usize } else { (g.seed % 3) as usize };
    for &l in lens {
        if l == 0xffff && !chosen {
            continue; // 64 KiB chunks: quick tier = one kind per edition (chosen by the seed)
        }
        let salt = g.rng.bytes(n);
        let big = g.rng.bytes(l);
        let st = Req { kname, server_key: &key, body_key: &key, eih_for: None, salt: &salt, ts: now, addr: &V4 }.build(&g.rng.bytes(2), &[], &[big.clone(), g.rng.bytes(1)], None);
        let legal = is22 || l <= 0x3fff;
        g.srv(kname, &key, "none", format!("D{}", hex(&st.wire())), &if legal { xmeta(&st.payload) } else { pmeta(&st.payload) });
        let rs = resp_stream(kname, &key, &g.rng.bytes(n), now, &csalt, &g.rng.bytes(1), &[big, g.rng.bytes(1)]);
        g.cli(kname, &key, "-", &csalt, V4S, format!("D{}", hex(&rs.wire())), &if legal { xmeta(&rs.payload) } else { pmeta(&rs.payload) });
    }
    // a length field that lies: declared one less / one more than the sealed payload that follows (authenticated, inconsistent)
    for delta in [-1i32, 1] {
        let salt = g.rng.bytes(n);
        let sk = if is22 { subkey_2022(cipher, &key, &salt) } else { legacy_subkey(cipher, &key, &salt) };
        let mut st = Req { kname, server_key: &key, body_key: &key, eih_for: None, salt: &salt, ts: now, addr: &V4 }.build(&g.rng.bytes(2), &[], &[g.rng.bytes(6)], None);
        let mut s = Sealer::new(cipher, &sk);
        s.ctr = 2; // the units of the first chunk / the two headers are sealed with nonces 0 and 1
        let pl = g.rng.bytes(6);
        let k = st.units.len();
        let c = s.chunk((6 + delta) as u16, &pl);
        st.units[k - 2] = c[0].clone();
        st.units[k - 1] = c[1].clone();
        let mut w = st.wire();
        w.extend_from_slice(&g.rng.bytes(40));
        let first_only = st.payload[..2].to_vec();
        g.srv(kname, &key, "none", format!("D{}", hex(&w)), &pmeta(&first_only));
    }
}

// ---- 4. chunk-level tampering (deletion, duplication, swap, splice, insertion) in both directions; bit flips and
//         truncations of the RESPONSE direction ----
fn chunk_tamper(g: &mut Gen, kname: &str) {
    let (_, n, _, _) = kind_of(kname);
    let key = g.rng.bytes(n);
    let now = g.now as u64;
    let mk_req = |g: &mut Gen| {
        let salt = g.rng.bytes(n);
        let more: Vec<Vec<u8>> = vec![g.rng.bytes(1), g.rng.bytes(2), g.rng.bytes(20), g.rng.bytes(2)];
        Req { kname, server_key: &key, body_key: &key, eih_for: None, salt: &salt, ts: now, addr: &V4 }.build(&g.rng.bytes(4), &[], &more, None)
    };
    let (a, b) = (mk_req(g), mk_req(g));
    g.srv(kname, &key, "none", format!("D{}", hex(&a.wire())), &xmeta(&a.payload));
    let edits = unit_edits(&mut g.rng, &a.units, &b.units);
    for (i, m) in edits.iter().enumerate() {
        g.srv(kname, &key, "none", format!("D{}", hex(m)), &pmeta(&a.payload));
        if i % 5 == 0 && m.len() > 60 {
            // the same edit arriving in two reads
            let c = g.rng.range(40, m.len() as u64 - 1) as usize;
            g.srv(kname, &key, "none", format!("D{};D{}", hex(&m[..c]), hex(&m[c..])), &pmeta(&a.payload));
        }
    }
    let csalt = g.rng.bytes(n);
    let mk_resp = |g: &mut Gen| {
        let more: Vec<Vec<u8>> = vec![g.rng.bytes(1), g.rng.bytes(2), g.rng.bytes(20), g.rng.bytes(2)];
        resp_stream(kname, &key, &g.rng.bytes(n), now, &csalt, &g.rng.bytes(4), &more)
    };
    let (ra, rb) = (mk_resp(g), mk_resp(g));
    g.cli(kname, &key, "-", &csalt, V4S, format!("Eaa;D{}", hex(&ra.wire())), &xmeta(&ra.payload));
    for m in unit_edits(&mut g.rng, &ra.units, &rb.units) {
        g.cli(kname, &key, "-", &csalt, V4S, format!("Eaa;D{}", hex(&m)), &pmeta(&ra.payload));
    }
    // response direction: bit flips (sampled; thorough: every bit) and truncations
    let rw = ra.wire();
    let nbits = rw.len() * 8;
    let flips: Vec<usize> = if g.thorough { (0..nbits).collect() } else { (0..80).map(|_| g.rng.below(nbits as u64) as usize).collect() };
    for bit in flips {
        let mut m = rw.clone();
        m[bit / 8] ^= 1 << (bit % 8);
        g.cli(kname, &key, "-", &csalt, V4S, format!("Eaa;D{}", hex(&m)), &pmeta(&ra.payload));
    }
    for cut in (0..rw.len()).step_by(if g.thorough { 1 } else { 4 }) {
        g.cli(kname, &key, "-", &csalt, V4S, format!("Eaa;D{}", hex(&rw[..cut])), &pmeta(&ra.payload));
    }
    // cross direction: a response presented to a server, and (user_shapes) to a multi-user server.  Legacy streams carry no
    // direction: there the model alone decides (the bytes open, the "address" is whatever the response starts with)
    let (_, _, is22, _) = kind_of(kname);
    g.srv(kname, &key, "none", format!("D{}", hex(&rw)), if is22 { "@n" } else { "@-" });
}

// ---- 5. a credential that differs in ONE bit ----
fn one_bit_keys(g: &mut Gen, kname: &str) {
    let (_, n, _, _) = kind_of(kname);
    let key = g.rng.bytes(n);
    let now = g.now as u64;
    let bits: Vec<usize> = if g.thorough { (0..n * 8).collect() } else { (0..16).map(|_| g.rng.below((n * 8) as u64) as usize).collect() };
    let salt = g.rng.bytes(n);
    let st = Req { kname, server_key: &key, body_key: &key, eih_for: None, salt: &salt, ts: now, addr: &V4 }.build(b"GET / HTTP/1.1\r\n\r\n", &[], &[g.rng.bytes(9)], None);
    let csalt = g.rng.bytes(n);
    let rs = resp_stream(kname, &key, &g.rng.bytes(n), now, &csalt, b"HTTP/1.1 200 OK\r\n", &[g.rng.bytes(9)]);
    for bit in bits {
        let mut k2 = key.clone();
        k2[bit / 8] ^= 1 << (bit % 8);
        g.srv(kname, &k2, "none", format!("D{}", hex(&st.wire())), "@n");
        g.cli(kname, &k2, "-", &csalt, V4S, format!("Eaa;D{}", hex(&rs.wire())), "@n");
    }
}

// ---- 6. user tables: empty manager, 1 / 2 / 5 users, the client being the first / a middle / the last user; tables and identity keys
//         on kinds without identity headers; cross-user and one-bit-different user credentials; identity chains at a one-level server ----
fn user_shapes(g: &mut Gen, kname: &str) {
    let (_, n, _, _) = kind_of(kname);
    let eih = kname == "22a128" || kname == "22a256";
    let key = g.rng.bytes(n);
    let now = g.now as u64;
    // an empty user manager (what the real server always has when no user is configured)
    {
        let salt = g.rng.bytes(n);
        let st = Req { kname, server_key: &key, body_key: &key, eih_for: None, salt: &salt, ts: now, addr: &V4 }.build(b"hello", &[], &[g.rng.bytes(3)], None);
        let r = g.srv(kname, &key, "-", format!("D{};Eaabb", hex(&st.wire())), &xmeta(&st.payload));
        let resp = oks(&r).concat();
        if !resp.is_empty() {
            g.cli(kname, &key, "-", &salt, V4S, format!("D{}", hex(&resp)), "@x=aabb");
        }
    }
    if !eih {
        // a user table / identity keys where the kind has no identity header: both are ignored, the server key alone decides
        let us: Vec<Vec<u8>> = (0..2).map(|_| g.rng.bytes(n)).collect();
        let salt = g.rng.bytes(n);
        let st = Req { kname, server_key: &key, body_key: &key, eih_for: None, salt: &salt, ts: now, addr: &V4 }.build(b"hello", &[], &[], None);
        g.srv(kname, &key, &table(&us), format!("D{}", hex(&st.wire())), &xmeta(&st.payload));
        // a user's key alone does not open the server
        let st = Req { kname, server_key: &key, body_key: &us[0], eih_for: None, salt: &g.rng.bytes(n), ts: now, addr: &V4 }.build(b"hello", &[], &[], None);
        g.srv(kname, &key, &table(&us), format!("D{}", hex(&st.wire())), "@n");
        let csalt = g.rng.bytes(n);
        let r = g.cli(kname, &key, &format!("{},{}", hex(&us[0]), hex(&us[1])), &csalt, V4S, "Eaabb;Ecc".into(), "@-");
        let wires = oks(&r);
        if wires.len() == 2 {
            g.srv(kname, &key, "none", format!("D{}", hex(&wires.concat())), "@x=aabbcc");
        }
        return;
    }
    for size in [1usize, 2, 5] {
        let us: Vec<Vec<u8>> = (0..size).map(|_| g.rng.bytes(n)).collect();
        let tab = table(&us);
        let mut pos = vec![0usize, size / 2, size - 1];
        pos.dedup();
        for &p in &pos {
            // the implementation's own client as user p (identity key = server key), two writes; the server answers under that user's key
            let csalt = g.rng.bytes(n);
            let w1 = g.rng.bytes(6);
            let r = g.cli(kname, &us[p], &hex(&key), &csalt, V4S, format!("E{};Ebb", hex(&w1)), "@-");
            let wires = oks(&r);
            if wires.len() != 2 {
                continue;
            }
            let all = [&w1[..], &[0xbb]].concat();
            let r = g.srv(kname, &key, &tab, format!("D{};Ecafe", hex(&wires.concat())), &xmeta(&all));
            let resp = oks(&r).concat();
            if resp.is_empty() {
                continue;
            }
            g.cli(kname, &us[p], &hex(&key), &csalt, V4S, format!("D{}", hex(&resp)), "@x=cafe");
            // the answer made for user p is not readable by any other user of the table (same request salt), nor under the server key
            for (q, other) in us.iter().enumerate() {
                if q != p {
                    g.cli(kname, other, &hex(&key), &csalt, V4S, format!("D{}", hex(&resp)), "@n");
                }
            }
            g.cli(kname, &key, "-", &csalt, V4S, format!("D{}", hex(&resp)), "@n");
        }
        // cross-user: identity header of user a, request sealed under user b's key (both registered); under the server key; a user key
        // that differs in one bit from a registered one; a registered identity whose request carries no identity header at all
        if size >= 2 {
            for (a, b) in [(0usize, 1usize), (1, 0), (size - 1, 0)] {
                let salt = g.rng.bytes(n);
                let st = Req { kname, server_key: &key, body_key: &us[b], eih_for: Some(&us[a]), salt: &salt, ts: now, addr: &V4 }.build(b"hello", &[], &[], None);
                g.srv(kname, &key, &tab, format!("D{}", hex(&st.wire())), if a == b { "@-" } else { "@n" });
            }
        }
        let salt = g.rng.bytes(n);
        let st = Req { kname, server_key: &key, body_key: &key, eih_for: Some(&us[0]), salt: &salt, ts: now, addr: &V4 }.build(b"hello", &[], &[], None);
        g.srv(kname, &key, &tab, format!("D{}", hex(&st.wire())), "@n");
        let st = Req { kname, server_key: &key, body_key: &us[0], eih_for: None, salt: &g.rng.bytes(n), ts: now, addr: &V4 }.build(b"hello", &[], &[g.rng.bytes(30)], None);
        g.srv(kname, &key, &tab, format!("D{}", hex(&st.wire())), "@n");
        let st = Req { kname, server_key: &key, body_key: &key, eih_for: None, salt: &g.rng.bytes(n), ts: now, addr: &V4 }.build(b"hello", &[], &[g.rng.bytes(30)], None);
        g.srv(kname, &key, &tab, format!("D{}", hex(&st.wire())), "@n");
        let nb = if g.thorough { n * 8 } else { 12 };
        for j in 0..nb {
            let bit = if g.thorough { j } else { g.rng.below((n * 8) as u64) as usize };
            // the user's key one bit off (identity header and body made with it)
            let mut u2 = us[0].clone();
            u2[bit / 8] ^= 1 << (bit % 8);
            let st = Req { kname, server_key: &key, body_key: &u2, eih_for: Some(&u2), salt: &g.rng.bytes(n), ts: now, addr: &V4 }.build(b"hello", &[], &[], None);
            g.srv(kname, &key, &tab, format!("D{}", hex(&st.wire())), "@n");
            // the right identity, the body under the one-bit-off key
            let st = Req { kname, server_key: &key, body_key: &u2, eih_for: Some(&us[0]), salt: &g.rng.bytes(n), ts: now, addr: &V4 }.build(b"hello", &[], &[], None);
            g.srv(kname, &key, &tab, format!("D{}", hex(&st.wire())), "@n");
            // the server key one bit off on the client's side (identity header under the wrong identity sub key)
            let mut k2 = key.clone();
            k2[bit / 8] ^= 1 << (bit % 8);
            let st = Req { kname, server_key: &k2, body_key: &us[0], eih_for: Some(&us[0]), salt: &g.rng.bytes(n), ts: now, addr: &V4 }.build(b"hello", &[], &[], None);
            g.srv(kname, &key, &tab, format!("D{}", hex(&st.wire())), "@n");
        }
        // a response (server layout) and random bytes of many lengths presented to the multi-user server
        let rs = resp_stream(kname, &us[0], &g.rng.bytes(n), now, &g.rng.bytes(n), b"x", &[g.rng.bytes(40)]);
        g.srv(kname, &key, &tab, format!("D{}", hex(&rs.wire())), "@n");
        if size == 2 {
            for l in (0..150).step_by(if g.thorough { 1 } else { 5 }) {
                let junk = g.rng.bytes(l);
                g.srv(kname, &key, &tab, format!("D{}", hex(&junk)), "@n");
            }
        }
        // identity chains presented to this (one-level) server: iPSK0 = server key, then an unregistered / a registered second level
        let csalt = g.rng.bytes(n);
        let stranger = g.rng.bytes(n);
        for (second, ckey) in [(stranger.clone(), us[0].clone()), (us[0].clone(), stranger.clone()), (us[0].clone(), us[0].clone())] {
            let r = g.cli(kname, &ckey, &format!("{},{}", hex(&key), hex(&second)), &csalt, V4S, "Eaabb".into(), "@-");
            if let Some(wire) = oks(&r).first() {
                g.srv(kname, &key, &tab, format!("D{}", hex(wire)), "@n");
            }
        }
    }
}

// ---- 7. crafted 2022 heads: extreme timestamps, a variable-header length that lies, identity header x type / time; both roles ----
fn crafted_heads(g: &mut Gen, kname: &str) {
    let (_, n, is22, cipher) = kind_of(kname);
    if !is22 {
        return;
    }
    let eih = kname == "22a128" || kname == "22a256";
    let key = g.rng.bytes(n);
    let now = g.now;
    let cr = Craft { cipher, key: &key, n };
    let good_var = [&V4[..], &[0, 0], b"hello"].concat();
    for ts in [0u64, 1, (now as u64) - (1 << 30), (now as u64) + (1 << 32), 1 << 63, u64::MAX - 1, u64::MAX] {
        let wire = cr.stream_head(&g.rng.bytes(n), &[], 0, ts, &[], &good_var, None);
        g.srv(kname, &key, "none", format!("D{}", hex(&wire)), "@n");
        let csalt = g.rng.bytes(n);
        let wire = cr.stream_head(&g.rng.bytes(n), &[], 1, ts, &csalt, b"response", None);
        g.cli(kname, &key, "-", &csalt, V4S, format!("Eaa;D{}", hex(&wire)), "@n");
    }
    // both sides of the 30 s boundary for the client role (the server role is in t1_sstcp.rs)
    for dt in [-31i64, -30, -29, 29, 30, 31] {
        let csalt = g.rng.bytes(n);
        let wire = cr.stream_head(&g.rng.bytes(n), &[], 1, (now + dt) as u64, &csalt, b"response", None);
        g.cli(kname, &key, "-", &csalt, V4S, format!("Eaa;D{}", hex(&wire)), if dt.abs() <= 30 { "@x=726573706f6e7365" } else { "@n" });
    }
    // the length field of the fixed header against the sealed variable header that follows
    let idx = KINDS.iter().position(|k| *k == kname).unwrap();
    let chosen = g.thorough || idx == 3 + (g.seed % 4) as usize;
    for (lf, extra) in [(0u16, 0usize), (good_var.len() as u16 - 1, 0), (good_var.len() as u16 + 1, 1), (good_var.len() as u16 + 1, 40), (0xffff, 0), (0xffff, 0x10010)] {
        if extra > 0x10000 && !chosen {
            continue;
        }
        let mut wire = cr.stream_head(&g.rng.bytes(n), &[], 0, now as u64, &[], &good_var, Some(lf));
        wire.extend_from_slice(&g.rng.bytes(extra));
        g.srv(kname, &key, "none", format!("D{}", hex(&wire)), "@n");
        let csalt = g.rng.bytes(n);
        let mut wire = cr.stream_head(&g.rng.bytes(n), &[], 1, now as u64, &csalt, b"response", Some(if lf > 12 { lf } else { lf.min(7) }));
        wire.extend_from_slice(&g.rng.bytes(extra));
        g.cli(kname, &key, "-", &csalt, V4S, format!("Eaa;D{}", hex(&wire)), "@n");
    }
    // multi-user: type byte and time boundaries behind a VALID identity header
    if eih {
        let us: Vec<Vec<u8>> = (0..3).map(|_| g.rng.bytes(n)).collect();
        let tab = table(&us);
        let ucr = Craft { cipher, key: &us[1], n };
        for (ty, dt) in [(0u8, 0i64), (1, 0), (2, 0), (255, 0), (0, 30), (0, 31), (0, -30), (0, -31)] {
            let salt = g.rng.bytes(n);
            let e = tcp_eih(cipher, &key, &salt, &us[1]);
            let wire = ucr.stream_head(&salt, &e, ty, (now + dt) as u64, &[], &good_var, None);
            let ok = ty == 0 && dt.abs() <= 30;
            g.srv(kname, &key, &tab, format!("D{}", hex(&wire)), if ok { "@x=68656c6c6f" } else { "@n" });
        }
        // malformed authenticated variable header behind a valid identity header
        for l in [0usize, 1, 6, 7, 8, 9] {
            let mut var = g.rng.bytes(l);
            if l > 0 {
                var[0] = 1;
            }
            let salt = g.rng.bytes(n);
            let e = tcp_eih(cipher, &key, &salt, &us[1]);
            let wire = ucr.stream_head(&salt, &e, 0, now as u64, &[], &var, None);
            g.srv(kname, &key, &tab, format!("D{}", hex(&wire)), "@-");
        }
    }
}

// ---- 8. replays: the same salt with other content, a tampered copy before the genuine request, a response replayed to a second
//         connection of the client ----
fn replays(g: &mut Gen, kname: &str) {
    let (_, n, is22, _) = kind_of(kname);
    let key = g.rng.bytes(n);
    let now = g.now as u64;
    let salt = g.rng.bytes(n);
    let mk = |g: &mut Gen, salt: &[u8], first: &[u8]| Req { kname, server_key: &key, body_key: &key, eih_for: None, salt, ts: now, addr: &V4 }.build(first, &[], &[g.rng.bytes(3)], None);
    let a = mk(g, &salt, b"first");
    let b = mk(g, &salt, b"other");
    // 2022: the second presentation of a salt is refused whatever follows it; legacy ciphers have no such rule (model compared)
    g.srv(kname, &key, "none", format!("D{};N;D{}", hex(&a.wire()), hex(&b.wire())), &if is22 { pmeta(&a.payload) } else { "@-".into() });
    // a copy damaged in the sealed FIXED header (2022) / first length chunk (legacy) arrives first: it is refused and the salt is not burnt
    let mut bad = a.wire();
    bad[n + 3] ^= 0x10;
    g.srv(kname, &key, "none", format!("D{};N;D{}", hex(&bad), hex(&a.wire())), &pmeta(&a.payload));
    // a copy damaged in the variable header (after the salt has been recorded): the genuine one is then a replay (2022)
    if is22 {
        let mut bad = a.wire();
        let k = a.units[0].len() + 2;
        bad[k] ^= 1;
        g.srv(kname, &key, "none", format!("D{};N;D{}", hex(&bad), hex(&a.wire())), "@n");
        // the fixed header alone (the salt is not yet recorded), then the whole request on another connection, then the rest of the first
        g.srv(kname, &key, "none", format!("S0;D{};S1;D{};S0;D{}", hex(&a.units[0]), hex(&a.wire()), hex(&a.wire()[a.units[0].len()..])), &pmeta(&a.payload));
    }
    // client: the same response presented to a second connection that happens to use the same request salt
    let csalt = g.rng.bytes(n);
    let rs = resp_stream(kname, &key, &g.rng.bytes(n), now, &csalt, b"resp", &[g.rng.bytes(3)]);
    g.cli(kname, &key, "-", &csalt, V4S, format!("Eaa;D{};N;Eaa;D{}", hex(&rs.wire()), hex(&rs.wire())), &if is22 { pmeta(&rs.payload) } else { "@-".into() });
}

// ---- 9. the clock moves between reads / between connections ----
fn clock_moves(g: &mut Gen, kname: &str) {
    let (_, n, is22, _) = kind_of(kname);
    let key = g.rng.bytes(n);
    let now = g.now;
    if !is22 {
        // legacy streams carry no time: a moving clock changes nothing
        let st = Req { kname, server_key: &key, body_key: &key, eih_for: None, salt: &g.rng.bytes(n), ts: 0, addr: &V4 }.build(b"abc", &[], &[g.rng.bytes(3)], None);
        let w = st.wire();
        g.srv(kname, &key, "none", format!("D{};T{};D{}", hex(&w[..n + 5]), now + 100000, hex(&w[n + 5..])), &xmeta(&st.payload));
        return;
    }
    for (dts, dclock) in [(30i64, 1i64), (30, -1), (-30, 1), (-30, -1), (0, 30), (0, 31), (0, -31), (29, 62)] {
        let st = Req { kname, server_key: &key, body_key: &key, eih_for: None, salt: &g.rng.bytes(n), ts: (now + dts) as u64, addr: &V4 }.build(b"abc", &[], &[g.rng.bytes(3)], None);
        // header complete in the first read, the variable header arrives after the clock has moved: the header is parsed again
        let w = st.wire();
        let h = st.units[0].len();
        g.srv(kname, &key, "none", format!("D{};T{};D{}", hex(&w[..h + 3]), now + dclock, hex(&w[h + 3..])), &pmeta(&st.payload));
        // everything up to the first chunk in the first read: established, later chunks are not bound to the clock
        let h2 = h + st.units[1].len();
        g.srv(kname, &key, "none", format!("D{};T{};D{}", hex(&w[..h2]), now + dclock * 1000, hex(&w[h2..])), &xmeta(&st.payload));
        // the client's view of a response, and the time stamp the client / the server put into their own headers after the move
        let csalt = g.rng.bytes(n);
        let rs = resp_stream(kname, &key, &g.rng.bytes(n), (now + dts) as u64, &csalt, b"resp", &[g.rng.bytes(3)]);
        let rw = rs.wire();
        let rh = rs.units[0].len();
        g.cli(kname, &key, "-", &csalt, V4S, format!("Eaa;D{};T{};D{}", hex(&rw[..rh + 1]), now + dclock, hex(&rw[rh + 1..])), &pmeta(&rs.payload));
        g.cli(kname, &key, "-", &csalt, V4S, format!("T{};Eaabb", now + dclock), "@-");
        g.srv(kname, &key, "none", format!("D{};T{};Eaabb", hex(&w), now + dclock), &xmeta(&st.payload));
    }
    // replay after the clock has moved on by 31 s and by 61 s (the verification clock does not drive the cache's own timer: the salt
    // is still remembered, and the time stamp is stale anyway)
    let st = Req { kname, server_key: &key, body_key: &key, eih_for: None, salt: &g.rng.bytes(n), ts: now as u64, addr: &V4 }.build(b"abc", &[], &[], None);
    g.srv(kname, &key, "none", format!("D{};T{};N;D{};T{};N;D{}", hex(&st.wire()), now + 31, hex(&st.wire()), now + 61, hex(&st.wire())), &pmeta(&st.payload));
}

// ---- 10. several DISTINCT requests interleaved on one server context (different salts, different users): each connection releases
//          exactly its own bytes and answers under its own user's key ----
fn interleaved_distinct(g: &mut Gen, kname: &str) {
    let (_, n, is22, _) = kind_of(kname);
    let eih = kname == "22a128" || kname == "22a256";
    let key = g.rng.bytes(n);
    let now = g.now as u64;
    let us: Vec<Vec<u8>> = if eih { (0..3).map(|_| g.rng.bytes(n)).collect() } else { vec![] };
    let tab = if eih { table(&us) } else { "none".into() };
    let rounds = if g.thorough { 6 } else { 2 };
    for round in 0..rounds {
        let conns = 3usize;
        let salts: Vec<Vec<u8>> = (0..conns).map(|_| g.rng.bytes(n)).collect();
        let streams: Vec<Stream> = (0..conns)
            .map(|c| {
                let bk: &[u8] = if eih { &us[c % us.len()] } else { &key };
                let more = vec![g.rng.bytes(2), g.rng.bytes(7)];
                Req { kname, server_key: &key, body_key: bk, eih_for: if eih { Some(bk) } else { None }, salt: &salts[c], ts: now, addr: &V4 }.build(&g.rng.bytes(4), &[], &more, None)
            })
            .collect();
        // delivery plan: connection c receives its stream in pieces that end at unit boundaries (round 0) or anywhere after the
        // fixed header (later rounds); the connections take turns
        let mut pieces: Vec<Vec<Vec<u8>>> = Vec::new();
        for st in &streams {
            if round == 0 {
                // [salt+heads+var] [len+payload] [len+payload]
                let first_units = if is22 { 2 } else { 3 };
                let mut p = vec![st.units[..first_units].concat()];
                let mut i = first_units;
                while i < st.units.len() {
                    p.push(st.units[i..(i + 2).min(st.units.len())].concat());
                    i += 2;
                }
                pieces.push(p);
            } else {
                let w = st.wire();
                let lo = st.units[0].len() + if is22 { 0 } else { 1 };
                let mut cuts: Vec<usize> = (0..3).map(|_| g.rng.range(lo as u64, w.len() as u64 - 1) as usize).collect();
                cuts.sort();
                cuts.dedup();
                let mut p = Vec::new();
                let mut last = 0;
                for c in cuts {
                    p.push(w[last..c].to_vec());
                    last = c;
                }
                p.push(w[last..].to_vec());
                pieces.push(p);
            }
        }
        let mut ops: Vec<String> = Vec::new();
        let mut expect: Vec<u8> = Vec::new();
        let maxp = pieces.iter().map(|p| p.len()).max().unwrap();
        for step in 0..maxp {
            for c in 0..conns {
                if let Some(p) = pieces[c].get(step) {
                    ops.push(format!("S{}", c));
                    ops.push(format!("D{}", hex(p)));
                }
            }
        }
        if round == 0 {
            // released in delivery order: piece 0 of every connection = its first write, then its later writes
            let firsts: Vec<usize> = streams.iter().map(|_| 4usize).collect();
            for step in 0..maxp {
                for c in 0..conns {
                    let pl = &streams[c].payload;
                    match step {
                        0 => expect.extend_from_slice(&pl[..firsts[c]]),
                        1 => expect.extend_from_slice(&pl[4..6]),
                        2 => expect.extend_from_slice(&pl[6..]),
                        _ => {}
                    }
                }
            }
        }
        // every connection answers; the answers are read by the respective clients below
        for c in 0..conns {
            ops.push(format!("S{}", c));
            ops.push(format!("E{:02x}{:02x}", 0xc0 + c, round));
        }
        let meta = if round == 0 { xmeta(&expect) } else { "@-".to_string() };
        let r = g.srv(kname, &key, &tab, ops.join(";"), &meta);
        let resps = oks(&r);
        if resps.len() == conns {
            let ik = if eih { hex(&key) } else { "-".to_string() };
            for c in 0..conns {
                let ck: &[u8] = if eih { &us[c % us.len()] } else { &key };
                let want = format!("@x={:02x}{:02x}", 0xc0 + c, round);
                g.cli(kname, ck, &ik, &salts[c], V4S, format!("D{}", hex(&resps[c])), &want);
                if is22 {
                    // the answer of connection c is refused by the client of connection c+1 (another request salt, perhaps another user)
                    let d = (c + 1) % conns;
                    let dk: &[u8] = if eih { &us[d % us.len()] } else { &key };
                    g.cli(kname, dk, &ik, &salts[d], V4S, format!("D{}", hex(&resps[c])), "@n");
                }
            }
        }
    }
}

// ---- 11. address kinds and special values through the stream codec ----
fn addresses(g: &mut Gen, kname: &str) {
    let (_, n, _, _) = kind_of(kname);
    let key = g.rng.bytes(n);
    let addrs: Vec<String> = vec![
        "D:61:0".into(),
        "D:61:65535".into(),
        format!("D:{}:443", "2e".repeat(1)),
        format!("D:{}:443", hex(&g.rng.bytes(254).iter().map(|b| b'a' + b % 26).collect::<Vec<u8>>())),
        "4:00000000:0".into(),
        "4:ffffffff:65535".into(),
        format!("6:{}:53", "00".repeat(16)),
        format!("6:{}ffff01020304:443", "00".repeat(10)),
        format!("6:{}:65535", "ff".repeat(16)),
    ];
    for a in addrs {
        let csalt = g.rng.bytes(n);
        let w1 = g.rng.bytes(3);
        let r = g.cli(kname, &key, "-", &csalt, &a, format!("E{}", hex(&w1)), "@-");
        if let Some(wire) = oks(&r).first() {
            // the model states the address the server must see (`addr=` of the result); the bytes released are the payload alone
            g.srv(kname, &key, "none", format!("D{}", hex(wire)), &xmeta(&w1));
        }
    }
}
