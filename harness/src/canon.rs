//! Canonicalisation shared by all T1 components: addresses, error classes, outcomes.
use octo_squirrel::protocol::address::Address;
use std::net::SocketAddr;

use crate::util::hex;

/// error texts are never compared; they are mapped to the model's small enum
pub fn classify(e: &anyhow::Error) -> &'static str {
    let s = format!("{:#}", e).to_lowercase();
    classify_str(&s)
}
pub fn classify_str(s: &str) -> &'static str {
    let s = s.to_lowercase();
    if s.contains("unsupported command status") {
        "Other"
    } else if s.contains("unsupported auth method") {
        "BadAuth"
    } else if s.contains("unsupported address type") || s.contains("invalid address type") {
        "BadAddrType"
    } else if s.contains("aead::error") || s == "aead::error" || s.contains("aead error") {
        "Aead"
    } else if s.contains("invalid stream type") || s.contains("invalid socket type") {
        "BadType"
    } else if s.contains("abs_diff") || s.contains("timestamp") {
        "BadTime"
    } else if s.contains("repeated nonce") || s.contains("replay") {
        "Replay"
    } else if s.contains("user identity") || s.contains("identity") && s.contains("not found") || s.contains("no matched authid") {
        "BadUser"
    } else if s.contains("not a valid password") || s.contains("not trojan protocol") || s.contains("invalid digit") || s.contains("odd number") {
        "BadPassword"
    } else if s.contains("unsupported command") || s.contains("unknown request command") {
        "BadCmd"
    } else if s.contains("too short") || s.contains("insufficient") || s.contains("invalid packet length") {
        "Short"
    } else if s.contains("unsupported version") {
        "BadVersion"
    } else if s.contains("invalid auth") || s.contains("unexpected response header") || s.contains("request salt") {
        "BadAuth"
    } else if s.contains("utf-8") || s.contains("utf8") {
        "Utf8"
    } else if s.contains("invalid length") || s.contains("invalid host") || s.contains("empty destination") || s.contains("too long") {
        "BadLen"
    } else {
        "Other"
    }
}

pub fn addr_str(a: &Address) -> String {
    match a {
        Address::Domain(h, p) => format!("D:{}:{}", hex(h.as_bytes()), p),
        Address::Socket(SocketAddr::V4(v)) => format!("4:{}:{}", hex(&v.ip().octets()), v.port()),
        Address::Socket(SocketAddr::V6(v)) => format!("6:{}:{}", hex(&v.ip().octets()), v.port()),
    }
}

/// parse "D:<hexhost>:<port>" | "4:<hex4>:<port>" | "6:<hex16>:<port>"; host bytes are used as they are
pub fn parse_addr(s: &str) -> Address {
    let f: Vec<&str> = s.split(':').collect();
    let port: u16 = f[2].parse().expect("port");
    let b = crate::util::unhex(f[1]);
    match f[0] {
        "D" => Address::Domain(unsafe { String::from_utf8_unchecked(b) }, port),
        "4" => Address::Socket(SocketAddr::new(std::net::IpAddr::V4(std::net::Ipv4Addr::new(b[0], b[1], b[2], b[3])), port)),
        _ => {
            let mut o = [0u8; 16];
            o.copy_from_slice(&b);
            Address::Socket(SocketAddr::new(std::net::IpAddr::V6(std::net::Ipv6Addr::from(o)), port))
        }
    }
}
