//! Component `adapters`: ties the adapter contracts (harness `framed::drain`, Coq `Lib/Framed.v`, `Lib/WsFramed.v`) to the REAL
//! adapters `tokio_util::codec::FramedRead` and `octo_squirrel::codec::WebSocketFramed`.
//!
//! case:  adapt \t dk \t p1 \t p2 \t script
//!   dk = troj  (p1 = password hex, p2 = -)                         server `trojan::new_codec`
//!        s5cr  (p1 = -, p2 = -)                                    `Socks5CommandRequestDecoder`
//!        vmess (p1 = now, p2 = uuid csv)                           server `vmess::new_codec`
//!        ss    (p1 = kind:now, p2 = password hex:key hex)          server `shadowsocks::PayloadCodec` (kind a128 | 22a128)
//!   script (';' separated), one entry = one transport event:
//!        D<hex> bytes (one read of the byte stream / one BINARY WebSocket message; D- = empty binary message)
//!        T<hex> the same bytes as one TEXT WebSocket message (valid UTF-8 only)      P<hex> a ping (payload ignored by the adapters)
//!
//! The same script is run through a FRESH codec in six ways; result fields (in this order):
//!   drain    harness `framed::drain`, entry by entry (P / empty = drain with an empty segment)
//!   fr       real FramedRead over a scripted AsyncRead handing out one segment per poll_read, then Pending (manual poll loop;
//!            P / empty entries cannot be expressed on a byte stream: nothing is pushed, nothing polled)
//!   fr_eof   real FramedRead, same reader but EOF after the last segment: all items, final status
//!   ws       real WebSocketFramed over tokio-websockets client/server on tokio::io::duplex, manual poll loop with a flag waker,
//!            message by message: what is yielded before the adapter returns Pending (= no stall), and whether every Pending
//!            return was followed by a wake-up when the next message was written
//!   ws_close the same on a current-thread runtime; the client closes after the last message: all items until the stream ends
//!   ws_open  the client stays open (and fragments every message into 16-byte WebSocket frames);
//!            `timeout(50 ms, framed.next())` until the first timeout: what was delivered without further input
//!   verdict  AGREE | AGREE-MERGED | DISAGREE <which comparisons failed>
//!   canon    (last field, compared with the extracted Coq model `ws_step` of Lib/WsFramed.v by modelrun) = the `drain` field
//! Per entry:  [items]  |  [items] ERR class  |  SKIP (after the error).   Tail:  ; WAIT rest=n  /  ; DEAD.
//! `calls=` / `on_empty=` (decode calls, of which on an empty buffer) and `INFO` are informational, never compared.
//!
//! What is compared, i.e. the contract the three adapters share (everything else is adapter-specific and only recorded):
//!  * per transport event: the same items, in the same order, before the adapter asks for more input; the same event fails
//!    with the same error class; after the error nothing is yielded (the stream ends).  drain = FramedRead = WebSocketFramed.
//!  * leftover length: drain = FramedRead (`read_buffer()`); WebSocketFramed's buffer is private, the model supplies it.
//!  * every Pending return of WebSocketFramed is followed by a wake-up of the consumer's waker when the next message is written.
//!  * with the peer connected and silent (ws_open) everything complete has been delivered: no stall.
//!  Systematic differences that are NOT disagreements (they are what Lib/Framed.v / Lib/WsFramed.v say):
//!  * decode calls: drain and FramedRead call decode once more after the last item, also on an empty buffer; WebSocketFramed
//!    never calls decode on an empty buffer (on_empty=0) - hence the hypothesis `dec s [] = Ok (s, [], None)` of
//!    `ws_run_is_framed_run`.  FramedRead does not call decode again until new bytes arrive; drain (with an empty segment) and
//!    WebSocketFramed (on a ping / an empty message) do call it again on a non-empty buffer: all decoders here are None-stable.
//!  * end of input in the middle of a frame: FramedRead's `decode_eof` reports "bytes remaining on stream" (class EofRemaining),
//!    WebSocketFramed ends without an error (the unfinished frame is dropped), drain has no EOF notion.
//!  * a read larger than FramedRead's buffer (8 KiB initially) reaches the decoder in pieces; a byte-stream relay codec (Trojan
//!    tcp: every call returns "all bytes that are there") then yields one item per piece.  For such scripts consecutive relay
//!    items are concatenated before comparing (verdict AGREE-MERGED).
//!  * INFO polled-again-after-the-None: FramedRead yields None once after a decode error and, polled again, resumes reading and
//!    decoding; WebSocketFramed's `failed` flag is sticky.  Consumers must stop at the first None (all of the repository's do).
//! VERIF_ADAPTERS_MUTANT=oldws runs the WebSocket ways through the pre-fix adapter (src/old_ws.rs): the component must then
//! report disagreements (validation of the component itself).
use std::collections::VecDeque;
use std::future::Future;
use std::io::Write;
use std::pin::Pin;
use std::sync::Arc;
use std::sync::atomic::{AtomicBool, Ordering};
use std::task::{Context, Poll, Wake, Waker};
use std::time::Duration;

use bytes::BytesMut;
use futures::{SinkExt, Stream, StreamExt};
use octo_squirrel::codec::WebSocketFramed;
use octo_squirrel::codec::aead::CipherKind;
use octo_squirrel::codec::shadowsocks::tcp as sstcp;
use octo_squirrel::manager::shadowsocks::ServerUserManager;
use octo_squirrel::protocol::shadowsocks::Mode;
use octo_squirrel::protocol::socks5::codec::Socks5CommandRequestDecoder;
use octo_squirrel::protocol::vmess::header::{RequestCommand, RequestHeader, RequestOption, SecurityType};
use octo_squirrel::protocol::vmess::session::ClientSession;
use octo_squirrel_client::client::verif_hooks as ch;
use octo_squirrel_server::server::verif_hooks as sh;
use tokio::io::{AsyncRead, ReadBuf};
use tokio_util::codec::{Decoder, Encoder, FramedRead};
use tokio_websockets::{ClientBuilder, Message, ServerBuilder};

use crate::canon::{addr_str, classify, parse_addr};
use crate::framed::drain;
use crate::rng::Rng;
use crate::t1_misc::{server_config, show_inbound};
use crate::util::{catch, hex, unhex};

// ------------------------------------------------------------------------------------------------
// the decoder under test, behind one uniform type: items are shown as strings, a panic becomes an error of class PANIC
type DecFn = Box<dyn FnMut(&mut BytesMut) -> anyhow::Result<Option<String>>>;

pub struct Wrap {
    f: DecFn,
}

thread_local! {
    /// informational: (decode calls, of which on an empty buffer) of the way being run on this thread
    static CALLS: std::cell::Cell<(usize, usize)> = const { std::cell::Cell::new((0, 0)) };
}
fn calls_reset() {
    CALLS.with(|c| c.set((0, 0)));
}
fn calls_show() -> String {
    let (n, e) = CALLS.with(|c| c.get());
    format!("calls={} on_empty={}", n, e)
}
impl Decoder for Wrap {
    type Item = String;
    type Error = anyhow::Error;
    fn decode(&mut self, src: &mut BytesMut) -> anyhow::Result<Option<String>> {
        CALLS.with(|c| {
            let (n, e) = c.get();
            c.set((n + 1, e + src.is_empty() as usize));
        });
        match catch(|| (self.f)(src)) {
            Ok(r) => r,
            Err(_) => Err(anyhow::anyhow!("verif-panic")),
        }
    }
}
impl Encoder<()> for Wrap {
    type Error = anyhow::Error;
    fn encode(&mut self, _: (), _: &mut BytesMut) -> anyhow::Result<()> {
        Ok(())
    }
}

fn cls(e: &anyhow::Error) -> String {
    let s = format!("{:#}", e);
    if s.contains("verif-panic") {
        "PANIC".into()
    } else if s.contains("bytes remaining on stream") {
        "EofRemaining".into()
    } else {
        classify(e).to_string()
    }
}

fn wrap<D: Decoder<Error = anyhow::Error> + 'static>(mut d: D, show: impl Fn(D::Item) -> String + 'static) -> Wrap {
    Wrap { f: Box::new(move |b| d.decode(b).map(|o| o.map(&show))) }
}

fn ss_cfg(kind: &str) -> (CipherKind, &'static str) {
    if kind == "a128" { (CipherKind::Aes128Gcm, "aes-128-gcm") } else { (CipherKind::Aead2022Blake3Aes128Gcm, "2022-blake3-aes-128-gcm") }
}

/// a fresh codec for the case (p1, p2 as documented above)
fn make(dk: &str, p1: &str, p2: &str) -> Wrap {
    match dk {
        "troj" => {
            let pw = String::from_utf8(unhex(p1)).unwrap();
            wrap(sh::trojan::new_codec(&server_config("trojan", "aes-128-gcm", &pw, &[])).unwrap(), show_inbound)
        }
        "s5cr" => wrap(Socks5CommandRequestDecoder, |m| format!("{}:{}", m.command_type as u8, addr_str(&m.dst_addr))),
        "vmess" => {
            let users: Vec<String> = p2.split(',').map(|s| s.to_string()).collect();
            wrap(sh::vmess::new_codec(&server_config("vmess", "aes-128-gcm", "unused", &users)).unwrap(), show_inbound)
        }
        _ => {
            let kind = p1.split(':').next().unwrap();
            let pw = String::from_utf8(unhex(p2.split(':').next().unwrap())).unwrap();
            let cfg = server_config("shadowsocks", ss_cfg(kind).1, &pw, &[]);
            let ctx: sh::shadowsocks::ServerContext<16> = sh::shadowsocks::ServerContext::init(&cfg, Arc::new(ServerUserManager::new())).unwrap();
            wrap(sh::shadowsocks::PayloadCodec::from(&ctx), show_inbound)
        }
    }
}

fn set_clock(dk: &str, p1: &str) {
    let now = match dk {
        "vmess" => p1.parse::<i64>().ok(),
        "ss" => p1.split(':').nth(1).and_then(|s| s.parse::<i64>().ok()),
        _ => None,
    };
    octo_squirrel::verif_clock::set(now);
}

// ------------------------------------------------------------------------------------------------
#[derive(Clone, Debug, PartialEq)]
enum Ev {
    Bin(Vec<u8>),
    Text(Vec<u8>),
    Ping(Vec<u8>),
}
impl Ev {
    fn data(&self) -> &[u8] {
        match self {
            Ev::Bin(d) | Ev::Text(d) => d,
            Ev::Ping(_) => &[],
        }
    }
    fn message(&self) -> Message {
        match self {
            Ev::Bin(d) => Message::binary(d.clone()),
            Ev::Text(d) => Message::text(String::from_utf8(d.clone()).expect("text message must be utf-8")),
            Ev::Ping(d) => Message::ping(d.clone()),
        }
    }
}

fn parse_script(s: &str) -> Vec<Ev> {
    s.split(';')
        .filter(|x| !x.is_empty())
        .map(|op| {
            let d = unhex(&op[1..]);
            match &op[..1] {
                "T" => Ev::Text(d),
                "P" => Ev::Ping(d),
                _ => Ev::Bin(d),
            }
        })
        .collect()
}

/// per transport event: the items yielded, and the error class if the decoder failed there
#[derive(Clone, Debug, PartialEq, Default)]
struct Step {
    items: Vec<String>,
    err: Option<String>,
}

#[derive(Default, Debug)]
struct Stepped {
    steps: Vec<Option<Step>>, // None = SKIP (after the error)
    rest: Option<usize>,      // leftover buffer length where observable
    notes: Vec<String>,       // anything unexpected
    info: Vec<String>,        // observations that are not part of the comparison
}
impl Stepped {
    fn dead(&self) -> bool {
        self.steps.iter().flatten().any(|s| s.err.is_some())
    }
    fn items(&self) -> Vec<String> {
        self.steps.iter().flatten().flat_map(|s| s.items.clone()).collect()
    }
    fn err(&self) -> Option<String> {
        self.steps.iter().flatten().find_map(|s| s.err.clone())
    }
    fn show_steps(&self) -> String {
        self.steps
            .iter()
            .map(|s| match s {
                None => "SKIP".to_string(),
                Some(Step { items, err: None }) => format!("[{}]", items.join(",")),
                Some(Step { items, err: Some(e) }) => format!("[{}] ERR {}", items.join(","), e),
            })
            .collect::<Vec<_>>()
            .join(" | ")
    }
}

#[derive(Default, Debug)]
struct Whole {
    items: Vec<String>,
    err: Option<String>,
    end: String, // ENDED | TIMEOUT | STUCK ...
    notes: Vec<String>,
}
impl Whole {
    fn show(&self) -> String {
        let mut s = format!("[{}]", self.items.join(","));
        if let Some(e) = &self.err {
            s.push_str(&format!(" ERR {}", e));
        }
        s.push_str(&format!(" ; {}", self.end));
        for n in &self.notes {
            s.push_str(&format!(" ; NOTE {}", n));
        }
        s
    }
}

// ------------------------------------------------------------------------------------------------
// (a) the harness's own drain loop
fn way_drain(mut codec: Wrap, evs: &[Ev]) -> Stepped {
    let mut buf = BytesMut::new();
    let mut out = Stepped::default();
    let mut dead = false;
    for ev in evs {
        if dead {
            out.steps.push(None);
            continue;
        }
        let d = drain(&mut codec, &mut buf, ev.data(), |s| s);
        let err = if d.dead { Some(d.status.strip_prefix("ERR ").unwrap_or(&d.status).to_string()) } else { None };
        dead = d.dead;
        out.steps.push(Some(Step { items: d.items, err }));
    }
    if !dead {
        out.rest = Some(buf.len());
    }
    out
}

// ------------------------------------------------------------------------------------------------
// (b) the real FramedRead over a scripted reader
struct ScriptReader {
    q: VecDeque<Vec<u8>>,
    eof: bool,
    pending_returns: usize,
}
impl AsyncRead for ScriptReader {
    fn poll_read(mut self: Pin<&mut Self>, _cx: &mut Context<'_>, buf: &mut ReadBuf<'_>) -> Poll<std::io::Result<()>> {
        let room = buf.remaining();
        let this = &mut *self;
        let eof = this.eof;
        match this.q.front_mut() {
            Some(seg) => {
                // exactly one scripted segment per read (split only when the caller's buffer is smaller)
                let n = seg.len().min(room);
                buf.put_slice(&seg[..n]);
                if n == seg.len() {
                    this.q.pop_front();
                } else {
                    seg.drain(..n);
                }
                Poll::Ready(Ok(()))
            }
            None if eof => Poll::Ready(Ok(())), // 0 bytes = EOF
            None => {
                this.pending_returns += 1;
                Poll::Pending
            }
        }
    }
}

const POLL_LIMIT: usize = 1 << 20;

/// poll the stream until Pending / end; returns (items, error class, ended)
fn poll_until_pending<S: Stream<Item = anyhow::Result<String>> + Unpin>(s: &mut S, cx: &mut Context<'_>, notes: &mut Vec<String>) -> (Vec<String>, Option<String>, bool) {
    let mut items = Vec::new();
    for _ in 0..POLL_LIMIT {
        match Pin::new(&mut *s).poll_next(cx) {
            Poll::Ready(Some(Ok(it))) => items.push(it),
            Poll::Ready(Some(Err(e))) => {
                // after an error the stream must end: nothing more may be yielded
                let c = cls(&e);
                match Pin::new(&mut *s).poll_next(cx) {
                    Poll::Ready(None) => {}
                    Poll::Ready(Some(Ok(it))) => notes.push(format!("item-after-error {}", it)),
                    Poll::Ready(Some(Err(e2))) => notes.push(format!("second-error {}", cls(&e2))),
                    Poll::Pending => notes.push("pending-after-error".into()),
                }
                return (items, Some(c), true);
            }
            Poll::Ready(None) => return (items, None, true),
            Poll::Pending => return (items, None, false),
        }
    }
    notes.push("poll-limit".into());
    (items, Some("LIVELOCK".into()), true)
}

fn way_framedread(codec: Wrap, evs: &[Ev]) -> Stepped {
    let waker = futures::task::noop_waker();
    let mut cx = Context::from_waker(&waker);
    let mut fr = FramedRead::new(ScriptReader { q: VecDeque::new(), eof: false, pending_returns: 0 }, codec);
    let mut out = Stepped::default();
    let mut dead = false;
    for ev in evs {
        if dead {
            out.steps.push(None);
            continue;
        }
        if ev.data().is_empty() {
            out.steps.push(Some(Step::default()));
            continue;
        }
        fr.get_mut().q.push_back(ev.data().to_vec());
        let (items, err, ended) = poll_until_pending(&mut fr, &mut cx, &mut out.notes);
        if ended && err.is_none() {
            out.notes.push("ended-without-eof".into());
        }
        dead = ended;
        out.steps.push(Some(Step { items, err }));
    }
    if !dead {
        out.rest = Some(fr.read_buffer().len());
    } else if out.err().is_some() {
        // not part of the contract, recorded only: FramedRead yields None ONCE after an error and, if the consumer polls
        // again, resumes reading and decoding (tokio-util documents this); WebSocketFramed's `failed` is sticky
        let later: Vec<&Ev> = evs.iter().skip(out.steps.iter().take_while(|s| s.as_ref().is_some_and(|x| x.err.is_none())).count() + 1).filter(|e| !e.data().is_empty()).collect();
        if !later.is_empty() {
            for ev in &later {
                fr.get_mut().q.push_back(ev.data().to_vec());
            }
            let mut sink = Vec::new();
            let (items, err, _) = poll_until_pending(&mut fr, &mut cx, &mut sink);
            out.info.push(format!("polled-again-after-the-None: {} more item(s){}", items.len(), err.map(|e| format!(", then ERR {}", e)).unwrap_or_default()));
        }
    }
    out
}

fn way_framedread_eof(codec: Wrap, evs: &[Ev]) -> Whole {
    let waker = futures::task::noop_waker();
    let mut cx = Context::from_waker(&waker);
    let q: VecDeque<Vec<u8>> = evs.iter().filter(|e| !e.data().is_empty()).map(|e| e.data().to_vec()).collect();
    let mut fr = FramedRead::new(ScriptReader { q, eof: true, pending_returns: 0 }, codec);
    let mut out = Whole::default();
    let (items, err, ended) = poll_until_pending(&mut fr, &mut cx, &mut out.notes);
    out.items = items;
    out.err = err;
    out.end = if ended { "ENDED".into() } else { "PENDING".into() };
    out
}

// ------------------------------------------------------------------------------------------------
// (c) the real WebSocketFramed; manual executor
struct Flag(AtomicBool);
impl Wake for Flag {
    fn wake(self: Arc<Self>) {
        self.0.store(true, Ordering::SeqCst);
    }
}

fn drive1<F: Future>(f: F) -> Option<F::Output> {
    let waker = futures::task::noop_waker();
    let mut cx = Context::from_waker(&waker);
    let mut f = Box::pin(f);
    for _ in 0..100_000 {
        if let Poll::Ready(v) = f.as_mut().poll(&mut cx) {
            return Some(v);
        }
    }
    None
}

fn drive2<A: Future, B: Future>(a: A, b: B) -> Option<(A::Output, B::Output)> {
    let waker = futures::task::noop_waker();
    let mut cx = Context::from_waker(&waker);
    let (mut a, mut b) = (Box::pin(a), Box::pin(b));
    let (mut ra, mut rb) = (None, None);
    for _ in 0..100_000 {
        if ra.is_none() {
            if let Poll::Ready(v) = a.as_mut().poll(&mut cx) {
                ra = Some(v);
            }
        }
        if rb.is_none() {
            if let Poll::Ready(v) = b.as_mut().poll(&mut cx) {
                rb = Some(v);
            }
        }
        if ra.is_some() && rb.is_some() {
            return Some((ra.unwrap(), rb.unwrap()));
        }
    }
    None
}

type Duplex = tokio::io::DuplexStream;
type Ws = tokio_websockets::WebSocketStream<Duplex>;

type WsFramedDyn = Box<dyn Stream<Item = anyhow::Result<String>> + Unpin>;

/// the adapter under test: the repository's WebSocketFramed (or, for validating this component, the pre-fix adapter)
fn new_framed(sws: Ws, codec: Wrap) -> WsFramedDyn {
    if std::env::var("VERIF_ADAPTERS_MUTANT").ok().as_deref() == Some("oldws") {
        Box::new(crate::old_ws::OldWebSocketFramed::new(sws, codec))
    } else {
        Box::new(WebSocketFramed::<Duplex, Wrap, (), String>::new(sws, codec))
    }
}

/// `frame_size`: the client splits every message into WebSocket frames of at most that many payload bytes (the server
/// side reassembles them: fragmentation must be invisible to the adapter)
async fn ws_pair(frame_size: Option<usize>) -> anyhow::Result<(Ws, Ws)> {
    let (c_half, s_half) = tokio::io::duplex(1 << 20);
    let sb = ServerBuilder::new();
    let mut cb = ClientBuilder::new().uri("ws://localhost/ws")?;
    if let Some(n) = frame_size {
        cb = cb.config(tokio_websockets::Config::default().frame_size(n));
    }
    let (srv, cli) = futures::join!(sb.accept(s_half), cb.connect_on(c_half));
    let (_req, sws) = srv?;
    let (cws, _resp) = cli?;
    Ok((cws, sws))
}

fn way_ws_manual(codec: Wrap, evs: &[Ev]) -> (Stepped, usize) {
    let mut out = Stepped::default();
    let Some(Ok((mut cws, sws))) = drive2(ws_pair(None), async {}).map(|x| x.0) else {
        out.notes.push("handshake-failed".into());
        return (out, 0);
    };
    let mut framed = new_framed(sws, codec);
    let flag = Arc::new(Flag(AtomicBool::new(false)));
    let waker = Waker::from(flag.clone());
    let mut cx = Context::from_waker(&waker);
    // the consumer polls before anything has arrived: Pending, and from now on it relies on being woken
    let (i0, e0, ended0) = poll_until_pending(&mut framed, &mut cx, &mut out.notes);
    if !i0.is_empty() || e0.is_some() || ended0 {
        out.notes.push("not-pending-before-first-message".into());
    }
    let mut dead = false;
    let mut missed = 0usize;
    for ev in evs {
        if dead {
            out.steps.push(None);
            continue;
        }
        flag.0.store(false, Ordering::SeqCst);
        if drive1(cws.send(ev.message())).is_none() {
            out.notes.push("client-send-stuck".into());
            break;
        }
        if !flag.0.load(Ordering::SeqCst) {
            missed += 1; // the adapter returned Pending without having registered the consumer's waker
        }
        let (items, err, ended) = poll_until_pending(&mut framed, &mut cx, &mut out.notes);
        if ended && err.is_none() {
            out.notes.push("ended-while-client-open".into());
        }
        dead = ended;
        out.steps.push(Some(Step { items, err }));
    }
    (out, missed)
}

fn rt() -> tokio::runtime::Runtime {
    tokio::runtime::Builder::new_current_thread().enable_time().build().unwrap()
}

/// client sends everything and closes; the server collects until its stream ends
fn way_ws_close(codec: Wrap, evs: &[Ev]) -> Whole {
    let msgs: Vec<Message> = evs.iter().map(|e| e.message()).collect();
    rt().block_on(async move {
        let mut out = Whole::default();
        let (mut cws, sws) = match ws_pair(None).await {
            Ok(p) => p,
            Err(e) => {
                out.end = format!("HANDSHAKE {}", e);
                return out;
            }
        };
        let framed = new_framed(sws, codec);
        let client = async move {
            for m in msgs {
                if cws.send(m).await.is_err() {
                    break;
                }
                tokio::task::yield_now().await;
            }
            let _ = tokio::time::timeout(Duration::from_millis(500), cws.close()).await;
        };
        let server = async move {
            let mut framed = framed;
            let mut items = Vec::new();
            let mut err = None;
            let mut notes = Vec::new();
            let end;
            loop {
                match tokio::time::timeout(Duration::from_millis(2000), framed.next()).await {
                    Ok(Some(Ok(it))) => {
                        if err.is_some() {
                            notes.push(format!("item-after-error {}", it));
                        } else {
                            items.push(it)
                        }
                    }
                    Ok(Some(Err(e))) => {
                        if err.is_some() {
                            notes.push(format!("second-error {}", cls(&e)));
                        } else {
                            err = Some(cls(&e));
                        }
                    }
                    Ok(None) => {
                        end = "ENDED".to_string();
                        break;
                    }
                    Err(_) => {
                        end = "STUCK".to_string();
                        break;
                    }
                }
            }
            (items, err, end, notes) // framed (and with it the server half) is dropped here
        };
        let (_, (items, err, end, notes)) = futures::join!(client, server);
        out.items = items;
        out.err = err;
        out.end = end;
        out.notes = notes;
        out
    })
}

/// client sends everything and stays open; the server polls with a 50 ms timeout until the first timeout
fn way_ws_open(codec: Wrap, evs: &[Ev]) -> Whole {
    let msgs: Vec<Message> = evs.iter().map(|e| e.message()).collect();
    let tmo: u64 = std::env::var("VERIF_WS_TIMEOUT_MS").ok().and_then(|s| s.parse().ok()).unwrap_or(50);
    rt().block_on(async move {
        let mut out = Whole::default();
        let (mut cws, sws) = match ws_pair(Some(16)).await {
            Ok(p) => p,
            Err(e) => {
                out.end = format!("HANDSHAKE {}", e);
                return out;
            }
        };
        let mut framed = new_framed(sws, codec);
        let (done_tx, done_rx) = tokio::sync::oneshot::channel::<()>();
        let client = async move {
            for m in msgs {
                if cws.send(m).await.is_err() {
                    break;
                }
                tokio::task::yield_now().await;
            }
            let _ = done_rx.await; // keep the connection open until the server has made its observation
            drop(cws);
        };
        let server = async {
            let mut items = Vec::new();
            let mut err = None;
            let mut notes = Vec::new();
            let end;
            loop {
                match tokio::time::timeout(Duration::from_millis(tmo), framed.next()).await {
                    Ok(Some(Ok(it))) => {
                        if err.is_some() {
                            notes.push(format!("item-after-error {}", it));
                        } else {
                            items.push(it)
                        }
                    }
                    Ok(Some(Err(e))) => {
                        if err.is_some() {
                            notes.push(format!("second-error {}", cls(&e)));
                        } else {
                            err = Some(cls(&e));
                        }
                    }
                    Ok(None) => {
                        end = "ENDED".to_string();
                        break;
                    }
                    Err(_) => {
                        end = "TIMEOUT".to_string();
                        break;
                    }
                }
            }
            let _ = done_tx.send(());
            (items, err, end, notes)
        };
        let (_, (items, err, end, notes)) = futures::join!(client, server);
        out.items = items;
        out.err = err;
        out.end = end;
        out.notes = notes;
        out
    })
}

/// consecutive byte-stream relay items (`T:<hex>`, also after the `C:<addr>:<hex>` that opens the stream) concatenated:
/// their boundaries carry no meaning (a TCP relay forwards the bytes), only their concatenation does
fn merge_stream_items(items: &[String]) -> Vec<String> {
    let mut out: Vec<String> = Vec::new();
    for it in items {
        if let (Some(p), Some(last)) = (it.strip_prefix("T:"), out.last_mut()) {
            if last.starts_with("T:") || last.starts_with("C:") {
                let cut = last.rfind(':').unwrap() + 1;
                let mut pay = last[cut..].trim_matches('-').to_string();
                pay.push_str(p.trim_matches('-'));
                last.truncate(cut);
                last.push_str(if pay.is_empty() { "-" } else { &pay });
                continue;
            }
        }
        out.push(it.clone());
    }
    out
}
fn merged_steps(s: &Stepped) -> Vec<Option<Step>> {
    s.steps.iter().map(|st| st.as_ref().map(|x| Step { items: merge_stream_items(&x.items), err: x.err.clone() })).collect()
}

/// FramedRead's read buffer starts with this capacity; a larger segment reaches the decoder in several reads
const FR_INITIAL_CAPACITY: usize = 8 * 1024;

// ------------------------------------------------------------------------------------------------
pub fn exec(f: &[&str]) -> Vec<String> {
    let r = catch(|| run_case(f));
    octo_squirrel::verif_clock::set(None);
    r.unwrap_or_else(|m| vec![format!("HARNESS-PANIC {}", m)])
}

fn run_case(f: &[&str]) -> Vec<String> {
    let (dk, p1, p2) = (f[1], f[2], f[3]);
    let evs = parse_script(f[4]);
    set_clock(dk, p1);
    calls_reset();
    let a = way_drain(make(dk, p1, p2), &evs);
    let a_calls = calls_show();
    calls_reset();
    let b = way_framedread(make(dk, p1, p2), &evs);
    let b_calls = calls_show();
    let b_eof = way_framedread_eof(make(dk, p1, p2), &evs);
    calls_reset();
    let (c, missed) = way_ws_manual(make(dk, p1, p2), &evs);
    let c_calls = calls_show();
    let c_close = way_ws_close(make(dk, p1, p2), &evs);
    let c_open = way_ws_open(make(dk, p1, p2), &evs);

    // ---- the comparison, adapted to the contract (see the notes in the component documentation) ----
    let mut bad: Vec<String> = Vec::new();
    let all = a.items();
    // 1. per transport event, all three adapters yield the same items and fail at the same event with the same class.
    //    FramedRead does not see empty messages / pings (nothing arrives on a byte stream), the other two call decode again.
    if a.steps != c.steps {
        bad.push("drain/ws-steps".into());
    }
    //    A segment larger than FramedRead's buffer is read in pieces: a byte-stream relay codec (Trojan tcp) then yields
    //    one item per piece.  Only then, consecutive relay items are concatenated before comparing.
    let big = evs.iter().any(|e| e.data().len() > FR_INITIAL_CAPACITY);
    let mut merged = false;
    if a.steps != b.steps {
        if big && merged_steps(&a) == merged_steps(&b) {
            merged = true;
        } else {
            bad.push("drain/fr-steps".into());
        }
    }
    if a.rest != b.rest {
        bad.push("drain/fr-rest".into());
    }
    if missed > 0 {
        bad.push(format!("ws-wakeup-missed={}", missed));
    }
    for (n, w) in [("fr", &b.notes), ("ws", &c.notes), ("fr_eof", &b_eof.notes), ("ws_close", &c_close.notes), ("ws_open", &c_open.notes)] {
        if !w.is_empty() {
            bad.push(format!("{}-notes", n));
        }
    }
    // 2. end of input.  drain has no EOF notion.  Expected: after a decode error every way has ended with that error;
    //    otherwise FramedRead calls decode_eof (= decode once more; "bytes remaining on stream" if the buffer is not empty),
    //    WebSocketFramed ends silently (the unfinished frame is dropped).
    let expect_eof_err = match (a.err(), a.rest) {
        (Some(e), _) => Some(e),
        (None, Some(r)) if r > 0 => Some("EofRemaining".to_string()),
        _ => None,
    };
    let eof_items_ok = b_eof.items == all || (big && merge_stream_items(&b_eof.items) == merge_stream_items(&all) && { merged = true; true });
    if !eof_items_ok || b_eof.err != expect_eof_err || b_eof.end != "ENDED" {
        bad.push("fr_eof".into());
    }
    if c_close.items != all || c_close.err != a.err() || c_close.end != "ENDED" {
        bad.push("ws_close".into());
    }
    // 3. no stall: with the client still connected and silent, everything complete has been delivered
    let open_end = if a.dead() { "ENDED" } else { "TIMEOUT" };
    if c_open.items != all || c_open.err != a.err() || c_open.end != open_end {
        bad.push("ws_open".into());
    }
    let tail = |s: &Stepped| match (s.dead(), s.rest) {
        (true, _) => " ; DEAD".to_string(),
        (false, Some(r)) => format!(" ; WAIT rest={}", r),
        (false, None) => " ; PENDING".to_string(),
    };
    let notes = |s: &Stepped| s.notes.iter().map(|n| format!(" ; NOTE {}", n)).collect::<String>();
    let canon = format!("{}{}", a.show_steps(), tail(&a));
    vec![
        format!("drain: {} ; {}", canon, a_calls),
        format!("fr: {}{}{} ; {}{}", b.show_steps(), tail(&b), notes(&b), b_calls, b.info.iter().map(|n| format!(" ; INFO {}", n)).collect::<String>()),
        format!("fr_eof: {}", b_eof.show()),
        format!("ws: {}{} wake={}{} ; {}", c.show_steps(), tail(&c), if missed == 0 { "ok".to_string() } else { format!("MISSED{}", missed) }, notes(&c), c_calls),
        format!("ws_close: {}", c_close.show()),
        format!("ws_open: {}", c_open.show()),
        if !bad.is_empty() {
            format!("DISAGREE {}", bad.join(","))
        } else if merged {
            "AGREE-MERGED".to_string()
        } else {
            "AGREE".to_string()
        },
        canon,
    ]
}

// ------------------------------------------------------------------------------------------------
// generation
fn d(seg: &[u8]) -> String {
    format!("D{}", hex(seg))
}
fn script(segs: &[Vec<u8>]) -> String {
    segs.iter().map(|s| d(s)).collect::<Vec<_>>().join(";")
}

fn cut_at(w: &[u8], ps: &[usize]) -> Vec<Vec<u8>> {
    let mut ps: Vec<usize> = ps.iter().copied().filter(|&p| p > 0 && p < w.len()).collect();
    ps.sort();
    ps.dedup();
    let mut segs = Vec::new();
    let mut last = 0;
    for p in ps {
        segs.push(w[last..p].to_vec());
        last = p;
    }
    segs.push(w[last..].to_vec());
    segs
}

/// scripts for one valid stream given as its frames (one encoder call each)
fn scripts_for(rng: &mut Rng, frames: &[Vec<u8>], thorough: bool) -> Vec<String> {
    let w: Vec<u8> = frames.concat();
    let mut v = Vec::new();
    // several frames in ONE read / ONE message; one frame per message
    v.push(script(&[w.clone()]));
    v.push(script(frames));
    // every cut position in the first 80 bytes (two segments), and around every frame boundary
    let mut cuts: Vec<usize> = (1..w.len().min(81)).collect();
    let mut off = 0;
    for fr in frames {
        off += fr.len();
        for dlt in [-2i64, -1, 0, 1, 2] {
            let p = off as i64 + dlt;
            if p > 80 && (p as usize) < w.len() {
                cuts.push(p as usize);
            }
        }
    }
    for c in cuts {
        v.push(script(&cut_at(&w, &[c])));
    }
    // random multi-cuts
    for _ in 0..(if thorough { 40 } else { 12 }) {
        let k = rng.range(2, 7) as usize;
        let ps: Vec<usize> = (0..k).map(|_| rng.range(1, w.len().max(2) as u64 - 1) as usize).collect();
        v.push(script(&cut_at(&w, &ps)));
    }
    // byte by byte
    if w.len() <= if thorough { 700 } else { 260 } {
        v.push(script(&w.iter().map(|b| vec![*b]).collect::<Vec<_>>()));
    }
    // a frame spanning three messages (every frame in turn), the others whole
    let mut off = 0;
    for fr in frames {
        if fr.len() >= 3 {
            let (p1, p2) = (off + fr.len() / 3, off + 2 * fr.len() / 3);
            let mut ps = vec![p1, p2, off, off + fr.len()];
            let mut o2 = 0;
            for g in frames {
                o2 += g.len();
                ps.push(o2);
            }
            ps.retain(|&p| !(p > off && p < off + fr.len()) || p == p1 || p == p2);
            v.push(script(&cut_at(&w, &ps)));
        }
        off += fr.len();
    }
    // two frames and a half in one message, the rest in the next
    if frames.len() >= 3 {
        let p = frames[0].len() + frames[1].len() + frames[2].len() / 2;
        v.push(script(&cut_at(&w, &[p])));
    }
    // noise: empty messages, pings, text messages where the bytes happen to be UTF-8
    for _ in 0..(if thorough { 30 } else { 10 }) {
        let k = rng.range(1, 5) as usize;
        let ps: Vec<usize> = (0..k).map(|_| rng.range(1, w.len().max(2) as u64 - 1) as usize).collect();
        let mut ops: Vec<String> = Vec::new();
        for seg in cut_at(&w, &ps) {
            match rng.below(4) {
                0 => ops.push("D-".into()),
                1 => ops.push(format!("P{}", hex(&rng.bytes_of(&[0, 3])))),
                _ => {}
            }
            if std::str::from_utf8(&seg).is_ok() && rng.chance(2, 3) { ops.push(format!("T{}", hex(&seg))) } else { ops.push(d(&seg)) }
        }
        if rng.chance(1, 2) {
            ops.push("P-".into());
        }
        if rng.chance(1, 2) {
            ops.push("D-".into());
        }
        v.push(ops.join(";"));
    }
    v.push(format!("D-;P-;{};P-;D-;D-", d(&w)));
    v.push("D-".into());
    v.push("P-;P-".into());
    // EOF in the middle of a frame: truncations
    let mut ts: Vec<usize> = (0..w.len().min(if thorough { 120 } else { 40 })).step_by(if thorough { 1 } else { 3 }).collect();
    let mut off = 0;
    for fr in frames {
        ts.push(off + fr.len() / 2);
        off += fr.len();
        ts.push(off.saturating_sub(1));
    }
    for t in ts {
        if t < w.len() {
            v.push(script(&[w[..t].to_vec()]));
            if t > 2 {
                v.push(script(&cut_at(&w[..t], &[t / 2])));
            }
        }
    }
    // garbage after a valid prefix: a flipped byte at several depths, the valid remainder and one more copy of the stream follow
    let mut off = 0;
    let mut flips: Vec<usize> = vec![0, 1, w.len() / 2, w.len() - 1];
    for fr in frames {
        flips.push(off + fr.len() / 2);
        flips.push(off + 1);
        off += fr.len();
    }
    for _ in 0..(if thorough { 30 } else { 8 }) {
        flips.push(rng.below(w.len() as u64) as usize);
    }
    for p in flips {
        if p >= w.len() {
            continue;
        }
        let mut m = w.clone();
        m[p] ^= 1 << rng.below(8);
        m.extend_from_slice(&w);
        v.push(script(&[m.clone()]));
        let ps: Vec<usize> = (0..3).map(|_| rng.range(1, m.len() as u64 - 1) as usize).collect();
        v.push(script(&cut_at(&m, &ps)));
        // the bad byte alone in its message, the rest message per frame
        v.push(script(&cut_at(&m, &[p, p + 1, w.len(), w.len() + frames[0].len()])));
    }
    v
}

fn vm_header(opt: u8, sec: u8, cmd: u8, addr: octo_squirrel::protocol::address::Address, id: [u8; 16]) -> RequestHeader {
    RequestHeader::new(1, if cmd == 1 { RequestCommand::TCP } else { RequestCommand::UDP }, RequestOption::from_mask(opt), SecurityType::from(sec), addr, id)
}

pub fn generate(w: &mut dyn Write, seed: u64, thorough: bool) {
    let mut rng = Rng::new(seed);
    let mut cases: Vec<Vec<String>> = Vec::new();
    let mut add = |dk: &str, p1: &str, p2: &str, s: String| cases.push(vec!["adapt".to_string(), dk.to_string(), p1.to_string(), p2.to_string(), s]);

    // ---- Trojan server codec: udp association (head+packet, packet, packet) and tcp (head+payload, payload, payload) ----
    let pw = b"password1".to_vec();
    let addrs = ["4:7f000001:80".to_string(), "D:6578616d706c652e636f6d:443".into(), format!("6:{}:8080", "20010db8".repeat(4))];
    for (ai, a) in addrs.iter().enumerate() {
        let mut c = ch::trojan::UdpClientCodec::new(&pw, 3, parse_addr(a));
        let mut frames = Vec::new();
        for n in [30usize, 0, 200] {
            let mut dst = BytesMut::new();
            let pa: String = rng.pick::<String>(&addrs[..]).clone();
            c.encode((BytesMut::from(&rng.bytes(n)[..]), parse_addr(&pa)), &mut dst).unwrap();
            frames.push(dst.to_vec());
        }
        for s in scripts_for(&mut rng, &frames, thorough && ai == 0) {
            add("troj", &hex(&pw), "-", s);
        }
        if ai == 0 || thorough {
            let mut c = ch::trojan::TcpClientCodec::new(&pw, 1, parse_addr(a));
            let mut frames = Vec::new();
            for n in [10usize, 1, 100] {
                let mut dst = BytesMut::new();
                c.encode(BytesMut::from(&rng.bytes(n)[..]), &mut dst).unwrap();
                frames.push(dst.to_vec());
            }
            for s in scripts_for(&mut rng, &frames, false) {
                add("troj", &hex(&pw), "-", s);
            }
        }
    }
    // ---- frames larger than FramedRead's initial 8 KiB buffer and than one duplex read ----
    {
        let mut c = ch::trojan::TcpClientCodec::new(&pw, 1, parse_addr(&addrs[1]));
        let mut frames = Vec::new();
        for n in [20000usize, 70000, 9000] {
            let mut dst = BytesMut::new();
            c.encode(BytesMut::from(&rng.bytes(n)[..]), &mut dst).unwrap();
            frames.push(dst.to_vec());
        }
        let wire: Vec<u8> = frames.concat();
        add("troj", &hex(&pw), "-", script(&[wire.clone()]));
        add("troj", &hex(&pw), "-", script(&frames));
        for _ in 0..4 {
            let ps: Vec<usize> = (0..4).map(|_| rng.range(1, wire.len() as u64 - 1) as usize).collect();
            add("troj", &hex(&pw), "-", script(&cut_at(&wire, &ps)));
        }
    }
    // ---- SOCKS5 command request decoder: three requests back to back (one is all-ASCII so that text messages occur) ----
    {
        let mk = |c: u8, a: &str| {
            let mut m = vec![5u8, c, 0];
            let mut b = BytesMut::new();
            octo_squirrel::protocol::socks5::address::encode(&parse_addr(a), &mut b);
            m.extend_from_slice(&b);
            m
        };
        let frames = vec![mk(1, "D:6578616d706c652e636f6d:80"), mk(3, "4:7f000001:53"), mk(2, &format!("6:{}:8080", "20010db8".repeat(4)))];
        for s in scripts_for(&mut rng, &frames, thorough) {
            add("s5cr", "-", "-", s);
        }
    }
    // ---- VMess server codec: request head + chunks ----
    let now: i64 = 1_790_000_000;
    let uuids = ["b831381d-6324-4d53-ad4f-8cda48b30811".to_string(), "11111111-2222-3333-4444-555555555555".into()];
    for (opt, sec, cmd) in [(1u8, 3u8, 1u8), (13, 4, 1), (5, 3, 2), (29, 4, 2)] {
        octo_squirrel::verif_clock::set(Some(now));
        let id = octo_squirrel::protocol::vmess::id::from_password(&uuids[1]).unwrap();
        let sess = rng.bytes(33);
        let mut c = ch::vmess::ClientAEADCodec::verif_with_session(vm_header(opt, sec, cmd, parse_addr("D:6578616d706c652e636f6d:443"), id), ClientSession::from(&sess[..]));
        let mut frames = Vec::new();
        for n in [20usize, 300, 1] {
            let mut dst = BytesMut::new();
            c.encode(BytesMut::from(&rng.bytes(n)[..]), &mut dst).unwrap();
            frames.push(dst.to_vec());
        }
        octo_squirrel::verif_clock::set(None);
        for s in scripts_for(&mut rng, &frames, thorough && opt == 1) {
            add("vmess", &now.to_string(), &uuids.join(","), s);
        }
    }
    // ---- Shadowsocks server PayloadCodec: salt[+2022 header]+chunk, chunk, chunk ----
    for kind in ["a128", "22a128"] {
        let (ck, _) = ss_cfg(kind);
        let (pwd, key): (String, [u8; 16]) = if kind == "a128" {
            let p = "correct horse".to_string();
            let k = octo_squirrel::protocol::shadowsocks::aead::openssl_bytes_to_key::<16>(p.as_bytes());
            (p, k)
        } else {
            use base64ct::Encoding;
            let k: [u8; 16] = rng.bytes(16).try_into().unwrap();
            (base64ct::Base64::encode_string(&k), k)
        };
        octo_squirrel::verif_clock::set(Some(now));
        let context = sstcp::Context::new(key, vec![], ck, None);
        let salt: [u8; 16] = rng.bytes(16).try_into().unwrap();
        let session = sstcp::Session::new(Mode::Client, sstcp::Identity { salt, request_salt: None, user: None }, Some(parse_addr("4:7f000001:80")));
        let mut codec = sstcp::AEADCipherCodec::<16>::default();
        let mut frames = Vec::new();
        for n in [25usize, 400, 2] {
            let mut dst = BytesMut::new();
            codec.encode(&context, &session, BytesMut::from(&rng.bytes(n)[..]), &mut dst).unwrap();
            frames.push(dst.to_vec());
        }
        octo_squirrel::verif_clock::set(None);
        for s in scripts_for(&mut rng, &frames, false) {
            add("ss", &format!("{}:{}", kind, now), &format!("{}:{}", hex(pwd.as_bytes()), hex(&key)), s);
        }
    }
    // ---- pure garbage ----
    for l in [1usize, 7, 16, 40, 61, 100] {
        let g = rng.bytes(l);
        add("troj", &hex(&pw), "-", script(&cut_at(&g, &[l / 2])));
        add("s5cr", "-", "-", script(&cut_at(&g, &[l / 2])));
        add("vmess", &now.to_string(), &uuids[0], script(&cut_at(&g, &[l / 2])));
        add("ss", &format!("a128:{}", now), &format!("{}:{}", hex(b"x"), hex(&octo_squirrel::protocol::shadowsocks::aead::openssl_bytes_to_key::<16>(b"x"))), script(&cut_at(&g, &[l / 2])));
    }
    drop(add);

    // the timeout-based way costs 50 ms per case: run the cases on a few threads, print in order
    let nthreads = 12usize.min(cases.len().max(1));
    let chunk = cases.len().div_ceil(nthreads);
    let results: Vec<Vec<Vec<String>>> = std::thread::scope(|sc| {
        let hs: Vec<_> = cases
            .chunks(chunk.max(1))
            .map(|part| {
                sc.spawn(move || {
                    part.iter()
                        .map(|args| {
                            let f: Vec<&str> = args.iter().map(|s| s.as_str()).collect();
                            exec(&f)
                        })
                        .collect::<Vec<_>>()
                })
            })
            .collect();
        hs.into_iter().map(|h| h.join().expect("worker")).collect()
    });
    for (args, r) in cases.iter().zip(results.into_iter().flatten()) {
        writeln!(w, "{}\t=>\t{}", args.join("\t"), r.join("\t")).unwrap();
    }
}
